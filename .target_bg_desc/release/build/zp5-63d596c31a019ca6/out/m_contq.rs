use asn1rs::prelude::*;

#[asn(sequence, extensible_after(b))]

#[derive(Default, Debug, Clone, PartialEq, Hash)]
pub struct Tinner {
    #[asn(integer(0..7))] pub a: u8,
    #[asn(optional(boolean))] pub b: Option<bool>,
}

impl Tinner {
    pub const fn a_min() -> u8 {
        0
    }

    pub const fn a_max() -> u8 {
        7
    }
}

#[asn(enumerated, extensible_after(Blue))]

#[derive(Debug, Clone, PartialEq, Hash, Copy, PartialOrd, Eq, Default)]
pub enum Tenum {
    #[default] Red,
    Green,
    Blue,
    Alpha,
}

impl Tenum {
    pub fn variant(index: usize) -> Option<Self> {
        match index {
            0 => Some(Tenum::Red),
            1 => Some(Tenum::Green),
            2 => Some(Tenum::Blue),
            3 => Some(Tenum::Alpha),
            _ => None,
        }
    }

    pub const fn variants() -> [Self; 4] {
        [
        Tenum::Red,
        Tenum::Green,
        Tenum::Blue,
        Tenum::Alpha,
        ]
    }

    pub fn value_index(self) -> usize {
        match self {
            Tenum::Red => 0,
            Tenum::Green => 1,
            Tenum::Blue => 2,
            Tenum::Alpha => 3,
        }
    }
}

#[asn(transparent)]

#[derive(Default, Debug, Clone, PartialEq, Hash)]
pub struct Tsoseq(#[asn(sequence_of(size(0..3), complex(Tinner, tag(UNIVERSAL(16)))))] pub Vec<Tinner>);

impl Tsoseq {
}

impl Tsoseq {
    pub const fn new(value: Vec<Tinner>) -> Self {
        Self(value)
    }
}

impl ::core::ops::Deref for Tsoseq {
    type Target = Vec<Tinner>;

    fn deref(&self) -> &Vec<Tinner> {
        &self.0
    }
}

impl ::core::ops::DerefMut for Tsoseq {
    fn deref_mut(&mut self) -> &mut Vec<Tinner> {
        &mut self.0
    }
}

impl ::core::convert::From<Vec<Tinner>> for Tsoseq {
    fn from(value: Vec<Tinner>) -> Self {
        Self(value)
    }
}

impl ::core::convert::From<Tsoseq> for Vec<Tinner> {
    fn from(value: Tsoseq) -> Self {
        value.0
    }
}

#[asn(transparent)]

#[derive(Default, Debug, Clone, PartialEq, Hash)]
pub struct Tsoso(#[asn(sequence_of(sequence_of(size(2), integer(0..255))))] pub Vec<Vec<u8>>);

impl Tsoso {
    pub const fn value_min() -> u8 {
        0
    }

    pub const fn value_max() -> u8 {
        255
    }
}

impl Tsoso {
    pub const fn new(value: Vec<Vec<u8>>) -> Self {
        Self(value)
    }
}

impl ::core::ops::Deref for Tsoso {
    type Target = Vec<Vec<u8>>;

    fn deref(&self) -> &Vec<Vec<u8>> {
        &self.0
    }
}

impl ::core::ops::DerefMut for Tsoso {
    fn deref_mut(&mut self) -> &mut Vec<Vec<u8>> {
        &mut self.0
    }
}

impl ::core::convert::From<Vec<Vec<u8>>> for Tsoso {
    fn from(value: Vec<Vec<u8>>) -> Self {
        Self(value)
    }
}

impl ::core::convert::From<Tsoso> for Vec<Vec<u8>> {
    fn from(value: Tsoso) -> Self {
        value.0
    }
}

#[asn(transparent)]

#[derive(Default, Debug, Clone, PartialEq, Hash)]
pub struct Tsooct(#[asn(sequence_of(size(0..3), octet_string(size(0..2))))] pub Vec<Vec<u8>>);

impl Tsooct {
}

impl Tsooct {
    pub const fn new(value: Vec<Vec<u8>>) -> Self {
        Self(value)
    }
}

impl ::core::ops::Deref for Tsooct {
    type Target = Vec<Vec<u8>>;

    fn deref(&self) -> &Vec<Vec<u8>> {
        &self.0
    }
}

impl ::core::ops::DerefMut for Tsooct {
    fn deref_mut(&mut self) -> &mut Vec<Vec<u8>> {
        &mut self.0
    }
}

impl ::core::convert::From<Vec<Vec<u8>>> for Tsooct {
    fn from(value: Vec<Vec<u8>>) -> Self {
        Self(value)
    }
}

impl ::core::convert::From<Tsooct> for Vec<Vec<u8>> {
    fn from(value: Tsooct) -> Self {
        value.0
    }
}

#[asn(transparent)]

#[derive(Default, Debug, Clone, PartialEq, Hash)]
pub struct Tsoenum(#[asn(sequence_of(complex(Tenum, tag(UNIVERSAL(10)))))] pub Vec<Tenum>);

impl Tsoenum {
}

impl Tsoenum {
    pub const fn new(value: Vec<Tenum>) -> Self {
        Self(value)
    }
}

impl ::core::ops::Deref for Tsoenum {
    type Target = Vec<Tenum>;

    fn deref(&self) -> &Vec<Tenum> {
        &self.0
    }
}

impl ::core::ops::DerefMut for Tsoenum {
    fn deref_mut(&mut self) -> &mut Vec<Tenum> {
        &mut self.0
    }
}

impl ::core::convert::From<Vec<Tenum>> for Tsoenum {
    fn from(value: Vec<Tenum>) -> Self {
        Self(value)
    }
}

impl ::core::convert::From<Tsoenum> for Vec<Tenum> {
    fn from(value: Tsoenum) -> Self {
        value.0
    }
}

#[asn(transparent)]

#[derive(Default, Debug, Clone, PartialEq, Hash)]
pub struct Tsoia5(#[asn(sequence_of(size(2), ia5string(size(1..4))))] pub Vec<String>);

impl Tsoia5 {
}

impl Tsoia5 {
    pub const fn new(value: Vec<String>) -> Self {
        Self(value)
    }
}

impl ::core::ops::Deref for Tsoia5 {
    type Target = Vec<String>;

    fn deref(&self) -> &Vec<String> {
        &self.0
    }
}

impl ::core::ops::DerefMut for Tsoia5 {
    fn deref_mut(&mut self) -> &mut Vec<String> {
        &mut self.0
    }
}

impl ::core::convert::From<Vec<String>> for Tsoia5 {
    fn from(value: Vec<String>) -> Self {
        Self(value)
    }
}

impl ::core::convert::From<Tsoia5> for Vec<String> {
    fn from(value: Tsoia5) -> Self {
        value.0
    }
}

#[asn(choice)]

#[derive(Debug, Clone, PartialEq, Hash)]
pub enum Tch2 {
    #[asn(integer(0..7))] A(u8),
    #[asn(boolean)] B(bool),
}

impl Tch2 {
    pub fn variants() -> [Self; 2] {
        [
        Tch2::A(Default::default()),
        Tch2::B(Default::default()),
        ]
    }

    pub fn value_index(&self) -> usize {
        match self {
            Tch2::A(_) => 0,
            Tch2::B(_) => 1,
        }
    }

    pub const fn a_min() -> u8 {
        0
    }

    pub const fn a_max() -> u8 {
        7
    }
}

impl Default for Tch2 {
    fn default() -> Tch2 {
        Tch2::A(Default::default())
    }
}

#[asn(choice, extensible_after(B))]

#[derive(Debug, Clone, PartialEq, Hash)]
pub enum Tch2x1 {
    #[asn(integer(0..7))] A(u8),
    #[asn(boolean)] B(bool),
    #[asn(integer(0..255))] C(u8),
}

impl Tch2x1 {
    pub fn variants() -> [Self; 3] {
        [
        Tch2x1::A(Default::default()),
        Tch2x1::B(Default::default()),
        Tch2x1::C(Default::default()),
        ]
    }

    pub fn value_index(&self) -> usize {
        match self {
            Tch2x1::A(_) => 0,
            Tch2x1::B(_) => 1,
            Tch2x1::C(_) => 2,
        }
    }

    pub const fn a_min() -> u8 {
        0
    }

    pub const fn a_max() -> u8 {
        7
    }

    pub const fn c_min() -> u8 {
        0
    }

    pub const fn c_max() -> u8 {
        255
    }
}

impl Default for Tch2x1 {
    fn default() -> Tch2x1 {
        Tch2x1::A(Default::default())
    }
}

#[asn(choice)]

#[derive(Debug, Clone, PartialEq, Hash)]
pub enum Tchdesc {
    #[asn(integer(0..7), tag(5))] A(u8),
    #[asn(boolean, tag(2))] B(bool),
    #[asn(null, tag(0))] C(Null),
}

impl Tchdesc {
    pub fn variants() -> [Self; 3] {
        [
        Tchdesc::A(Default::default()),
        Tchdesc::B(Default::default()),
        Tchdesc::C(Default::default()),
        ]
    }

    pub fn value_index(&self) -> usize {
        match self {
            Tchdesc::A(_) => 0,
            Tchdesc::B(_) => 1,
            Tchdesc::C(_) => 2,
        }
    }

    pub const fn a_min() -> u8 {
        0
    }

    pub const fn a_max() -> u8 {
        7
    }
}

impl Default for Tchdesc {
    fn default() -> Tchdesc {
        Tchdesc::A(Default::default())
    }
}

#[asn(choice)]

#[derive(Debug, Clone, PartialEq, Hash)]
pub enum Tchch {
    #[asn(complex(Tch2x1, tag(UNIVERSAL(1))))] X(Tch2x1),
    #[asn(complex(Tch2, tag(UNIVERSAL(1))))] Y(Tch2),
}

impl Tchch {
    pub fn variants() -> [Self; 2] {
        [
        Tchch::X(Default::default()),
        Tchch::Y(Default::default()),
        ]
    }

    pub fn value_index(&self) -> usize {
        match self {
            Tchch::X(_) => 0,
            Tchch::Y(_) => 1,
        }
    }
}

impl Default for Tchch {
    fn default() -> Tchch {
        Tchch::X(Default::default())
    }
}

#[asn(sequence, extensible_after(n))]

#[derive(Default, Debug, Clone, PartialEq, Hash)]
pub struct Tnest {
    #[asn(complex(Tinner, tag(UNIVERSAL(16))))] pub head: Tinner,
    #[asn(integer(0..255))] pub n: u8,
    #[asn(optional(complex(Tinner, tag(UNIVERSAL(16)))))] pub tail: Option<Tinner>,
    #[asn(optional(sequence_of(size(0..2), boolean)))] pub more: Option<Vec<bool>>,
}

impl Tnest {
    pub const fn n_min() -> u8 {
        0
    }

    pub const fn n_max() -> u8 {
        255
    }
}

#[asn(sequence)]

#[derive(Default, Debug, Clone, PartialEq, Hash)]
pub struct TaddkindsE;

impl TaddkindsE {
}

#[asn(sequence, extensible_after(a))]

#[derive(Default, Debug, Clone, PartialEq, Hash)]
pub struct Taddkinds {
    #[asn(integer(0..7))] pub a: u8,
    #[asn(optional(null))] pub n: Option<Null>,
    #[asn(optional(complex(TaddkindsE, tag(UNIVERSAL(16)))))] pub e: Option<TaddkindsE>,
    #[asn(default(integer(0..255), 9))] pub d: u8,
    #[asn(optional(sequence_of(boolean)))] pub l: Option<Vec<bool>>,
}

impl Taddkinds {
    pub const fn a_min() -> u8 {
        0
    }

    pub const fn a_max() -> u8 {
        7
    }

    pub const fn d_min() -> u8 {
        0
    }

    pub const fn d_max() -> u8 {
        255
    }
}

#[asn(sequence)]

#[derive(Default, Debug, Clone, PartialEq, Hash)]
pub struct Tdefaults {
    #[asn(default(integer(-5..5), -3))] pub i: i8,
    #[asn(default(boolean, true))] pub b: bool,
    #[asn(default(utf8string, "hi"))] pub s: String,
    #[asn(default(complex(Tenum, tag(UNIVERSAL(10))), Tenum::Green))] pub e: Tenum,
    #[asn(default(integer(min..max), 1500))] pub u: u64,
}

impl Tdefaults {
    pub const fn i_min() -> i8 {
        -5
    }

    pub const fn i_max() -> i8 {
        5
    }

    pub const fn u_min() -> u64 {
        0
    }

    pub const fn u_max() -> u64 {
        9_223_372_036_854_775_807
    }
}

#[asn(sequence)]

#[derive(Default, Debug, Clone, PartialEq, Hash)]
pub struct Tdefaults2 {
    #[asn(default(octet_string, [0xde, 0xad, ]))] pub o: Vec<u8>,
    #[asn(default(octet_string(size(0..4)), []))] pub oe: Vec<u8>,
    #[asn(default(ia5string, "a\\b"))] pub s: String,
    #[asn(default(utf8string, ""))] pub t: String,
    #[asn(boolean)] pub z: bool,
}

impl Tdefaults2 {
}

#[asn(enumerated)]

#[derive(Debug, Clone, PartialEq, Hash, Copy, PartialOrd, Eq, Default)]
pub enum TsoinlenumElement {
    #[default] E0,
    E1,
    E2,
}

impl TsoinlenumElement {
    pub fn variant(index: usize) -> Option<Self> {
        match index {
            0 => Some(TsoinlenumElement::E0),
            1 => Some(TsoinlenumElement::E1),
            2 => Some(TsoinlenumElement::E2),
            _ => None,
        }
    }

    pub const fn variants() -> [Self; 3] {
        [
        TsoinlenumElement::E0,
        TsoinlenumElement::E1,
        TsoinlenumElement::E2,
        ]
    }

    pub fn value_index(self) -> usize {
        match self {
            TsoinlenumElement::E0 => 0,
            TsoinlenumElement::E1 => 1,
            TsoinlenumElement::E2 => 2,
        }
    }
}

#[asn(transparent)]

#[derive(Default, Debug, Clone, PartialEq, Hash)]
pub struct Tsoinlenum(#[asn(sequence_of(size(0..3), complex(TsoinlenumElement, tag(UNIVERSAL(10)))))] pub Vec<TsoinlenumElement>);

impl Tsoinlenum {
}

impl Tsoinlenum {
    pub const fn new(value: Vec<TsoinlenumElement>) -> Self {
        Self(value)
    }
}

impl ::core::ops::Deref for Tsoinlenum {
    type Target = Vec<TsoinlenumElement>;

    fn deref(&self) -> &Vec<TsoinlenumElement> {
        &self.0
    }
}

impl ::core::ops::DerefMut for Tsoinlenum {
    fn deref_mut(&mut self) -> &mut Vec<TsoinlenumElement> {
        &mut self.0
    }
}

impl ::core::convert::From<Vec<TsoinlenumElement>> for Tsoinlenum {
    fn from(value: Vec<TsoinlenumElement>) -> Self {
        Self(value)
    }
}

impl ::core::convert::From<Tsoinlenum> for Vec<TsoinlenumElement> {
    fn from(value: Tsoinlenum) -> Self {
        value.0
    }
}

#[asn(sequence)]

#[derive(Default, Debug, Clone, PartialEq, Hash)]
pub struct TsoinlseqElement {
    #[asn(boolean)] pub a: bool,
    #[asn(optional(integer(0..7)))] pub b: Option<u8>,
}

impl TsoinlseqElement {
    pub const fn b_min() -> u8 {
        0
    }

    pub const fn b_max() -> u8 {
        7
    }
}

#[asn(transparent)]

#[derive(Default, Debug, Clone, PartialEq, Hash)]
pub struct Tsoinlseq(#[asn(sequence_of(complex(TsoinlseqElement, tag(UNIVERSAL(16)))))] pub Vec<TsoinlseqElement>);

impl Tsoinlseq {
}

impl Tsoinlseq {
    pub const fn new(value: Vec<TsoinlseqElement>) -> Self {
        Self(value)
    }
}

impl ::core::ops::Deref for Tsoinlseq {
    type Target = Vec<TsoinlseqElement>;

    fn deref(&self) -> &Vec<TsoinlseqElement> {
        &self.0
    }
}

impl ::core::ops::DerefMut for Tsoinlseq {
    fn deref_mut(&mut self) -> &mut Vec<TsoinlseqElement> {
        &mut self.0
    }
}

impl ::core::convert::From<Vec<TsoinlseqElement>> for Tsoinlseq {
    fn from(value: Vec<TsoinlseqElement>) -> Self {
        Self(value)
    }
}

impl ::core::convert::From<Tsoinlseq> for Vec<TsoinlseqElement> {
    fn from(value: Tsoinlseq) -> Self {
        value.0
    }
}

#[asn(set, extensible_after(b))]

#[derive(Default, Debug, Clone, PartialEq, Hash)]
pub struct Tsetxt {
    #[asn(integer(0..7), tag(7))] pub a: u8,
    #[asn(boolean, tag(5))] pub b: bool,
    #[asn(optional(utf8string), tag(1))] pub c: Option<String>,
    #[asn(optional(integer(0..3)), tag(2))] pub d: Option<u8>,
}

impl Tsetxt {
    pub const fn a_min() -> u8 {
        0
    }

    pub const fn a_max() -> u8 {
        7
    }

    pub const fn d_min() -> u8 {
        0
    }

    pub const fn d_max() -> u8 {
        3
    }
}

#[asn(choice, extensible_after(A))]

#[derive(Debug, Clone, PartialEq, Hash)]
pub enum Tchxnull {
    #[asn(boolean)] A(bool),
    #[asn(null)] B(Null),
    #[asn(integer(7..7))] C(u8),
    #[asn(integer(0..7))] D(u8),
}

impl Tchxnull {
    pub fn variants() -> [Self; 4] {
        [
        Tchxnull::A(Default::default()),
        Tchxnull::B(Default::default()),
        Tchxnull::C(Default::default()),
        Tchxnull::D(Default::default()),
        ]
    }

    pub fn value_index(&self) -> usize {
        match self {
            Tchxnull::A(_) => 0,
            Tchxnull::B(_) => 1,
            Tchxnull::C(_) => 2,
            Tchxnull::D(_) => 3,
        }
    }

    pub const fn c_min() -> u8 {
        7
    }

    pub const fn c_max() -> u8 {
        7
    }

    pub const fn d_min() -> u8 {
        0
    }

    pub const fn d_max() -> u8 {
        7
    }
}

impl Default for Tchxnull {
    fn default() -> Tchxnull {
        Tchxnull::A(Default::default())
    }
}

#[asn(sequence)]

#[derive(Default, Debug, Clone, PartialEq, Hash)]
pub struct Tplain {
    #[asn(integer(0..7))] pub p: u8,
    #[asn(boolean)] pub q: bool,
}

impl Tplain {
    pub const fn p_min() -> u8 {
        0
    }

    pub const fn p_max() -> u8 {
        7
    }
}

#[asn(transparent)]

#[derive(Default, Debug, Clone, PartialEq, Hash)]
pub struct Tsmall(#[asn(integer(0..255))] pub u8);

impl Tsmall {
    pub const fn value_min() -> u8 {
        0
    }

    pub const fn value_max() -> u8 {
        255
    }
}

impl Tsmall {
    pub const fn new(value: u8) -> Self {
        Self(value)
    }
}

impl ::core::ops::Deref for Tsmall {
    type Target = u8;

    fn deref(&self) -> &u8 {
        &self.0
    }
}

impl ::core::ops::DerefMut for Tsmall {
    fn deref_mut(&mut self) -> &mut u8 {
        &mut self.0
    }
}

impl ::core::convert::From<u8> for Tsmall {
    fn from(value: u8) -> Self {
        Self(value)
    }
}

impl ::core::convert::From<Tsmall> for u8 {
    fn from(value: Tsmall) -> Self {
        value.0
    }
}

#[asn(sequence, extensible_after(o))]

#[derive(Default, Debug, Clone, PartialEq, Hash)]
pub struct Textref {
    #[asn(complex(Tplain, tag(UNIVERSAL(16))))] pub s: Tplain,
    #[asn(complex(Tsmall, tag(UNIVERSAL(2))))] pub i: Tsmall,
    #[asn(optional(boolean))] pub o: Option<bool>,
    #[asn(optional(boolean))] pub x: Option<bool>,
    #[asn(optional(integer(0..7)))] pub y: Option<u8>,
}

impl Textref {
    pub const fn y_min() -> u8 {
        0
    }

    pub const fn y_max() -> u8 {
        7
    }
}

#[asn(set, extensible_after(s))]

#[derive(Default, Debug, Clone, PartialEq, Hash)]
pub struct Textrefset {
    #[asn(complex(Tsmall, tag(UNIVERSAL(2))))] pub i: Tsmall,
    #[asn(complex(Tplain, tag(UNIVERSAL(16))))] pub s: Tplain,
    #[asn(optional(complex(Tplain, tag(UNIVERSAL(16)))))] pub x: Option<Tplain>,
}

impl Textrefset {
}

#[asn(sequence)]

#[derive(Default, Debug, Clone, PartialEq, Hash)]
pub struct Tbits21then {
    #[asn(bit_string(size(21)))] pub b: BitVec,
    #[asn(boolean)] pub t: bool,
    #[asn(integer(0..255))] pub i: u8,
}

impl Tbits21then {
    pub const fn i_min() -> u8 {
        0
    }

    pub const fn i_max() -> u8 {
        255
    }
}

#[asn(sequence)]

#[derive(Default, Debug, Clone, PartialEq, Hash)]
pub struct Tbits70then {
    #[asn(bit_string(size(70)))] pub b: BitVec,
    #[asn(integer(0..255))] pub i: u8,
}

impl Tbits70then {
    pub const fn i_min() -> u8 {
        0
    }

    pub const fn i_max() -> u8 {
        255
    }
}

#[asn(sequence)]

#[derive(Default, Debug, Clone, PartialEq, Hash)]
pub struct Tbitsanythen {
    #[asn(bit_string(size(17..23)))] pub b: BitVec,
    #[asn(integer(0..255))] pub i: u8,
}

impl Tbitsanythen {
    pub const fn i_min() -> u8 {
        0
    }

    pub const fn i_max() -> u8 {
        255
    }
}

#[asn(transparent)]

#[derive(Default, Debug, Clone, PartialEq, Hash)]
pub struct Tref1(#[asn(complex(Tref2, tag(UNIVERSAL(16))))] pub Tref2);

impl Tref1 {
}

impl Tref1 {
    pub const fn new(value: Tref2) -> Self {
        Self(value)
    }
}

impl ::core::ops::Deref for Tref1 {
    type Target = Tref2;

    fn deref(&self) -> &Tref2 {
        &self.0
    }
}

impl ::core::ops::DerefMut for Tref1 {
    fn deref_mut(&mut self) -> &mut Tref2 {
        &mut self.0
    }
}

impl ::core::convert::From<Tref2> for Tref1 {
    fn from(value: Tref2) -> Self {
        Self(value)
    }
}

impl ::core::convert::From<Tref1> for Tref2 {
    fn from(value: Tref1) -> Self {
        value.0
    }
}

#[asn(transparent)]

#[derive(Default, Debug, Clone, PartialEq, Hash)]
pub struct Tref2(#[asn(complex(Tinner, tag(UNIVERSAL(16))))] pub Tinner);

impl Tref2 {
}

impl Tref2 {
    pub const fn new(value: Tinner) -> Self {
        Self(value)
    }
}

impl ::core::ops::Deref for Tref2 {
    type Target = Tinner;

    fn deref(&self) -> &Tinner {
        &self.0
    }
}

impl ::core::ops::DerefMut for Tref2 {
    fn deref_mut(&mut self) -> &mut Tinner {
        &mut self.0
    }
}

impl ::core::convert::From<Tinner> for Tref2 {
    fn from(value: Tinner) -> Self {
        Self(value)
    }
}

impl ::core::convert::From<Tref2> for Tinner {
    fn from(value: Tref2) -> Self {
        value.0
    }
}

#[asn(choice)]

#[derive(Debug, Clone, PartialEq, Hash)]
pub enum TinlinePick {
    #[asn(integer(0..7))] I(u8),
    #[asn(ia5string(size(2)))] S(String),
}

impl TinlinePick {
    pub fn variants() -> [Self; 2] {
        [
        TinlinePick::I(Default::default()),
        TinlinePick::S(Default::default()),
        ]
    }

    pub fn value_index(&self) -> usize {
        match self {
            TinlinePick::I(_) => 0,
            TinlinePick::S(_) => 1,
        }
    }

    pub const fn i_min() -> u8 {
        0
    }

    pub const fn i_max() -> u8 {
        7
    }
}

impl Default for TinlinePick {
    fn default() -> TinlinePick {
        TinlinePick::I(Default::default())
    }
}

#[asn(enumerated)]

#[derive(Debug, Clone, PartialEq, Hash, Copy, PartialOrd, Eq, Default)]
pub enum TinlineEn {
    #[default] E0,
    E1,
    E2,
}

impl TinlineEn {
    pub fn variant(index: usize) -> Option<Self> {
        match index {
            0 => Some(TinlineEn::E0),
            1 => Some(TinlineEn::E1),
            2 => Some(TinlineEn::E2),
            _ => None,
        }
    }

    pub const fn variants() -> [Self; 3] {
        [
        TinlineEn::E0,
        TinlineEn::E1,
        TinlineEn::E2,
        ]
    }

    pub fn value_index(self) -> usize {
        match self {
            TinlineEn::E0 => 0,
            TinlineEn::E1 => 1,
            TinlineEn::E2 => 2,
        }
    }
}

#[asn(sequence)]

#[derive(Default, Debug, Clone, PartialEq, Hash)]
pub struct TinlineSq {
    #[asn(boolean)] pub z: bool,
}

impl TinlineSq {
}

#[asn(sequence)]

#[derive(Default, Debug, Clone, PartialEq, Hash)]
pub struct Tinline {
    #[asn(complex(TinlinePick, tag(UNIVERSAL(2))))] pub pick: TinlinePick,
    #[asn(optional(complex(TinlineEn, tag(UNIVERSAL(10)))))] pub en: Option<TinlineEn>,
    #[asn(complex(TinlineSq, tag(UNIVERSAL(16))))] pub sq: TinlineSq,
}

impl Tinline {
}

#[asn(set)]

#[derive(Default, Debug, Clone, PartialEq, Hash)]
pub struct Tmix {
    #[asn(optional(octet_string(size(0..3))))] pub o: Option<Vec<u8>>,
    #[asn(bit_string(size(5)))] pub b: BitVec,
    #[asn(optional(utf8string))] pub u: Option<String>,
    #[asn(integer(min..max))] pub i: u64,
}

impl Tmix {
    pub const fn i_min() -> u64 {
        0
    }

    pub const fn i_max() -> u64 {
        9_223_372_036_854_775_807
    }
}
// ---- harness conversions (generated by the zoo build script from the items above) ----
impl FromValue for Tinner {
    fn from_value(v: &Value) -> Self {
        let s = match v { Value::Seq(s) => s, other => panic!("Tinner: expected Seq, got {other:?}") };
        assert_eq!(s.len(), 2, "Tinner: component count");
        let _ = s;
        Tinner {
            a: FromValue::from_value(s[0].as_ref().expect("component a of Tinner must be present")),
            b: s[1].as_ref().map(FromValue::from_value),
        }
    }
}
impl ToValue for Tinner {
    fn to_value(&self) -> Value {
        Value::Seq(vec![
            Some(self.a.to_value()),
            self.b.as_ref().map(|x| x.to_value()),
        ])
    }
}
impl FromValue for Tenum {
    fn from_value(v: &Value) -> Self {
        match v {
            Value::Enum(0) => Tenum::Red,
            Value::Enum(1) => Tenum::Green,
            Value::Enum(2) => Tenum::Blue,
            Value::Enum(3) => Tenum::Alpha,
            other => panic!("Tenum: bad enum value {other:?}"),
        }
    }
}
impl ToValue for Tenum {
    fn to_value(&self) -> Value {
        match self {
            Tenum::Red => Value::Enum(0),
            Tenum::Green => Value::Enum(1),
            Tenum::Blue => Value::Enum(2),
            Tenum::Alpha => Value::Enum(3),
        }
    }
}
impl FromValue for Tsoseq { fn from_value(v: &Value) -> Self { Tsoseq(FromValue::from_value(v)) } }
impl ToValue for Tsoseq { fn to_value(&self) -> Value { self.0.to_value() } }
impl FromValue for Tsoso { fn from_value(v: &Value) -> Self { Tsoso(FromValue::from_value(v)) } }
impl ToValue for Tsoso { fn to_value(&self) -> Value { self.0.to_value() } }
impl FromValue for Tsooct { fn from_value(v: &Value) -> Self { Tsooct(FromValue::from_value(v)) } }
impl ToValue for Tsooct { fn to_value(&self) -> Value { self.0.to_value() } }
impl FromValue for Tsoenum { fn from_value(v: &Value) -> Self { Tsoenum(FromValue::from_value(v)) } }
impl ToValue for Tsoenum { fn to_value(&self) -> Value { self.0.to_value() } }
impl FromValue for Tsoia5 { fn from_value(v: &Value) -> Self { Tsoia5(FromValue::from_value(v)) } }
impl ToValue for Tsoia5 { fn to_value(&self) -> Value { self.0.to_value() } }
impl FromValue for Tch2 {
    fn from_value(v: &Value) -> Self {
        let (i, inner) = match v { Value::Choice(i, inner) => (*i, &**inner), other => panic!("Tch2: expected Choice, got {other:?}") };
        match i {
            0 => Tch2::A(FromValue::from_value(inner)),
            1 => Tch2::B(FromValue::from_value(inner)),
            _ => panic!("Tch2: alternative index {i} out of range"),
        }
    }
}
impl ToValue for Tch2 {
    fn to_value(&self) -> Value {
        match self {
            Tch2::A(x) => Value::Choice(0, Box::new(x.to_value())),
            Tch2::B(x) => Value::Choice(1, Box::new(x.to_value())),
        }
    }
}
impl FromValue for Tch2x1 {
    fn from_value(v: &Value) -> Self {
        let (i, inner) = match v { Value::Choice(i, inner) => (*i, &**inner), other => panic!("Tch2x1: expected Choice, got {other:?}") };
        match i {
            0 => Tch2x1::A(FromValue::from_value(inner)),
            1 => Tch2x1::B(FromValue::from_value(inner)),
            2 => Tch2x1::C(FromValue::from_value(inner)),
            _ => panic!("Tch2x1: alternative index {i} out of range"),
        }
    }
}
impl ToValue for Tch2x1 {
    fn to_value(&self) -> Value {
        match self {
            Tch2x1::A(x) => Value::Choice(0, Box::new(x.to_value())),
            Tch2x1::B(x) => Value::Choice(1, Box::new(x.to_value())),
            Tch2x1::C(x) => Value::Choice(2, Box::new(x.to_value())),
        }
    }
}
impl FromValue for Tchdesc {
    fn from_value(v: &Value) -> Self {
        let (i, inner) = match v { Value::Choice(i, inner) => (*i, &**inner), other => panic!("Tchdesc: expected Choice, got {other:?}") };
        match i {
            0 => Tchdesc::A(FromValue::from_value(inner)),
            1 => Tchdesc::B(FromValue::from_value(inner)),
            2 => Tchdesc::C(FromValue::from_value(inner)),
            _ => panic!("Tchdesc: alternative index {i} out of range"),
        }
    }
}
impl ToValue for Tchdesc {
    fn to_value(&self) -> Value {
        match self {
            Tchdesc::A(x) => Value::Choice(0, Box::new(x.to_value())),
            Tchdesc::B(x) => Value::Choice(1, Box::new(x.to_value())),
            Tchdesc::C(x) => Value::Choice(2, Box::new(x.to_value())),
        }
    }
}
impl FromValue for Tchch {
    fn from_value(v: &Value) -> Self {
        let (i, inner) = match v { Value::Choice(i, inner) => (*i, &**inner), other => panic!("Tchch: expected Choice, got {other:?}") };
        match i {
            0 => Tchch::X(FromValue::from_value(inner)),
            1 => Tchch::Y(FromValue::from_value(inner)),
            _ => panic!("Tchch: alternative index {i} out of range"),
        }
    }
}
impl ToValue for Tchch {
    fn to_value(&self) -> Value {
        match self {
            Tchch::X(x) => Value::Choice(0, Box::new(x.to_value())),
            Tchch::Y(x) => Value::Choice(1, Box::new(x.to_value())),
        }
    }
}
impl FromValue for Tnest {
    fn from_value(v: &Value) -> Self {
        let s = match v { Value::Seq(s) => s, other => panic!("Tnest: expected Seq, got {other:?}") };
        assert_eq!(s.len(), 4, "Tnest: component count");
        let _ = s;
        Tnest {
            head: FromValue::from_value(s[0].as_ref().expect("component head of Tnest must be present")),
            n: FromValue::from_value(s[1].as_ref().expect("component n of Tnest must be present")),
            tail: s[2].as_ref().map(FromValue::from_value),
            more: s[3].as_ref().map(FromValue::from_value),
        }
    }
}
impl ToValue for Tnest {
    fn to_value(&self) -> Value {
        Value::Seq(vec![
            Some(self.head.to_value()),
            Some(self.n.to_value()),
            self.tail.as_ref().map(|x| x.to_value()),
            self.more.as_ref().map(|x| x.to_value()),
        ])
    }
}
impl FromValue for TaddkindsE { fn from_value(_: &Value) -> Self { TaddkindsE } }
impl ToValue for TaddkindsE { fn to_value(&self) -> Value { Value::Seq(vec![]) } }
impl FromValue for Taddkinds {
    fn from_value(v: &Value) -> Self {
        let s = match v { Value::Seq(s) => s, other => panic!("Taddkinds: expected Seq, got {other:?}") };
        assert_eq!(s.len(), 5, "Taddkinds: component count");
        let _ = s;
        Taddkinds {
            a: FromValue::from_value(s[0].as_ref().expect("component a of Taddkinds must be present")),
            n: s[1].as_ref().map(FromValue::from_value),
            e: s[2].as_ref().map(FromValue::from_value),
            d: FromValue::from_value(s[3].as_ref().expect("component d of Taddkinds must be present")),
            l: s[4].as_ref().map(FromValue::from_value),
        }
    }
}
impl ToValue for Taddkinds {
    fn to_value(&self) -> Value {
        Value::Seq(vec![
            Some(self.a.to_value()),
            self.n.as_ref().map(|x| x.to_value()),
            self.e.as_ref().map(|x| x.to_value()),
            Some(self.d.to_value()),
            self.l.as_ref().map(|x| x.to_value()),
        ])
    }
}
impl FromValue for Tdefaults {
    fn from_value(v: &Value) -> Self {
        let s = match v { Value::Seq(s) => s, other => panic!("Tdefaults: expected Seq, got {other:?}") };
        assert_eq!(s.len(), 5, "Tdefaults: component count");
        let _ = s;
        Tdefaults {
            i: FromValue::from_value(s[0].as_ref().expect("component i of Tdefaults must be present")),
            b: FromValue::from_value(s[1].as_ref().expect("component b of Tdefaults must be present")),
            s: FromValue::from_value(s[2].as_ref().expect("component s of Tdefaults must be present")),
            e: FromValue::from_value(s[3].as_ref().expect("component e of Tdefaults must be present")),
            u: FromValue::from_value(s[4].as_ref().expect("component u of Tdefaults must be present")),
        }
    }
}
impl ToValue for Tdefaults {
    fn to_value(&self) -> Value {
        Value::Seq(vec![
            Some(self.i.to_value()),
            Some(self.b.to_value()),
            Some(self.s.to_value()),
            Some(self.e.to_value()),
            Some(self.u.to_value()),
        ])
    }
}
impl FromValue for Tdefaults2 {
    fn from_value(v: &Value) -> Self {
        let s = match v { Value::Seq(s) => s, other => panic!("Tdefaults2: expected Seq, got {other:?}") };
        assert_eq!(s.len(), 5, "Tdefaults2: component count");
        let _ = s;
        Tdefaults2 {
            o: FromValue::from_value(s[0].as_ref().expect("component o of Tdefaults2 must be present")),
            oe: FromValue::from_value(s[1].as_ref().expect("component oe of Tdefaults2 must be present")),
            s: FromValue::from_value(s[2].as_ref().expect("component s of Tdefaults2 must be present")),
            t: FromValue::from_value(s[3].as_ref().expect("component t of Tdefaults2 must be present")),
            z: FromValue::from_value(s[4].as_ref().expect("component z of Tdefaults2 must be present")),
        }
    }
}
impl ToValue for Tdefaults2 {
    fn to_value(&self) -> Value {
        Value::Seq(vec![
            Some(self.o.to_value()),
            Some(self.oe.to_value()),
            Some(self.s.to_value()),
            Some(self.t.to_value()),
            Some(self.z.to_value()),
        ])
    }
}
impl FromValue for TsoinlenumElement {
    fn from_value(v: &Value) -> Self {
        match v {
            Value::Enum(0) => TsoinlenumElement::E0,
            Value::Enum(1) => TsoinlenumElement::E1,
            Value::Enum(2) => TsoinlenumElement::E2,
            other => panic!("TsoinlenumElement: bad enum value {other:?}"),
        }
    }
}
impl ToValue for TsoinlenumElement {
    fn to_value(&self) -> Value {
        match self {
            TsoinlenumElement::E0 => Value::Enum(0),
            TsoinlenumElement::E1 => Value::Enum(1),
            TsoinlenumElement::E2 => Value::Enum(2),
        }
    }
}
impl FromValue for Tsoinlenum { fn from_value(v: &Value) -> Self { Tsoinlenum(FromValue::from_value(v)) } }
impl ToValue for Tsoinlenum { fn to_value(&self) -> Value { self.0.to_value() } }
impl FromValue for TsoinlseqElement {
    fn from_value(v: &Value) -> Self {
        let s = match v { Value::Seq(s) => s, other => panic!("TsoinlseqElement: expected Seq, got {other:?}") };
        assert_eq!(s.len(), 2, "TsoinlseqElement: component count");
        let _ = s;
        TsoinlseqElement {
            a: FromValue::from_value(s[0].as_ref().expect("component a of TsoinlseqElement must be present")),
            b: s[1].as_ref().map(FromValue::from_value),
        }
    }
}
impl ToValue for TsoinlseqElement {
    fn to_value(&self) -> Value {
        Value::Seq(vec![
            Some(self.a.to_value()),
            self.b.as_ref().map(|x| x.to_value()),
        ])
    }
}
impl FromValue for Tsoinlseq { fn from_value(v: &Value) -> Self { Tsoinlseq(FromValue::from_value(v)) } }
impl ToValue for Tsoinlseq { fn to_value(&self) -> Value { self.0.to_value() } }
impl FromValue for Tsetxt {
    fn from_value(v: &Value) -> Self {
        let s = match v { Value::Seq(s) => s, other => panic!("Tsetxt: expected Seq, got {other:?}") };
        assert_eq!(s.len(), 4, "Tsetxt: component count");
        let _ = s;
        Tsetxt {
            a: FromValue::from_value(s[0].as_ref().expect("component a of Tsetxt must be present")),
            b: FromValue::from_value(s[1].as_ref().expect("component b of Tsetxt must be present")),
            c: s[2].as_ref().map(FromValue::from_value),
            d: s[3].as_ref().map(FromValue::from_value),
        }
    }
}
impl ToValue for Tsetxt {
    fn to_value(&self) -> Value {
        Value::Seq(vec![
            Some(self.a.to_value()),
            Some(self.b.to_value()),
            self.c.as_ref().map(|x| x.to_value()),
            self.d.as_ref().map(|x| x.to_value()),
        ])
    }
}
impl FromValue for Tchxnull {
    fn from_value(v: &Value) -> Self {
        let (i, inner) = match v { Value::Choice(i, inner) => (*i, &**inner), other => panic!("Tchxnull: expected Choice, got {other:?}") };
        match i {
            0 => Tchxnull::A(FromValue::from_value(inner)),
            1 => Tchxnull::B(FromValue::from_value(inner)),
            2 => Tchxnull::C(FromValue::from_value(inner)),
            3 => Tchxnull::D(FromValue::from_value(inner)),
            _ => panic!("Tchxnull: alternative index {i} out of range"),
        }
    }
}
impl ToValue for Tchxnull {
    fn to_value(&self) -> Value {
        match self {
            Tchxnull::A(x) => Value::Choice(0, Box::new(x.to_value())),
            Tchxnull::B(x) => Value::Choice(1, Box::new(x.to_value())),
            Tchxnull::C(x) => Value::Choice(2, Box::new(x.to_value())),
            Tchxnull::D(x) => Value::Choice(3, Box::new(x.to_value())),
        }
    }
}
impl FromValue for Tplain {
    fn from_value(v: &Value) -> Self {
        let s = match v { Value::Seq(s) => s, other => panic!("Tplain: expected Seq, got {other:?}") };
        assert_eq!(s.len(), 2, "Tplain: component count");
        let _ = s;
        Tplain {
            p: FromValue::from_value(s[0].as_ref().expect("component p of Tplain must be present")),
            q: FromValue::from_value(s[1].as_ref().expect("component q of Tplain must be present")),
        }
    }
}
impl ToValue for Tplain {
    fn to_value(&self) -> Value {
        Value::Seq(vec![
            Some(self.p.to_value()),
            Some(self.q.to_value()),
        ])
    }
}
impl FromValue for Tsmall { fn from_value(v: &Value) -> Self { Tsmall(FromValue::from_value(v)) } }
impl ToValue for Tsmall { fn to_value(&self) -> Value { self.0.to_value() } }
impl FromValue for Textref {
    fn from_value(v: &Value) -> Self {
        let s = match v { Value::Seq(s) => s, other => panic!("Textref: expected Seq, got {other:?}") };
        assert_eq!(s.len(), 5, "Textref: component count");
        let _ = s;
        Textref {
            s: FromValue::from_value(s[0].as_ref().expect("component s of Textref must be present")),
            i: FromValue::from_value(s[1].as_ref().expect("component i of Textref must be present")),
            o: s[2].as_ref().map(FromValue::from_value),
            x: s[3].as_ref().map(FromValue::from_value),
            y: s[4].as_ref().map(FromValue::from_value),
        }
    }
}
impl ToValue for Textref {
    fn to_value(&self) -> Value {
        Value::Seq(vec![
            Some(self.s.to_value()),
            Some(self.i.to_value()),
            self.o.as_ref().map(|x| x.to_value()),
            self.x.as_ref().map(|x| x.to_value()),
            self.y.as_ref().map(|x| x.to_value()),
        ])
    }
}
impl FromValue for Textrefset {
    fn from_value(v: &Value) -> Self {
        let s = match v { Value::Seq(s) => s, other => panic!("Textrefset: expected Seq, got {other:?}") };
        assert_eq!(s.len(), 3, "Textrefset: component count");
        let _ = s;
        Textrefset {
            i: FromValue::from_value(s[0].as_ref().expect("component i of Textrefset must be present")),
            s: FromValue::from_value(s[1].as_ref().expect("component s of Textrefset must be present")),
            x: s[2].as_ref().map(FromValue::from_value),
        }
    }
}
impl ToValue for Textrefset {
    fn to_value(&self) -> Value {
        Value::Seq(vec![
            Some(self.i.to_value()),
            Some(self.s.to_value()),
            self.x.as_ref().map(|x| x.to_value()),
        ])
    }
}
impl FromValue for Tbits21then {
    fn from_value(v: &Value) -> Self {
        let s = match v { Value::Seq(s) => s, other => panic!("Tbits21then: expected Seq, got {other:?}") };
        assert_eq!(s.len(), 3, "Tbits21then: component count");
        let _ = s;
        Tbits21then {
            b: FromValue::from_value(s[0].as_ref().expect("component b of Tbits21then must be present")),
            t: FromValue::from_value(s[1].as_ref().expect("component t of Tbits21then must be present")),
            i: FromValue::from_value(s[2].as_ref().expect("component i of Tbits21then must be present")),
        }
    }
}
impl ToValue for Tbits21then {
    fn to_value(&self) -> Value {
        Value::Seq(vec![
            Some(self.b.to_value()),
            Some(self.t.to_value()),
            Some(self.i.to_value()),
        ])
    }
}
impl FromValue for Tbits70then {
    fn from_value(v: &Value) -> Self {
        let s = match v { Value::Seq(s) => s, other => panic!("Tbits70then: expected Seq, got {other:?}") };
        assert_eq!(s.len(), 2, "Tbits70then: component count");
        let _ = s;
        Tbits70then {
            b: FromValue::from_value(s[0].as_ref().expect("component b of Tbits70then must be present")),
            i: FromValue::from_value(s[1].as_ref().expect("component i of Tbits70then must be present")),
        }
    }
}
impl ToValue for Tbits70then {
    fn to_value(&self) -> Value {
        Value::Seq(vec![
            Some(self.b.to_value()),
            Some(self.i.to_value()),
        ])
    }
}
impl FromValue for Tbitsanythen {
    fn from_value(v: &Value) -> Self {
        let s = match v { Value::Seq(s) => s, other => panic!("Tbitsanythen: expected Seq, got {other:?}") };
        assert_eq!(s.len(), 2, "Tbitsanythen: component count");
        let _ = s;
        Tbitsanythen {
            b: FromValue::from_value(s[0].as_ref().expect("component b of Tbitsanythen must be present")),
            i: FromValue::from_value(s[1].as_ref().expect("component i of Tbitsanythen must be present")),
        }
    }
}
impl ToValue for Tbitsanythen {
    fn to_value(&self) -> Value {
        Value::Seq(vec![
            Some(self.b.to_value()),
            Some(self.i.to_value()),
        ])
    }
}
impl FromValue for Tref1 { fn from_value(v: &Value) -> Self { Tref1(FromValue::from_value(v)) } }
impl ToValue for Tref1 { fn to_value(&self) -> Value { self.0.to_value() } }
impl FromValue for Tref2 { fn from_value(v: &Value) -> Self { Tref2(FromValue::from_value(v)) } }
impl ToValue for Tref2 { fn to_value(&self) -> Value { self.0.to_value() } }
impl FromValue for TinlinePick {
    fn from_value(v: &Value) -> Self {
        let (i, inner) = match v { Value::Choice(i, inner) => (*i, &**inner), other => panic!("TinlinePick: expected Choice, got {other:?}") };
        match i {
            0 => TinlinePick::I(FromValue::from_value(inner)),
            1 => TinlinePick::S(FromValue::from_value(inner)),
            _ => panic!("TinlinePick: alternative index {i} out of range"),
        }
    }
}
impl ToValue for TinlinePick {
    fn to_value(&self) -> Value {
        match self {
            TinlinePick::I(x) => Value::Choice(0, Box::new(x.to_value())),
            TinlinePick::S(x) => Value::Choice(1, Box::new(x.to_value())),
        }
    }
}
impl FromValue for TinlineEn {
    fn from_value(v: &Value) -> Self {
        match v {
            Value::Enum(0) => TinlineEn::E0,
            Value::Enum(1) => TinlineEn::E1,
            Value::Enum(2) => TinlineEn::E2,
            other => panic!("TinlineEn: bad enum value {other:?}"),
        }
    }
}
impl ToValue for TinlineEn {
    fn to_value(&self) -> Value {
        match self {
            TinlineEn::E0 => Value::Enum(0),
            TinlineEn::E1 => Value::Enum(1),
            TinlineEn::E2 => Value::Enum(2),
        }
    }
}
impl FromValue for TinlineSq {
    fn from_value(v: &Value) -> Self {
        let s = match v { Value::Seq(s) => s, other => panic!("TinlineSq: expected Seq, got {other:?}") };
        assert_eq!(s.len(), 1, "TinlineSq: component count");
        let _ = s;
        TinlineSq {
            z: FromValue::from_value(s[0].as_ref().expect("component z of TinlineSq must be present")),
        }
    }
}
impl ToValue for TinlineSq {
    fn to_value(&self) -> Value {
        Value::Seq(vec![
            Some(self.z.to_value()),
        ])
    }
}
impl FromValue for Tinline {
    fn from_value(v: &Value) -> Self {
        let s = match v { Value::Seq(s) => s, other => panic!("Tinline: expected Seq, got {other:?}") };
        assert_eq!(s.len(), 3, "Tinline: component count");
        let _ = s;
        Tinline {
            pick: FromValue::from_value(s[0].as_ref().expect("component pick of Tinline must be present")),
            en: s[1].as_ref().map(FromValue::from_value),
            sq: FromValue::from_value(s[2].as_ref().expect("component sq of Tinline must be present")),
        }
    }
}
impl ToValue for Tinline {
    fn to_value(&self) -> Value {
        Value::Seq(vec![
            Some(self.pick.to_value()),
            self.en.as_ref().map(|x| x.to_value()),
            Some(self.sq.to_value()),
        ])
    }
}
impl FromValue for Tmix {
    fn from_value(v: &Value) -> Self {
        let s = match v { Value::Seq(s) => s, other => panic!("Tmix: expected Seq, got {other:?}") };
        assert_eq!(s.len(), 4, "Tmix: component count");
        let _ = s;
        Tmix {
            o: s[0].as_ref().map(FromValue::from_value),
            b: FromValue::from_value(s[1].as_ref().expect("component b of Tmix must be present")),
            u: s[2].as_ref().map(FromValue::from_value),
            i: FromValue::from_value(s[3].as_ref().expect("component i of Tmix must be present")),
        }
    }
}
impl ToValue for Tmix {
    fn to_value(&self) -> Value {
        Value::Seq(vec![
            self.o.as_ref().map(|x| x.to_value()),
            Some(self.b.to_value()),
            self.u.as_ref().map(|x| x.to_value()),
            Some(self.i.to_value()),
        ])
    }
}

use asn1rs::prelude::*;

#[asn(sequence, extensible_after(b))]

#[derive(Default, Debug, Clone, PartialEq, Hash)]
pub struct Tinner {
    #[asn(integer(0..7))] pub a: u8,
    #[asn(optional(boolean))] pub b: Option<bool>,
}

impl Tinner {
    pub const fn a_min() -> u8 {
        0
    }

    pub const fn a_max() -> u8 {
        7
    }
}

#[asn(enumerated, extensible_after(Blue))]

#[derive(Debug, Clone, PartialEq, Hash, Copy, PartialOrd, Eq, Default)]
pub enum Tenum {
    #[default] Red,
    Green,
    Blue,
    Alpha,
}

impl Tenum {
    pub fn variant(index: usize) -> Option<Self> {
        match index {
            0 => Some(Tenum::Red),
            1 => Some(Tenum::Green),
            2 => Some(Tenum::Blue),
            3 => Some(Tenum::Alpha),
            _ => None,
        }
    }

    pub const fn variants() -> [Self; 4] {
        [
        Tenum::Red,
        Tenum::Green,
        Tenum::Blue,
        Tenum::Alpha,
        ]
    }

    pub fn value_index(self) -> usize {
        match self {
            Tenum::Red => 0,
            Tenum::Green => 1,
            Tenum::Blue => 2,
            Tenum::Alpha => 3,
        }
    }
}

#[asn(transparent)]

#[derive(Default, Debug, Clone, PartialEq, Hash)]
pub struct Tsoseq(#[asn(sequence_of(size(0..3), complex(Tinner, tag(UNIVERSAL(16)))))] pub Vec<Tinner>);

impl Tsoseq {
}

impl Tsoseq {
    pub const fn new(value: Vec<Tinner>) -> Self {
        Self(value)
    }
}

impl ::core::ops::Deref for Tsoseq {
    type Target = Vec<Tinner>;

    fn deref(&self) -> &Vec<Tinner> {
        &self.0
    }
}

impl ::core::ops::DerefMut for Tsoseq {
    fn deref_mut(&mut self) -> &mut Vec<Tinner> {
        &mut self.0
    }
}

impl ::core::convert::From<Vec<Tinner>> for Tsoseq {
    fn from(value: Vec<Tinner>) -> Self {
        Self(value)
    }
}

impl ::core::convert::From<Tsoseq> for Vec<Tinner> {
    fn from(value: Tsoseq) -> Self {
        value.0
    }
}

#[asn(transparent)]

#[derive(Default, Debug, Clone, PartialEq, Hash)]
pub struct Tsoso(#[asn(sequence_of(sequence_of(size(2), integer(0..255))))] pub Vec<Vec<u8>>);

impl Tsoso {
    pub const fn value_min() -> u8 {
        0
    }

    pub const fn value_max() -> u8 {
        255
    }
}

impl Tsoso {
    pub const fn new(value: Vec<Vec<u8>>) -> Self {
        Self(value)
    }
}

impl ::core::ops::Deref for Tsoso {
    type Target = Vec<Vec<u8>>;

    fn deref(&self) -> &Vec<Vec<u8>> {
        &self.0
    }
}

impl ::core::ops::DerefMut for Tsoso {
    fn deref_mut(&mut self) -> &mut Vec<Vec<u8>> {
        &mut self.0
    }
}

impl ::core::convert::From<Vec<Vec<u8>>> for Tsoso {
    fn from(value: Vec<Vec<u8>>) -> Self {
        Self(value)
    }
}

impl ::core::convert::From<Tsoso> for Vec<Vec<u8>> {
    fn from(value: Tsoso) -> Self {
        value.0
    }
}

#[asn(transparent)]

#[derive(Default, Debug, Clone, PartialEq, Hash)]
pub struct Tsooct(#[asn(sequence_of(size(0..3), octet_string(size(0..2))))] pub Vec<Vec<u8>>);

impl Tsooct {
}

impl Tsooct {
    pub const fn new(value: Vec<Vec<u8>>) -> Self {
        Self(value)
    }
}

impl ::core::ops::Deref for Tsooct {
    type Target = Vec<Vec<u8>>;

    fn deref(&self) -> &Vec<Vec<u8>> {
        &self.0
    }
}

impl ::core::ops::DerefMut for Tsooct {
    fn deref_mut(&mut self) -> &mut Vec<Vec<u8>> {
        &mut self.0
    }
}

impl ::core::convert::From<Vec<Vec<u8>>> for Tsooct {
    fn from(value: Vec<Vec<u8>>) -> Self {
        Self(value)
    }
}

impl ::core::convert::From<Tsooct> for Vec<Vec<u8>> {
    fn from(value: Tsooct) -> Self {
        value.0
    }
}

#[asn(transparent)]

#[derive(Default, Debug, Clone, PartialEq, Hash)]
pub struct Tsoenum(#[asn(sequence_of(complex(Tenum, tag(UNIVERSAL(10)))))] pub Vec<Tenum>);

impl Tsoenum {
}

impl Tsoenum {
    pub const fn new(value: Vec<Tenum>) -> Self {
        Self(value)
    }
}

impl ::core::ops::Deref for Tsoenum {
    type Target = Vec<Tenum>;

    fn deref(&self) -> &Vec<Tenum> {
        &self.0
    }
}

impl ::core::ops::DerefMut for Tsoenum {
    fn deref_mut(&mut self) -> &mut Vec<Tenum> {
        &mut self.0
    }
}

impl ::core::convert::From<Vec<Tenum>> for Tsoenum {
    fn from(value: Vec<Tenum>) -> Self {
        Self(value)
    }
}

impl ::core::convert::From<Tsoenum> for Vec<Tenum> {
    fn from(value: Tsoenum) -> Self {
        value.0
    }
}

#[asn(transparent)]

#[derive(Default, Debug, Clone, PartialEq, Hash)]
pub struct Tsoia5(#[asn(sequence_of(size(2), ia5string(size(1..4))))] pub Vec<String>);

impl Tsoia5 {
}

impl Tsoia5 {
    pub const fn new(value: Vec<String>) -> Self {
        Self(value)
    }
}

impl ::core::ops::Deref for Tsoia5 {
    type Target = Vec<String>;

    fn deref(&self) -> &Vec<String> {
        &self.0
    }
}

impl ::core::ops::DerefMut for Tsoia5 {
    fn deref_mut(&mut self) -> &mut Vec<String> {
        &mut self.0
    }
}

impl ::core::convert::From<Vec<String>> for Tsoia5 {
    fn from(value: Vec<String>) -> Self {
        Self(value)
    }
}

impl ::core::convert::From<Tsoia5> for Vec<String> {
    fn from(value: Tsoia5) -> Self {
        value.0
    }
}

#[asn(choice)]

#[derive(Debug, Clone, PartialEq, Hash)]
pub enum Tch2 {
    #[asn(integer(0..7))] A(u8),
    #[asn(boolean)] B(bool),
}

impl Tch2 {
    pub fn variants() -> [Self; 2] {
        [
        Tch2::A(Default::default()),
        Tch2::B(Default::default()),
        ]
    }

    pub fn value_index(&self) -> usize {
        match self {
            Tch2::A(_) => 0,
            Tch2::B(_) => 1,
        }
    }

    pub const fn a_min() -> u8 {
        0
    }

    pub const fn a_max() -> u8 {
        7
    }
}

impl Default for Tch2 {
    fn default() -> Tch2 {
        Tch2::A(Default::default())
    }
}

#[asn(choice, extensible_after(B))]

#[derive(Debug, Clone, PartialEq, Hash)]
pub enum Tch2x1 {
    #[asn(integer(0..7))] A(u8),
    #[asn(boolean)] B(bool),
    #[asn(integer(0..255))] C(u8),
}

impl Tch2x1 {
    pub fn variants() -> [Self; 3] {
        [
        Tch2x1::A(Default::default()),
        Tch2x1::B(Default::default()),
        Tch2x1::C(Default::default()),
        ]
    }

    pub fn value_index(&self) -> usize {
        match self {
            Tch2x1::A(_) => 0,
            Tch2x1::B(_) => 1,
            Tch2x1::C(_) => 2,
        }
    }

    pub const fn a_min() -> u8 {
        0
    }

    pub const fn a_max() -> u8 {
        7
    }

    pub const fn c_min() -> u8 {
        0
    }

    pub const fn c_max() -> u8 {
        255
    }
}

impl Default for Tch2x1 {
    fn default() -> Tch2x1 {
        Tch2x1::A(Default::default())
    }
}

#[asn(choice)]

#[derive(Debug, Clone, PartialEq, Hash)]
pub enum Tchdesc {
    #[asn(integer(0..7), tag(5))] A(u8),
    #[asn(boolean, tag(2))] B(bool),
    #[asn(null, tag(0))] C(Null),
}

impl Tchdesc {
    pub fn variants() -> [Self; 3] {
        [
        Tchdesc::A(Default::default()),
        Tchdesc::B(Default::default()),
        Tchdesc::C(Default::default()),
        ]
    }

    pub fn value_index(&self) -> usize {
        match self {
            Tchdesc::A(_) => 0,
            Tchdesc::B(_) => 1,
            Tchdesc::C(_) => 2,
        }
    }

    pub const fn a_min() -> u8 {
        0
    }

    pub const fn a_max() -> u8 {
        7
    }
}

impl Default for Tchdesc {
    fn default() -> Tchdesc {
        Tchdesc::A(Default::default())
    }
}

#[asn(choice)]

#[derive(Debug, Clone, PartialEq, Hash)]
pub enum Tchch {
    #[asn(complex(Tch2x1, tag(UNIVERSAL(1))))] X(Tch2x1),
    #[asn(complex(Tch2, tag(UNIVERSAL(1))))] Y(Tch2),
}

impl Tchch {
    pub fn variants() -> [Self; 2] {
        [
        Tchch::X(Default::default()),
        Tchch::Y(Default::default()),
        ]
    }

    pub fn value_index(&self) -> usize {
        match self {
            Tchch::X(_) => 0,
            Tchch::Y(_) => 1,
        }
    }
}

impl Default for Tchch {
    fn default() -> Tchch {
        Tchch::X(Default::default())
    }
}

#[asn(sequence, extensible_after(n))]

#[derive(Default, Debug, Clone, PartialEq, Hash)]
pub struct Tnest {
    #[asn(complex(Tinner, tag(UNIVERSAL(16))))] pub head: Tinner,
    #[asn(integer(0..255))] pub n: u8,
    #[asn(optional(complex(Tinner, tag(UNIVERSAL(16)))))] pub tail: Option<Tinner>,
    #[asn(optional(sequence_of(size(0..2), boolean)))] pub more: Option<Vec<bool>>,
}

impl Tnest {
    pub const fn n_min() -> u8 {
        0
    }

    pub const fn n_max() -> u8 {
        255
    }
}

#[asn(sequence)]

#[derive(Default, Debug, Clone, PartialEq, Hash)]
pub struct TaddkindsE;

impl TaddkindsE {
}

#[asn(sequence, extensible_after(a))]

#[derive(Default, Debug, Clone, PartialEq, Hash)]
pub struct Taddkinds {
    #[asn(integer(0..7))] pub a: u8,
    #[asn(optional(null))] pub n: Option<Null>,
    #[asn(optional(complex(TaddkindsE, tag(UNIVERSAL(16)))))] pub e: Option<TaddkindsE>,
    #[asn(default(integer(0..255), 9))] pub d: u8,
    #[asn(optional(sequence_of(boolean)))] pub l: Option<Vec<bool>>,
}

impl Taddkinds {
    pub const fn a_min() -> u8 {
        0
    }

    pub const fn a_max() -> u8 {
        7
    }

    pub const fn d_min() -> u8 {
        0
    }

    pub const fn d_max() -> u8 {
        255
    }
}

#[asn(sequence)]

#[derive(Default, Debug, Clone, PartialEq, Hash)]
pub struct Tdefaults {
    #[asn(default(integer(-5..5), -3))] pub i: i8,
    #[asn(default(boolean, true))] pub b: bool,
    #[asn(default(utf8string, "hi"))] pub s: String,
    #[asn(default(complex(Tenum, tag(UNIVERSAL(10))), Tenum::Green))] pub e: Tenum,
    #[asn(default(integer(min..max), 1500))] pub u: u64,
}

impl Tdefaults {
    pub const fn i_min() -> i8 {
        -5
    }

    pub const fn i_max() -> i8 {
        5
    }

    pub const fn u_min() -> u64 {
        0
    }

    pub const fn u_max() -> u64 {
        9_223_372_036_854_775_807
    }
}

#[asn(sequence)]

#[derive(Default, Debug, Clone, PartialEq, Hash)]
pub struct Tdefaults2 {
    #[asn(default(octet_string, [0xde, 0xad, ]))] pub o: Vec<u8>,
    #[asn(default(octet_string(size(0..4)), []))] pub oe: Vec<u8>,
    #[asn(default(ia5string, "a\\b"))] pub s: String,
    #[asn(default(utf8string, ""))] pub t: String,
    #[asn(boolean)] pub z: bool,
}

impl Tdefaults2 {
}

#[asn(enumerated)]

#[derive(Debug, Clone, PartialEq, Hash, Copy, PartialOrd, Eq, Default)]
pub enum TsoinlenumElement {
    #[default] E0,
    E1,
    E2,
}

impl TsoinlenumElement {
    pub fn variant(index: usize) -> Option<Self> {
        match index {
            0 => Some(TsoinlenumElement::E0),
            1 => Some(TsoinlenumElement::E1),
            2 => Some(TsoinlenumElement::E2),
            _ => None,
        }
    }

    pub const fn variants() -> [Self; 3] {
        [
        TsoinlenumElement::E0,
        TsoinlenumElement::E1,
        TsoinlenumElement::E2,
        ]
    }

    pub fn value_index(self) -> usize {
        match self {
            TsoinlenumElement::E0 => 0,
            TsoinlenumElement::E1 => 1,
            TsoinlenumElement::E2 => 2,
        }
    }
}

#[asn(transparent)]

#[derive(Default, Debug, Clone, PartialEq, Hash)]
pub struct Tsoinlenum(#[asn(sequence_of(size(0..3), complex(TsoinlenumElement, tag(UNIVERSAL(10)))))] pub Vec<TsoinlenumElement>);

impl Tsoinlenum {
}

impl Tsoinlenum {
    pub const fn new(value: Vec<TsoinlenumElement>) -> Self {
        Self(value)
    }
}

impl ::core::ops::Deref for Tsoinlenum {
    type Target = Vec<TsoinlenumElement>;

    fn deref(&self) -> &Vec<TsoinlenumElement> {
        &self.0
    }
}

impl ::core::ops::DerefMut for Tsoinlenum {
    fn deref_mut(&mut self) -> &mut Vec<TsoinlenumElement> {
        &mut self.0
    }
}

impl ::core::convert::From<Vec<TsoinlenumElement>> for Tsoinlenum {
    fn from(value: Vec<TsoinlenumElement>) -> Self {
        Self(value)
    }
}

impl ::core::convert::From<Tsoinlenum> for Vec<TsoinlenumElement> {
    fn from(value: Tsoinlenum) -> Self {
        value.0
    }
}

#[asn(sequence)]

#[derive(Default, Debug, Clone, PartialEq, Hash)]
pub struct TsoinlseqElement {
    #[asn(boolean)] pub a: bool,
    #[asn(optional(integer(0..7)))] pub b: Option<u8>,
}

impl TsoinlseqElement {
    pub const fn b_min() -> u8 {
        0
    }

    pub const fn b_max() -> u8 {
        7
    }
}

#[asn(transparent)]

#[derive(Default, Debug, Clone, PartialEq, Hash)]
pub struct Tsoinlseq(#[asn(sequence_of(complex(TsoinlseqElement, tag(UNIVERSAL(16)))))] pub Vec<TsoinlseqElement>);

impl Tsoinlseq {
}

impl Tsoinlseq {
    pub const fn new(value: Vec<TsoinlseqElement>) -> Self {
        Self(value)
    }
}

impl ::core::ops::Deref for Tsoinlseq {
    type Target = Vec<TsoinlseqElement>;

    fn deref(&self) -> &Vec<TsoinlseqElement> {
        &self.0
    }
}

impl ::core::ops::DerefMut for Tsoinlseq {
    fn deref_mut(&mut self) -> &mut Vec<TsoinlseqElement> {
        &mut self.0
    }
}

impl ::core::convert::From<Vec<TsoinlseqElement>> for Tsoinlseq {
    fn from(value: Vec<TsoinlseqElement>) -> Self {
        Self(value)
    }
}

impl ::core::convert::From<Tsoinlseq> for Vec<TsoinlseqElement> {
    fn from(value: Tsoinlseq) -> Self {
        value.0
    }
}

#[asn(set, extensible_after(b))]

#[derive(Default, Debug, Clone, PartialEq, Hash)]
pub struct Tsetxt {
    #[asn(integer(0..7), tag(7))] pub a: u8,
    #[asn(boolean, tag(5))] pub b: bool,
    #[asn(optional(utf8string), tag(1))] pub c: Option<String>,
    #[asn(optional(integer(0..3)), tag(2))] pub d: Option<u8>,
}

impl Tsetxt {
    pub const fn a_min() -> u8 {
        0
    }

    pub const fn a_max() -> u8 {
        7
    }

    pub const fn d_min() -> u8 {
        0
    }

    pub const fn d_max() -> u8 {
        3
    }
}

#[asn(choice, extensible_after(A))]

#[derive(Debug, Clone, PartialEq, Hash)]
pub enum Tchxnull {
    #[asn(boolean)] A(bool),
    #[asn(null)] B(Null),
    #[asn(integer(7..7))] C(u8),
    #[asn(integer(0..7))] D(u8),
}

impl Tchxnull {
    pub fn variants() -> [Self; 4] {
        [
        Tchxnull::A(Default::default()),
        Tchxnull::B(Default::default()),
        Tchxnull::C(Default::default()),
        Tchxnull::D(Default::default()),
        ]
    }

    pub fn value_index(&self) -> usize {
        match self {
            Tchxnull::A(_) => 0,
            Tchxnull::B(_) => 1,
            Tchxnull::C(_) => 2,
            Tchxnull::D(_) => 3,
        }
    }

    pub const fn c_min() -> u8 {
        7
    }

    pub const fn c_max() -> u8 {
        7
    }

    pub const fn d_min() -> u8 {
        0
    }

    pub const fn d_max() -> u8 {
        7
    }
}

impl Default for Tchxnull {
    fn default() -> Tchxnull {
        Tchxnull::A(Default::default())
    }
}

#[asn(choice)]

#[derive(Debug, Clone, PartialEq, Hash)]
pub enum Tchlist {
    #[asn(sequence_of(integer(0..255)))] L(Vec<u8>),
    #[asn(null)] N(Null),
    #[asn(boolean)] B(bool),
}

impl Tchlist {
    pub fn variants() -> [Self; 3] {
        [
        Tchlist::L(Default::default()),
        Tchlist::N(Default::default()),
        Tchlist::B(Default::default()),
        ]
    }

    pub fn value_index(&self) -> usize {
        match self {
            Tchlist::L(_) => 0,
            Tchlist::N(_) => 1,
            Tchlist::B(_) => 2,
        }
    }

    pub const fn l_min() -> u8 {
        0
    }

    pub const fn l_max() -> u8 {
        255
    }
}

impl Default for Tchlist {
    fn default() -> Tchlist {
        Tchlist::L(Default::default())
    }
}

#[asn(sequence)]

#[derive(Default, Debug, Clone, PartialEq, Hash)]
pub struct Tseqchlist {
    #[asn(boolean)] pub pre: bool,
    #[asn(complex(Tchlist, tag(UNIVERSAL(1))))] pub c: Tchlist,
    #[asn(boolean)] pub post: bool,
}

impl Tseqchlist {
}

#[asn(sequence)]

#[derive(Default, Debug, Clone, PartialEq, Hash)]
pub struct Tplain {
    #[asn(integer(0..7))] pub p: u8,
    #[asn(boolean)] pub q: bool,
}

impl Tplain {
    pub const fn p_min() -> u8 {
        0
    }

    pub const fn p_max() -> u8 {
        7
    }
}

#[asn(transparent)]

#[derive(Default, Debug, Clone, PartialEq, Hash)]
pub struct Tsmall(#[asn(integer(0..255))] pub u8);

impl Tsmall {
    pub const fn value_min() -> u8 {
        0
    }

    pub const fn value_max() -> u8 {
        255
    }
}

impl Tsmall {
    pub const fn new(value: u8) -> Self {
        Self(value)
    }
}

impl ::core::ops::Deref for Tsmall {
    type Target = u8;

    fn deref(&self) -> &u8 {
        &self.0
    }
}

impl ::core::ops::DerefMut for Tsmall {
    fn deref_mut(&mut self) -> &mut u8 {
        &mut self.0
    }
}

impl ::core::convert::From<u8> for Tsmall {
    fn from(value: u8) -> Self {
        Self(value)
    }
}

impl ::core::convert::From<Tsmall> for u8 {
    fn from(value: Tsmall) -> Self {
        value.0
    }
}

#[asn(sequence, extensible_after(o))]

#[derive(Default, Debug, Clone, PartialEq, Hash)]
pub struct Textref {
    #[asn(complex(Tplain, tag(UNIVERSAL(16))))] pub s: Tplain,
    #[asn(complex(Tsmall, tag(UNIVERSAL(2))))] pub i: Tsmall,
    #[asn(optional(boolean))] pub o: Option<bool>,
    #[asn(optional(boolean))] pub x: Option<bool>,
    #[asn(optional(integer(0..7)))] pub y: Option<u8>,
}

impl Textref {
    pub const fn y_min() -> u8 {
        0
    }

    pub const fn y_max() -> u8 {
        7
    }
}

#[asn(set, extensible_after(s))]

#[derive(Default, Debug, Clone, PartialEq, Hash)]
pub struct Textrefset {
    #[asn(complex(Tsmall, tag(UNIVERSAL(2))))] pub i: Tsmall,
    #[asn(complex(Tplain, tag(UNIVERSAL(16))))] pub s: Tplain,
    #[asn(optional(complex(Tplain, tag(UNIVERSAL(16)))))] pub x: Option<Tplain>,
}

impl Textrefset {
}

#[asn(sequence)]

#[derive(Default, Debug, Clone, PartialEq, Hash)]
pub struct Tbits21then {
    #[asn(bit_string(size(21)))] pub b: BitVec,
    #[asn(boolean)] pub t: bool,
    #[asn(integer(0..255))] pub i: u8,
}

impl Tbits21then {
    pub const fn i_min() -> u8 {
        0
    }

    pub const fn i_max() -> u8 {
        255
    }
}

#[asn(sequence)]

#[derive(Default, Debug, Clone, PartialEq, Hash)]
pub struct Tbits70then {
    #[asn(bit_string(size(70)))] pub b: BitVec,
    #[asn(integer(0..255))] pub i: u8,
}

impl Tbits70then {
    pub const fn i_min() -> u8 {
        0
    }

    pub const fn i_max() -> u8 {
        255
    }
}

#[asn(sequence)]

#[derive(Default, Debug, Clone, PartialEq, Hash)]
pub struct Tbitsanythen {
    #[asn(bit_string(size(17..23)))] pub b: BitVec,
    #[asn(integer(0..255))] pub i: u8,
}

impl Tbitsanythen {
    pub const fn i_min() -> u8 {
        0
    }

    pub const fn i_max() -> u8 {
        255
    }
}

#[asn(sequence, extensible_after(x))]

#[derive(Default, Debug, Clone, PartialEq, Hash)]
pub struct Tnullroot {
    #[asn(null)] pub n: Null,
    #[asn(boolean)] pub x: bool,
    #[asn(optional(integer(0..7)))] pub a: Option<u8>,
    #[asn(optional(boolean))] pub b: Option<bool>,
}

impl Tnullroot {
    pub const fn a_min() -> u8 {
        0
    }

    pub const fn a_max() -> u8 {
        7
    }
}

#[asn(sequence, extensible_after(x))]

#[derive(Default, Debug, Clone, PartialEq, Hash)]
pub struct Tfixroot {
    #[asn(integer(5..5))] pub v: u8,
    #[asn(integer(0..7))] pub x: u8,
    #[asn(optional(boolean))] pub a: Option<bool>,
    #[asn(optional(integer(0..3)))] pub b: Option<u8>,
}

impl Tfixroot {
    pub const fn v_min() -> u8 {
        5
    }

    pub const fn v_max() -> u8 {
        5
    }

    pub const fn x_min() -> u8 {
        0
    }

    pub const fn x_max() -> u8 {
        7
    }

    pub const fn b_min() -> u8 {
        0
    }

    pub const fn b_max() -> u8 {
        3
    }
}

#[asn(set, extensible_after(x))]

#[derive(Default, Debug, Clone, PartialEq, Hash)]
pub struct Tnulloptroot {
    #[asn(optional(null))] pub n: Option<Null>,
    #[asn(boolean)] pub x: bool,
    #[asn(optional(integer(0..7)))] pub a: Option<u8>,
}

impl Tnulloptroot {
    pub const fn a_min() -> u8 {
        0
    }

    pub const fn a_max() -> u8 {
        7
    }
}

#[asn(sequence)]

#[derive(Default, Debug, Clone, PartialEq, Hash)]
pub struct Tempty;

impl Tempty {
}

#[asn(enumerated)]

#[derive(Debug, Clone, PartialEq, Hash, Copy, PartialOrd, Eq, Default)]
pub enum TzerobitsEn {
    #[default] E0,
}

impl TzerobitsEn {
    pub fn variant(index: usize) -> Option<Self> {
        match index {
            0 => Some(TzerobitsEn::E0),
            _ => None,
        }
    }

    pub const fn variants() -> [Self; 1] {
        [
        TzerobitsEn::E0,
        ]
    }

    pub fn value_index(self) -> usize {
        match self {
            TzerobitsEn::E0 => 0,
        }
    }
}

#[asn(sequence, extensible_after(x))]

#[derive(Default, Debug, Clone, PartialEq, Hash)]
pub struct Tzerobits {
    #[asn(complex(Tempty, tag(UNIVERSAL(16))))] pub e: Tempty,
    #[asn(octet_string(size(0)))] pub o: Vec<u8>,
    #[asn(complex(TzerobitsEn, tag(UNIVERSAL(10))))] pub en: TzerobitsEn,
    #[asn(ia5string(size(0)))] pub s: String,
    #[asn(sequence_of(size(0), boolean))] pub l: Vec<bool>,
    #[asn(boolean)] pub x: bool,
    #[asn(optional(integer(0..7)))] pub a: Option<u8>,
    #[asn(optional(boolean))] pub b: Option<bool>,
}

impl Tzerobits {
    pub const fn a_min() -> u8 {
        0
    }

    pub const fn a_max() -> u8 {
        7
    }
}

#[asn(enumerated, extensible_after(R1))]

#[derive(Debug, Clone, PartialEq, Hash, Copy, PartialOrd, Eq, Default)]
pub enum Tenumx70 {
    #[default] R0,
    R1,
    X0,
    X1,
    X2,
    X3,
    X4,
    X5,
    X6,
    X7,
    X8,
    X9,
    X10,
    X11,
    X12,
    X13,
    X14,
    X15,
    X16,
    X17,
    X18,
    X19,
    X20,
    X21,
    X22,
    X23,
    X24,
    X25,
    X26,
    X27,
    X28,
    X29,
    X30,
    X31,
    X32,
    X33,
    X34,
    X35,
    X36,
    X37,
    X38,
    X39,
    X40,
    X41,
    X42,
    X43,
    X44,
    X45,
    X46,
    X47,
    X48,
    X49,
    X50,
    X51,
    X52,
    X53,
    X54,
    X55,
    X56,
    X57,
    X58,
    X59,
    X60,
    X61,
    X62,
    X63,
    X64,
    X65,
    X66,
    X67,
    X68,
    X69,
}

impl Tenumx70 {
    pub fn variant(index: usize) -> Option<Self> {
        match index {
            0 => Some(Tenumx70::R0),
            1 => Some(Tenumx70::R1),
            2 => Some(Tenumx70::X0),
            3 => Some(Tenumx70::X1),
            4 => Some(Tenumx70::X2),
            5 => Some(Tenumx70::X3),
            6 => Some(Tenumx70::X4),
            7 => Some(Tenumx70::X5),
            8 => Some(Tenumx70::X6),
            9 => Some(Tenumx70::X7),
            10 => Some(Tenumx70::X8),
            11 => Some(Tenumx70::X9),
            12 => Some(Tenumx70::X10),
            13 => Some(Tenumx70::X11),
            14 => Some(Tenumx70::X12),
            15 => Some(Tenumx70::X13),
            16 => Some(Tenumx70::X14),
            17 => Some(Tenumx70::X15),
            18 => Some(Tenumx70::X16),
            19 => Some(Tenumx70::X17),
            20 => Some(Tenumx70::X18),
            21 => Some(Tenumx70::X19),
            22 => Some(Tenumx70::X20),
            23 => Some(Tenumx70::X21),
            24 => Some(Tenumx70::X22),
            25 => Some(Tenumx70::X23),
            26 => Some(Tenumx70::X24),
            27 => Some(Tenumx70::X25),
            28 => Some(Tenumx70::X26),
            29 => Some(Tenumx70::X27),
            30 => Some(Tenumx70::X28),
            31 => Some(Tenumx70::X29),
            32 => Some(Tenumx70::X30),
            33 => Some(Tenumx70::X31),
            34 => Some(Tenumx70::X32),
            35 => Some(Tenumx70::X33),
            36 => Some(Tenumx70::X34),
            37 => Some(Tenumx70::X35),
            38 => Some(Tenumx70::X36),
            39 => Some(Tenumx70::X37),
            40 => Some(Tenumx70::X38),
            41 => Some(Tenumx70::X39),
            42 => Some(Tenumx70::X40),
            43 => Some(Tenumx70::X41),
            44 => Some(Tenumx70::X42),
            45 => Some(Tenumx70::X43),
            46 => Some(Tenumx70::X44),
            47 => Some(Tenumx70::X45),
            48 => Some(Tenumx70::X46),
            49 => Some(Tenumx70::X47),
            50 => Some(Tenumx70::X48),
            51 => Some(Tenumx70::X49),
            52 => Some(Tenumx70::X50),
            53 => Some(Tenumx70::X51),
            54 => Some(Tenumx70::X52),
            55 => Some(Tenumx70::X53),
            56 => Some(Tenumx70::X54),
            57 => Some(Tenumx70::X55),
            58 => Some(Tenumx70::X56),
            59 => Some(Tenumx70::X57),
            60 => Some(Tenumx70::X58),
            61 => Some(Tenumx70::X59),
            62 => Some(Tenumx70::X60),
            63 => Some(Tenumx70::X61),
            64 => Some(Tenumx70::X62),
            65 => Some(Tenumx70::X63),
            66 => Some(Tenumx70::X64),
            67 => Some(Tenumx70::X65),
            68 => Some(Tenumx70::X66),
            69 => Some(Tenumx70::X67),
            70 => Some(Tenumx70::X68),
            71 => Some(Tenumx70::X69),
            _ => None,
        }
    }

    pub const fn variants() -> [Self; 72] {
        [
        Tenumx70::R0,
        Tenumx70::R1,
        Tenumx70::X0,
        Tenumx70::X1,
        Tenumx70::X2,
        Tenumx70::X3,
        Tenumx70::X4,
        Tenumx70::X5,
        Tenumx70::X6,
        Tenumx70::X7,
        Tenumx70::X8,
        Tenumx70::X9,
        Tenumx70::X10,
        Tenumx70::X11,
        Tenumx70::X12,
        Tenumx70::X13,
        Tenumx70::X14,
        Tenumx70::X15,
        Tenumx70::X16,
        Tenumx70::X17,
        Tenumx70::X18,
        Tenumx70::X19,
        Tenumx70::X20,
        Tenumx70::X21,
        Tenumx70::X22,
        Tenumx70::X23,
        Tenumx70::X24,
        Tenumx70::X25,
        Tenumx70::X26,
        Tenumx70::X27,
        Tenumx70::X28,
        Tenumx70::X29,
        Tenumx70::X30,
        Tenumx70::X31,
        Tenumx70::X32,
        Tenumx70::X33,
        Tenumx70::X34,
        Tenumx70::X35,
        Tenumx70::X36,
        Tenumx70::X37,
        Tenumx70::X38,
        Tenumx70::X39,
        Tenumx70::X40,
        Tenumx70::X41,
        Tenumx70::X42,
        Tenumx70::X43,
        Tenumx70::X44,
        Tenumx70::X45,
        Tenumx70::X46,
        Tenumx70::X47,
        Tenumx70::X48,
        Tenumx70::X49,
        Tenumx70::X50,
        Tenumx70::X51,
        Tenumx70::X52,
        Tenumx70::X53,
        Tenumx70::X54,
        Tenumx70::X55,
        Tenumx70::X56,
        Tenumx70::X57,
        Tenumx70::X58,
        Tenumx70::X59,
        Tenumx70::X60,
        Tenumx70::X61,
        Tenumx70::X62,
        Tenumx70::X63,
        Tenumx70::X64,
        Tenumx70::X65,
        Tenumx70::X66,
        Tenumx70::X67,
        Tenumx70::X68,
        Tenumx70::X69,
        ]
    }

    pub fn value_index(self) -> usize {
        match self {
            Tenumx70::R0 => 0,
            Tenumx70::R1 => 1,
            Tenumx70::X0 => 2,
            Tenumx70::X1 => 3,
            Tenumx70::X2 => 4,
            Tenumx70::X3 => 5,
            Tenumx70::X4 => 6,
            Tenumx70::X5 => 7,
            Tenumx70::X6 => 8,
            Tenumx70::X7 => 9,
            Tenumx70::X8 => 10,
            Tenumx70::X9 => 11,
            Tenumx70::X10 => 12,
            Tenumx70::X11 => 13,
            Tenumx70::X12 => 14,
            Tenumx70::X13 => 15,
            Tenumx70::X14 => 16,
            Tenumx70::X15 => 17,
            Tenumx70::X16 => 18,
            Tenumx70::X17 => 19,
            Tenumx70::X18 => 20,
            Tenumx70::X19 => 21,
            Tenumx70::X20 => 22,
            Tenumx70::X21 => 23,
            Tenumx70::X22 => 24,
            Tenumx70::X23 => 25,
            Tenumx70::X24 => 26,
            Tenumx70::X25 => 27,
            Tenumx70::X26 => 28,
            Tenumx70::X27 => 29,
            Tenumx70::X28 => 30,
            Tenumx70::X29 => 31,
            Tenumx70::X30 => 32,
            Tenumx70::X31 => 33,
            Tenumx70::X32 => 34,
            Tenumx70::X33 => 35,
            Tenumx70::X34 => 36,
            Tenumx70::X35 => 37,
            Tenumx70::X36 => 38,
            Tenumx70::X37 => 39,
            Tenumx70::X38 => 40,
            Tenumx70::X39 => 41,
            Tenumx70::X40 => 42,
            Tenumx70::X41 => 43,
            Tenumx70::X42 => 44,
            Tenumx70::X43 => 45,
            Tenumx70::X44 => 46,
            Tenumx70::X45 => 47,
            Tenumx70::X46 => 48,
            Tenumx70::X47 => 49,
            Tenumx70::X48 => 50,
            Tenumx70::X49 => 51,
            Tenumx70::X50 => 52,
            Tenumx70::X51 => 53,
            Tenumx70::X52 => 54,
            Tenumx70::X53 => 55,
            Tenumx70::X54 => 56,
            Tenumx70::X55 => 57,
            Tenumx70::X56 => 58,
            Tenumx70::X57 => 59,
            Tenumx70::X58 => 60,
            Tenumx70::X59 => 61,
            Tenumx70::X60 => 62,
            Tenumx70::X61 => 63,
            Tenumx70::X62 => 64,
            Tenumx70::X63 => 65,
            Tenumx70::X64 => 66,
            Tenumx70::X65 => 67,
            Tenumx70::X66 => 68,
            Tenumx70::X67 => 69,
            Tenumx70::X68 => 70,
            Tenumx70::X69 => 71,
        }
    }
}

#[asn(choice, extensible_after(R0))]

#[derive(Debug, Clone, PartialEq, Hash)]
pub enum Tchoicex70 {
    #[asn(boolean)] R0(bool),
    #[asn(integer(0..7))] X0(u8),
    #[asn(integer(0..7))] X1(u8),
    #[asn(integer(0..7))] X2(u8),
    #[asn(integer(0..7))] X3(u8),
    #[asn(integer(0..7))] X4(u8),
    #[asn(integer(0..7))] X5(u8),
    #[asn(integer(0..7))] X6(u8),
    #[asn(integer(0..7))] X7(u8),
    #[asn(integer(0..7))] X8(u8),
    #[asn(integer(0..7))] X9(u8),
    #[asn(integer(0..7))] X10(u8),
    #[asn(integer(0..7))] X11(u8),
    #[asn(integer(0..7))] X12(u8),
    #[asn(integer(0..7))] X13(u8),
    #[asn(integer(0..7))] X14(u8),
    #[asn(integer(0..7))] X15(u8),
    #[asn(integer(0..7))] X16(u8),
    #[asn(integer(0..7))] X17(u8),
    #[asn(integer(0..7))] X18(u8),
    #[asn(integer(0..7))] X19(u8),
    #[asn(integer(0..7))] X20(u8),
    #[asn(integer(0..7))] X21(u8),
    #[asn(integer(0..7))] X22(u8),
    #[asn(integer(0..7))] X23(u8),
    #[asn(integer(0..7))] X24(u8),
    #[asn(integer(0..7))] X25(u8),
    #[asn(integer(0..7))] X26(u8),
    #[asn(integer(0..7))] X27(u8),
    #[asn(integer(0..7))] X28(u8),
    #[asn(integer(0..7))] X29(u8),
    #[asn(integer(0..7))] X30(u8),
    #[asn(integer(0..7))] X31(u8),
    #[asn(integer(0..7))] X32(u8),
    #[asn(integer(0..7))] X33(u8),
    #[asn(integer(0..7))] X34(u8),
    #[asn(integer(0..7))] X35(u8),
    #[asn(integer(0..7))] X36(u8),
    #[asn(integer(0..7))] X37(u8),
    #[asn(integer(0..7))] X38(u8),
    #[asn(integer(0..7))] X39(u8),
    #[asn(integer(0..7))] X40(u8),
    #[asn(integer(0..7))] X41(u8),
    #[asn(integer(0..7))] X42(u8),
    #[asn(integer(0..7))] X43(u8),
    #[asn(integer(0..7))] X44(u8),
    #[asn(integer(0..7))] X45(u8),
    #[asn(integer(0..7))] X46(u8),
    #[asn(integer(0..7))] X47(u8),
    #[asn(integer(0..7))] X48(u8),
    #[asn(integer(0..7))] X49(u8),
    #[asn(integer(0..7))] X50(u8),
    #[asn(integer(0..7))] X51(u8),
    #[asn(integer(0..7))] X52(u8),
    #[asn(integer(0..7))] X53(u8),
    #[asn(integer(0..7))] X54(u8),
    #[asn(integer(0..7))] X55(u8),
    #[asn(integer(0..7))] X56(u8),
    #[asn(integer(0..7))] X57(u8),
    #[asn(integer(0..7))] X58(u8),
    #[asn(integer(0..7))] X59(u8),
    #[asn(integer(0..7))] X60(u8),
    #[asn(integer(0..7))] X61(u8),
    #[asn(integer(0..7))] X62(u8),
    #[asn(integer(0..7))] X63(u8),
    #[asn(integer(0..7))] X64(u8),
    #[asn(integer(0..7))] X65(u8),
    #[asn(integer(0..7))] X66(u8),
    #[asn(integer(0..7))] X67(u8),
    #[asn(integer(0..7))] X68(u8),
    #[asn(integer(0..7))] X69(u8),
}

impl Tchoicex70 {
    pub fn variants() -> [Self; 71] {
        [
        Tchoicex70::R0(Default::default()),
        Tchoicex70::X0(Default::default()),
        Tchoicex70::X1(Default::default()),
        Tchoicex70::X2(Default::default()),
        Tchoicex70::X3(Default::default()),
        Tchoicex70::X4(Default::default()),
        Tchoicex70::X5(Default::default()),
        Tchoicex70::X6(Default::default()),
        Tchoicex70::X7(Default::default()),
        Tchoicex70::X8(Default::default()),
        Tchoicex70::X9(Default::default()),
        Tchoicex70::X10(Default::default()),
        Tchoicex70::X11(Default::default()),
        Tchoicex70::X12(Default::default()),
        Tchoicex70::X13(Default::default()),
        Tchoicex70::X14(Default::default()),
        Tchoicex70::X15(Default::default()),
        Tchoicex70::X16(Default::default()),
        Tchoicex70::X17(Default::default()),
        Tchoicex70::X18(Default::default()),
        Tchoicex70::X19(Default::default()),
        Tchoicex70::X20(Default::default()),
        Tchoicex70::X21(Default::default()),
        Tchoicex70::X22(Default::default()),
        Tchoicex70::X23(Default::default()),
        Tchoicex70::X24(Default::default()),
        Tchoicex70::X25(Default::default()),
        Tchoicex70::X26(Default::default()),
        Tchoicex70::X27(Default::default()),
        Tchoicex70::X28(Default::default()),
        Tchoicex70::X29(Default::default()),
        Tchoicex70::X30(Default::default()),
        Tchoicex70::X31(Default::default()),
        Tchoicex70::X32(Default::default()),
        Tchoicex70::X33(Default::default()),
        Tchoicex70::X34(Default::default()),
        Tchoicex70::X35(Default::default()),
        Tchoicex70::X36(Default::default()),
        Tchoicex70::X37(Default::default()),
        Tchoicex70::X38(Default::default()),
        Tchoicex70::X39(Default::default()),
        Tchoicex70::X40(Default::default()),
        Tchoicex70::X41(Default::default()),
        Tchoicex70::X42(Default::default()),
        Tchoicex70::X43(Default::default()),
        Tchoicex70::X44(Default::default()),
        Tchoicex70::X45(Default::default()),
        Tchoicex70::X46(Default::default()),
        Tchoicex70::X47(Default::default()),
        Tchoicex70::X48(Default::default()),
        Tchoicex70::X49(Default::default()),
        Tchoicex70::X50(Default::default()),
        Tchoicex70::X51(Default::default()),
        Tchoicex70::X52(Default::default()),
        Tchoicex70::X53(Default::default()),
        Tchoicex70::X54(Default::default()),
        Tchoicex70::X55(Default::default()),
        Tchoicex70::X56(Default::default()),
        Tchoicex70::X57(Default::default()),
        Tchoicex70::X58(Default::default()),
        Tchoicex70::X59(Default::default()),
        Tchoicex70::X60(Default::default()),
        Tchoicex70::X61(Default::default()),
        Tchoicex70::X62(Default::default()),
        Tchoicex70::X63(Default::default()),
        Tchoicex70::X64(Default::default()),
        Tchoicex70::X65(Default::default()),
        Tchoicex70::X66(Default::default()),
        Tchoicex70::X67(Default::default()),
        Tchoicex70::X68(Default::default()),
        Tchoicex70::X69(Default::default()),
        ]
    }

    pub fn value_index(&self) -> usize {
        match self {
            Tchoicex70::R0(_) => 0,
            Tchoicex70::X0(_) => 1,
            Tchoicex70::X1(_) => 2,
            Tchoicex70::X2(_) => 3,
            Tchoicex70::X3(_) => 4,
            Tchoicex70::X4(_) => 5,
            Tchoicex70::X5(_) => 6,
            Tchoicex70::X6(_) => 7,
            Tchoicex70::X7(_) => 8,
            Tchoicex70::X8(_) => 9,
            Tchoicex70::X9(_) => 10,
            Tchoicex70::X10(_) => 11,
            Tchoicex70::X11(_) => 12,
            Tchoicex70::X12(_) => 13,
            Tchoicex70::X13(_) => 14,
            Tchoicex70::X14(_) => 15,
            Tchoicex70::X15(_) => 16,
            Tchoicex70::X16(_) => 17,
            Tchoicex70::X17(_) => 18,
            Tchoicex70::X18(_) => 19,
            Tchoicex70::X19(_) => 20,
            Tchoicex70::X20(_) => 21,
            Tchoicex70::X21(_) => 22,
            Tchoicex70::X22(_) => 23,
            Tchoicex70::X23(_) => 24,
            Tchoicex70::X24(_) => 25,
            Tchoicex70::X25(_) => 26,
            Tchoicex70::X26(_) => 27,
            Tchoicex70::X27(_) => 28,
            Tchoicex70::X28(_) => 29,
            Tchoicex70::X29(_) => 30,
            Tchoicex70::X30(_) => 31,
            Tchoicex70::X31(_) => 32,
            Tchoicex70::X32(_) => 33,
            Tchoicex70::X33(_) => 34,
            Tchoicex70::X34(_) => 35,
            Tchoicex70::X35(_) => 36,
            Tchoicex70::X36(_) => 37,
            Tchoicex70::X37(_) => 38,
            Tchoicex70::X38(_) => 39,
            Tchoicex70::X39(_) => 40,
            Tchoicex70::X40(_) => 41,
            Tchoicex70::X41(_) => 42,
            Tchoicex70::X42(_) => 43,
            Tchoicex70::X43(_) => 44,
            Tchoicex70::X44(_) => 45,
            Tchoicex70::X45(_) => 46,
            Tchoicex70::X46(_) => 47,
            Tchoicex70::X47(_) => 48,
            Tchoicex70::X48(_) => 49,
            Tchoicex70::X49(_) => 50,
            Tchoicex70::X50(_) => 51,
            Tchoicex70::X51(_) => 52,
            Tchoicex70::X52(_) => 53,
            Tchoicex70::X53(_) => 54,
            Tchoicex70::X54(_) => 55,
            Tchoicex70::X55(_) => 56,
            Tchoicex70::X56(_) => 57,
            Tchoicex70::X57(_) => 58,
            Tchoicex70::X58(_) => 59,
            Tchoicex70::X59(_) => 60,
            Tchoicex70::X60(_) => 61,
            Tchoicex70::X61(_) => 62,
            Tchoicex70::X62(_) => 63,
            Tchoicex70::X63(_) => 64,
            Tchoicex70::X64(_) => 65,
            Tchoicex70::X65(_) => 66,
            Tchoicex70::X66(_) => 67,
            Tchoicex70::X67(_) => 68,
            Tchoicex70::X68(_) => 69,
            Tchoicex70::X69(_) => 70,
        }
    }

    pub const fn x0_min() -> u8 {
        0
    }

    pub const fn x0_max() -> u8 {
        7
    }

    pub const fn x1_min() -> u8 {
        0
    }

    pub const fn x1_max() -> u8 {
        7
    }

    pub const fn x2_min() -> u8 {
        0
    }

    pub const fn x2_max() -> u8 {
        7
    }

    pub const fn x3_min() -> u8 {
        0
    }

    pub const fn x3_max() -> u8 {
        7
    }

    pub const fn x4_min() -> u8 {
        0
    }

    pub const fn x4_max() -> u8 {
        7
    }

    pub const fn x5_min() -> u8 {
        0
    }

    pub const fn x5_max() -> u8 {
        7
    }

    pub const fn x6_min() -> u8 {
        0
    }

    pub const fn x6_max() -> u8 {
        7
    }

    pub const fn x7_min() -> u8 {
        0
    }

    pub const fn x7_max() -> u8 {
        7
    }

    pub const fn x8_min() -> u8 {
        0
    }

    pub const fn x8_max() -> u8 {
        7
    }

    pub const fn x9_min() -> u8 {
        0
    }

    pub const fn x9_max() -> u8 {
        7
    }

    pub const fn x10_min() -> u8 {
        0
    }

    pub const fn x10_max() -> u8 {
        7
    }

    pub const fn x11_min() -> u8 {
        0
    }

    pub const fn x11_max() -> u8 {
        7
    }

    pub const fn x12_min() -> u8 {
        0
    }

    pub const fn x12_max() -> u8 {
        7
    }

    pub const fn x13_min() -> u8 {
        0
    }

    pub const fn x13_max() -> u8 {
        7
    }

    pub const fn x14_min() -> u8 {
        0
    }

    pub const fn x14_max() -> u8 {
        7
    }

    pub const fn x15_min() -> u8 {
        0
    }

    pub const fn x15_max() -> u8 {
        7
    }

    pub const fn x16_min() -> u8 {
        0
    }

    pub const fn x16_max() -> u8 {
        7
    }

    pub const fn x17_min() -> u8 {
        0
    }

    pub const fn x17_max() -> u8 {
        7
    }

    pub const fn x18_min() -> u8 {
        0
    }

    pub const fn x18_max() -> u8 {
        7
    }

    pub const fn x19_min() -> u8 {
        0
    }

    pub const fn x19_max() -> u8 {
        7
    }

    pub const fn x20_min() -> u8 {
        0
    }

    pub const fn x20_max() -> u8 {
        7
    }

    pub const fn x21_min() -> u8 {
        0
    }

    pub const fn x21_max() -> u8 {
        7
    }

    pub const fn x22_min() -> u8 {
        0
    }

    pub const fn x22_max() -> u8 {
        7
    }

    pub const fn x23_min() -> u8 {
        0
    }

    pub const fn x23_max() -> u8 {
        7
    }

    pub const fn x24_min() -> u8 {
        0
    }

    pub const fn x24_max() -> u8 {
        7
    }

    pub const fn x25_min() -> u8 {
        0
    }

    pub const fn x25_max() -> u8 {
        7
    }

    pub const fn x26_min() -> u8 {
        0
    }

    pub const fn x26_max() -> u8 {
        7
    }

    pub const fn x27_min() -> u8 {
        0
    }

    pub const fn x27_max() -> u8 {
        7
    }

    pub const fn x28_min() -> u8 {
        0
    }

    pub const fn x28_max() -> u8 {
        7
    }

    pub const fn x29_min() -> u8 {
        0
    }

    pub const fn x29_max() -> u8 {
        7
    }

    pub const fn x30_min() -> u8 {
        0
    }

    pub const fn x30_max() -> u8 {
        7
    }

    pub const fn x31_min() -> u8 {
        0
    }

    pub const fn x31_max() -> u8 {
        7
    }

    pub const fn x32_min() -> u8 {
        0
    }

    pub const fn x32_max() -> u8 {
        7
    }

    pub const fn x33_min() -> u8 {
        0
    }

    pub const fn x33_max() -> u8 {
        7
    }

    pub const fn x34_min() -> u8 {
        0
    }

    pub const fn x34_max() -> u8 {
        7
    }

    pub const fn x35_min() -> u8 {
        0
    }

    pub const fn x35_max() -> u8 {
        7
    }

    pub const fn x36_min() -> u8 {
        0
    }

    pub const fn x36_max() -> u8 {
        7
    }

    pub const fn x37_min() -> u8 {
        0
    }

    pub const fn x37_max() -> u8 {
        7
    }

    pub const fn x38_min() -> u8 {
        0
    }

    pub const fn x38_max() -> u8 {
        7
    }

    pub const fn x39_min() -> u8 {
        0
    }

    pub const fn x39_max() -> u8 {
        7
    }

    pub const fn x40_min() -> u8 {
        0
    }

    pub const fn x40_max() -> u8 {
        7
    }

    pub const fn x41_min() -> u8 {
        0
    }

    pub const fn x41_max() -> u8 {
        7
    }

    pub const fn x42_min() -> u8 {
        0
    }

    pub const fn x42_max() -> u8 {
        7
    }

    pub const fn x43_min() -> u8 {
        0
    }

    pub const fn x43_max() -> u8 {
        7
    }

    pub const fn x44_min() -> u8 {
        0
    }

    pub const fn x44_max() -> u8 {
        7
    }

    pub const fn x45_min() -> u8 {
        0
    }

    pub const fn x45_max() -> u8 {
        7
    }

    pub const fn x46_min() -> u8 {
        0
    }

    pub const fn x46_max() -> u8 {
        7
    }

    pub const fn x47_min() -> u8 {
        0
    }

    pub const fn x47_max() -> u8 {
        7
    }

    pub const fn x48_min() -> u8 {
        0
    }

    pub const fn x48_max() -> u8 {
        7
    }

    pub const fn x49_min() -> u8 {
        0
    }

    pub const fn x49_max() -> u8 {
        7
    }

    pub const fn x50_min() -> u8 {
        0
    }

    pub const fn x50_max() -> u8 {
        7
    }

    pub const fn x51_min() -> u8 {
        0
    }

    pub const fn x51_max() -> u8 {
        7
    }

    pub const fn x52_min() -> u8 {
        0
    }

    pub const fn x52_max() -> u8 {
        7
    }

    pub const fn x53_min() -> u8 {
        0
    }

    pub const fn x53_max() -> u8 {
        7
    }

    pub const fn x54_min() -> u8 {
        0
    }

    pub const fn x54_max() -> u8 {
        7
    }

    pub const fn x55_min() -> u8 {
        0
    }

    pub const fn x55_max() -> u8 {
        7
    }

    pub const fn x56_min() -> u8 {
        0
    }

    pub const fn x56_max() -> u8 {
        7
    }

    pub const fn x57_min() -> u8 {
        0
    }

    pub const fn x57_max() -> u8 {
        7
    }

    pub const fn x58_min() -> u8 {
        0
    }

    pub const fn x58_max() -> u8 {
        7
    }

    pub const fn x59_min() -> u8 {
        0
    }

    pub const fn x59_max() -> u8 {
        7
    }

    pub const fn x60_min() -> u8 {
        0
    }

    pub const fn x60_max() -> u8 {
        7
    }

    pub const fn x61_min() -> u8 {
        0
    }

    pub const fn x61_max() -> u8 {
        7
    }

    pub const fn x62_min() -> u8 {
        0
    }

    pub const fn x62_max() -> u8 {
        7
    }

    pub const fn x63_min() -> u8 {
        0
    }

    pub const fn x63_max() -> u8 {
        7
    }

    pub const fn x64_min() -> u8 {
        0
    }

    pub const fn x64_max() -> u8 {
        7
    }

    pub const fn x65_min() -> u8 {
        0
    }

    pub const fn x65_max() -> u8 {
        7
    }

    pub const fn x66_min() -> u8 {
        0
    }

    pub const fn x66_max() -> u8 {
        7
    }

    pub const fn x67_min() -> u8 {
        0
    }

    pub const fn x67_max() -> u8 {
        7
    }

    pub const fn x68_min() -> u8 {
        0
    }

    pub const fn x68_max() -> u8 {
        7
    }

    pub const fn x69_min() -> u8 {
        0
    }

    pub const fn x69_max() -> u8 {
        7
    }
}

impl Default for Tchoicex70 {
    fn default() -> Tchoicex70 {
        Tchoicex70::R0(Default::default())
    }
}

#[asn(transparent)]

#[derive(Default, Debug, Clone, PartialEq, Hash)]
pub struct Tref1(#[asn(complex(Tref2, tag(UNIVERSAL(16))))] pub Tref2);

impl Tref1 {
}

impl Tref1 {
    pub const fn new(value: Tref2) -> Self {
        Self(value)
    }
}

impl ::core::ops::Deref for Tref1 {
    type Target = Tref2;

    fn deref(&self) -> &Tref2 {
        &self.0
    }
}

impl ::core::ops::DerefMut for Tref1 {
    fn deref_mut(&mut self) -> &mut Tref2 {
        &mut self.0
    }
}

impl ::core::convert::From<Tref2> for Tref1 {
    fn from(value: Tref2) -> Self {
        Self(value)
    }
}

impl ::core::convert::From<Tref1> for Tref2 {
    fn from(value: Tref1) -> Self {
        value.0
    }
}

#[asn(transparent)]

#[derive(Default, Debug, Clone, PartialEq, Hash)]
pub struct Tref2(#[asn(complex(Tinner, tag(UNIVERSAL(16))))] pub Tinner);

impl Tref2 {
}

impl Tref2 {
    pub const fn new(value: Tinner) -> Self {
        Self(value)
    }
}

impl ::core::ops::Deref for Tref2 {
    type Target = Tinner;

    fn deref(&self) -> &Tinner {
        &self.0
    }
}

impl ::core::ops::DerefMut for Tref2 {
    fn deref_mut(&mut self) -> &mut Tinner {
        &mut self.0
    }
}

impl ::core::convert::From<Tinner> for Tref2 {
    fn from(value: Tinner) -> Self {
        Self(value)
    }
}

impl ::core::convert::From<Tref2> for Tinner {
    fn from(value: Tref2) -> Self {
        value.0
    }
}

#[asn(choice)]

#[derive(Debug, Clone, PartialEq, Hash)]
pub enum TinlinePick {
    #[asn(integer(0..7))] I(u8),
    #[asn(ia5string(size(2)))] S(String),
}

impl TinlinePick {
    pub fn variants() -> [Self; 2] {
        [
        TinlinePick::I(Default::default()),
        TinlinePick::S(Default::default()),
        ]
    }

    pub fn value_index(&self) -> usize {
        match self {
            TinlinePick::I(_) => 0,
            TinlinePick::S(_) => 1,
        }
    }

    pub const fn i_min() -> u8 {
        0
    }

    pub const fn i_max() -> u8 {
        7
    }
}

impl Default for TinlinePick {
    fn default() -> TinlinePick {
        TinlinePick::I(Default::default())
    }
}

#[asn(enumerated)]

#[derive(Debug, Clone, PartialEq, Hash, Copy, PartialOrd, Eq, Default)]
pub enum TinlineEn {
    #[default] E0,
    E1,
    E2,
}

impl TinlineEn {
    pub fn variant(index: usize) -> Option<Self> {
        match index {
            0 => Some(TinlineEn::E0),
            1 => Some(TinlineEn::E1),
            2 => Some(TinlineEn::E2),
            _ => None,
        }
    }

    pub const fn variants() -> [Self; 3] {
        [
        TinlineEn::E0,
        TinlineEn::E1,
        TinlineEn::E2,
        ]
    }

    pub fn value_index(self) -> usize {
        match self {
            TinlineEn::E0 => 0,
            TinlineEn::E1 => 1,
            TinlineEn::E2 => 2,
        }
    }
}

#[asn(sequence)]

#[derive(Default, Debug, Clone, PartialEq, Hash)]
pub struct TinlineSq {
    #[asn(boolean)] pub z: bool,
}

impl TinlineSq {
}

#[asn(sequence)]

#[derive(Default, Debug, Clone, PartialEq, Hash)]
pub struct Tinline {
    #[asn(complex(TinlinePick, tag(UNIVERSAL(2))))] pub pick: TinlinePick,
    #[asn(optional(complex(TinlineEn, tag(UNIVERSAL(10)))))] pub en: Option<TinlineEn>,
    #[asn(complex(TinlineSq, tag(UNIVERSAL(16))))] pub sq: TinlineSq,
}

impl Tinline {
}

#[asn(set)]

#[derive(Default, Debug, Clone, PartialEq, Hash)]
pub struct Tmix {
    #[asn(optional(octet_string(size(0..3))))] pub o: Option<Vec<u8>>,
    #[asn(bit_string(size(5)))] pub b: BitVec,
    #[asn(optional(utf8string))] pub u: Option<String>,
    #[asn(integer(min..max))] pub i: u64,
}

impl Tmix {
    pub const fn i_min() -> u64 {
        0
    }

    pub const fn i_max() -> u64 {
        9_223_372_036_854_775_807
    }
}
// ---- harness conversions (generated by the zoo build script from the items above) ----
impl FromValue for Tinner {
    fn from_value(v: &Value) -> Self {
        let s = match v { Value::Seq(s) => s, other => panic!("Tinner: expected Seq, got {other:?}") };
        assert_eq!(s.len(), 2, "Tinner: component count");
        let _ = s;
        Tinner {
            a: FromValue::from_value(s[0].as_ref().expect("component a of Tinner must be present")),
            b: s[1].as_ref().map(FromValue::from_value),
        }
    }
}
impl ToValue for Tinner {
    fn to_value(&self) -> Value {
        Value::Seq(vec![
            Some(self.a.to_value()),
            self.b.as_ref().map(|x| x.to_value()),
        ])
    }
}
impl FromValue for Tenum {
    fn from_value(v: &Value) -> Self {
        match v {
            Value::Enum(0) => Tenum::Red,
            Value::Enum(1) => Tenum::Green,
            Value::Enum(2) => Tenum::Blue,
            Value::Enum(3) => Tenum::Alpha,
            other => panic!("Tenum: bad enum value {other:?}"),
        }
    }
}
impl ToValue for Tenum {
    fn to_value(&self) -> Value {
        match self {
            Tenum::Red => Value::Enum(0),
            Tenum::Green => Value::Enum(1),
            Tenum::Blue => Value::Enum(2),
            Tenum::Alpha => Value::Enum(3),
        }
    }
}
impl FromValue for Tsoseq { fn from_value(v: &Value) -> Self { Tsoseq(FromValue::from_value(v)) } }
impl ToValue for Tsoseq { fn to_value(&self) -> Value { self.0.to_value() } }
impl FromValue for Tsoso { fn from_value(v: &Value) -> Self { Tsoso(FromValue::from_value(v)) } }
impl ToValue for Tsoso { fn to_value(&self) -> Value { self.0.to_value() } }
impl FromValue for Tsooct { fn from_value(v: &Value) -> Self { Tsooct(FromValue::from_value(v)) } }
impl ToValue for Tsooct { fn to_value(&self) -> Value { self.0.to_value() } }
impl FromValue for Tsoenum { fn from_value(v: &Value) -> Self { Tsoenum(FromValue::from_value(v)) } }
impl ToValue for Tsoenum { fn to_value(&self) -> Value { self.0.to_value() } }
impl FromValue for Tsoia5 { fn from_value(v: &Value) -> Self { Tsoia5(FromValue::from_value(v)) } }
impl ToValue for Tsoia5 { fn to_value(&self) -> Value { self.0.to_value() } }
impl FromValue for Tch2 {
    fn from_value(v: &Value) -> Self {
        let (i, inner) = match v { Value::Choice(i, inner) => (*i, &**inner), other => panic!("Tch2: expected Choice, got {other:?}") };
        match i {
            0 => Tch2::A(FromValue::from_value(inner)),
            1 => Tch2::B(FromValue::from_value(inner)),
            _ => panic!("Tch2: alternative index {i} out of range"),
        }
    }
}
impl ToValue for Tch2 {
    fn to_value(&self) -> Value {
        match self {
            Tch2::A(x) => Value::Choice(0, Box::new(x.to_value())),
            Tch2::B(x) => Value::Choice(1, Box::new(x.to_value())),
        }
    }
}
impl FromValue for Tch2x1 {
    fn from_value(v: &Value) -> Self {
        let (i, inner) = match v { Value::Choice(i, inner) => (*i, &**inner), other => panic!("Tch2x1: expected Choice, got {other:?}") };
        match i {
            0 => Tch2x1::A(FromValue::from_value(inner)),
            1 => Tch2x1::B(FromValue::from_value(inner)),
            2 => Tch2x1::C(FromValue::from_value(inner)),
            _ => panic!("Tch2x1: alternative index {i} out of range"),
        }
    }
}
impl ToValue for Tch2x1 {
    fn to_value(&self) -> Value {
        match self {
            Tch2x1::A(x) => Value::Choice(0, Box::new(x.to_value())),
            Tch2x1::B(x) => Value::Choice(1, Box::new(x.to_value())),
            Tch2x1::C(x) => Value::Choice(2, Box::new(x.to_value())),
        }
    }
}
impl FromValue for Tchdesc {
    fn from_value(v: &Value) -> Self {
        let (i, inner) = match v { Value::Choice(i, inner) => (*i, &**inner), other => panic!("Tchdesc: expected Choice, got {other:?}") };
        match i {
            0 => Tchdesc::A(FromValue::from_value(inner)),
            1 => Tchdesc::B(FromValue::from_value(inner)),
            2 => Tchdesc::C(FromValue::from_value(inner)),
            _ => panic!("Tchdesc: alternative index {i} out of range"),
        }
    }
}
impl ToValue for Tchdesc {
    fn to_value(&self) -> Value {
        match self {
            Tchdesc::A(x) => Value::Choice(0, Box::new(x.to_value())),
            Tchdesc::B(x) => Value::Choice(1, Box::new(x.to_value())),
            Tchdesc::C(x) => Value::Choice(2, Box::new(x.to_value())),
        }
    }
}
impl FromValue for Tchch {
    fn from_value(v: &Value) -> Self {
        let (i, inner) = match v { Value::Choice(i, inner) => (*i, &**inner), other => panic!("Tchch: expected Choice, got {other:?}") };
        match i {
            0 => Tchch::X(FromValue::from_value(inner)),
            1 => Tchch::Y(FromValue::from_value(inner)),
            _ => panic!("Tchch: alternative index {i} out of range"),
        }
    }
}
impl ToValue for Tchch {
    fn to_value(&self) -> Value {
        match self {
            Tchch::X(x) => Value::Choice(0, Box::new(x.to_value())),
            Tchch::Y(x) => Value::Choice(1, Box::new(x.to_value())),
        }
    }
}
impl FromValue for Tnest {
    fn from_value(v: &Value) -> Self {
        let s = match v { Value::Seq(s) => s, other => panic!("Tnest: expected Seq, got {other:?}") };
        assert_eq!(s.len(), 4, "Tnest: component count");
        let _ = s;
        Tnest {
            head: FromValue::from_value(s[0].as_ref().expect("component head of Tnest must be present")),
            n: FromValue::from_value(s[1].as_ref().expect("component n of Tnest must be present")),
            tail: s[2].as_ref().map(FromValue::from_value),
            more: s[3].as_ref().map(FromValue::from_value),
        }
    }
}
impl ToValue for Tnest {
    fn to_value(&self) -> Value {
        Value::Seq(vec![
            Some(self.head.to_value()),
            Some(self.n.to_value()),
            self.tail.as_ref().map(|x| x.to_value()),
            self.more.as_ref().map(|x| x.to_value()),
        ])
    }
}
impl FromValue for TaddkindsE { fn from_value(_: &Value) -> Self { TaddkindsE } }
impl ToValue for TaddkindsE { fn to_value(&self) -> Value { Value::Seq(vec![]) } }
impl FromValue for Taddkinds {
    fn from_value(v: &Value) -> Self {
        let s = match v { Value::Seq(s) => s, other => panic!("Taddkinds: expected Seq, got {other:?}") };
        assert_eq!(s.len(), 5, "Taddkinds: component count");
        let _ = s;
        Taddkinds {
            a: FromValue::from_value(s[0].as_ref().expect("component a of Taddkinds must be present")),
            n: s[1].as_ref().map(FromValue::from_value),
            e: s[2].as_ref().map(FromValue::from_value),
            d: FromValue::from_value(s[3].as_ref().expect("component d of Taddkinds must be present")),
            l: s[4].as_ref().map(FromValue::from_value),
        }
    }
}
impl ToValue for Taddkinds {
    fn to_value(&self) -> Value {
        Value::Seq(vec![
            Some(self.a.to_value()),
            self.n.as_ref().map(|x| x.to_value()),
            self.e.as_ref().map(|x| x.to_value()),
            Some(self.d.to_value()),
            self.l.as_ref().map(|x| x.to_value()),
        ])
    }
}
impl FromValue for Tdefaults {
    fn from_value(v: &Value) -> Self {
        let s = match v { Value::Seq(s) => s, other => panic!("Tdefaults: expected Seq, got {other:?}") };
        assert_eq!(s.len(), 5, "Tdefaults: component count");
        let _ = s;
        Tdefaults {
            i: FromValue::from_value(s[0].as_ref().expect("component i of Tdefaults must be present")),
            b: FromValue::from_value(s[1].as_ref().expect("component b of Tdefaults must be present")),
            s: FromValue::from_value(s[2].as_ref().expect("component s of Tdefaults must be present")),
            e: FromValue::from_value(s[3].as_ref().expect("component e of Tdefaults must be present")),
            u: FromValue::from_value(s[4].as_ref().expect("component u of Tdefaults must be present")),
        }
    }
}
impl ToValue for Tdefaults {
    fn to_value(&self) -> Value {
        Value::Seq(vec![
            Some(self.i.to_value()),
            Some(self.b.to_value()),
            Some(self.s.to_value()),
            Some(self.e.to_value()),
            Some(self.u.to_value()),
        ])
    }
}
impl FromValue for Tdefaults2 {
    fn from_value(v: &Value) -> Self {
        let s = match v { Value::Seq(s) => s, other => panic!("Tdefaults2: expected Seq, got {other:?}") };
        assert_eq!(s.len(), 5, "Tdefaults2: component count");
        let _ = s;
        Tdefaults2 {
            o: FromValue::from_value(s[0].as_ref().expect("component o of Tdefaults2 must be present")),
            oe: FromValue::from_value(s[1].as_ref().expect("component oe of Tdefaults2 must be present")),
            s: FromValue::from_value(s[2].as_ref().expect("component s of Tdefaults2 must be present")),
            t: FromValue::from_value(s[3].as_ref().expect("component t of Tdefaults2 must be present")),
            z: FromValue::from_value(s[4].as_ref().expect("component z of Tdefaults2 must be present")),
        }
    }
}
impl ToValue for Tdefaults2 {
    fn to_value(&self) -> Value {
        Value::Seq(vec![
            Some(self.o.to_value()),
            Some(self.oe.to_value()),
            Some(self.s.to_value()),
            Some(self.t.to_value()),
            Some(self.z.to_value()),
        ])
    }
}
impl FromValue for TsoinlenumElement {
    fn from_value(v: &Value) -> Self {
        match v {
            Value::Enum(0) => TsoinlenumElement::E0,
            Value::Enum(1) => TsoinlenumElement::E1,
            Value::Enum(2) => TsoinlenumElement::E2,
            other => panic!("TsoinlenumElement: bad enum value {other:?}"),
        }
    }
}
impl ToValue for TsoinlenumElement {
    fn to_value(&self) -> Value {
        match self {
            TsoinlenumElement::E0 => Value::Enum(0),
            TsoinlenumElement::E1 => Value::Enum(1),
            TsoinlenumElement::E2 => Value::Enum(2),
        }
    }
}
impl FromValue for Tsoinlenum { fn from_value(v: &Value) -> Self { Tsoinlenum(FromValue::from_value(v)) } }
impl ToValue for Tsoinlenum { fn to_value(&self) -> Value { self.0.to_value() } }
impl FromValue for TsoinlseqElement {
    fn from_value(v: &Value) -> Self {
        let s = match v { Value::Seq(s) => s, other => panic!("TsoinlseqElement: expected Seq, got {other:?}") };
        assert_eq!(s.len(), 2, "TsoinlseqElement: component count");
        let _ = s;
        TsoinlseqElement {
            a: FromValue::from_value(s[0].as_ref().expect("component a of TsoinlseqElement must be present")),
            b: s[1].as_ref().map(FromValue::from_value),
        }
    }
}
impl ToValue for TsoinlseqElement {
    fn to_value(&self) -> Value {
        Value::Seq(vec![
            Some(self.a.to_value()),
            self.b.as_ref().map(|x| x.to_value()),
        ])
    }
}
impl FromValue for Tsoinlseq { fn from_value(v: &Value) -> Self { Tsoinlseq(FromValue::from_value(v)) } }
impl ToValue for Tsoinlseq { fn to_value(&self) -> Value { self.0.to_value() } }
impl FromValue for Tsetxt {
    fn from_value(v: &Value) -> Self {
        let s = match v { Value::Seq(s) => s, other => panic!("Tsetxt: expected Seq, got {other:?}") };
        assert_eq!(s.len(), 4, "Tsetxt: component count");
        let _ = s;
        Tsetxt {
            a: FromValue::from_value(s[0].as_ref().expect("component a of Tsetxt must be present")),
            b: FromValue::from_value(s[1].as_ref().expect("component b of Tsetxt must be present")),
            c: s[2].as_ref().map(FromValue::from_value),
            d: s[3].as_ref().map(FromValue::from_value),
        }
    }
}
impl ToValue for Tsetxt {
    fn to_value(&self) -> Value {
        Value::Seq(vec![
            Some(self.a.to_value()),
            Some(self.b.to_value()),
            self.c.as_ref().map(|x| x.to_value()),
            self.d.as_ref().map(|x| x.to_value()),
        ])
    }
}
impl FromValue for Tchxnull {
    fn from_value(v: &Value) -> Self {
        let (i, inner) = match v { Value::Choice(i, inner) => (*i, &**inner), other => panic!("Tchxnull: expected Choice, got {other:?}") };
        match i {
            0 => Tchxnull::A(FromValue::from_value(inner)),
            1 => Tchxnull::B(FromValue::from_value(inner)),
            2 => Tchxnull::C(FromValue::from_value(inner)),
            3 => Tchxnull::D(FromValue::from_value(inner)),
            _ => panic!("Tchxnull: alternative index {i} out of range"),
        }
    }
}
impl ToValue for Tchxnull {
    fn to_value(&self) -> Value {
        match self {
            Tchxnull::A(x) => Value::Choice(0, Box::new(x.to_value())),
            Tchxnull::B(x) => Value::Choice(1, Box::new(x.to_value())),
            Tchxnull::C(x) => Value::Choice(2, Box::new(x.to_value())),
            Tchxnull::D(x) => Value::Choice(3, Box::new(x.to_value())),
        }
    }
}
impl FromValue for Tchlist {
    fn from_value(v: &Value) -> Self {
        let (i, inner) = match v { Value::Choice(i, inner) => (*i, &**inner), other => panic!("Tchlist: expected Choice, got {other:?}") };
        match i {
            0 => Tchlist::L(FromValue::from_value(inner)),
            1 => Tchlist::N(FromValue::from_value(inner)),
            2 => Tchlist::B(FromValue::from_value(inner)),
            _ => panic!("Tchlist: alternative index {i} out of range"),
        }
    }
}
impl ToValue for Tchlist {
    fn to_value(&self) -> Value {
        match self {
            Tchlist::L(x) => Value::Choice(0, Box::new(x.to_value())),
            Tchlist::N(x) => Value::Choice(1, Box::new(x.to_value())),
            Tchlist::B(x) => Value::Choice(2, Box::new(x.to_value())),
        }
    }
}
impl FromValue for Tseqchlist {
    fn from_value(v: &Value) -> Self {
        let s = match v { Value::Seq(s) => s, other => panic!("Tseqchlist: expected Seq, got {other:?}") };
        assert_eq!(s.len(), 3, "Tseqchlist: component count");
        let _ = s;
        Tseqchlist {
            pre: FromValue::from_value(s[0].as_ref().expect("component pre of Tseqchlist must be present")),
            c: FromValue::from_value(s[1].as_ref().expect("component c of Tseqchlist must be present")),
            post: FromValue::from_value(s[2].as_ref().expect("component post of Tseqchlist must be present")),
        }
    }
}
impl ToValue for Tseqchlist {
    fn to_value(&self) -> Value {
        Value::Seq(vec![
            Some(self.pre.to_value()),
            Some(self.c.to_value()),
            Some(self.post.to_value()),
        ])
    }
}
impl FromValue for Tplain {
    fn from_value(v: &Value) -> Self {
        let s = match v { Value::Seq(s) => s, other => panic!("Tplain: expected Seq, got {other:?}") };
        assert_eq!(s.len(), 2, "Tplain: component count");
        let _ = s;
        Tplain {
            p: FromValue::from_value(s[0].as_ref().expect("component p of Tplain must be present")),
            q: FromValue::from_value(s[1].as_ref().expect("component q of Tplain must be present")),
        }
    }
}
impl ToValue for Tplain {
    fn to_value(&self) -> Value {
        Value::Seq(vec![
            Some(self.p.to_value()),
            Some(self.q.to_value()),
        ])
    }
}
impl FromValue for Tsmall { fn from_value(v: &Value) -> Self { Tsmall(FromValue::from_value(v)) } }
impl ToValue for Tsmall { fn to_value(&self) -> Value { self.0.to_value() } }
impl FromValue for Textref {
    fn from_value(v: &Value) -> Self {
        let s = match v { Value::Seq(s) => s, other => panic!("Textref: expected Seq, got {other:?}") };
        assert_eq!(s.len(), 5, "Textref: component count");
        let _ = s;
        Textref {
            s: FromValue::from_value(s[0].as_ref().expect("component s of Textref must be present")),
            i: FromValue::from_value(s[1].as_ref().expect("component i of Textref must be present")),
            o: s[2].as_ref().map(FromValue::from_value),
            x: s[3].as_ref().map(FromValue::from_value),
            y: s[4].as_ref().map(FromValue::from_value),
        }
    }
}
impl ToValue for Textref {
    fn to_value(&self) -> Value {
        Value::Seq(vec![
            Some(self.s.to_value()),
            Some(self.i.to_value()),
            self.o.as_ref().map(|x| x.to_value()),
            self.x.as_ref().map(|x| x.to_value()),
            self.y.as_ref().map(|x| x.to_value()),
        ])
    }
}
impl FromValue for Textrefset {
    fn from_value(v: &Value) -> Self {
        let s = match v { Value::Seq(s) => s, other => panic!("Textrefset: expected Seq, got {other:?}") };
        assert_eq!(s.len(), 3, "Textrefset: component count");
        let _ = s;
        Textrefset {
            i: FromValue::from_value(s[0].as_ref().expect("component i of Textrefset must be present")),
            s: FromValue::from_value(s[1].as_ref().expect("component s of Textrefset must be present")),
            x: s[2].as_ref().map(FromValue::from_value),
        }
    }
}
impl ToValue for Textrefset {
    fn to_value(&self) -> Value {
        Value::Seq(vec![
            Some(self.i.to_value()),
            Some(self.s.to_value()),
            self.x.as_ref().map(|x| x.to_value()),
        ])
    }
}
impl FromValue for Tbits21then {
    fn from_value(v: &Value) -> Self {
        let s = match v { Value::Seq(s) => s, other => panic!("Tbits21then: expected Seq, got {other:?}") };
        assert_eq!(s.len(), 3, "Tbits21then: component count");
        let _ = s;
        Tbits21then {
            b: FromValue::from_value(s[0].as_ref().expect("component b of Tbits21then must be present")),
            t: FromValue::from_value(s[1].as_ref().expect("component t of Tbits21then must be present")),
            i: FromValue::from_value(s[2].as_ref().expect("component i of Tbits21then must be present")),
        }
    }
}
impl ToValue for Tbits21then {
    fn to_value(&self) -> Value {
        Value::Seq(vec![
            Some(self.b.to_value()),
            Some(self.t.to_value()),
            Some(self.i.to_value()),
        ])
    }
}
impl FromValue for Tbits70then {
    fn from_value(v: &Value) -> Self {
        let s = match v { Value::Seq(s) => s, other => panic!("Tbits70then: expected Seq, got {other:?}") };
        assert_eq!(s.len(), 2, "Tbits70then: component count");
        let _ = s;
        Tbits70then {
            b: FromValue::from_value(s[0].as_ref().expect("component b of Tbits70then must be present")),
            i: FromValue::from_value(s[1].as_ref().expect("component i of Tbits70then must be present")),
        }
    }
}
impl ToValue for Tbits70then {
    fn to_value(&self) -> Value {
        Value::Seq(vec![
            Some(self.b.to_value()),
            Some(self.i.to_value()),
        ])
    }
}
impl FromValue for Tbitsanythen {
    fn from_value(v: &Value) -> Self {
        let s = match v { Value::Seq(s) => s, other => panic!("Tbitsanythen: expected Seq, got {other:?}") };
        assert_eq!(s.len(), 2, "Tbitsanythen: component count");
        let _ = s;
        Tbitsanythen {
            b: FromValue::from_value(s[0].as_ref().expect("component b of Tbitsanythen must be present")),
            i: FromValue::from_value(s[1].as_ref().expect("component i of Tbitsanythen must be present")),
        }
    }
}
impl ToValue for Tbitsanythen {
    fn to_value(&self) -> Value {
        Value::Seq(vec![
            Some(self.b.to_value()),
            Some(self.i.to_value()),
        ])
    }
}
impl FromValue for Tnullroot {
    fn from_value(v: &Value) -> Self {
        let s = match v { Value::Seq(s) => s, other => panic!("Tnullroot: expected Seq, got {other:?}") };
        assert_eq!(s.len(), 4, "Tnullroot: component count");
        let _ = s;
        Tnullroot {
            n: FromValue::from_value(s[0].as_ref().expect("component n of Tnullroot must be present")),
            x: FromValue::from_value(s[1].as_ref().expect("component x of Tnullroot must be present")),
            a: s[2].as_ref().map(FromValue::from_value),
            b: s[3].as_ref().map(FromValue::from_value),
        }
    }
}
impl ToValue for Tnullroot {
    fn to_value(&self) -> Value {
        Value::Seq(vec![
            Some(self.n.to_value()),
            Some(self.x.to_value()),
            self.a.as_ref().map(|x| x.to_value()),
            self.b.as_ref().map(|x| x.to_value()),
        ])
    }
}
impl FromValue for Tfixroot {
    fn from_value(v: &Value) -> Self {
        let s = match v { Value::Seq(s) => s, other => panic!("Tfixroot: expected Seq, got {other:?}") };
        assert_eq!(s.len(), 4, "Tfixroot: component count");
        let _ = s;
        Tfixroot {
            v: FromValue::from_value(s[0].as_ref().expect("component v of Tfixroot must be present")),
            x: FromValue::from_value(s[1].as_ref().expect("component x of Tfixroot must be present")),
            a: s[2].as_ref().map(FromValue::from_value),
            b: s[3].as_ref().map(FromValue::from_value),
        }
    }
}
impl ToValue for Tfixroot {
    fn to_value(&self) -> Value {
        Value::Seq(vec![
            Some(self.v.to_value()),
            Some(self.x.to_value()),
            self.a.as_ref().map(|x| x.to_value()),
            self.b.as_ref().map(|x| x.to_value()),
        ])
    }
}
impl FromValue for Tnulloptroot {
    fn from_value(v: &Value) -> Self {
        let s = match v { Value::Seq(s) => s, other => panic!("Tnulloptroot: expected Seq, got {other:?}") };
        assert_eq!(s.len(), 3, "Tnulloptroot: component count");
        let _ = s;
        Tnulloptroot {
            n: s[0].as_ref().map(FromValue::from_value),
            x: FromValue::from_value(s[1].as_ref().expect("component x of Tnulloptroot must be present")),
            a: s[2].as_ref().map(FromValue::from_value),
        }
    }
}
impl ToValue for Tnulloptroot {
    fn to_value(&self) -> Value {
        Value::Seq(vec![
            self.n.as_ref().map(|x| x.to_value()),
            Some(self.x.to_value()),
            self.a.as_ref().map(|x| x.to_value()),
        ])
    }
}
impl FromValue for Tempty { fn from_value(_: &Value) -> Self { Tempty } }
impl ToValue for Tempty { fn to_value(&self) -> Value { Value::Seq(vec![]) } }
impl FromValue for TzerobitsEn {
    fn from_value(v: &Value) -> Self {
        match v {
            Value::Enum(0) => TzerobitsEn::E0,
            other => panic!("TzerobitsEn: bad enum value {other:?}"),
        }
    }
}
impl ToValue for TzerobitsEn {
    fn to_value(&self) -> Value {
        match self {
            TzerobitsEn::E0 => Value::Enum(0),
        }
    }
}
impl FromValue for Tzerobits {
    fn from_value(v: &Value) -> Self {
        let s = match v { Value::Seq(s) => s, other => panic!("Tzerobits: expected Seq, got {other:?}") };
        assert_eq!(s.len(), 8, "Tzerobits: component count");
        let _ = s;
        Tzerobits {
            e: FromValue::from_value(s[0].as_ref().expect("component e of Tzerobits must be present")),
            o: FromValue::from_value(s[1].as_ref().expect("component o of Tzerobits must be present")),
            en: FromValue::from_value(s[2].as_ref().expect("component en of Tzerobits must be present")),
            s: FromValue::from_value(s[3].as_ref().expect("component s of Tzerobits must be present")),
            l: FromValue::from_value(s[4].as_ref().expect("component l of Tzerobits must be present")),
            x: FromValue::from_value(s[5].as_ref().expect("component x of Tzerobits must be present")),
            a: s[6].as_ref().map(FromValue::from_value),
            b: s[7].as_ref().map(FromValue::from_value),
        }
    }
}
impl ToValue for Tzerobits {
    fn to_value(&self) -> Value {
        Value::Seq(vec![
            Some(self.e.to_value()),
            Some(self.o.to_value()),
            Some(self.en.to_value()),
            Some(self.s.to_value()),
            Some(self.l.to_value()),
            Some(self.x.to_value()),
            self.a.as_ref().map(|x| x.to_value()),
            self.b.as_ref().map(|x| x.to_value()),
        ])
    }
}
impl FromValue for Tenumx70 {
    fn from_value(v: &Value) -> Self {
        match v {
            Value::Enum(0) => Tenumx70::R0,
            Value::Enum(1) => Tenumx70::R1,
            Value::Enum(2) => Tenumx70::X0,
            Value::Enum(3) => Tenumx70::X1,
            Value::Enum(4) => Tenumx70::X2,
            Value::Enum(5) => Tenumx70::X3,
            Value::Enum(6) => Tenumx70::X4,
            Value::Enum(7) => Tenumx70::X5,
            Value::Enum(8) => Tenumx70::X6,
            Value::Enum(9) => Tenumx70::X7,
            Value::Enum(10) => Tenumx70::X8,
            Value::Enum(11) => Tenumx70::X9,
            Value::Enum(12) => Tenumx70::X10,
            Value::Enum(13) => Tenumx70::X11,
            Value::Enum(14) => Tenumx70::X12,
            Value::Enum(15) => Tenumx70::X13,
            Value::Enum(16) => Tenumx70::X14,
            Value::Enum(17) => Tenumx70::X15,
            Value::Enum(18) => Tenumx70::X16,
            Value::Enum(19) => Tenumx70::X17,
            Value::Enum(20) => Tenumx70::X18,
            Value::Enum(21) => Tenumx70::X19,
            Value::Enum(22) => Tenumx70::X20,
            Value::Enum(23) => Tenumx70::X21,
            Value::Enum(24) => Tenumx70::X22,
            Value::Enum(25) => Tenumx70::X23,
            Value::Enum(26) => Tenumx70::X24,
            Value::Enum(27) => Tenumx70::X25,
            Value::Enum(28) => Tenumx70::X26,
            Value::Enum(29) => Tenumx70::X27,
            Value::Enum(30) => Tenumx70::X28,
            Value::Enum(31) => Tenumx70::X29,
            Value::Enum(32) => Tenumx70::X30,
            Value::Enum(33) => Tenumx70::X31,
            Value::Enum(34) => Tenumx70::X32,
            Value::Enum(35) => Tenumx70::X33,
            Value::Enum(36) => Tenumx70::X34,
            Value::Enum(37) => Tenumx70::X35,
            Value::Enum(38) => Tenumx70::X36,
            Value::Enum(39) => Tenumx70::X37,
            Value::Enum(40) => Tenumx70::X38,
            Value::Enum(41) => Tenumx70::X39,
            Value::Enum(42) => Tenumx70::X40,
            Value::Enum(43) => Tenumx70::X41,
            Value::Enum(44) => Tenumx70::X42,
            Value::Enum(45) => Tenumx70::X43,
            Value::Enum(46) => Tenumx70::X44,
            Value::Enum(47) => Tenumx70::X45,
            Value::Enum(48) => Tenumx70::X46,
            Value::Enum(49) => Tenumx70::X47,
            Value::Enum(50) => Tenumx70::X48,
            Value::Enum(51) => Tenumx70::X49,
            Value::Enum(52) => Tenumx70::X50,
            Value::Enum(53) => Tenumx70::X51,
            Value::Enum(54) => Tenumx70::X52,
            Value::Enum(55) => Tenumx70::X53,
            Value::Enum(56) => Tenumx70::X54,
            Value::Enum(57) => Tenumx70::X55,
            Value::Enum(58) => Tenumx70::X56,
            Value::Enum(59) => Tenumx70::X57,
            Value::Enum(60) => Tenumx70::X58,
            Value::Enum(61) => Tenumx70::X59,
            Value::Enum(62) => Tenumx70::X60,
            Value::Enum(63) => Tenumx70::X61,
            Value::Enum(64) => Tenumx70::X62,
            Value::Enum(65) => Tenumx70::X63,
            Value::Enum(66) => Tenumx70::X64,
            Value::Enum(67) => Tenumx70::X65,
            Value::Enum(68) => Tenumx70::X66,
            Value::Enum(69) => Tenumx70::X67,
            Value::Enum(70) => Tenumx70::X68,
            Value::Enum(71) => Tenumx70::X69,
            other => panic!("Tenumx70: bad enum value {other:?}"),
        }
    }
}
impl ToValue for Tenumx70 {
    fn to_value(&self) -> Value {
        match self {
            Tenumx70::R0 => Value::Enum(0),
            Tenumx70::R1 => Value::Enum(1),
            Tenumx70::X0 => Value::Enum(2),
            Tenumx70::X1 => Value::Enum(3),
            Tenumx70::X2 => Value::Enum(4),
            Tenumx70::X3 => Value::Enum(5),
            Tenumx70::X4 => Value::Enum(6),
            Tenumx70::X5 => Value::Enum(7),
            Tenumx70::X6 => Value::Enum(8),
            Tenumx70::X7 => Value::Enum(9),
            Tenumx70::X8 => Value::Enum(10),
            Tenumx70::X9 => Value::Enum(11),
            Tenumx70::X10 => Value::Enum(12),
            Tenumx70::X11 => Value::Enum(13),
            Tenumx70::X12 => Value::Enum(14),
            Tenumx70::X13 => Value::Enum(15),
            Tenumx70::X14 => Value::Enum(16),
            Tenumx70::X15 => Value::Enum(17),
            Tenumx70::X16 => Value::Enum(18),
            Tenumx70::X17 => Value::Enum(19),
            Tenumx70::X18 => Value::Enum(20),
            Tenumx70::X19 => Value::Enum(21),
            Tenumx70::X20 => Value::Enum(22),
            Tenumx70::X21 => Value::Enum(23),
            Tenumx70::X22 => Value::Enum(24),
            Tenumx70::X23 => Value::Enum(25),
            Tenumx70::X24 => Value::Enum(26),
            Tenumx70::X25 => Value::Enum(27),
            Tenumx70::X26 => Value::Enum(28),
            Tenumx70::X27 => Value::Enum(29),
            Tenumx70::X28 => Value::Enum(30),
            Tenumx70::X29 => Value::Enum(31),
            Tenumx70::X30 => Value::Enum(32),
            Tenumx70::X31 => Value::Enum(33),
            Tenumx70::X32 => Value::Enum(34),
            Tenumx70::X33 => Value::Enum(35),
            Tenumx70::X34 => Value::Enum(36),
            Tenumx70::X35 => Value::Enum(37),
            Tenumx70::X36 => Value::Enum(38),
            Tenumx70::X37 => Value::Enum(39),
            Tenumx70::X38 => Value::Enum(40),
            Tenumx70::X39 => Value::Enum(41),
            Tenumx70::X40 => Value::Enum(42),
            Tenumx70::X41 => Value::Enum(43),
            Tenumx70::X42 => Value::Enum(44),
            Tenumx70::X43 => Value::Enum(45),
            Tenumx70::X44 => Value::Enum(46),
            Tenumx70::X45 => Value::Enum(47),
            Tenumx70::X46 => Value::Enum(48),
            Tenumx70::X47 => Value::Enum(49),
            Tenumx70::X48 => Value::Enum(50),
            Tenumx70::X49 => Value::Enum(51),
            Tenumx70::X50 => Value::Enum(52),
            Tenumx70::X51 => Value::Enum(53),
            Tenumx70::X52 => Value::Enum(54),
            Tenumx70::X53 => Value::Enum(55),
            Tenumx70::X54 => Value::Enum(56),
            Tenumx70::X55 => Value::Enum(57),
            Tenumx70::X56 => Value::Enum(58),
            Tenumx70::X57 => Value::Enum(59),
            Tenumx70::X58 => Value::Enum(60),
            Tenumx70::X59 => Value::Enum(61),
            Tenumx70::X60 => Value::Enum(62),
            Tenumx70::X61 => Value::Enum(63),
            Tenumx70::X62 => Value::Enum(64),
            Tenumx70::X63 => Value::Enum(65),
            Tenumx70::X64 => Value::Enum(66),
            Tenumx70::X65 => Value::Enum(67),
            Tenumx70::X66 => Value::Enum(68),
            Tenumx70::X67 => Value::Enum(69),
            Tenumx70::X68 => Value::Enum(70),
            Tenumx70::X69 => Value::Enum(71),
        }
    }
}
impl FromValue for Tchoicex70 {
    fn from_value(v: &Value) -> Self {
        let (i, inner) = match v { Value::Choice(i, inner) => (*i, &**inner), other => panic!("Tchoicex70: expected Choice, got {other:?}") };
        match i {
            0 => Tchoicex70::R0(FromValue::from_value(inner)),
            1 => Tchoicex70::X0(FromValue::from_value(inner)),
            2 => Tchoicex70::X1(FromValue::from_value(inner)),
            3 => Tchoicex70::X2(FromValue::from_value(inner)),
            4 => Tchoicex70::X3(FromValue::from_value(inner)),
            5 => Tchoicex70::X4(FromValue::from_value(inner)),
            6 => Tchoicex70::X5(FromValue::from_value(inner)),
            7 => Tchoicex70::X6(FromValue::from_value(inner)),
            8 => Tchoicex70::X7(FromValue::from_value(inner)),
            9 => Tchoicex70::X8(FromValue::from_value(inner)),
            10 => Tchoicex70::X9(FromValue::from_value(inner)),
            11 => Tchoicex70::X10(FromValue::from_value(inner)),
            12 => Tchoicex70::X11(FromValue::from_value(inner)),
            13 => Tchoicex70::X12(FromValue::from_value(inner)),
            14 => Tchoicex70::X13(FromValue::from_value(inner)),
            15 => Tchoicex70::X14(FromValue::from_value(inner)),
            16 => Tchoicex70::X15(FromValue::from_value(inner)),
            17 => Tchoicex70::X16(FromValue::from_value(inner)),
            18 => Tchoicex70::X17(FromValue::from_value(inner)),
            19 => Tchoicex70::X18(FromValue::from_value(inner)),
            20 => Tchoicex70::X19(FromValue::from_value(inner)),
            21 => Tchoicex70::X20(FromValue::from_value(inner)),
            22 => Tchoicex70::X21(FromValue::from_value(inner)),
            23 => Tchoicex70::X22(FromValue::from_value(inner)),
            24 => Tchoicex70::X23(FromValue::from_value(inner)),
            25 => Tchoicex70::X24(FromValue::from_value(inner)),
            26 => Tchoicex70::X25(FromValue::from_value(inner)),
            27 => Tchoicex70::X26(FromValue::from_value(inner)),
            28 => Tchoicex70::X27(FromValue::from_value(inner)),
            29 => Tchoicex70::X28(FromValue::from_value(inner)),
            30 => Tchoicex70::X29(FromValue::from_value(inner)),
            31 => Tchoicex70::X30(FromValue::from_value(inner)),
            32 => Tchoicex70::X31(FromValue::from_value(inner)),
            33 => Tchoicex70::X32(FromValue::from_value(inner)),
            34 => Tchoicex70::X33(FromValue::from_value(inner)),
            35 => Tchoicex70::X34(FromValue::from_value(inner)),
            36 => Tchoicex70::X35(FromValue::from_value(inner)),
            37 => Tchoicex70::X36(FromValue::from_value(inner)),
            38 => Tchoicex70::X37(FromValue::from_value(inner)),
            39 => Tchoicex70::X38(FromValue::from_value(inner)),
            40 => Tchoicex70::X39(FromValue::from_value(inner)),
            41 => Tchoicex70::X40(FromValue::from_value(inner)),
            42 => Tchoicex70::X41(FromValue::from_value(inner)),
            43 => Tchoicex70::X42(FromValue::from_value(inner)),
            44 => Tchoicex70::X43(FromValue::from_value(inner)),
            45 => Tchoicex70::X44(FromValue::from_value(inner)),
            46 => Tchoicex70::X45(FromValue::from_value(inner)),
            47 => Tchoicex70::X46(FromValue::from_value(inner)),
            48 => Tchoicex70::X47(FromValue::from_value(inner)),
            49 => Tchoicex70::X48(FromValue::from_value(inner)),
            50 => Tchoicex70::X49(FromValue::from_value(inner)),
            51 => Tchoicex70::X50(FromValue::from_value(inner)),
            52 => Tchoicex70::X51(FromValue::from_value(inner)),
            53 => Tchoicex70::X52(FromValue::from_value(inner)),
            54 => Tchoicex70::X53(FromValue::from_value(inner)),
            55 => Tchoicex70::X54(FromValue::from_value(inner)),
            56 => Tchoicex70::X55(FromValue::from_value(inner)),
            57 => Tchoicex70::X56(FromValue::from_value(inner)),
            58 => Tchoicex70::X57(FromValue::from_value(inner)),
            59 => Tchoicex70::X58(FromValue::from_value(inner)),
            60 => Tchoicex70::X59(FromValue::from_value(inner)),
            61 => Tchoicex70::X60(FromValue::from_value(inner)),
            62 => Tchoicex70::X61(FromValue::from_value(inner)),
            63 => Tchoicex70::X62(FromValue::from_value(inner)),
            64 => Tchoicex70::X63(FromValue::from_value(inner)),
            65 => Tchoicex70::X64(FromValue::from_value(inner)),
            66 => Tchoicex70::X65(FromValue::from_value(inner)),
            67 => Tchoicex70::X66(FromValue::from_value(inner)),
            68 => Tchoicex70::X67(FromValue::from_value(inner)),
            69 => Tchoicex70::X68(FromValue::from_value(inner)),
            70 => Tchoicex70::X69(FromValue::from_value(inner)),
            _ => panic!("Tchoicex70: alternative index {i} out of range"),
        }
    }
}
impl ToValue for Tchoicex70 {
    fn to_value(&self) -> Value {
        match self {
            Tchoicex70::R0(x) => Value::Choice(0, Box::new(x.to_value())),
            Tchoicex70::X0(x) => Value::Choice(1, Box::new(x.to_value())),
            Tchoicex70::X1(x) => Value::Choice(2, Box::new(x.to_value())),
            Tchoicex70::X2(x) => Value::Choice(3, Box::new(x.to_value())),
            Tchoicex70::X3(x) => Value::Choice(4, Box::new(x.to_value())),
            Tchoicex70::X4(x) => Value::Choice(5, Box::new(x.to_value())),
            Tchoicex70::X5(x) => Value::Choice(6, Box::new(x.to_value())),
            Tchoicex70::X6(x) => Value::Choice(7, Box::new(x.to_value())),
            Tchoicex70::X7(x) => Value::Choice(8, Box::new(x.to_value())),
            Tchoicex70::X8(x) => Value::Choice(9, Box::new(x.to_value())),
            Tchoicex70::X9(x) => Value::Choice(10, Box::new(x.to_value())),
            Tchoicex70::X10(x) => Value::Choice(11, Box::new(x.to_value())),
            Tchoicex70::X11(x) => Value::Choice(12, Box::new(x.to_value())),
            Tchoicex70::X12(x) => Value::Choice(13, Box::new(x.to_value())),
            Tchoicex70::X13(x) => Value::Choice(14, Box::new(x.to_value())),
            Tchoicex70::X14(x) => Value::Choice(15, Box::new(x.to_value())),
            Tchoicex70::X15(x) => Value::Choice(16, Box::new(x.to_value())),
            Tchoicex70::X16(x) => Value::Choice(17, Box::new(x.to_value())),
            Tchoicex70::X17(x) => Value::Choice(18, Box::new(x.to_value())),
            Tchoicex70::X18(x) => Value::Choice(19, Box::new(x.to_value())),
            Tchoicex70::X19(x) => Value::Choice(20, Box::new(x.to_value())),
            Tchoicex70::X20(x) => Value::Choice(21, Box::new(x.to_value())),
            Tchoicex70::X21(x) => Value::Choice(22, Box::new(x.to_value())),
            Tchoicex70::X22(x) => Value::Choice(23, Box::new(x.to_value())),
            Tchoicex70::X23(x) => Value::Choice(24, Box::new(x.to_value())),
            Tchoicex70::X24(x) => Value::Choice(25, Box::new(x.to_value())),
            Tchoicex70::X25(x) => Value::Choice(26, Box::new(x.to_value())),
            Tchoicex70::X26(x) => Value::Choice(27, Box::new(x.to_value())),
            Tchoicex70::X27(x) => Value::Choice(28, Box::new(x.to_value())),
            Tchoicex70::X28(x) => Value::Choice(29, Box::new(x.to_value())),
            Tchoicex70::X29(x) => Value::Choice(30, Box::new(x.to_value())),
            Tchoicex70::X30(x) => Value::Choice(31, Box::new(x.to_value())),
            Tchoicex70::X31(x) => Value::Choice(32, Box::new(x.to_value())),
            Tchoicex70::X32(x) => Value::Choice(33, Box::new(x.to_value())),
            Tchoicex70::X33(x) => Value::Choice(34, Box::new(x.to_value())),
            Tchoicex70::X34(x) => Value::Choice(35, Box::new(x.to_value())),
            Tchoicex70::X35(x) => Value::Choice(36, Box::new(x.to_value())),
            Tchoicex70::X36(x) => Value::Choice(37, Box::new(x.to_value())),
            Tchoicex70::X37(x) => Value::Choice(38, Box::new(x.to_value())),
            Tchoicex70::X38(x) => Value::Choice(39, Box::new(x.to_value())),
            Tchoicex70::X39(x) => Value::Choice(40, Box::new(x.to_value())),
            Tchoicex70::X40(x) => Value::Choice(41, Box::new(x.to_value())),
            Tchoicex70::X41(x) => Value::Choice(42, Box::new(x.to_value())),
            Tchoicex70::X42(x) => Value::Choice(43, Box::new(x.to_value())),
            Tchoicex70::X43(x) => Value::Choice(44, Box::new(x.to_value())),
            Tchoicex70::X44(x) => Value::Choice(45, Box::new(x.to_value())),
            Tchoicex70::X45(x) => Value::Choice(46, Box::new(x.to_value())),
            Tchoicex70::X46(x) => Value::Choice(47, Box::new(x.to_value())),
            Tchoicex70::X47(x) => Value::Choice(48, Box::new(x.to_value())),
            Tchoicex70::X48(x) => Value::Choice(49, Box::new(x.to_value())),
            Tchoicex70::X49(x) => Value::Choice(50, Box::new(x.to_value())),
            Tchoicex70::X50(x) => Value::Choice(51, Box::new(x.to_value())),
            Tchoicex70::X51(x) => Value::Choice(52, Box::new(x.to_value())),
            Tchoicex70::X52(x) => Value::Choice(53, Box::new(x.to_value())),
            Tchoicex70::X53(x) => Value::Choice(54, Box::new(x.to_value())),
            Tchoicex70::X54(x) => Value::Choice(55, Box::new(x.to_value())),
            Tchoicex70::X55(x) => Value::Choice(56, Box::new(x.to_value())),
            Tchoicex70::X56(x) => Value::Choice(57, Box::new(x.to_value())),
            Tchoicex70::X57(x) => Value::Choice(58, Box::new(x.to_value())),
            Tchoicex70::X58(x) => Value::Choice(59, Box::new(x.to_value())),
            Tchoicex70::X59(x) => Value::Choice(60, Box::new(x.to_value())),
            Tchoicex70::X60(x) => Value::Choice(61, Box::new(x.to_value())),
            Tchoicex70::X61(x) => Value::Choice(62, Box::new(x.to_value())),
            Tchoicex70::X62(x) => Value::Choice(63, Box::new(x.to_value())),
            Tchoicex70::X63(x) => Value::Choice(64, Box::new(x.to_value())),
            Tchoicex70::X64(x) => Value::Choice(65, Box::new(x.to_value())),
            Tchoicex70::X65(x) => Value::Choice(66, Box::new(x.to_value())),
            Tchoicex70::X66(x) => Value::Choice(67, Box::new(x.to_value())),
            Tchoicex70::X67(x) => Value::Choice(68, Box::new(x.to_value())),
            Tchoicex70::X68(x) => Value::Choice(69, Box::new(x.to_value())),
            Tchoicex70::X69(x) => Value::Choice(70, Box::new(x.to_value())),
        }
    }
}
impl FromValue for Tref1 { fn from_value(v: &Value) -> Self { Tref1(FromValue::from_value(v)) } }
impl ToValue for Tref1 { fn to_value(&self) -> Value { self.0.to_value() } }
impl FromValue for Tref2 { fn from_value(v: &Value) -> Self { Tref2(FromValue::from_value(v)) } }
impl ToValue for Tref2 { fn to_value(&self) -> Value { self.0.to_value() } }
impl FromValue for TinlinePick {
    fn from_value(v: &Value) -> Self {
        let (i, inner) = match v { Value::Choice(i, inner) => (*i, &**inner), other => panic!("TinlinePick: expected Choice, got {other:?}") };
        match i {
            0 => TinlinePick::I(FromValue::from_value(inner)),
            1 => TinlinePick::S(FromValue::from_value(inner)),
            _ => panic!("TinlinePick: alternative index {i} out of range"),
        }
    }
}
impl ToValue for TinlinePick {
    fn to_value(&self) -> Value {
        match self {
            TinlinePick::I(x) => Value::Choice(0, Box::new(x.to_value())),
            TinlinePick::S(x) => Value::Choice(1, Box::new(x.to_value())),
        }
    }
}
impl FromValue for TinlineEn {
    fn from_value(v: &Value) -> Self {
        match v {
            Value::Enum(0) => TinlineEn::E0,
            Value::Enum(1) => TinlineEn::E1,
            Value::Enum(2) => TinlineEn::E2,
            other => panic!("TinlineEn: bad enum value {other:?}"),
        }
    }
}
impl ToValue for TinlineEn {
    fn to_value(&self) -> Value {
        match self {
            TinlineEn::E0 => Value::Enum(0),
            TinlineEn::E1 => Value::Enum(1),
            TinlineEn::E2 => Value::Enum(2),
        }
    }
}
impl FromValue for TinlineSq {
    fn from_value(v: &Value) -> Self {
        let s = match v { Value::Seq(s) => s, other => panic!("TinlineSq: expected Seq, got {other:?}") };
        assert_eq!(s.len(), 1, "TinlineSq: component count");
        let _ = s;
        TinlineSq {
            z: FromValue::from_value(s[0].as_ref().expect("component z of TinlineSq must be present")),
        }
    }
}
impl ToValue for TinlineSq {
    fn to_value(&self) -> Value {
        Value::Seq(vec![
            Some(self.z.to_value()),
        ])
    }
}
impl FromValue for Tinline {
    fn from_value(v: &Value) -> Self {
        let s = match v { Value::Seq(s) => s, other => panic!("Tinline: expected Seq, got {other:?}") };
        assert_eq!(s.len(), 3, "Tinline: component count");
        let _ = s;
        Tinline {
            pick: FromValue::from_value(s[0].as_ref().expect("component pick of Tinline must be present")),
            en: s[1].as_ref().map(FromValue::from_value),
            sq: FromValue::from_value(s[2].as_ref().expect("component sq of Tinline must be present")),
        }
    }
}
impl ToValue for Tinline {
    fn to_value(&self) -> Value {
        Value::Seq(vec![
            Some(self.pick.to_value()),
            self.en.as_ref().map(|x| x.to_value()),
            Some(self.sq.to_value()),
        ])
    }
}
impl FromValue for Tmix {
    fn from_value(v: &Value) -> Self {
        let s = match v { Value::Seq(s) => s, other => panic!("Tmix: expected Seq, got {other:?}") };
        assert_eq!(s.len(), 4, "Tmix: component count");
        let _ = s;
        Tmix {
            o: s[0].as_ref().map(FromValue::from_value),
            b: FromValue::from_value(s[1].as_ref().expect("component b of Tmix must be present")),
            u: s[2].as_ref().map(FromValue::from_value),
            i: FromValue::from_value(s[3].as_ref().expect("component i of Tmix must be present")),
        }
    }
}
impl ToValue for Tmix {
    fn to_value(&self) -> Value {
        Value::Seq(vec![
            self.o.as_ref().map(|x| x.to_value()),
            Some(self.b.to_value()),
            self.u.as_ref().map(|x| x.to_value()),
            Some(self.i.to_value()),
        ])
    }
}

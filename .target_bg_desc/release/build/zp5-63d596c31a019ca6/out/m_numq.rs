use asn1rs::prelude::*;

#[asn(transparent)]

#[derive(Default, Debug, Clone, PartialEq, Hash)]
pub struct Tnumany(#[asn(numericstring)] pub String);

impl Tnumany {
}

impl Tnumany {
    pub const fn new(value: String) -> Self {
        Self(value)
    }
}

impl ::core::ops::Deref for Tnumany {
    type Target = String;

    fn deref(&self) -> &String {
        &self.0
    }
}

impl ::core::ops::DerefMut for Tnumany {
    fn deref_mut(&mut self) -> &mut String {
        &mut self.0
    }
}

impl ::core::convert::From<String> for Tnumany {
    fn from(value: String) -> Self {
        Self(value)
    }
}

impl ::core::convert::From<Tnumany> for String {
    fn from(value: Tnumany) -> Self {
        value.0
    }
}

#[asn(transparent)]

#[derive(Default, Debug, Clone, PartialEq, Hash)]
pub struct Tnumf1(#[asn(numericstring(size(1)))] pub String);

impl Tnumf1 {
}

impl Tnumf1 {
    pub const fn new(value: String) -> Self {
        Self(value)
    }
}

impl ::core::ops::Deref for Tnumf1 {
    type Target = String;

    fn deref(&self) -> &String {
        &self.0
    }
}

impl ::core::ops::DerefMut for Tnumf1 {
    fn deref_mut(&mut self) -> &mut String {
        &mut self.0
    }
}

impl ::core::convert::From<String> for Tnumf1 {
    fn from(value: String) -> Self {
        Self(value)
    }
}

impl ::core::convert::From<Tnumf1> for String {
    fn from(value: Tnumf1) -> Self {
        value.0
    }
}

#[asn(transparent)]

#[derive(Default, Debug, Clone, PartialEq, Hash)]
pub struct Tnumf3(#[asn(numericstring(size(3)))] pub String);

impl Tnumf3 {
}

impl Tnumf3 {
    pub const fn new(value: String) -> Self {
        Self(value)
    }
}

impl ::core::ops::Deref for Tnumf3 {
    type Target = String;

    fn deref(&self) -> &String {
        &self.0
    }
}

impl ::core::ops::DerefMut for Tnumf3 {
    fn deref_mut(&mut self) -> &mut String {
        &mut self.0
    }
}

impl ::core::convert::From<String> for Tnumf3 {
    fn from(value: String) -> Self {
        Self(value)
    }
}

impl ::core::convert::From<Tnumf3> for String {
    fn from(value: Tnumf3) -> Self {
        value.0
    }
}

#[asn(transparent)]

#[derive(Default, Debug, Clone, PartialEq, Hash)]
pub struct Tnumf65535(#[asn(numericstring(size(65535)))] pub String);

impl Tnumf65535 {
}

impl Tnumf65535 {
    pub const fn new(value: String) -> Self {
        Self(value)
    }
}

impl ::core::ops::Deref for Tnumf65535 {
    type Target = String;

    fn deref(&self) -> &String {
        &self.0
    }
}

impl ::core::ops::DerefMut for Tnumf65535 {
    fn deref_mut(&mut self) -> &mut String {
        &mut self.0
    }
}

impl ::core::convert::From<String> for Tnumf65535 {
    fn from(value: String) -> Self {
        Self(value)
    }
}

impl ::core::convert::From<Tnumf65535> for String {
    fn from(value: Tnumf65535) -> Self {
        value.0
    }
}

#[asn(transparent)]

#[derive(Default, Debug, Clone, PartialEq, Hash)]
pub struct Tnumf65536(#[asn(numericstring(size(65536)))] pub String);

impl Tnumf65536 {
}

impl Tnumf65536 {
    pub const fn new(value: String) -> Self {
        Self(value)
    }
}

impl ::core::ops::Deref for Tnumf65536 {
    type Target = String;

    fn deref(&self) -> &String {
        &self.0
    }
}

impl ::core::ops::DerefMut for Tnumf65536 {
    fn deref_mut(&mut self) -> &mut String {
        &mut self.0
    }
}

impl ::core::convert::From<String> for Tnumf65536 {
    fn from(value: String) -> Self {
        Self(value)
    }
}

impl ::core::convert::From<Tnumf65536> for String {
    fn from(value: Tnumf65536) -> Self {
        value.0
    }
}

#[asn(transparent)]

#[derive(Default, Debug, Clone, PartialEq, Hash)]
pub struct Tnumr1to4(#[asn(numericstring(size(1..4)))] pub String);

impl Tnumr1to4 {
}

impl Tnumr1to4 {
    pub const fn new(value: String) -> Self {
        Self(value)
    }
}

impl ::core::ops::Deref for Tnumr1to4 {
    type Target = String;

    fn deref(&self) -> &String {
        &self.0
    }
}

impl ::core::ops::DerefMut for Tnumr1to4 {
    fn deref_mut(&mut self) -> &mut String {
        &mut self.0
    }
}

impl ::core::convert::From<String> for Tnumr1to4 {
    fn from(value: String) -> Self {
        Self(value)
    }
}

impl ::core::convert::From<Tnumr1to4> for String {
    fn from(value: Tnumr1to4) -> Self {
        value.0
    }
}

#[asn(transparent)]

#[derive(Default, Debug, Clone, PartialEq, Hash)]
pub struct Tnumr4to6(#[asn(numericstring(size(4..6)))] pub String);

impl Tnumr4to6 {
}

impl Tnumr4to6 {
    pub const fn new(value: String) -> Self {
        Self(value)
    }
}

impl ::core::ops::Deref for Tnumr4to6 {
    type Target = String;

    fn deref(&self) -> &String {
        &self.0
    }
}

impl ::core::ops::DerefMut for Tnumr4to6 {
    fn deref_mut(&mut self) -> &mut String {
        &mut self.0
    }
}

impl ::core::convert::From<String> for Tnumr4to6 {
    fn from(value: String) -> Self {
        Self(value)
    }
}

impl ::core::convert::From<Tnumr4to6> for String {
    fn from(value: Tnumr4to6) -> Self {
        value.0
    }
}

#[asn(transparent)]

#[derive(Default, Debug, Clone, PartialEq, Hash)]
pub struct Tnumr1to70000(#[asn(numericstring(size(1..70000)))] pub String);

impl Tnumr1to70000 {
}

impl Tnumr1to70000 {
    pub const fn new(value: String) -> Self {
        Self(value)
    }
}

impl ::core::ops::Deref for Tnumr1to70000 {
    type Target = String;

    fn deref(&self) -> &String {
        &self.0
    }
}

impl ::core::ops::DerefMut for Tnumr1to70000 {
    fn deref_mut(&mut self) -> &mut String {
        &mut self.0
    }
}

impl ::core::convert::From<String> for Tnumr1to70000 {
    fn from(value: String) -> Self {
        Self(value)
    }
}

impl ::core::convert::From<Tnumr1to70000> for String {
    fn from(value: Tnumr1to70000) -> Self {
        value.0
    }
}

#[asn(transparent)]

#[derive(Default, Debug, Clone, PartialEq, Hash)]
pub struct Tnumr2tomax(#[asn(numericstring(size(2..9223372036854775807)))] pub String);

impl Tnumr2tomax {
}

impl Tnumr2tomax {
    pub const fn new(value: String) -> Self {
        Self(value)
    }
}

impl ::core::ops::Deref for Tnumr2tomax {
    type Target = String;

    fn deref(&self) -> &String {
        &self.0
    }
}

impl ::core::ops::DerefMut for Tnumr2tomax {
    fn deref_mut(&mut self) -> &mut String {
        &mut self.0
    }
}

impl ::core::convert::From<String> for Tnumr2tomax {
    fn from(value: String) -> Self {
        Self(value)
    }
}

impl ::core::convert::From<Tnumr2tomax> for String {
    fn from(value: Tnumr2tomax) -> Self {
        value.0
    }
}

#[asn(transparent)]

#[derive(Default, Debug, Clone, PartialEq, Hash)]
pub struct Tnumf3x(#[asn(numericstring(size(3,...)))] pub String);

impl Tnumf3x {
}

impl Tnumf3x {
    pub const fn new(value: String) -> Self {
        Self(value)
    }
}

impl ::core::ops::Deref for Tnumf3x {
    type Target = String;

    fn deref(&self) -> &String {
        &self.0
    }
}

impl ::core::ops::DerefMut for Tnumf3x {
    fn deref_mut(&mut self) -> &mut String {
        &mut self.0
    }
}

impl ::core::convert::From<String> for Tnumf3x {
    fn from(value: String) -> Self {
        Self(value)
    }
}

impl ::core::convert::From<Tnumf3x> for String {
    fn from(value: Tnumf3x) -> Self {
        value.0
    }
}

#[asn(transparent)]

#[derive(Default, Debug, Clone, PartialEq, Hash)]
pub struct Tnumr1to4x(#[asn(numericstring(size(1..4,...)))] pub String);

impl Tnumr1to4x {
}

impl Tnumr1to4x {
    pub const fn new(value: String) -> Self {
        Self(value)
    }
}

impl ::core::ops::Deref for Tnumr1to4x {
    type Target = String;

    fn deref(&self) -> &String {
        &self.0
    }
}

impl ::core::ops::DerefMut for Tnumr1to4x {
    fn deref_mut(&mut self) -> &mut String {
        &mut self.0
    }
}

impl ::core::convert::From<String> for Tnumr1to4x {
    fn from(value: String) -> Self {
        Self(value)
    }
}

impl ::core::convert::From<Tnumr1to4x> for String {
    fn from(value: Tnumr1to4x) -> Self {
        value.0
    }
}
// ---- harness conversions (generated by the zoo build script from the items above) ----
impl FromValue for Tnumany { fn from_value(v: &Value) -> Self { Tnumany(FromValue::from_value(v)) } }
impl ToValue for Tnumany { fn to_value(&self) -> Value { self.0.to_value() } }
impl FromValue for Tnumf1 { fn from_value(v: &Value) -> Self { Tnumf1(FromValue::from_value(v)) } }
impl ToValue for Tnumf1 { fn to_value(&self) -> Value { self.0.to_value() } }
impl FromValue for Tnumf3 { fn from_value(v: &Value) -> Self { Tnumf3(FromValue::from_value(v)) } }
impl ToValue for Tnumf3 { fn to_value(&self) -> Value { self.0.to_value() } }
impl FromValue for Tnumf65535 { fn from_value(v: &Value) -> Self { Tnumf65535(FromValue::from_value(v)) } }
impl ToValue for Tnumf65535 { fn to_value(&self) -> Value { self.0.to_value() } }
impl FromValue for Tnumf65536 { fn from_value(v: &Value) -> Self { Tnumf65536(FromValue::from_value(v)) } }
impl ToValue for Tnumf65536 { fn to_value(&self) -> Value { self.0.to_value() } }
impl FromValue for Tnumr1to4 { fn from_value(v: &Value) -> Self { Tnumr1to4(FromValue::from_value(v)) } }
impl ToValue for Tnumr1to4 { fn to_value(&self) -> Value { self.0.to_value() } }
impl FromValue for Tnumr4to6 { fn from_value(v: &Value) -> Self { Tnumr4to6(FromValue::from_value(v)) } }
impl ToValue for Tnumr4to6 { fn to_value(&self) -> Value { self.0.to_value() } }
impl FromValue for Tnumr1to70000 { fn from_value(v: &Value) -> Self { Tnumr1to70000(FromValue::from_value(v)) } }
impl ToValue for Tnumr1to70000 { fn to_value(&self) -> Value { self.0.to_value() } }
impl FromValue for Tnumr2tomax { fn from_value(v: &Value) -> Self { Tnumr2tomax(FromValue::from_value(v)) } }
impl ToValue for Tnumr2tomax { fn to_value(&self) -> Value { self.0.to_value() } }
impl FromValue for Tnumf3x { fn from_value(v: &Value) -> Self { Tnumf3x(FromValue::from_value(v)) } }
impl ToValue for Tnumf3x { fn to_value(&self) -> Value { self.0.to_value() } }
impl FromValue for Tnumr1to4x { fn from_value(v: &Value) -> Self { Tnumr1to4x(FromValue::from_value(v)) } }
impl ToValue for Tnumr1to4x { fn to_value(&self) -> Value { self.0.to_value() } }

use asn1rs::prelude::*;

#[asn(sequence)]

#[derive(Default, Debug, Clone, PartialEq, Hash)]
pub struct Ts4mdmdn {
    #[asn(integer(0..7))] pub f0: u8,
    #[asn(default(integer(0..7), 5))] pub f1: u8,
    #[asn(integer(0..7))] pub f2: u8,
    #[asn(default(integer(0..7), 5))] pub f3: u8,
}

impl Ts4mdmdn {
    pub const fn f0_min() -> u8 {
        0
    }

    pub const fn f0_max() -> u8 {
        7
    }

    pub const fn f1_min() -> u8 {
        0
    }

    pub const fn f1_max() -> u8 {
        7
    }

    pub const fn f2_min() -> u8 {
        0
    }

    pub const fn f2_max() -> u8 {
        7
    }

    pub const fn f3_min() -> u8 {
        0
    }

    pub const fn f3_max() -> u8 {
        7
    }
}

#[asn(sequence, extensible_after(f0))]

#[derive(Default, Debug, Clone, PartialEq, Hash)]
pub struct Ts4mdmde0 {
    #[asn(integer(0..7))] pub f0: u8,
    #[asn(default(integer(0..7), 5))] pub f1: u8,
    #[asn(optional(integer(0..7)))] pub f2: Option<u8>,
    #[asn(default(integer(0..7), 5))] pub f3: u8,
}

impl Ts4mdmde0 {
    pub const fn f0_min() -> u8 {
        0
    }

    pub const fn f0_max() -> u8 {
        7
    }

    pub const fn f1_min() -> u8 {
        0
    }

    pub const fn f1_max() -> u8 {
        7
    }

    pub const fn f2_min() -> u8 {
        0
    }

    pub const fn f2_max() -> u8 {
        7
    }

    pub const fn f3_min() -> u8 {
        0
    }

    pub const fn f3_max() -> u8 {
        7
    }
}

#[asn(sequence, extensible_after(f0))]

#[derive(Default, Debug, Clone, PartialEq, Hash)]
pub struct Ts4mdmde1 {
    #[asn(integer(0..7))] pub f0: u8,
    #[asn(default(integer(0..7), 5))] pub f1: u8,
    #[asn(optional(integer(0..7)))] pub f2: Option<u8>,
    #[asn(default(integer(0..7), 5))] pub f3: u8,
}

impl Ts4mdmde1 {
    pub const fn f0_min() -> u8 {
        0
    }

    pub const fn f0_max() -> u8 {
        7
    }

    pub const fn f1_min() -> u8 {
        0
    }

    pub const fn f1_max() -> u8 {
        7
    }

    pub const fn f2_min() -> u8 {
        0
    }

    pub const fn f2_max() -> u8 {
        7
    }

    pub const fn f3_min() -> u8 {
        0
    }

    pub const fn f3_max() -> u8 {
        7
    }
}

#[asn(sequence, extensible_after(f1))]

#[derive(Default, Debug, Clone, PartialEq, Hash)]
pub struct Ts4mdmde2 {
    #[asn(integer(0..7))] pub f0: u8,
    #[asn(default(integer(0..7), 5))] pub f1: u8,
    #[asn(optional(integer(0..7)))] pub f2: Option<u8>,
    #[asn(default(integer(0..7), 5))] pub f3: u8,
}

impl Ts4mdmde2 {
    pub const fn f0_min() -> u8 {
        0
    }

    pub const fn f0_max() -> u8 {
        7
    }

    pub const fn f1_min() -> u8 {
        0
    }

    pub const fn f1_max() -> u8 {
        7
    }

    pub const fn f2_min() -> u8 {
        0
    }

    pub const fn f2_max() -> u8 {
        7
    }

    pub const fn f3_min() -> u8 {
        0
    }

    pub const fn f3_max() -> u8 {
        7
    }
}

#[asn(sequence, extensible_after(f2))]

#[derive(Default, Debug, Clone, PartialEq, Hash)]
pub struct Ts4mdmde3 {
    #[asn(integer(0..7))] pub f0: u8,
    #[asn(default(integer(0..7), 5))] pub f1: u8,
    #[asn(integer(0..7))] pub f2: u8,
    #[asn(default(integer(0..7), 5))] pub f3: u8,
}

impl Ts4mdmde3 {
    pub const fn f0_min() -> u8 {
        0
    }

    pub const fn f0_max() -> u8 {
        7
    }

    pub const fn f1_min() -> u8 {
        0
    }

    pub const fn f1_max() -> u8 {
        7
    }

    pub const fn f2_min() -> u8 {
        0
    }

    pub const fn f2_max() -> u8 {
        7
    }

    pub const fn f3_min() -> u8 {
        0
    }

    pub const fn f3_max() -> u8 {
        7
    }
}

#[asn(sequence, extensible_after(f3))]

#[derive(Default, Debug, Clone, PartialEq, Hash)]
pub struct Ts4mdmde4 {
    #[asn(integer(0..7))] pub f0: u8,
    #[asn(default(integer(0..7), 5))] pub f1: u8,
    #[asn(integer(0..7))] pub f2: u8,
    #[asn(default(integer(0..7), 5))] pub f3: u8,
}

impl Ts4mdmde4 {
    pub const fn f0_min() -> u8 {
        0
    }

    pub const fn f0_max() -> u8 {
        7
    }

    pub const fn f1_min() -> u8 {
        0
    }

    pub const fn f1_max() -> u8 {
        7
    }

    pub const fn f2_min() -> u8 {
        0
    }

    pub const fn f2_max() -> u8 {
        7
    }

    pub const fn f3_min() -> u8 {
        0
    }

    pub const fn f3_max() -> u8 {
        7
    }
}

#[asn(sequence)]

#[derive(Default, Debug, Clone, PartialEq, Hash)]
pub struct Ts4odmdn {
    #[asn(optional(integer(0..7)))] pub f0: Option<u8>,
    #[asn(default(integer(0..7), 5))] pub f1: u8,
    #[asn(integer(0..7))] pub f2: u8,
    #[asn(default(integer(0..7), 5))] pub f3: u8,
}

impl Ts4odmdn {
    pub const fn f0_min() -> u8 {
        0
    }

    pub const fn f0_max() -> u8 {
        7
    }

    pub const fn f1_min() -> u8 {
        0
    }

    pub const fn f1_max() -> u8 {
        7
    }

    pub const fn f2_min() -> u8 {
        0
    }

    pub const fn f2_max() -> u8 {
        7
    }

    pub const fn f3_min() -> u8 {
        0
    }

    pub const fn f3_max() -> u8 {
        7
    }
}

#[asn(sequence, extensible_after(f0))]

#[derive(Default, Debug, Clone, PartialEq, Hash)]
pub struct Ts4odmde0 {
    #[asn(optional(integer(0..7)))] pub f0: Option<u8>,
    #[asn(default(integer(0..7), 5))] pub f1: u8,
    #[asn(optional(integer(0..7)))] pub f2: Option<u8>,
    #[asn(default(integer(0..7), 5))] pub f3: u8,
}

impl Ts4odmde0 {
    pub const fn f0_min() -> u8 {
        0
    }

    pub const fn f0_max() -> u8 {
        7
    }

    pub const fn f1_min() -> u8 {
        0
    }

    pub const fn f1_max() -> u8 {
        7
    }

    pub const fn f2_min() -> u8 {
        0
    }

    pub const fn f2_max() -> u8 {
        7
    }

    pub const fn f3_min() -> u8 {
        0
    }

    pub const fn f3_max() -> u8 {
        7
    }
}

#[asn(sequence, extensible_after(f0))]

#[derive(Default, Debug, Clone, PartialEq, Hash)]
pub struct Ts4odmde1 {
    #[asn(optional(integer(0..7)))] pub f0: Option<u8>,
    #[asn(default(integer(0..7), 5))] pub f1: u8,
    #[asn(optional(integer(0..7)))] pub f2: Option<u8>,
    #[asn(default(integer(0..7), 5))] pub f3: u8,
}

impl Ts4odmde1 {
    pub const fn f0_min() -> u8 {
        0
    }

    pub const fn f0_max() -> u8 {
        7
    }

    pub const fn f1_min() -> u8 {
        0
    }

    pub const fn f1_max() -> u8 {
        7
    }

    pub const fn f2_min() -> u8 {
        0
    }

    pub const fn f2_max() -> u8 {
        7
    }

    pub const fn f3_min() -> u8 {
        0
    }

    pub const fn f3_max() -> u8 {
        7
    }
}

#[asn(sequence, extensible_after(f1))]

#[derive(Default, Debug, Clone, PartialEq, Hash)]
pub struct Ts4odmde2 {
    #[asn(optional(integer(0..7)))] pub f0: Option<u8>,
    #[asn(default(integer(0..7), 5))] pub f1: u8,
    #[asn(optional(integer(0..7)))] pub f2: Option<u8>,
    #[asn(default(integer(0..7), 5))] pub f3: u8,
}

impl Ts4odmde2 {
    pub const fn f0_min() -> u8 {
        0
    }

    pub const fn f0_max() -> u8 {
        7
    }

    pub const fn f1_min() -> u8 {
        0
    }

    pub const fn f1_max() -> u8 {
        7
    }

    pub const fn f2_min() -> u8 {
        0
    }

    pub const fn f2_max() -> u8 {
        7
    }

    pub const fn f3_min() -> u8 {
        0
    }

    pub const fn f3_max() -> u8 {
        7
    }
}

#[asn(sequence, extensible_after(f2))]

#[derive(Default, Debug, Clone, PartialEq, Hash)]
pub struct Ts4odmde3 {
    #[asn(optional(integer(0..7)))] pub f0: Option<u8>,
    #[asn(default(integer(0..7), 5))] pub f1: u8,
    #[asn(integer(0..7))] pub f2: u8,
    #[asn(default(integer(0..7), 5))] pub f3: u8,
}

impl Ts4odmde3 {
    pub const fn f0_min() -> u8 {
        0
    }

    pub const fn f0_max() -> u8 {
        7
    }

    pub const fn f1_min() -> u8 {
        0
    }

    pub const fn f1_max() -> u8 {
        7
    }

    pub const fn f2_min() -> u8 {
        0
    }

    pub const fn f2_max() -> u8 {
        7
    }

    pub const fn f3_min() -> u8 {
        0
    }

    pub const fn f3_max() -> u8 {
        7
    }
}

#[asn(sequence, extensible_after(f3))]

#[derive(Default, Debug, Clone, PartialEq, Hash)]
pub struct Ts4odmde4 {
    #[asn(optional(integer(0..7)))] pub f0: Option<u8>,
    #[asn(default(integer(0..7), 5))] pub f1: u8,
    #[asn(integer(0..7))] pub f2: u8,
    #[asn(default(integer(0..7), 5))] pub f3: u8,
}

impl Ts4odmde4 {
    pub const fn f0_min() -> u8 {
        0
    }

    pub const fn f0_max() -> u8 {
        7
    }

    pub const fn f1_min() -> u8 {
        0
    }

    pub const fn f1_max() -> u8 {
        7
    }

    pub const fn f2_min() -> u8 {
        0
    }

    pub const fn f2_max() -> u8 {
        7
    }

    pub const fn f3_min() -> u8 {
        0
    }

    pub const fn f3_max() -> u8 {
        7
    }
}

#[asn(sequence)]

#[derive(Default, Debug, Clone, PartialEq, Hash)]
pub struct Ts4ddmdn {
    #[asn(default(integer(0..7), 5))] pub f0: u8,
    #[asn(default(integer(0..7), 5))] pub f1: u8,
    #[asn(integer(0..7))] pub f2: u8,
    #[asn(default(integer(0..7), 5))] pub f3: u8,
}

impl Ts4ddmdn {
    pub const fn f0_min() -> u8 {
        0
    }

    pub const fn f0_max() -> u8 {
        7
    }

    pub const fn f1_min() -> u8 {
        0
    }

    pub const fn f1_max() -> u8 {
        7
    }

    pub const fn f2_min() -> u8 {
        0
    }

    pub const fn f2_max() -> u8 {
        7
    }

    pub const fn f3_min() -> u8 {
        0
    }

    pub const fn f3_max() -> u8 {
        7
    }
}

#[asn(sequence, extensible_after(f0))]

#[derive(Default, Debug, Clone, PartialEq, Hash)]
pub struct Ts4ddmde0 {
    #[asn(default(integer(0..7), 5))] pub f0: u8,
    #[asn(default(integer(0..7), 5))] pub f1: u8,
    #[asn(optional(integer(0..7)))] pub f2: Option<u8>,
    #[asn(default(integer(0..7), 5))] pub f3: u8,
}

impl Ts4ddmde0 {
    pub const fn f0_min() -> u8 {
        0
    }

    pub const fn f0_max() -> u8 {
        7
    }

    pub const fn f1_min() -> u8 {
        0
    }

    pub const fn f1_max() -> u8 {
        7
    }

    pub const fn f2_min() -> u8 {
        0
    }

    pub const fn f2_max() -> u8 {
        7
    }

    pub const fn f3_min() -> u8 {
        0
    }

    pub const fn f3_max() -> u8 {
        7
    }
}

#[asn(sequence, extensible_after(f0))]

#[derive(Default, Debug, Clone, PartialEq, Hash)]
pub struct Ts4ddmde1 {
    #[asn(default(integer(0..7), 5))] pub f0: u8,
    #[asn(default(integer(0..7), 5))] pub f1: u8,
    #[asn(optional(integer(0..7)))] pub f2: Option<u8>,
    #[asn(default(integer(0..7), 5))] pub f3: u8,
}

impl Ts4ddmde1 {
    pub const fn f0_min() -> u8 {
        0
    }

    pub const fn f0_max() -> u8 {
        7
    }

    pub const fn f1_min() -> u8 {
        0
    }

    pub const fn f1_max() -> u8 {
        7
    }

    pub const fn f2_min() -> u8 {
        0
    }

    pub const fn f2_max() -> u8 {
        7
    }

    pub const fn f3_min() -> u8 {
        0
    }

    pub const fn f3_max() -> u8 {
        7
    }
}

#[asn(sequence, extensible_after(f1))]

#[derive(Default, Debug, Clone, PartialEq, Hash)]
pub struct Ts4ddmde2 {
    #[asn(default(integer(0..7), 5))] pub f0: u8,
    #[asn(default(integer(0..7), 5))] pub f1: u8,
    #[asn(optional(integer(0..7)))] pub f2: Option<u8>,
    #[asn(default(integer(0..7), 5))] pub f3: u8,
}

impl Ts4ddmde2 {
    pub const fn f0_min() -> u8 {
        0
    }

    pub const fn f0_max() -> u8 {
        7
    }

    pub const fn f1_min() -> u8 {
        0
    }

    pub const fn f1_max() -> u8 {
        7
    }

    pub const fn f2_min() -> u8 {
        0
    }

    pub const fn f2_max() -> u8 {
        7
    }

    pub const fn f3_min() -> u8 {
        0
    }

    pub const fn f3_max() -> u8 {
        7
    }
}

#[asn(sequence, extensible_after(f2))]

#[derive(Default, Debug, Clone, PartialEq, Hash)]
pub struct Ts4ddmde3 {
    #[asn(default(integer(0..7), 5))] pub f0: u8,
    #[asn(default(integer(0..7), 5))] pub f1: u8,
    #[asn(integer(0..7))] pub f2: u8,
    #[asn(default(integer(0..7), 5))] pub f3: u8,
}

impl Ts4ddmde3 {
    pub const fn f0_min() -> u8 {
        0
    }

    pub const fn f0_max() -> u8 {
        7
    }

    pub const fn f1_min() -> u8 {
        0
    }

    pub const fn f1_max() -> u8 {
        7
    }

    pub const fn f2_min() -> u8 {
        0
    }

    pub const fn f2_max() -> u8 {
        7
    }

    pub const fn f3_min() -> u8 {
        0
    }

    pub const fn f3_max() -> u8 {
        7
    }
}

#[asn(sequence, extensible_after(f3))]

#[derive(Default, Debug, Clone, PartialEq, Hash)]
pub struct Ts4ddmde4 {
    #[asn(default(integer(0..7), 5))] pub f0: u8,
    #[asn(default(integer(0..7), 5))] pub f1: u8,
    #[asn(integer(0..7))] pub f2: u8,
    #[asn(default(integer(0..7), 5))] pub f3: u8,
}

impl Ts4ddmde4 {
    pub const fn f0_min() -> u8 {
        0
    }

    pub const fn f0_max() -> u8 {
        7
    }

    pub const fn f1_min() -> u8 {
        0
    }

    pub const fn f1_max() -> u8 {
        7
    }

    pub const fn f2_min() -> u8 {
        0
    }

    pub const fn f2_max() -> u8 {
        7
    }

    pub const fn f3_min() -> u8 {
        0
    }

    pub const fn f3_max() -> u8 {
        7
    }
}

#[asn(sequence)]

#[derive(Default, Debug, Clone, PartialEq, Hash)]
pub struct Ts4mmodn {
    #[asn(integer(0..7))] pub f0: u8,
    #[asn(integer(0..7))] pub f1: u8,
    #[asn(optional(integer(0..7)))] pub f2: Option<u8>,
    #[asn(default(integer(0..7), 5))] pub f3: u8,
}

impl Ts4mmodn {
    pub const fn f0_min() -> u8 {
        0
    }

    pub const fn f0_max() -> u8 {
        7
    }

    pub const fn f1_min() -> u8 {
        0
    }

    pub const fn f1_max() -> u8 {
        7
    }

    pub const fn f2_min() -> u8 {
        0
    }

    pub const fn f2_max() -> u8 {
        7
    }

    pub const fn f3_min() -> u8 {
        0
    }

    pub const fn f3_max() -> u8 {
        7
    }
}

#[asn(sequence, extensible_after(f0))]

#[derive(Default, Debug, Clone, PartialEq, Hash)]
pub struct Ts4mmode0 {
    #[asn(integer(0..7))] pub f0: u8,
    #[asn(optional(integer(0..7)))] pub f1: Option<u8>,
    #[asn(optional(integer(0..7)))] pub f2: Option<u8>,
    #[asn(default(integer(0..7), 5))] pub f3: u8,
}

impl Ts4mmode0 {
    pub const fn f0_min() -> u8 {
        0
    }

    pub const fn f0_max() -> u8 {
        7
    }

    pub const fn f1_min() -> u8 {
        0
    }

    pub const fn f1_max() -> u8 {
        7
    }

    pub const fn f2_min() -> u8 {
        0
    }

    pub const fn f2_max() -> u8 {
        7
    }

    pub const fn f3_min() -> u8 {
        0
    }

    pub const fn f3_max() -> u8 {
        7
    }
}

#[asn(sequence, extensible_after(f0))]

#[derive(Default, Debug, Clone, PartialEq, Hash)]
pub struct Ts4mmode1 {
    #[asn(integer(0..7))] pub f0: u8,
    #[asn(optional(integer(0..7)))] pub f1: Option<u8>,
    #[asn(optional(integer(0..7)))] pub f2: Option<u8>,
    #[asn(default(integer(0..7), 5))] pub f3: u8,
}

impl Ts4mmode1 {
    pub const fn f0_min() -> u8 {
        0
    }

    pub const fn f0_max() -> u8 {
        7
    }

    pub const fn f1_min() -> u8 {
        0
    }

    pub const fn f1_max() -> u8 {
        7
    }

    pub const fn f2_min() -> u8 {
        0
    }

    pub const fn f2_max() -> u8 {
        7
    }

    pub const fn f3_min() -> u8 {
        0
    }

    pub const fn f3_max() -> u8 {
        7
    }
}

#[asn(sequence, extensible_after(f1))]

#[derive(Default, Debug, Clone, PartialEq, Hash)]
pub struct Ts4mmode2 {
    #[asn(integer(0..7))] pub f0: u8,
    #[asn(integer(0..7))] pub f1: u8,
    #[asn(optional(integer(0..7)))] pub f2: Option<u8>,
    #[asn(default(integer(0..7), 5))] pub f3: u8,
}

impl Ts4mmode2 {
    pub const fn f0_min() -> u8 {
        0
    }

    pub const fn f0_max() -> u8 {
        7
    }

    pub const fn f1_min() -> u8 {
        0
    }

    pub const fn f1_max() -> u8 {
        7
    }

    pub const fn f2_min() -> u8 {
        0
    }

    pub const fn f2_max() -> u8 {
        7
    }

    pub const fn f3_min() -> u8 {
        0
    }

    pub const fn f3_max() -> u8 {
        7
    }
}

#[asn(sequence, extensible_after(f2))]

#[derive(Default, Debug, Clone, PartialEq, Hash)]
pub struct Ts4mmode3 {
    #[asn(integer(0..7))] pub f0: u8,
    #[asn(integer(0..7))] pub f1: u8,
    #[asn(optional(integer(0..7)))] pub f2: Option<u8>,
    #[asn(default(integer(0..7), 5))] pub f3: u8,
}

impl Ts4mmode3 {
    pub const fn f0_min() -> u8 {
        0
    }

    pub const fn f0_max() -> u8 {
        7
    }

    pub const fn f1_min() -> u8 {
        0
    }

    pub const fn f1_max() -> u8 {
        7
    }

    pub const fn f2_min() -> u8 {
        0
    }

    pub const fn f2_max() -> u8 {
        7
    }

    pub const fn f3_min() -> u8 {
        0
    }

    pub const fn f3_max() -> u8 {
        7
    }
}

#[asn(sequence, extensible_after(f3))]

#[derive(Default, Debug, Clone, PartialEq, Hash)]
pub struct Ts4mmode4 {
    #[asn(integer(0..7))] pub f0: u8,
    #[asn(integer(0..7))] pub f1: u8,
    #[asn(optional(integer(0..7)))] pub f2: Option<u8>,
    #[asn(default(integer(0..7), 5))] pub f3: u8,
}

impl Ts4mmode4 {
    pub const fn f0_min() -> u8 {
        0
    }

    pub const fn f0_max() -> u8 {
        7
    }

    pub const fn f1_min() -> u8 {
        0
    }

    pub const fn f1_max() -> u8 {
        7
    }

    pub const fn f2_min() -> u8 {
        0
    }

    pub const fn f2_max() -> u8 {
        7
    }

    pub const fn f3_min() -> u8 {
        0
    }

    pub const fn f3_max() -> u8 {
        7
    }
}

#[asn(sequence)]

#[derive(Default, Debug, Clone, PartialEq, Hash)]
pub struct Ts4omodn {
    #[asn(optional(integer(0..7)))] pub f0: Option<u8>,
    #[asn(integer(0..7))] pub f1: u8,
    #[asn(optional(integer(0..7)))] pub f2: Option<u8>,
    #[asn(default(integer(0..7), 5))] pub f3: u8,
}

impl Ts4omodn {
    pub const fn f0_min() -> u8 {
        0
    }

    pub const fn f0_max() -> u8 {
        7
    }

    pub const fn f1_min() -> u8 {
        0
    }

    pub const fn f1_max() -> u8 {
        7
    }

    pub const fn f2_min() -> u8 {
        0
    }

    pub const fn f2_max() -> u8 {
        7
    }

    pub const fn f3_min() -> u8 {
        0
    }

    pub const fn f3_max() -> u8 {
        7
    }
}

#[asn(sequence, extensible_after(f0))]

#[derive(Default, Debug, Clone, PartialEq, Hash)]
pub struct Ts4omode0 {
    #[asn(optional(integer(0..7)))] pub f0: Option<u8>,
    #[asn(optional(integer(0..7)))] pub f1: Option<u8>,
    #[asn(optional(integer(0..7)))] pub f2: Option<u8>,
    #[asn(default(integer(0..7), 5))] pub f3: u8,
}

impl Ts4omode0 {
    pub const fn f0_min() -> u8 {
        0
    }

    pub const fn f0_max() -> u8 {
        7
    }

    pub const fn f1_min() -> u8 {
        0
    }

    pub const fn f1_max() -> u8 {
        7
    }

    pub const fn f2_min() -> u8 {
        0
    }

    pub const fn f2_max() -> u8 {
        7
    }

    pub const fn f3_min() -> u8 {
        0
    }

    pub const fn f3_max() -> u8 {
        7
    }
}

#[asn(sequence, extensible_after(f0))]

#[derive(Default, Debug, Clone, PartialEq, Hash)]
pub struct Ts4omode1 {
    #[asn(optional(integer(0..7)))] pub f0: Option<u8>,
    #[asn(optional(integer(0..7)))] pub f1: Option<u8>,
    #[asn(optional(integer(0..7)))] pub f2: Option<u8>,
    #[asn(default(integer(0..7), 5))] pub f3: u8,
}

impl Ts4omode1 {
    pub const fn f0_min() -> u8 {
        0
    }

    pub const fn f0_max() -> u8 {
        7
    }

    pub const fn f1_min() -> u8 {
        0
    }

    pub const fn f1_max() -> u8 {
        7
    }

    pub const fn f2_min() -> u8 {
        0
    }

    pub const fn f2_max() -> u8 {
        7
    }

    pub const fn f3_min() -> u8 {
        0
    }

    pub const fn f3_max() -> u8 {
        7
    }
}

#[asn(sequence, extensible_after(f1))]

#[derive(Default, Debug, Clone, PartialEq, Hash)]
pub struct Ts4omode2 {
    #[asn(optional(integer(0..7)))] pub f0: Option<u8>,
    #[asn(integer(0..7))] pub f1: u8,
    #[asn(optional(integer(0..7)))] pub f2: Option<u8>,
    #[asn(default(integer(0..7), 5))] pub f3: u8,
}

impl Ts4omode2 {
    pub const fn f0_min() -> u8 {
        0
    }

    pub const fn f0_max() -> u8 {
        7
    }

    pub const fn f1_min() -> u8 {
        0
    }

    pub const fn f1_max() -> u8 {
        7
    }

    pub const fn f2_min() -> u8 {
        0
    }

    pub const fn f2_max() -> u8 {
        7
    }

    pub const fn f3_min() -> u8 {
        0
    }

    pub const fn f3_max() -> u8 {
        7
    }
}

#[asn(sequence, extensible_after(f2))]

#[derive(Default, Debug, Clone, PartialEq, Hash)]
pub struct Ts4omode3 {
    #[asn(optional(integer(0..7)))] pub f0: Option<u8>,
    #[asn(integer(0..7))] pub f1: u8,
    #[asn(optional(integer(0..7)))] pub f2: Option<u8>,
    #[asn(default(integer(0..7), 5))] pub f3: u8,
}

impl Ts4omode3 {
    pub const fn f0_min() -> u8 {
        0
    }

    pub const fn f0_max() -> u8 {
        7
    }

    pub const fn f1_min() -> u8 {
        0
    }

    pub const fn f1_max() -> u8 {
        7
    }

    pub const fn f2_min() -> u8 {
        0
    }

    pub const fn f2_max() -> u8 {
        7
    }

    pub const fn f3_min() -> u8 {
        0
    }

    pub const fn f3_max() -> u8 {
        7
    }
}

#[asn(sequence, extensible_after(f3))]

#[derive(Default, Debug, Clone, PartialEq, Hash)]
pub struct Ts4omode4 {
    #[asn(optional(integer(0..7)))] pub f0: Option<u8>,
    #[asn(integer(0..7))] pub f1: u8,
    #[asn(optional(integer(0..7)))] pub f2: Option<u8>,
    #[asn(default(integer(0..7), 5))] pub f3: u8,
}

impl Ts4omode4 {
    pub const fn f0_min() -> u8 {
        0
    }

    pub const fn f0_max() -> u8 {
        7
    }

    pub const fn f1_min() -> u8 {
        0
    }

    pub const fn f1_max() -> u8 {
        7
    }

    pub const fn f2_min() -> u8 {
        0
    }

    pub const fn f2_max() -> u8 {
        7
    }

    pub const fn f3_min() -> u8 {
        0
    }

    pub const fn f3_max() -> u8 {
        7
    }
}

#[asn(sequence)]

#[derive(Default, Debug, Clone, PartialEq, Hash)]
pub struct Ts4dmodn {
    #[asn(default(integer(0..7), 5))] pub f0: u8,
    #[asn(integer(0..7))] pub f1: u8,
    #[asn(optional(integer(0..7)))] pub f2: Option<u8>,
    #[asn(default(integer(0..7), 5))] pub f3: u8,
}

impl Ts4dmodn {
    pub const fn f0_min() -> u8 {
        0
    }

    pub const fn f0_max() -> u8 {
        7
    }

    pub const fn f1_min() -> u8 {
        0
    }

    pub const fn f1_max() -> u8 {
        7
    }

    pub const fn f2_min() -> u8 {
        0
    }

    pub const fn f2_max() -> u8 {
        7
    }

    pub const fn f3_min() -> u8 {
        0
    }

    pub const fn f3_max() -> u8 {
        7
    }
}

#[asn(sequence, extensible_after(f0))]

#[derive(Default, Debug, Clone, PartialEq, Hash)]
pub struct Ts4dmode0 {
    #[asn(default(integer(0..7), 5))] pub f0: u8,
    #[asn(optional(integer(0..7)))] pub f1: Option<u8>,
    #[asn(optional(integer(0..7)))] pub f2: Option<u8>,
    #[asn(default(integer(0..7), 5))] pub f3: u8,
}

impl Ts4dmode0 {
    pub const fn f0_min() -> u8 {
        0
    }

    pub const fn f0_max() -> u8 {
        7
    }

    pub const fn f1_min() -> u8 {
        0
    }

    pub const fn f1_max() -> u8 {
        7
    }

    pub const fn f2_min() -> u8 {
        0
    }

    pub const fn f2_max() -> u8 {
        7
    }

    pub const fn f3_min() -> u8 {
        0
    }

    pub const fn f3_max() -> u8 {
        7
    }
}

#[asn(sequence, extensible_after(f0))]

#[derive(Default, Debug, Clone, PartialEq, Hash)]
pub struct Ts4dmode1 {
    #[asn(default(integer(0..7), 5))] pub f0: u8,
    #[asn(optional(integer(0..7)))] pub f1: Option<u8>,
    #[asn(optional(integer(0..7)))] pub f2: Option<u8>,
    #[asn(default(integer(0..7), 5))] pub f3: u8,
}

impl Ts4dmode1 {
    pub const fn f0_min() -> u8 {
        0
    }

    pub const fn f0_max() -> u8 {
        7
    }

    pub const fn f1_min() -> u8 {
        0
    }

    pub const fn f1_max() -> u8 {
        7
    }

    pub const fn f2_min() -> u8 {
        0
    }

    pub const fn f2_max() -> u8 {
        7
    }

    pub const fn f3_min() -> u8 {
        0
    }

    pub const fn f3_max() -> u8 {
        7
    }
}

#[asn(sequence, extensible_after(f1))]

#[derive(Default, Debug, Clone, PartialEq, Hash)]
pub struct Ts4dmode2 {
    #[asn(default(integer(0..7), 5))] pub f0: u8,
    #[asn(integer(0..7))] pub f1: u8,
    #[asn(optional(integer(0..7)))] pub f2: Option<u8>,
    #[asn(default(integer(0..7), 5))] pub f3: u8,
}

impl Ts4dmode2 {
    pub const fn f0_min() -> u8 {
        0
    }

    pub const fn f0_max() -> u8 {
        7
    }

    pub const fn f1_min() -> u8 {
        0
    }

    pub const fn f1_max() -> u8 {
        7
    }

    pub const fn f2_min() -> u8 {
        0
    }

    pub const fn f2_max() -> u8 {
        7
    }

    pub const fn f3_min() -> u8 {
        0
    }

    pub const fn f3_max() -> u8 {
        7
    }
}

#[asn(sequence, extensible_after(f2))]

#[derive(Default, Debug, Clone, PartialEq, Hash)]
pub struct Ts4dmode3 {
    #[asn(default(integer(0..7), 5))] pub f0: u8,
    #[asn(integer(0..7))] pub f1: u8,
    #[asn(optional(integer(0..7)))] pub f2: Option<u8>,
    #[asn(default(integer(0..7), 5))] pub f3: u8,
}

impl Ts4dmode3 {
    pub const fn f0_min() -> u8 {
        0
    }

    pub const fn f0_max() -> u8 {
        7
    }

    pub const fn f1_min() -> u8 {
        0
    }

    pub const fn f1_max() -> u8 {
        7
    }

    pub const fn f2_min() -> u8 {
        0
    }

    pub const fn f2_max() -> u8 {
        7
    }

    pub const fn f3_min() -> u8 {
        0
    }

    pub const fn f3_max() -> u8 {
        7
    }
}

#[asn(sequence, extensible_after(f3))]

#[derive(Default, Debug, Clone, PartialEq, Hash)]
pub struct Ts4dmode4 {
    #[asn(default(integer(0..7), 5))] pub f0: u8,
    #[asn(integer(0..7))] pub f1: u8,
    #[asn(optional(integer(0..7)))] pub f2: Option<u8>,
    #[asn(default(integer(0..7), 5))] pub f3: u8,
}

impl Ts4dmode4 {
    pub const fn f0_min() -> u8 {
        0
    }

    pub const fn f0_max() -> u8 {
        7
    }

    pub const fn f1_min() -> u8 {
        0
    }

    pub const fn f1_max() -> u8 {
        7
    }

    pub const fn f2_min() -> u8 {
        0
    }

    pub const fn f2_max() -> u8 {
        7
    }

    pub const fn f3_min() -> u8 {
        0
    }

    pub const fn f3_max() -> u8 {
        7
    }
}

#[asn(sequence)]

#[derive(Default, Debug, Clone, PartialEq, Hash)]
pub struct Ts4moodn {
    #[asn(integer(0..7))] pub f0: u8,
    #[asn(optional(integer(0..7)))] pub f1: Option<u8>,
    #[asn(optional(integer(0..7)))] pub f2: Option<u8>,
    #[asn(default(integer(0..7), 5))] pub f3: u8,
}

impl Ts4moodn {
    pub const fn f0_min() -> u8 {
        0
    }

    pub const fn f0_max() -> u8 {
        7
    }

    pub const fn f1_min() -> u8 {
        0
    }

    pub const fn f1_max() -> u8 {
        7
    }

    pub const fn f2_min() -> u8 {
        0
    }

    pub const fn f2_max() -> u8 {
        7
    }

    pub const fn f3_min() -> u8 {
        0
    }

    pub const fn f3_max() -> u8 {
        7
    }
}

#[asn(sequence, extensible_after(f0))]

#[derive(Default, Debug, Clone, PartialEq, Hash)]
pub struct Ts4moode0 {
    #[asn(integer(0..7))] pub f0: u8,
    #[asn(optional(integer(0..7)))] pub f1: Option<u8>,
    #[asn(optional(integer(0..7)))] pub f2: Option<u8>,
    #[asn(default(integer(0..7), 5))] pub f3: u8,
}

impl Ts4moode0 {
    pub const fn f0_min() -> u8 {
        0
    }

    pub const fn f0_max() -> u8 {
        7
    }

    pub const fn f1_min() -> u8 {
        0
    }

    pub const fn f1_max() -> u8 {
        7
    }

    pub const fn f2_min() -> u8 {
        0
    }

    pub const fn f2_max() -> u8 {
        7
    }

    pub const fn f3_min() -> u8 {
        0
    }

    pub const fn f3_max() -> u8 {
        7
    }
}

#[asn(sequence, extensible_after(f0))]

#[derive(Default, Debug, Clone, PartialEq, Hash)]
pub struct Ts4moode1 {
    #[asn(integer(0..7))] pub f0: u8,
    #[asn(optional(integer(0..7)))] pub f1: Option<u8>,
    #[asn(optional(integer(0..7)))] pub f2: Option<u8>,
    #[asn(default(integer(0..7), 5))] pub f3: u8,
}

impl Ts4moode1 {
    pub const fn f0_min() -> u8 {
        0
    }

    pub const fn f0_max() -> u8 {
        7
    }

    pub const fn f1_min() -> u8 {
        0
    }

    pub const fn f1_max() -> u8 {
        7
    }

    pub const fn f2_min() -> u8 {
        0
    }

    pub const fn f2_max() -> u8 {
        7
    }

    pub const fn f3_min() -> u8 {
        0
    }

    pub const fn f3_max() -> u8 {
        7
    }
}

#[asn(sequence, extensible_after(f1))]

#[derive(Default, Debug, Clone, PartialEq, Hash)]
pub struct Ts4moode2 {
    #[asn(integer(0..7))] pub f0: u8,
    #[asn(optional(integer(0..7)))] pub f1: Option<u8>,
    #[asn(optional(integer(0..7)))] pub f2: Option<u8>,
    #[asn(default(integer(0..7), 5))] pub f3: u8,
}

impl Ts4moode2 {
    pub const fn f0_min() -> u8 {
        0
    }

    pub const fn f0_max() -> u8 {
        7
    }

    pub const fn f1_min() -> u8 {
        0
    }

    pub const fn f1_max() -> u8 {
        7
    }

    pub const fn f2_min() -> u8 {
        0
    }

    pub const fn f2_max() -> u8 {
        7
    }

    pub const fn f3_min() -> u8 {
        0
    }

    pub const fn f3_max() -> u8 {
        7
    }
}

#[asn(sequence, extensible_after(f2))]

#[derive(Default, Debug, Clone, PartialEq, Hash)]
pub struct Ts4moode3 {
    #[asn(integer(0..7))] pub f0: u8,
    #[asn(optional(integer(0..7)))] pub f1: Option<u8>,
    #[asn(optional(integer(0..7)))] pub f2: Option<u8>,
    #[asn(default(integer(0..7), 5))] pub f3: u8,
}

impl Ts4moode3 {
    pub const fn f0_min() -> u8 {
        0
    }

    pub const fn f0_max() -> u8 {
        7
    }

    pub const fn f1_min() -> u8 {
        0
    }

    pub const fn f1_max() -> u8 {
        7
    }

    pub const fn f2_min() -> u8 {
        0
    }

    pub const fn f2_max() -> u8 {
        7
    }

    pub const fn f3_min() -> u8 {
        0
    }

    pub const fn f3_max() -> u8 {
        7
    }
}

#[asn(sequence, extensible_after(f3))]

#[derive(Default, Debug, Clone, PartialEq, Hash)]
pub struct Ts4moode4 {
    #[asn(integer(0..7))] pub f0: u8,
    #[asn(optional(integer(0..7)))] pub f1: Option<u8>,
    #[asn(optional(integer(0..7)))] pub f2: Option<u8>,
    #[asn(default(integer(0..7), 5))] pub f3: u8,
}

impl Ts4moode4 {
    pub const fn f0_min() -> u8 {
        0
    }

    pub const fn f0_max() -> u8 {
        7
    }

    pub const fn f1_min() -> u8 {
        0
    }

    pub const fn f1_max() -> u8 {
        7
    }

    pub const fn f2_min() -> u8 {
        0
    }

    pub const fn f2_max() -> u8 {
        7
    }

    pub const fn f3_min() -> u8 {
        0
    }

    pub const fn f3_max() -> u8 {
        7
    }
}

#[asn(sequence)]

#[derive(Default, Debug, Clone, PartialEq, Hash)]
pub struct Ts4ooodn {
    #[asn(optional(integer(0..7)))] pub f0: Option<u8>,
    #[asn(optional(integer(0..7)))] pub f1: Option<u8>,
    #[asn(optional(integer(0..7)))] pub f2: Option<u8>,
    #[asn(default(integer(0..7), 5))] pub f3: u8,
}

impl Ts4ooodn {
    pub const fn f0_min() -> u8 {
        0
    }

    pub const fn f0_max() -> u8 {
        7
    }

    pub const fn f1_min() -> u8 {
        0
    }

    pub const fn f1_max() -> u8 {
        7
    }

    pub const fn f2_min() -> u8 {
        0
    }

    pub const fn f2_max() -> u8 {
        7
    }

    pub const fn f3_min() -> u8 {
        0
    }

    pub const fn f3_max() -> u8 {
        7
    }
}

#[asn(sequence, extensible_after(f0))]

#[derive(Default, Debug, Clone, PartialEq, Hash)]
pub struct Ts4ooode0 {
    #[asn(optional(integer(0..7)))] pub f0: Option<u8>,
    #[asn(optional(integer(0..7)))] pub f1: Option<u8>,
    #[asn(optional(integer(0..7)))] pub f2: Option<u8>,
    #[asn(default(integer(0..7), 5))] pub f3: u8,
}

impl Ts4ooode0 {
    pub const fn f0_min() -> u8 {
        0
    }

    pub const fn f0_max() -> u8 {
        7
    }

    pub const fn f1_min() -> u8 {
        0
    }

    pub const fn f1_max() -> u8 {
        7
    }

    pub const fn f2_min() -> u8 {
        0
    }

    pub const fn f2_max() -> u8 {
        7
    }

    pub const fn f3_min() -> u8 {
        0
    }

    pub const fn f3_max() -> u8 {
        7
    }
}

#[asn(sequence, extensible_after(f0))]

#[derive(Default, Debug, Clone, PartialEq, Hash)]
pub struct Ts4ooode1 {
    #[asn(optional(integer(0..7)))] pub f0: Option<u8>,
    #[asn(optional(integer(0..7)))] pub f1: Option<u8>,
    #[asn(optional(integer(0..7)))] pub f2: Option<u8>,
    #[asn(default(integer(0..7), 5))] pub f3: u8,
}

impl Ts4ooode1 {
    pub const fn f0_min() -> u8 {
        0
    }

    pub const fn f0_max() -> u8 {
        7
    }

    pub const fn f1_min() -> u8 {
        0
    }

    pub const fn f1_max() -> u8 {
        7
    }

    pub const fn f2_min() -> u8 {
        0
    }

    pub const fn f2_max() -> u8 {
        7
    }

    pub const fn f3_min() -> u8 {
        0
    }

    pub const fn f3_max() -> u8 {
        7
    }
}

#[asn(sequence, extensible_after(f1))]

#[derive(Default, Debug, Clone, PartialEq, Hash)]
pub struct Ts4ooode2 {
    #[asn(optional(integer(0..7)))] pub f0: Option<u8>,
    #[asn(optional(integer(0..7)))] pub f1: Option<u8>,
    #[asn(optional(integer(0..7)))] pub f2: Option<u8>,
    #[asn(default(integer(0..7), 5))] pub f3: u8,
}

impl Ts4ooode2 {
    pub const fn f0_min() -> u8 {
        0
    }

    pub const fn f0_max() -> u8 {
        7
    }

    pub const fn f1_min() -> u8 {
        0
    }

    pub const fn f1_max() -> u8 {
        7
    }

    pub const fn f2_min() -> u8 {
        0
    }

    pub const fn f2_max() -> u8 {
        7
    }

    pub const fn f3_min() -> u8 {
        0
    }

    pub const fn f3_max() -> u8 {
        7
    }
}

#[asn(sequence, extensible_after(f2))]

#[derive(Default, Debug, Clone, PartialEq, Hash)]
pub struct Ts4ooode3 {
    #[asn(optional(integer(0..7)))] pub f0: Option<u8>,
    #[asn(optional(integer(0..7)))] pub f1: Option<u8>,
    #[asn(optional(integer(0..7)))] pub f2: Option<u8>,
    #[asn(default(integer(0..7), 5))] pub f3: u8,
}

impl Ts4ooode3 {
    pub const fn f0_min() -> u8 {
        0
    }

    pub const fn f0_max() -> u8 {
        7
    }

    pub const fn f1_min() -> u8 {
        0
    }

    pub const fn f1_max() -> u8 {
        7
    }

    pub const fn f2_min() -> u8 {
        0
    }

    pub const fn f2_max() -> u8 {
        7
    }

    pub const fn f3_min() -> u8 {
        0
    }

    pub const fn f3_max() -> u8 {
        7
    }
}

#[asn(sequence, extensible_after(f3))]

#[derive(Default, Debug, Clone, PartialEq, Hash)]
pub struct Ts4ooode4 {
    #[asn(optional(integer(0..7)))] pub f0: Option<u8>,
    #[asn(optional(integer(0..7)))] pub f1: Option<u8>,
    #[asn(optional(integer(0..7)))] pub f2: Option<u8>,
    #[asn(default(integer(0..7), 5))] pub f3: u8,
}

impl Ts4ooode4 {
    pub const fn f0_min() -> u8 {
        0
    }

    pub const fn f0_max() -> u8 {
        7
    }

    pub const fn f1_min() -> u8 {
        0
    }

    pub const fn f1_max() -> u8 {
        7
    }

    pub const fn f2_min() -> u8 {
        0
    }

    pub const fn f2_max() -> u8 {
        7
    }

    pub const fn f3_min() -> u8 {
        0
    }

    pub const fn f3_max() -> u8 {
        7
    }
}

#[asn(sequence)]

#[derive(Default, Debug, Clone, PartialEq, Hash)]
pub struct Ts4doodn {
    #[asn(default(integer(0..7), 5))] pub f0: u8,
    #[asn(optional(integer(0..7)))] pub f1: Option<u8>,
    #[asn(optional(integer(0..7)))] pub f2: Option<u8>,
    #[asn(default(integer(0..7), 5))] pub f3: u8,
}

impl Ts4doodn {
    pub const fn f0_min() -> u8 {
        0
    }

    pub const fn f0_max() -> u8 {
        7
    }

    pub const fn f1_min() -> u8 {
        0
    }

    pub const fn f1_max() -> u8 {
        7
    }

    pub const fn f2_min() -> u8 {
        0
    }

    pub const fn f2_max() -> u8 {
        7
    }

    pub const fn f3_min() -> u8 {
        0
    }

    pub const fn f3_max() -> u8 {
        7
    }
}

#[asn(sequence, extensible_after(f0))]

#[derive(Default, Debug, Clone, PartialEq, Hash)]
pub struct Ts4doode0 {
    #[asn(default(integer(0..7), 5))] pub f0: u8,
    #[asn(optional(integer(0..7)))] pub f1: Option<u8>,
    #[asn(optional(integer(0..7)))] pub f2: Option<u8>,
    #[asn(default(integer(0..7), 5))] pub f3: u8,
}

impl Ts4doode0 {
    pub const fn f0_min() -> u8 {
        0
    }

    pub const fn f0_max() -> u8 {
        7
    }

    pub const fn f1_min() -> u8 {
        0
    }

    pub const fn f1_max() -> u8 {
        7
    }

    pub const fn f2_min() -> u8 {
        0
    }

    pub const fn f2_max() -> u8 {
        7
    }

    pub const fn f3_min() -> u8 {
        0
    }

    pub const fn f3_max() -> u8 {
        7
    }
}

#[asn(sequence, extensible_after(f0))]

#[derive(Default, Debug, Clone, PartialEq, Hash)]
pub struct Ts4doode1 {
    #[asn(default(integer(0..7), 5))] pub f0: u8,
    #[asn(optional(integer(0..7)))] pub f1: Option<u8>,
    #[asn(optional(integer(0..7)))] pub f2: Option<u8>,
    #[asn(default(integer(0..7), 5))] pub f3: u8,
}

impl Ts4doode1 {
    pub const fn f0_min() -> u8 {
        0
    }

    pub const fn f0_max() -> u8 {
        7
    }

    pub const fn f1_min() -> u8 {
        0
    }

    pub const fn f1_max() -> u8 {
        7
    }

    pub const fn f2_min() -> u8 {
        0
    }

    pub const fn f2_max() -> u8 {
        7
    }

    pub const fn f3_min() -> u8 {
        0
    }

    pub const fn f3_max() -> u8 {
        7
    }
}

#[asn(sequence, extensible_after(f1))]

#[derive(Default, Debug, Clone, PartialEq, Hash)]
pub struct Ts4doode2 {
    #[asn(default(integer(0..7), 5))] pub f0: u8,
    #[asn(optional(integer(0..7)))] pub f1: Option<u8>,
    #[asn(optional(integer(0..7)))] pub f2: Option<u8>,
    #[asn(default(integer(0..7), 5))] pub f3: u8,
}

impl Ts4doode2 {
    pub const fn f0_min() -> u8 {
        0
    }

    pub const fn f0_max() -> u8 {
        7
    }

    pub const fn f1_min() -> u8 {
        0
    }

    pub const fn f1_max() -> u8 {
        7
    }

    pub const fn f2_min() -> u8 {
        0
    }

    pub const fn f2_max() -> u8 {
        7
    }

    pub const fn f3_min() -> u8 {
        0
    }

    pub const fn f3_max() -> u8 {
        7
    }
}

#[asn(sequence, extensible_after(f2))]

#[derive(Default, Debug, Clone, PartialEq, Hash)]
pub struct Ts4doode3 {
    #[asn(default(integer(0..7), 5))] pub f0: u8,
    #[asn(optional(integer(0..7)))] pub f1: Option<u8>,
    #[asn(optional(integer(0..7)))] pub f2: Option<u8>,
    #[asn(default(integer(0..7), 5))] pub f3: u8,
}

impl Ts4doode3 {
    pub const fn f0_min() -> u8 {
        0
    }

    pub const fn f0_max() -> u8 {
        7
    }

    pub const fn f1_min() -> u8 {
        0
    }

    pub const fn f1_max() -> u8 {
        7
    }

    pub const fn f2_min() -> u8 {
        0
    }

    pub const fn f2_max() -> u8 {
        7
    }

    pub const fn f3_min() -> u8 {
        0
    }

    pub const fn f3_max() -> u8 {
        7
    }
}

#[asn(sequence, extensible_after(f3))]

#[derive(Default, Debug, Clone, PartialEq, Hash)]
pub struct Ts4doode4 {
    #[asn(default(integer(0..7), 5))] pub f0: u8,
    #[asn(optional(integer(0..7)))] pub f1: Option<u8>,
    #[asn(optional(integer(0..7)))] pub f2: Option<u8>,
    #[asn(default(integer(0..7), 5))] pub f3: u8,
}

impl Ts4doode4 {
    pub const fn f0_min() -> u8 {
        0
    }

    pub const fn f0_max() -> u8 {
        7
    }

    pub const fn f1_min() -> u8 {
        0
    }

    pub const fn f1_max() -> u8 {
        7
    }

    pub const fn f2_min() -> u8 {
        0
    }

    pub const fn f2_max() -> u8 {
        7
    }

    pub const fn f3_min() -> u8 {
        0
    }

    pub const fn f3_max() -> u8 {
        7
    }
}

#[asn(sequence)]

#[derive(Default, Debug, Clone, PartialEq, Hash)]
pub struct Ts4mdodn {
    #[asn(integer(0..7))] pub f0: u8,
    #[asn(default(integer(0..7), 5))] pub f1: u8,
    #[asn(optional(integer(0..7)))] pub f2: Option<u8>,
    #[asn(default(integer(0..7), 5))] pub f3: u8,
}

impl Ts4mdodn {
    pub const fn f0_min() -> u8 {
        0
    }

    pub const fn f0_max() -> u8 {
        7
    }

    pub const fn f1_min() -> u8 {
        0
    }

    pub const fn f1_max() -> u8 {
        7
    }

    pub const fn f2_min() -> u8 {
        0
    }

    pub const fn f2_max() -> u8 {
        7
    }

    pub const fn f3_min() -> u8 {
        0
    }

    pub const fn f3_max() -> u8 {
        7
    }
}

#[asn(sequence, extensible_after(f0))]

#[derive(Default, Debug, Clone, PartialEq, Hash)]
pub struct Ts4mdode0 {
    #[asn(integer(0..7))] pub f0: u8,
    #[asn(default(integer(0..7), 5))] pub f1: u8,
    #[asn(optional(integer(0..7)))] pub f2: Option<u8>,
    #[asn(default(integer(0..7), 5))] pub f3: u8,
}

impl Ts4mdode0 {
    pub const fn f0_min() -> u8 {
        0
    }

    pub const fn f0_max() -> u8 {
        7
    }

    pub const fn f1_min() -> u8 {
        0
    }

    pub const fn f1_max() -> u8 {
        7
    }

    pub const fn f2_min() -> u8 {
        0
    }

    pub const fn f2_max() -> u8 {
        7
    }

    pub const fn f3_min() -> u8 {
        0
    }

    pub const fn f3_max() -> u8 {
        7
    }
}

#[asn(sequence, extensible_after(f0))]

#[derive(Default, Debug, Clone, PartialEq, Hash)]
pub struct Ts4mdode1 {
    #[asn(integer(0..7))] pub f0: u8,
    #[asn(default(integer(0..7), 5))] pub f1: u8,
    #[asn(optional(integer(0..7)))] pub f2: Option<u8>,
    #[asn(default(integer(0..7), 5))] pub f3: u8,
}

impl Ts4mdode1 {
    pub const fn f0_min() -> u8 {
        0
    }

    pub const fn f0_max() -> u8 {
        7
    }

    pub const fn f1_min() -> u8 {
        0
    }

    pub const fn f1_max() -> u8 {
        7
    }

    pub const fn f2_min() -> u8 {
        0
    }

    pub const fn f2_max() -> u8 {
        7
    }

    pub const fn f3_min() -> u8 {
        0
    }

    pub const fn f3_max() -> u8 {
        7
    }
}

#[asn(sequence, extensible_after(f1))]

#[derive(Default, Debug, Clone, PartialEq, Hash)]
pub struct Ts4mdode2 {
    #[asn(integer(0..7))] pub f0: u8,
    #[asn(default(integer(0..7), 5))] pub f1: u8,
    #[asn(optional(integer(0..7)))] pub f2: Option<u8>,
    #[asn(default(integer(0..7), 5))] pub f3: u8,
}

impl Ts4mdode2 {
    pub const fn f0_min() -> u8 {
        0
    }

    pub const fn f0_max() -> u8 {
        7
    }

    pub const fn f1_min() -> u8 {
        0
    }

    pub const fn f1_max() -> u8 {
        7
    }

    pub const fn f2_min() -> u8 {
        0
    }

    pub const fn f2_max() -> u8 {
        7
    }

    pub const fn f3_min() -> u8 {
        0
    }

    pub const fn f3_max() -> u8 {
        7
    }
}

#[asn(sequence, extensible_after(f2))]

#[derive(Default, Debug, Clone, PartialEq, Hash)]
pub struct Ts4mdode3 {
    #[asn(integer(0..7))] pub f0: u8,
    #[asn(default(integer(0..7), 5))] pub f1: u8,
    #[asn(optional(integer(0..7)))] pub f2: Option<u8>,
    #[asn(default(integer(0..7), 5))] pub f3: u8,
}

impl Ts4mdode3 {
    pub const fn f0_min() -> u8 {
        0
    }

    pub const fn f0_max() -> u8 {
        7
    }

    pub const fn f1_min() -> u8 {
        0
    }

    pub const fn f1_max() -> u8 {
        7
    }

    pub const fn f2_min() -> u8 {
        0
    }

    pub const fn f2_max() -> u8 {
        7
    }

    pub const fn f3_min() -> u8 {
        0
    }

    pub const fn f3_max() -> u8 {
        7
    }
}

#[asn(sequence, extensible_after(f3))]

#[derive(Default, Debug, Clone, PartialEq, Hash)]
pub struct Ts4mdode4 {
    #[asn(integer(0..7))] pub f0: u8,
    #[asn(default(integer(0..7), 5))] pub f1: u8,
    #[asn(optional(integer(0..7)))] pub f2: Option<u8>,
    #[asn(default(integer(0..7), 5))] pub f3: u8,
}

impl Ts4mdode4 {
    pub const fn f0_min() -> u8 {
        0
    }

    pub const fn f0_max() -> u8 {
        7
    }

    pub const fn f1_min() -> u8 {
        0
    }

    pub const fn f1_max() -> u8 {
        7
    }

    pub const fn f2_min() -> u8 {
        0
    }

    pub const fn f2_max() -> u8 {
        7
    }

    pub const fn f3_min() -> u8 {
        0
    }

    pub const fn f3_max() -> u8 {
        7
    }
}

#[asn(sequence)]

#[derive(Default, Debug, Clone, PartialEq, Hash)]
pub struct Ts4ododn {
    #[asn(optional(integer(0..7)))] pub f0: Option<u8>,
    #[asn(default(integer(0..7), 5))] pub f1: u8,
    #[asn(optional(integer(0..7)))] pub f2: Option<u8>,
    #[asn(default(integer(0..7), 5))] pub f3: u8,
}

impl Ts4ododn {
    pub const fn f0_min() -> u8 {
        0
    }

    pub const fn f0_max() -> u8 {
        7
    }

    pub const fn f1_min() -> u8 {
        0
    }

    pub const fn f1_max() -> u8 {
        7
    }

    pub const fn f2_min() -> u8 {
        0
    }

    pub const fn f2_max() -> u8 {
        7
    }

    pub const fn f3_min() -> u8 {
        0
    }

    pub const fn f3_max() -> u8 {
        7
    }
}

#[asn(sequence, extensible_after(f0))]

#[derive(Default, Debug, Clone, PartialEq, Hash)]
pub struct Ts4odode0 {
    #[asn(optional(integer(0..7)))] pub f0: Option<u8>,
    #[asn(default(integer(0..7), 5))] pub f1: u8,
    #[asn(optional(integer(0..7)))] pub f2: Option<u8>,
    #[asn(default(integer(0..7), 5))] pub f3: u8,
}

impl Ts4odode0 {
    pub const fn f0_min() -> u8 {
        0
    }

    pub const fn f0_max() -> u8 {
        7
    }

    pub const fn f1_min() -> u8 {
        0
    }

    pub const fn f1_max() -> u8 {
        7
    }

    pub const fn f2_min() -> u8 {
        0
    }

    pub const fn f2_max() -> u8 {
        7
    }

    pub const fn f3_min() -> u8 {
        0
    }

    pub const fn f3_max() -> u8 {
        7
    }
}

#[asn(sequence, extensible_after(f0))]

#[derive(Default, Debug, Clone, PartialEq, Hash)]
pub struct Ts4odode1 {
    #[asn(optional(integer(0..7)))] pub f0: Option<u8>,
    #[asn(default(integer(0..7), 5))] pub f1: u8,
    #[asn(optional(integer(0..7)))] pub f2: Option<u8>,
    #[asn(default(integer(0..7), 5))] pub f3: u8,
}

impl Ts4odode1 {
    pub const fn f0_min() -> u8 {
        0
    }

    pub const fn f0_max() -> u8 {
        7
    }

    pub const fn f1_min() -> u8 {
        0
    }

    pub const fn f1_max() -> u8 {
        7
    }

    pub const fn f2_min() -> u8 {
        0
    }

    pub const fn f2_max() -> u8 {
        7
    }

    pub const fn f3_min() -> u8 {
        0
    }

    pub const fn f3_max() -> u8 {
        7
    }
}

#[asn(sequence, extensible_after(f1))]

#[derive(Default, Debug, Clone, PartialEq, Hash)]
pub struct Ts4odode2 {
    #[asn(optional(integer(0..7)))] pub f0: Option<u8>,
    #[asn(default(integer(0..7), 5))] pub f1: u8,
    #[asn(optional(integer(0..7)))] pub f2: Option<u8>,
    #[asn(default(integer(0..7), 5))] pub f3: u8,
}

impl Ts4odode2 {
    pub const fn f0_min() -> u8 {
        0
    }

    pub const fn f0_max() -> u8 {
        7
    }

    pub const fn f1_min() -> u8 {
        0
    }

    pub const fn f1_max() -> u8 {
        7
    }

    pub const fn f2_min() -> u8 {
        0
    }

    pub const fn f2_max() -> u8 {
        7
    }

    pub const fn f3_min() -> u8 {
        0
    }

    pub const fn f3_max() -> u8 {
        7
    }
}

#[asn(sequence, extensible_after(f2))]

#[derive(Default, Debug, Clone, PartialEq, Hash)]
pub struct Ts4odode3 {
    #[asn(optional(integer(0..7)))] pub f0: Option<u8>,
    #[asn(default(integer(0..7), 5))] pub f1: u8,
    #[asn(optional(integer(0..7)))] pub f2: Option<u8>,
    #[asn(default(integer(0..7), 5))] pub f3: u8,
}

impl Ts4odode3 {
    pub const fn f0_min() -> u8 {
        0
    }

    pub const fn f0_max() -> u8 {
        7
    }

    pub const fn f1_min() -> u8 {
        0
    }

    pub const fn f1_max() -> u8 {
        7
    }

    pub const fn f2_min() -> u8 {
        0
    }

    pub const fn f2_max() -> u8 {
        7
    }

    pub const fn f3_min() -> u8 {
        0
    }

    pub const fn f3_max() -> u8 {
        7
    }
}

#[asn(sequence, extensible_after(f3))]

#[derive(Default, Debug, Clone, PartialEq, Hash)]
pub struct Ts4odode4 {
    #[asn(optional(integer(0..7)))] pub f0: Option<u8>,
    #[asn(default(integer(0..7), 5))] pub f1: u8,
    #[asn(optional(integer(0..7)))] pub f2: Option<u8>,
    #[asn(default(integer(0..7), 5))] pub f3: u8,
}

impl Ts4odode4 {
    pub const fn f0_min() -> u8 {
        0
    }

    pub const fn f0_max() -> u8 {
        7
    }

    pub const fn f1_min() -> u8 {
        0
    }

    pub const fn f1_max() -> u8 {
        7
    }

    pub const fn f2_min() -> u8 {
        0
    }

    pub const fn f2_max() -> u8 {
        7
    }

    pub const fn f3_min() -> u8 {
        0
    }

    pub const fn f3_max() -> u8 {
        7
    }
}

#[asn(sequence)]

#[derive(Default, Debug, Clone, PartialEq, Hash)]
pub struct Ts4ddodn {
    #[asn(default(integer(0..7), 5))] pub f0: u8,
    #[asn(default(integer(0..7), 5))] pub f1: u8,
    #[asn(optional(integer(0..7)))] pub f2: Option<u8>,
    #[asn(default(integer(0..7), 5))] pub f3: u8,
}

impl Ts4ddodn {
    pub const fn f0_min() -> u8 {
        0
    }

    pub const fn f0_max() -> u8 {
        7
    }

    pub const fn f1_min() -> u8 {
        0
    }

    pub const fn f1_max() -> u8 {
        7
    }

    pub const fn f2_min() -> u8 {
        0
    }

    pub const fn f2_max() -> u8 {
        7
    }

    pub const fn f3_min() -> u8 {
        0
    }

    pub const fn f3_max() -> u8 {
        7
    }
}

#[asn(sequence, extensible_after(f0))]

#[derive(Default, Debug, Clone, PartialEq, Hash)]
pub struct Ts4ddode0 {
    #[asn(default(integer(0..7), 5))] pub f0: u8,
    #[asn(default(integer(0..7), 5))] pub f1: u8,
    #[asn(optional(integer(0..7)))] pub f2: Option<u8>,
    #[asn(default(integer(0..7), 5))] pub f3: u8,
}

impl Ts4ddode0 {
    pub const fn f0_min() -> u8 {
        0
    }

    pub const fn f0_max() -> u8 {
        7
    }

    pub const fn f1_min() -> u8 {
        0
    }

    pub const fn f1_max() -> u8 {
        7
    }

    pub const fn f2_min() -> u8 {
        0
    }

    pub const fn f2_max() -> u8 {
        7
    }

    pub const fn f3_min() -> u8 {
        0
    }

    pub const fn f3_max() -> u8 {
        7
    }
}

#[asn(sequence, extensible_after(f0))]

#[derive(Default, Debug, Clone, PartialEq, Hash)]
pub struct Ts4ddode1 {
    #[asn(default(integer(0..7), 5))] pub f0: u8,
    #[asn(default(integer(0..7), 5))] pub f1: u8,
    #[asn(optional(integer(0..7)))] pub f2: Option<u8>,
    #[asn(default(integer(0..7), 5))] pub f3: u8,
}

impl Ts4ddode1 {
    pub const fn f0_min() -> u8 {
        0
    }

    pub const fn f0_max() -> u8 {
        7
    }

    pub const fn f1_min() -> u8 {
        0
    }

    pub const fn f1_max() -> u8 {
        7
    }

    pub const fn f2_min() -> u8 {
        0
    }

    pub const fn f2_max() -> u8 {
        7
    }

    pub const fn f3_min() -> u8 {
        0
    }

    pub const fn f3_max() -> u8 {
        7
    }
}

#[asn(sequence, extensible_after(f1))]

#[derive(Default, Debug, Clone, PartialEq, Hash)]
pub struct Ts4ddode2 {
    #[asn(default(integer(0..7), 5))] pub f0: u8,
    #[asn(default(integer(0..7), 5))] pub f1: u8,
    #[asn(optional(integer(0..7)))] pub f2: Option<u8>,
    #[asn(default(integer(0..7), 5))] pub f3: u8,
}

impl Ts4ddode2 {
    pub const fn f0_min() -> u8 {
        0
    }

    pub const fn f0_max() -> u8 {
        7
    }

    pub const fn f1_min() -> u8 {
        0
    }

    pub const fn f1_max() -> u8 {
        7
    }

    pub const fn f2_min() -> u8 {
        0
    }

    pub const fn f2_max() -> u8 {
        7
    }

    pub const fn f3_min() -> u8 {
        0
    }

    pub const fn f3_max() -> u8 {
        7
    }
}

#[asn(sequence, extensible_after(f2))]

#[derive(Default, Debug, Clone, PartialEq, Hash)]
pub struct Ts4ddode3 {
    #[asn(default(integer(0..7), 5))] pub f0: u8,
    #[asn(default(integer(0..7), 5))] pub f1: u8,
    #[asn(optional(integer(0..7)))] pub f2: Option<u8>,
    #[asn(default(integer(0..7), 5))] pub f3: u8,
}

impl Ts4ddode3 {
    pub const fn f0_min() -> u8 {
        0
    }

    pub const fn f0_max() -> u8 {
        7
    }

    pub const fn f1_min() -> u8 {
        0
    }

    pub const fn f1_max() -> u8 {
        7
    }

    pub const fn f2_min() -> u8 {
        0
    }

    pub const fn f2_max() -> u8 {
        7
    }

    pub const fn f3_min() -> u8 {
        0
    }

    pub const fn f3_max() -> u8 {
        7
    }
}

#[asn(sequence, extensible_after(f3))]

#[derive(Default, Debug, Clone, PartialEq, Hash)]
pub struct Ts4ddode4 {
    #[asn(default(integer(0..7), 5))] pub f0: u8,
    #[asn(default(integer(0..7), 5))] pub f1: u8,
    #[asn(optional(integer(0..7)))] pub f2: Option<u8>,
    #[asn(default(integer(0..7), 5))] pub f3: u8,
}

impl Ts4ddode4 {
    pub const fn f0_min() -> u8 {
        0
    }

    pub const fn f0_max() -> u8 {
        7
    }

    pub const fn f1_min() -> u8 {
        0
    }

    pub const fn f1_max() -> u8 {
        7
    }

    pub const fn f2_min() -> u8 {
        0
    }

    pub const fn f2_max() -> u8 {
        7
    }

    pub const fn f3_min() -> u8 {
        0
    }

    pub const fn f3_max() -> u8 {
        7
    }
}

#[asn(sequence)]

#[derive(Default, Debug, Clone, PartialEq, Hash)]
pub struct Ts4mmddn {
    #[asn(integer(0..7))] pub f0: u8,
    #[asn(integer(0..7))] pub f1: u8,
    #[asn(default(integer(0..7), 5))] pub f2: u8,
    #[asn(default(integer(0..7), 5))] pub f3: u8,
}

impl Ts4mmddn {
    pub const fn f0_min() -> u8 {
        0
    }

    pub const fn f0_max() -> u8 {
        7
    }

    pub const fn f1_min() -> u8 {
        0
    }

    pub const fn f1_max() -> u8 {
        7
    }

    pub const fn f2_min() -> u8 {
        0
    }

    pub const fn f2_max() -> u8 {
        7
    }

    pub const fn f3_min() -> u8 {
        0
    }

    pub const fn f3_max() -> u8 {
        7
    }
}

#[asn(sequence, extensible_after(f0))]

#[derive(Default, Debug, Clone, PartialEq, Hash)]
pub struct Ts4mmdde0 {
    #[asn(integer(0..7))] pub f0: u8,
    #[asn(optional(integer(0..7)))] pub f1: Option<u8>,
    #[asn(default(integer(0..7), 5))] pub f2: u8,
    #[asn(default(integer(0..7), 5))] pub f3: u8,
}

impl Ts4mmdde0 {
    pub const fn f0_min() -> u8 {
        0
    }

    pub const fn f0_max() -> u8 {
        7
    }

    pub const fn f1_min() -> u8 {
        0
    }

    pub const fn f1_max() -> u8 {
        7
    }

    pub const fn f2_min() -> u8 {
        0
    }

    pub const fn f2_max() -> u8 {
        7
    }

    pub const fn f3_min() -> u8 {
        0
    }

    pub const fn f3_max() -> u8 {
        7
    }
}

#[asn(sequence, extensible_after(f0))]

#[derive(Default, Debug, Clone, PartialEq, Hash)]
pub struct Ts4mmdde1 {
    #[asn(integer(0..7))] pub f0: u8,
    #[asn(optional(integer(0..7)))] pub f1: Option<u8>,
    #[asn(default(integer(0..7), 5))] pub f2: u8,
    #[asn(default(integer(0..7), 5))] pub f3: u8,
}

impl Ts4mmdde1 {
    pub const fn f0_min() -> u8 {
        0
    }

    pub const fn f0_max() -> u8 {
        7
    }

    pub const fn f1_min() -> u8 {
        0
    }

    pub const fn f1_max() -> u8 {
        7
    }

    pub const fn f2_min() -> u8 {
        0
    }

    pub const fn f2_max() -> u8 {
        7
    }

    pub const fn f3_min() -> u8 {
        0
    }

    pub const fn f3_max() -> u8 {
        7
    }
}

#[asn(sequence, extensible_after(f1))]

#[derive(Default, Debug, Clone, PartialEq, Hash)]
pub struct Ts4mmdde2 {
    #[asn(integer(0..7))] pub f0: u8,
    #[asn(integer(0..7))] pub f1: u8,
    #[asn(default(integer(0..7), 5))] pub f2: u8,
    #[asn(default(integer(0..7), 5))] pub f3: u8,
}

impl Ts4mmdde2 {
    pub const fn f0_min() -> u8 {
        0
    }

    pub const fn f0_max() -> u8 {
        7
    }

    pub const fn f1_min() -> u8 {
        0
    }

    pub const fn f1_max() -> u8 {
        7
    }

    pub const fn f2_min() -> u8 {
        0
    }

    pub const fn f2_max() -> u8 {
        7
    }

    pub const fn f3_min() -> u8 {
        0
    }

    pub const fn f3_max() -> u8 {
        7
    }
}

#[asn(sequence, extensible_after(f2))]

#[derive(Default, Debug, Clone, PartialEq, Hash)]
pub struct Ts4mmdde3 {
    #[asn(integer(0..7))] pub f0: u8,
    #[asn(integer(0..7))] pub f1: u8,
    #[asn(default(integer(0..7), 5))] pub f2: u8,
    #[asn(default(integer(0..7), 5))] pub f3: u8,
}

impl Ts4mmdde3 {
    pub const fn f0_min() -> u8 {
        0
    }

    pub const fn f0_max() -> u8 {
        7
    }

    pub const fn f1_min() -> u8 {
        0
    }

    pub const fn f1_max() -> u8 {
        7
    }

    pub const fn f2_min() -> u8 {
        0
    }

    pub const fn f2_max() -> u8 {
        7
    }

    pub const fn f3_min() -> u8 {
        0
    }

    pub const fn f3_max() -> u8 {
        7
    }
}

#[asn(sequence, extensible_after(f3))]

#[derive(Default, Debug, Clone, PartialEq, Hash)]
pub struct Ts4mmdde4 {
    #[asn(integer(0..7))] pub f0: u8,
    #[asn(integer(0..7))] pub f1: u8,
    #[asn(default(integer(0..7), 5))] pub f2: u8,
    #[asn(default(integer(0..7), 5))] pub f3: u8,
}

impl Ts4mmdde4 {
    pub const fn f0_min() -> u8 {
        0
    }

    pub const fn f0_max() -> u8 {
        7
    }

    pub const fn f1_min() -> u8 {
        0
    }

    pub const fn f1_max() -> u8 {
        7
    }

    pub const fn f2_min() -> u8 {
        0
    }

    pub const fn f2_max() -> u8 {
        7
    }

    pub const fn f3_min() -> u8 {
        0
    }

    pub const fn f3_max() -> u8 {
        7
    }
}

#[asn(sequence)]

#[derive(Default, Debug, Clone, PartialEq, Hash)]
pub struct Ts4omddn {
    #[asn(optional(integer(0..7)))] pub f0: Option<u8>,
    #[asn(integer(0..7))] pub f1: u8,
    #[asn(default(integer(0..7), 5))] pub f2: u8,
    #[asn(default(integer(0..7), 5))] pub f3: u8,
}

impl Ts4omddn {
    pub const fn f0_min() -> u8 {
        0
    }

    pub const fn f0_max() -> u8 {
        7
    }

    pub const fn f1_min() -> u8 {
        0
    }

    pub const fn f1_max() -> u8 {
        7
    }

    pub const fn f2_min() -> u8 {
        0
    }

    pub const fn f2_max() -> u8 {
        7
    }

    pub const fn f3_min() -> u8 {
        0
    }

    pub const fn f3_max() -> u8 {
        7
    }
}

#[asn(sequence, extensible_after(f0))]

#[derive(Default, Debug, Clone, PartialEq, Hash)]
pub struct Ts4omdde0 {
    #[asn(optional(integer(0..7)))] pub f0: Option<u8>,
    #[asn(optional(integer(0..7)))] pub f1: Option<u8>,
    #[asn(default(integer(0..7), 5))] pub f2: u8,
    #[asn(default(integer(0..7), 5))] pub f3: u8,
}

impl Ts4omdde0 {
    pub const fn f0_min() -> u8 {
        0
    }

    pub const fn f0_max() -> u8 {
        7
    }

    pub const fn f1_min() -> u8 {
        0
    }

    pub const fn f1_max() -> u8 {
        7
    }

    pub const fn f2_min() -> u8 {
        0
    }

    pub const fn f2_max() -> u8 {
        7
    }

    pub const fn f3_min() -> u8 {
        0
    }

    pub const fn f3_max() -> u8 {
        7
    }
}

#[asn(sequence, extensible_after(f0))]

#[derive(Default, Debug, Clone, PartialEq, Hash)]
pub struct Ts4omdde1 {
    #[asn(optional(integer(0..7)))] pub f0: Option<u8>,
    #[asn(optional(integer(0..7)))] pub f1: Option<u8>,
    #[asn(default(integer(0..7), 5))] pub f2: u8,
    #[asn(default(integer(0..7), 5))] pub f3: u8,
}

impl Ts4omdde1 {
    pub const fn f0_min() -> u8 {
        0
    }

    pub const fn f0_max() -> u8 {
        7
    }

    pub const fn f1_min() -> u8 {
        0
    }

    pub const fn f1_max() -> u8 {
        7
    }

    pub const fn f2_min() -> u8 {
        0
    }

    pub const fn f2_max() -> u8 {
        7
    }

    pub const fn f3_min() -> u8 {
        0
    }

    pub const fn f3_max() -> u8 {
        7
    }
}

#[asn(sequence, extensible_after(f1))]

#[derive(Default, Debug, Clone, PartialEq, Hash)]
pub struct Ts4omdde2 {
    #[asn(optional(integer(0..7)))] pub f0: Option<u8>,
    #[asn(integer(0..7))] pub f1: u8,
    #[asn(default(integer(0..7), 5))] pub f2: u8,
    #[asn(default(integer(0..7), 5))] pub f3: u8,
}

impl Ts4omdde2 {
    pub const fn f0_min() -> u8 {
        0
    }

    pub const fn f0_max() -> u8 {
        7
    }

    pub const fn f1_min() -> u8 {
        0
    }

    pub const fn f1_max() -> u8 {
        7
    }

    pub const fn f2_min() -> u8 {
        0
    }

    pub const fn f2_max() -> u8 {
        7
    }

    pub const fn f3_min() -> u8 {
        0
    }

    pub const fn f3_max() -> u8 {
        7
    }
}

#[asn(sequence, extensible_after(f2))]

#[derive(Default, Debug, Clone, PartialEq, Hash)]
pub struct Ts4omdde3 {
    #[asn(optional(integer(0..7)))] pub f0: Option<u8>,
    #[asn(integer(0..7))] pub f1: u8,
    #[asn(default(integer(0..7), 5))] pub f2: u8,
    #[asn(default(integer(0..7), 5))] pub f3: u8,
}

impl Ts4omdde3 {
    pub const fn f0_min() -> u8 {
        0
    }

    pub const fn f0_max() -> u8 {
        7
    }

    pub const fn f1_min() -> u8 {
        0
    }

    pub const fn f1_max() -> u8 {
        7
    }

    pub const fn f2_min() -> u8 {
        0
    }

    pub const fn f2_max() -> u8 {
        7
    }

    pub const fn f3_min() -> u8 {
        0
    }

    pub const fn f3_max() -> u8 {
        7
    }
}

#[asn(sequence, extensible_after(f3))]

#[derive(Default, Debug, Clone, PartialEq, Hash)]
pub struct Ts4omdde4 {
    #[asn(optional(integer(0..7)))] pub f0: Option<u8>,
    #[asn(integer(0..7))] pub f1: u8,
    #[asn(default(integer(0..7), 5))] pub f2: u8,
    #[asn(default(integer(0..7), 5))] pub f3: u8,
}

impl Ts4omdde4 {
    pub const fn f0_min() -> u8 {
        0
    }

    pub const fn f0_max() -> u8 {
        7
    }

    pub const fn f1_min() -> u8 {
        0
    }

    pub const fn f1_max() -> u8 {
        7
    }

    pub const fn f2_min() -> u8 {
        0
    }

    pub const fn f2_max() -> u8 {
        7
    }

    pub const fn f3_min() -> u8 {
        0
    }

    pub const fn f3_max() -> u8 {
        7
    }
}

#[asn(sequence)]

#[derive(Default, Debug, Clone, PartialEq, Hash)]
pub struct Ts4dmddn {
    #[asn(default(integer(0..7), 5))] pub f0: u8,
    #[asn(integer(0..7))] pub f1: u8,
    #[asn(default(integer(0..7), 5))] pub f2: u8,
    #[asn(default(integer(0..7), 5))] pub f3: u8,
}

impl Ts4dmddn {
    pub const fn f0_min() -> u8 {
        0
    }

    pub const fn f0_max() -> u8 {
        7
    }

    pub const fn f1_min() -> u8 {
        0
    }

    pub const fn f1_max() -> u8 {
        7
    }

    pub const fn f2_min() -> u8 {
        0
    }

    pub const fn f2_max() -> u8 {
        7
    }

    pub const fn f3_min() -> u8 {
        0
    }

    pub const fn f3_max() -> u8 {
        7
    }
}

#[asn(sequence, extensible_after(f0))]

#[derive(Default, Debug, Clone, PartialEq, Hash)]
pub struct Ts4dmdde0 {
    #[asn(default(integer(0..7), 5))] pub f0: u8,
    #[asn(optional(integer(0..7)))] pub f1: Option<u8>,
    #[asn(default(integer(0..7), 5))] pub f2: u8,
    #[asn(default(integer(0..7), 5))] pub f3: u8,
}

impl Ts4dmdde0 {
    pub const fn f0_min() -> u8 {
        0
    }

    pub const fn f0_max() -> u8 {
        7
    }

    pub const fn f1_min() -> u8 {
        0
    }

    pub const fn f1_max() -> u8 {
        7
    }

    pub const fn f2_min() -> u8 {
        0
    }

    pub const fn f2_max() -> u8 {
        7
    }

    pub const fn f3_min() -> u8 {
        0
    }

    pub const fn f3_max() -> u8 {
        7
    }
}

#[asn(sequence, extensible_after(f0))]

#[derive(Default, Debug, Clone, PartialEq, Hash)]
pub struct Ts4dmdde1 {
    #[asn(default(integer(0..7), 5))] pub f0: u8,
    #[asn(optional(integer(0..7)))] pub f1: Option<u8>,
    #[asn(default(integer(0..7), 5))] pub f2: u8,
    #[asn(default(integer(0..7), 5))] pub f3: u8,
}

impl Ts4dmdde1 {
    pub const fn f0_min() -> u8 {
        0
    }

    pub const fn f0_max() -> u8 {
        7
    }

    pub const fn f1_min() -> u8 {
        0
    }

    pub const fn f1_max() -> u8 {
        7
    }

    pub const fn f2_min() -> u8 {
        0
    }

    pub const fn f2_max() -> u8 {
        7
    }

    pub const fn f3_min() -> u8 {
        0
    }

    pub const fn f3_max() -> u8 {
        7
    }
}

#[asn(sequence, extensible_after(f1))]

#[derive(Default, Debug, Clone, PartialEq, Hash)]
pub struct Ts4dmdde2 {
    #[asn(default(integer(0..7), 5))] pub f0: u8,
    #[asn(integer(0..7))] pub f1: u8,
    #[asn(default(integer(0..7), 5))] pub f2: u8,
    #[asn(default(integer(0..7), 5))] pub f3: u8,
}

impl Ts4dmdde2 {
    pub const fn f0_min() -> u8 {
        0
    }

    pub const fn f0_max() -> u8 {
        7
    }

    pub const fn f1_min() -> u8 {
        0
    }

    pub const fn f1_max() -> u8 {
        7
    }

    pub const fn f2_min() -> u8 {
        0
    }

    pub const fn f2_max() -> u8 {
        7
    }

    pub const fn f3_min() -> u8 {
        0
    }

    pub const fn f3_max() -> u8 {
        7
    }
}

#[asn(sequence, extensible_after(f2))]

#[derive(Default, Debug, Clone, PartialEq, Hash)]
pub struct Ts4dmdde3 {
    #[asn(default(integer(0..7), 5))] pub f0: u8,
    #[asn(integer(0..7))] pub f1: u8,
    #[asn(default(integer(0..7), 5))] pub f2: u8,
    #[asn(default(integer(0..7), 5))] pub f3: u8,
}

impl Ts4dmdde3 {
    pub const fn f0_min() -> u8 {
        0
    }

    pub const fn f0_max() -> u8 {
        7
    }

    pub const fn f1_min() -> u8 {
        0
    }

    pub const fn f1_max() -> u8 {
        7
    }

    pub const fn f2_min() -> u8 {
        0
    }

    pub const fn f2_max() -> u8 {
        7
    }

    pub const fn f3_min() -> u8 {
        0
    }

    pub const fn f3_max() -> u8 {
        7
    }
}

#[asn(sequence, extensible_after(f3))]

#[derive(Default, Debug, Clone, PartialEq, Hash)]
pub struct Ts4dmdde4 {
    #[asn(default(integer(0..7), 5))] pub f0: u8,
    #[asn(integer(0..7))] pub f1: u8,
    #[asn(default(integer(0..7), 5))] pub f2: u8,
    #[asn(default(integer(0..7), 5))] pub f3: u8,
}

impl Ts4dmdde4 {
    pub const fn f0_min() -> u8 {
        0
    }

    pub const fn f0_max() -> u8 {
        7
    }

    pub const fn f1_min() -> u8 {
        0
    }

    pub const fn f1_max() -> u8 {
        7
    }

    pub const fn f2_min() -> u8 {
        0
    }

    pub const fn f2_max() -> u8 {
        7
    }

    pub const fn f3_min() -> u8 {
        0
    }

    pub const fn f3_max() -> u8 {
        7
    }
}

#[asn(sequence)]

#[derive(Default, Debug, Clone, PartialEq, Hash)]
pub struct Ts4moddn {
    #[asn(integer(0..7))] pub f0: u8,
    #[asn(optional(integer(0..7)))] pub f1: Option<u8>,
    #[asn(default(integer(0..7), 5))] pub f2: u8,
    #[asn(default(integer(0..7), 5))] pub f3: u8,
}

impl Ts4moddn {
    pub const fn f0_min() -> u8 {
        0
    }

    pub const fn f0_max() -> u8 {
        7
    }

    pub const fn f1_min() -> u8 {
        0
    }

    pub const fn f1_max() -> u8 {
        7
    }

    pub const fn f2_min() -> u8 {
        0
    }

    pub const fn f2_max() -> u8 {
        7
    }

    pub const fn f3_min() -> u8 {
        0
    }

    pub const fn f3_max() -> u8 {
        7
    }
}

#[asn(sequence, extensible_after(f0))]

#[derive(Default, Debug, Clone, PartialEq, Hash)]
pub struct Ts4modde0 {
    #[asn(integer(0..7))] pub f0: u8,
    #[asn(optional(integer(0..7)))] pub f1: Option<u8>,
    #[asn(default(integer(0..7), 5))] pub f2: u8,
    #[asn(default(integer(0..7), 5))] pub f3: u8,
}

impl Ts4modde0 {
    pub const fn f0_min() -> u8 {
        0
    }

    pub const fn f0_max() -> u8 {
        7
    }

    pub const fn f1_min() -> u8 {
        0
    }

    pub const fn f1_max() -> u8 {
        7
    }

    pub const fn f2_min() -> u8 {
        0
    }

    pub const fn f2_max() -> u8 {
        7
    }

    pub const fn f3_min() -> u8 {
        0
    }

    pub const fn f3_max() -> u8 {
        7
    }
}

#[asn(sequence, extensible_after(f0))]

#[derive(Default, Debug, Clone, PartialEq, Hash)]
pub struct Ts4modde1 {
    #[asn(integer(0..7))] pub f0: u8,
    #[asn(optional(integer(0..7)))] pub f1: Option<u8>,
    #[asn(default(integer(0..7), 5))] pub f2: u8,
    #[asn(default(integer(0..7), 5))] pub f3: u8,
}

impl Ts4modde1 {
    pub const fn f0_min() -> u8 {
        0
    }

    pub const fn f0_max() -> u8 {
        7
    }

    pub const fn f1_min() -> u8 {
        0
    }

    pub const fn f1_max() -> u8 {
        7
    }

    pub const fn f2_min() -> u8 {
        0
    }

    pub const fn f2_max() -> u8 {
        7
    }

    pub const fn f3_min() -> u8 {
        0
    }

    pub const fn f3_max() -> u8 {
        7
    }
}

#[asn(sequence, extensible_after(f1))]

#[derive(Default, Debug, Clone, PartialEq, Hash)]
pub struct Ts4modde2 {
    #[asn(integer(0..7))] pub f0: u8,
    #[asn(optional(integer(0..7)))] pub f1: Option<u8>,
    #[asn(default(integer(0..7), 5))] pub f2: u8,
    #[asn(default(integer(0..7), 5))] pub f3: u8,
}

impl Ts4modde2 {
    pub const fn f0_min() -> u8 {
        0
    }

    pub const fn f0_max() -> u8 {
        7
    }

    pub const fn f1_min() -> u8 {
        0
    }

    pub const fn f1_max() -> u8 {
        7
    }

    pub const fn f2_min() -> u8 {
        0
    }

    pub const fn f2_max() -> u8 {
        7
    }

    pub const fn f3_min() -> u8 {
        0
    }

    pub const fn f3_max() -> u8 {
        7
    }
}

#[asn(sequence, extensible_after(f2))]

#[derive(Default, Debug, Clone, PartialEq, Hash)]
pub struct Ts4modde3 {
    #[asn(integer(0..7))] pub f0: u8,
    #[asn(optional(integer(0..7)))] pub f1: Option<u8>,
    #[asn(default(integer(0..7), 5))] pub f2: u8,
    #[asn(default(integer(0..7), 5))] pub f3: u8,
}

impl Ts4modde3 {
    pub const fn f0_min() -> u8 {
        0
    }

    pub const fn f0_max() -> u8 {
        7
    }

    pub const fn f1_min() -> u8 {
        0
    }

    pub const fn f1_max() -> u8 {
        7
    }

    pub const fn f2_min() -> u8 {
        0
    }

    pub const fn f2_max() -> u8 {
        7
    }

    pub const fn f3_min() -> u8 {
        0
    }

    pub const fn f3_max() -> u8 {
        7
    }
}

#[asn(sequence, extensible_after(f3))]

#[derive(Default, Debug, Clone, PartialEq, Hash)]
pub struct Ts4modde4 {
    #[asn(integer(0..7))] pub f0: u8,
    #[asn(optional(integer(0..7)))] pub f1: Option<u8>,
    #[asn(default(integer(0..7), 5))] pub f2: u8,
    #[asn(default(integer(0..7), 5))] pub f3: u8,
}

impl Ts4modde4 {
    pub const fn f0_min() -> u8 {
        0
    }

    pub const fn f0_max() -> u8 {
        7
    }

    pub const fn f1_min() -> u8 {
        0
    }

    pub const fn f1_max() -> u8 {
        7
    }

    pub const fn f2_min() -> u8 {
        0
    }

    pub const fn f2_max() -> u8 {
        7
    }

    pub const fn f3_min() -> u8 {
        0
    }

    pub const fn f3_max() -> u8 {
        7
    }
}

#[asn(sequence)]

#[derive(Default, Debug, Clone, PartialEq, Hash)]
pub struct Ts4ooddn {
    #[asn(optional(integer(0..7)))] pub f0: Option<u8>,
    #[asn(optional(integer(0..7)))] pub f1: Option<u8>,
    #[asn(default(integer(0..7), 5))] pub f2: u8,
    #[asn(default(integer(0..7), 5))] pub f3: u8,
}

impl Ts4ooddn {
    pub const fn f0_min() -> u8 {
        0
    }

    pub const fn f0_max() -> u8 {
        7
    }

    pub const fn f1_min() -> u8 {
        0
    }

    pub const fn f1_max() -> u8 {
        7
    }

    pub const fn f2_min() -> u8 {
        0
    }

    pub const fn f2_max() -> u8 {
        7
    }

    pub const fn f3_min() -> u8 {
        0
    }

    pub const fn f3_max() -> u8 {
        7
    }
}

#[asn(sequence, extensible_after(f0))]

#[derive(Default, Debug, Clone, PartialEq, Hash)]
pub struct Ts4oodde0 {
    #[asn(optional(integer(0..7)))] pub f0: Option<u8>,
    #[asn(optional(integer(0..7)))] pub f1: Option<u8>,
    #[asn(default(integer(0..7), 5))] pub f2: u8,
    #[asn(default(integer(0..7), 5))] pub f3: u8,
}

impl Ts4oodde0 {
    pub const fn f0_min() -> u8 {
        0
    }

    pub const fn f0_max() -> u8 {
        7
    }

    pub const fn f1_min() -> u8 {
        0
    }

    pub const fn f1_max() -> u8 {
        7
    }

    pub const fn f2_min() -> u8 {
        0
    }

    pub const fn f2_max() -> u8 {
        7
    }

    pub const fn f3_min() -> u8 {
        0
    }

    pub const fn f3_max() -> u8 {
        7
    }
}

#[asn(sequence, extensible_after(f0))]

#[derive(Default, Debug, Clone, PartialEq, Hash)]
pub struct Ts4oodde1 {
    #[asn(optional(integer(0..7)))] pub f0: Option<u8>,
    #[asn(optional(integer(0..7)))] pub f1: Option<u8>,
    #[asn(default(integer(0..7), 5))] pub f2: u8,
    #[asn(default(integer(0..7), 5))] pub f3: u8,
}

impl Ts4oodde1 {
    pub const fn f0_min() -> u8 {
        0
    }

    pub const fn f0_max() -> u8 {
        7
    }

    pub const fn f1_min() -> u8 {
        0
    }

    pub const fn f1_max() -> u8 {
        7
    }

    pub const fn f2_min() -> u8 {
        0
    }

    pub const fn f2_max() -> u8 {
        7
    }

    pub const fn f3_min() -> u8 {
        0
    }

    pub const fn f3_max() -> u8 {
        7
    }
}

#[asn(sequence, extensible_after(f1))]

#[derive(Default, Debug, Clone, PartialEq, Hash)]
pub struct Ts4oodde2 {
    #[asn(optional(integer(0..7)))] pub f0: Option<u8>,
    #[asn(optional(integer(0..7)))] pub f1: Option<u8>,
    #[asn(default(integer(0..7), 5))] pub f2: u8,
    #[asn(default(integer(0..7), 5))] pub f3: u8,
}

impl Ts4oodde2 {
    pub const fn f0_min() -> u8 {
        0
    }

    pub const fn f0_max() -> u8 {
        7
    }

    pub const fn f1_min() -> u8 {
        0
    }

    pub const fn f1_max() -> u8 {
        7
    }

    pub const fn f2_min() -> u8 {
        0
    }

    pub const fn f2_max() -> u8 {
        7
    }

    pub const fn f3_min() -> u8 {
        0
    }

    pub const fn f3_max() -> u8 {
        7
    }
}

#[asn(sequence, extensible_after(f2))]

#[derive(Default, Debug, Clone, PartialEq, Hash)]
pub struct Ts4oodde3 {
    #[asn(optional(integer(0..7)))] pub f0: Option<u8>,
    #[asn(optional(integer(0..7)))] pub f1: Option<u8>,
    #[asn(default(integer(0..7), 5))] pub f2: u8,
    #[asn(default(integer(0..7), 5))] pub f3: u8,
}

impl Ts4oodde3 {
    pub const fn f0_min() -> u8 {
        0
    }

    pub const fn f0_max() -> u8 {
        7
    }

    pub const fn f1_min() -> u8 {
        0
    }

    pub const fn f1_max() -> u8 {
        7
    }

    pub const fn f2_min() -> u8 {
        0
    }

    pub const fn f2_max() -> u8 {
        7
    }

    pub const fn f3_min() -> u8 {
        0
    }

    pub const fn f3_max() -> u8 {
        7
    }
}

#[asn(sequence, extensible_after(f3))]

#[derive(Default, Debug, Clone, PartialEq, Hash)]
pub struct Ts4oodde4 {
    #[asn(optional(integer(0..7)))] pub f0: Option<u8>,
    #[asn(optional(integer(0..7)))] pub f1: Option<u8>,
    #[asn(default(integer(0..7), 5))] pub f2: u8,
    #[asn(default(integer(0..7), 5))] pub f3: u8,
}

impl Ts4oodde4 {
    pub const fn f0_min() -> u8 {
        0
    }

    pub const fn f0_max() -> u8 {
        7
    }

    pub const fn f1_min() -> u8 {
        0
    }

    pub const fn f1_max() -> u8 {
        7
    }

    pub const fn f2_min() -> u8 {
        0
    }

    pub const fn f2_max() -> u8 {
        7
    }

    pub const fn f3_min() -> u8 {
        0
    }

    pub const fn f3_max() -> u8 {
        7
    }
}

#[asn(sequence)]

#[derive(Default, Debug, Clone, PartialEq, Hash)]
pub struct Ts4doddn {
    #[asn(default(integer(0..7), 5))] pub f0: u8,
    #[asn(optional(integer(0..7)))] pub f1: Option<u8>,
    #[asn(default(integer(0..7), 5))] pub f2: u8,
    #[asn(default(integer(0..7), 5))] pub f3: u8,
}

impl Ts4doddn {
    pub const fn f0_min() -> u8 {
        0
    }

    pub const fn f0_max() -> u8 {
        7
    }

    pub const fn f1_min() -> u8 {
        0
    }

    pub const fn f1_max() -> u8 {
        7
    }

    pub const fn f2_min() -> u8 {
        0
    }

    pub const fn f2_max() -> u8 {
        7
    }

    pub const fn f3_min() -> u8 {
        0
    }

    pub const fn f3_max() -> u8 {
        7
    }
}

#[asn(sequence, extensible_after(f0))]

#[derive(Default, Debug, Clone, PartialEq, Hash)]
pub struct Ts4dodde0 {
    #[asn(default(integer(0..7), 5))] pub f0: u8,
    #[asn(optional(integer(0..7)))] pub f1: Option<u8>,
    #[asn(default(integer(0..7), 5))] pub f2: u8,
    #[asn(default(integer(0..7), 5))] pub f3: u8,
}

impl Ts4dodde0 {
    pub const fn f0_min() -> u8 {
        0
    }

    pub const fn f0_max() -> u8 {
        7
    }

    pub const fn f1_min() -> u8 {
        0
    }

    pub const fn f1_max() -> u8 {
        7
    }

    pub const fn f2_min() -> u8 {
        0
    }

    pub const fn f2_max() -> u8 {
        7
    }

    pub const fn f3_min() -> u8 {
        0
    }

    pub const fn f3_max() -> u8 {
        7
    }
}

#[asn(sequence, extensible_after(f0))]

#[derive(Default, Debug, Clone, PartialEq, Hash)]
pub struct Ts4dodde1 {
    #[asn(default(integer(0..7), 5))] pub f0: u8,
    #[asn(optional(integer(0..7)))] pub f1: Option<u8>,
    #[asn(default(integer(0..7), 5))] pub f2: u8,
    #[asn(default(integer(0..7), 5))] pub f3: u8,
}

impl Ts4dodde1 {
    pub const fn f0_min() -> u8 {
        0
    }

    pub const fn f0_max() -> u8 {
        7
    }

    pub const fn f1_min() -> u8 {
        0
    }

    pub const fn f1_max() -> u8 {
        7
    }

    pub const fn f2_min() -> u8 {
        0
    }

    pub const fn f2_max() -> u8 {
        7
    }

    pub const fn f3_min() -> u8 {
        0
    }

    pub const fn f3_max() -> u8 {
        7
    }
}

#[asn(sequence, extensible_after(f1))]

#[derive(Default, Debug, Clone, PartialEq, Hash)]
pub struct Ts4dodde2 {
    #[asn(default(integer(0..7), 5))] pub f0: u8,
    #[asn(optional(integer(0..7)))] pub f1: Option<u8>,
    #[asn(default(integer(0..7), 5))] pub f2: u8,
    #[asn(default(integer(0..7), 5))] pub f3: u8,
}

impl Ts4dodde2 {
    pub const fn f0_min() -> u8 {
        0
    }

    pub const fn f0_max() -> u8 {
        7
    }

    pub const fn f1_min() -> u8 {
        0
    }

    pub const fn f1_max() -> u8 {
        7
    }

    pub const fn f2_min() -> u8 {
        0
    }

    pub const fn f2_max() -> u8 {
        7
    }

    pub const fn f3_min() -> u8 {
        0
    }

    pub const fn f3_max() -> u8 {
        7
    }
}

#[asn(sequence, extensible_after(f2))]

#[derive(Default, Debug, Clone, PartialEq, Hash)]
pub struct Ts4dodde3 {
    #[asn(default(integer(0..7), 5))] pub f0: u8,
    #[asn(optional(integer(0..7)))] pub f1: Option<u8>,
    #[asn(default(integer(0..7), 5))] pub f2: u8,
    #[asn(default(integer(0..7), 5))] pub f3: u8,
}

impl Ts4dodde3 {
    pub const fn f0_min() -> u8 {
        0
    }

    pub const fn f0_max() -> u8 {
        7
    }

    pub const fn f1_min() -> u8 {
        0
    }

    pub const fn f1_max() -> u8 {
        7
    }

    pub const fn f2_min() -> u8 {
        0
    }

    pub const fn f2_max() -> u8 {
        7
    }

    pub const fn f3_min() -> u8 {
        0
    }

    pub const fn f3_max() -> u8 {
        7
    }
}

#[asn(sequence, extensible_after(f3))]

#[derive(Default, Debug, Clone, PartialEq, Hash)]
pub struct Ts4dodde4 {
    #[asn(default(integer(0..7), 5))] pub f0: u8,
    #[asn(optional(integer(0..7)))] pub f1: Option<u8>,
    #[asn(default(integer(0..7), 5))] pub f2: u8,
    #[asn(default(integer(0..7), 5))] pub f3: u8,
}

impl Ts4dodde4 {
    pub const fn f0_min() -> u8 {
        0
    }

    pub const fn f0_max() -> u8 {
        7
    }

    pub const fn f1_min() -> u8 {
        0
    }

    pub const fn f1_max() -> u8 {
        7
    }

    pub const fn f2_min() -> u8 {
        0
    }

    pub const fn f2_max() -> u8 {
        7
    }

    pub const fn f3_min() -> u8 {
        0
    }

    pub const fn f3_max() -> u8 {
        7
    }
}

#[asn(sequence)]

#[derive(Default, Debug, Clone, PartialEq, Hash)]
pub struct Ts4mdddn {
    #[asn(integer(0..7))] pub f0: u8,
    #[asn(default(integer(0..7), 5))] pub f1: u8,
    #[asn(default(integer(0..7), 5))] pub f2: u8,
    #[asn(default(integer(0..7), 5))] pub f3: u8,
}

impl Ts4mdddn {
    pub const fn f0_min() -> u8 {
        0
    }

    pub const fn f0_max() -> u8 {
        7
    }

    pub const fn f1_min() -> u8 {
        0
    }

    pub const fn f1_max() -> u8 {
        7
    }

    pub const fn f2_min() -> u8 {
        0
    }

    pub const fn f2_max() -> u8 {
        7
    }

    pub const fn f3_min() -> u8 {
        0
    }

    pub const fn f3_max() -> u8 {
        7
    }
}

#[asn(sequence, extensible_after(f0))]

#[derive(Default, Debug, Clone, PartialEq, Hash)]
pub struct Ts4mddde0 {
    #[asn(integer(0..7))] pub f0: u8,
    #[asn(default(integer(0..7), 5))] pub f1: u8,
    #[asn(default(integer(0..7), 5))] pub f2: u8,
    #[asn(default(integer(0..7), 5))] pub f3: u8,
}

impl Ts4mddde0 {
    pub const fn f0_min() -> u8 {
        0
    }

    pub const fn f0_max() -> u8 {
        7
    }

    pub const fn f1_min() -> u8 {
        0
    }

    pub const fn f1_max() -> u8 {
        7
    }

    pub const fn f2_min() -> u8 {
        0
    }

    pub const fn f2_max() -> u8 {
        7
    }

    pub const fn f3_min() -> u8 {
        0
    }

    pub const fn f3_max() -> u8 {
        7
    }
}

#[asn(sequence, extensible_after(f0))]

#[derive(Default, Debug, Clone, PartialEq, Hash)]
pub struct Ts4mddde1 {
    #[asn(integer(0..7))] pub f0: u8,
    #[asn(default(integer(0..7), 5))] pub f1: u8,
    #[asn(default(integer(0..7), 5))] pub f2: u8,
    #[asn(default(integer(0..7), 5))] pub f3: u8,
}

impl Ts4mddde1 {
    pub const fn f0_min() -> u8 {
        0
    }

    pub const fn f0_max() -> u8 {
        7
    }

    pub const fn f1_min() -> u8 {
        0
    }

    pub const fn f1_max() -> u8 {
        7
    }

    pub const fn f2_min() -> u8 {
        0
    }

    pub const fn f2_max() -> u8 {
        7
    }

    pub const fn f3_min() -> u8 {
        0
    }

    pub const fn f3_max() -> u8 {
        7
    }
}

#[asn(sequence, extensible_after(f1))]

#[derive(Default, Debug, Clone, PartialEq, Hash)]
pub struct Ts4mddde2 {
    #[asn(integer(0..7))] pub f0: u8,
    #[asn(default(integer(0..7), 5))] pub f1: u8,
    #[asn(default(integer(0..7), 5))] pub f2: u8,
    #[asn(default(integer(0..7), 5))] pub f3: u8,
}

impl Ts4mddde2 {
    pub const fn f0_min() -> u8 {
        0
    }

    pub const fn f0_max() -> u8 {
        7
    }

    pub const fn f1_min() -> u8 {
        0
    }

    pub const fn f1_max() -> u8 {
        7
    }

    pub const fn f2_min() -> u8 {
        0
    }

    pub const fn f2_max() -> u8 {
        7
    }

    pub const fn f3_min() -> u8 {
        0
    }

    pub const fn f3_max() -> u8 {
        7
    }
}

#[asn(sequence, extensible_after(f2))]

#[derive(Default, Debug, Clone, PartialEq, Hash)]
pub struct Ts4mddde3 {
    #[asn(integer(0..7))] pub f0: u8,
    #[asn(default(integer(0..7), 5))] pub f1: u8,
    #[asn(default(integer(0..7), 5))] pub f2: u8,
    #[asn(default(integer(0..7), 5))] pub f3: u8,
}

impl Ts4mddde3 {
    pub const fn f0_min() -> u8 {
        0
    }

    pub const fn f0_max() -> u8 {
        7
    }

    pub const fn f1_min() -> u8 {
        0
    }

    pub const fn f1_max() -> u8 {
        7
    }

    pub const fn f2_min() -> u8 {
        0
    }

    pub const fn f2_max() -> u8 {
        7
    }

    pub const fn f3_min() -> u8 {
        0
    }

    pub const fn f3_max() -> u8 {
        7
    }
}

#[asn(sequence, extensible_after(f3))]

#[derive(Default, Debug, Clone, PartialEq, Hash)]
pub struct Ts4mddde4 {
    #[asn(integer(0..7))] pub f0: u8,
    #[asn(default(integer(0..7), 5))] pub f1: u8,
    #[asn(default(integer(0..7), 5))] pub f2: u8,
    #[asn(default(integer(0..7), 5))] pub f3: u8,
}

impl Ts4mddde4 {
    pub const fn f0_min() -> u8 {
        0
    }

    pub const fn f0_max() -> u8 {
        7
    }

    pub const fn f1_min() -> u8 {
        0
    }

    pub const fn f1_max() -> u8 {
        7
    }

    pub const fn f2_min() -> u8 {
        0
    }

    pub const fn f2_max() -> u8 {
        7
    }

    pub const fn f3_min() -> u8 {
        0
    }

    pub const fn f3_max() -> u8 {
        7
    }
}

#[asn(sequence)]

#[derive(Default, Debug, Clone, PartialEq, Hash)]
pub struct Ts4odddn {
    #[asn(optional(integer(0..7)))] pub f0: Option<u8>,
    #[asn(default(integer(0..7), 5))] pub f1: u8,
    #[asn(default(integer(0..7), 5))] pub f2: u8,
    #[asn(default(integer(0..7), 5))] pub f3: u8,
}

impl Ts4odddn {
    pub const fn f0_min() -> u8 {
        0
    }

    pub const fn f0_max() -> u8 {
        7
    }

    pub const fn f1_min() -> u8 {
        0
    }

    pub const fn f1_max() -> u8 {
        7
    }

    pub const fn f2_min() -> u8 {
        0
    }

    pub const fn f2_max() -> u8 {
        7
    }

    pub const fn f3_min() -> u8 {
        0
    }

    pub const fn f3_max() -> u8 {
        7
    }
}

#[asn(sequence, extensible_after(f0))]

#[derive(Default, Debug, Clone, PartialEq, Hash)]
pub struct Ts4oddde0 {
    #[asn(optional(integer(0..7)))] pub f0: Option<u8>,
    #[asn(default(integer(0..7), 5))] pub f1: u8,
    #[asn(default(integer(0..7), 5))] pub f2: u8,
    #[asn(default(integer(0..7), 5))] pub f3: u8,
}

impl Ts4oddde0 {
    pub const fn f0_min() -> u8 {
        0
    }

    pub const fn f0_max() -> u8 {
        7
    }

    pub const fn f1_min() -> u8 {
        0
    }

    pub const fn f1_max() -> u8 {
        7
    }

    pub const fn f2_min() -> u8 {
        0
    }

    pub const fn f2_max() -> u8 {
        7
    }

    pub const fn f3_min() -> u8 {
        0
    }

    pub const fn f3_max() -> u8 {
        7
    }
}

#[asn(sequence, extensible_after(f0))]

#[derive(Default, Debug, Clone, PartialEq, Hash)]
pub struct Ts4oddde1 {
    #[asn(optional(integer(0..7)))] pub f0: Option<u8>,
    #[asn(default(integer(0..7), 5))] pub f1: u8,
    #[asn(default(integer(0..7), 5))] pub f2: u8,
    #[asn(default(integer(0..7), 5))] pub f3: u8,
}

impl Ts4oddde1 {
    pub const fn f0_min() -> u8 {
        0
    }

    pub const fn f0_max() -> u8 {
        7
    }

    pub const fn f1_min() -> u8 {
        0
    }

    pub const fn f1_max() -> u8 {
        7
    }

    pub const fn f2_min() -> u8 {
        0
    }

    pub const fn f2_max() -> u8 {
        7
    }

    pub const fn f3_min() -> u8 {
        0
    }

    pub const fn f3_max() -> u8 {
        7
    }
}

#[asn(sequence, extensible_after(f1))]

#[derive(Default, Debug, Clone, PartialEq, Hash)]
pub struct Ts4oddde2 {
    #[asn(optional(integer(0..7)))] pub f0: Option<u8>,
    #[asn(default(integer(0..7), 5))] pub f1: u8,
    #[asn(default(integer(0..7), 5))] pub f2: u8,
    #[asn(default(integer(0..7), 5))] pub f3: u8,
}

impl Ts4oddde2 {
    pub const fn f0_min() -> u8 {
        0
    }

    pub const fn f0_max() -> u8 {
        7
    }

    pub const fn f1_min() -> u8 {
        0
    }

    pub const fn f1_max() -> u8 {
        7
    }

    pub const fn f2_min() -> u8 {
        0
    }

    pub const fn f2_max() -> u8 {
        7
    }

    pub const fn f3_min() -> u8 {
        0
    }

    pub const fn f3_max() -> u8 {
        7
    }
}

#[asn(sequence, extensible_after(f2))]

#[derive(Default, Debug, Clone, PartialEq, Hash)]
pub struct Ts4oddde3 {
    #[asn(optional(integer(0..7)))] pub f0: Option<u8>,
    #[asn(default(integer(0..7), 5))] pub f1: u8,
    #[asn(default(integer(0..7), 5))] pub f2: u8,
    #[asn(default(integer(0..7), 5))] pub f3: u8,
}

impl Ts4oddde3 {
    pub const fn f0_min() -> u8 {
        0
    }

    pub const fn f0_max() -> u8 {
        7
    }

    pub const fn f1_min() -> u8 {
        0
    }

    pub const fn f1_max() -> u8 {
        7
    }

    pub const fn f2_min() -> u8 {
        0
    }

    pub const fn f2_max() -> u8 {
        7
    }

    pub const fn f3_min() -> u8 {
        0
    }

    pub const fn f3_max() -> u8 {
        7
    }
}

#[asn(sequence, extensible_after(f3))]

#[derive(Default, Debug, Clone, PartialEq, Hash)]
pub struct Ts4oddde4 {
    #[asn(optional(integer(0..7)))] pub f0: Option<u8>,
    #[asn(default(integer(0..7), 5))] pub f1: u8,
    #[asn(default(integer(0..7), 5))] pub f2: u8,
    #[asn(default(integer(0..7), 5))] pub f3: u8,
}

impl Ts4oddde4 {
    pub const fn f0_min() -> u8 {
        0
    }

    pub const fn f0_max() -> u8 {
        7
    }

    pub const fn f1_min() -> u8 {
        0
    }

    pub const fn f1_max() -> u8 {
        7
    }

    pub const fn f2_min() -> u8 {
        0
    }

    pub const fn f2_max() -> u8 {
        7
    }

    pub const fn f3_min() -> u8 {
        0
    }

    pub const fn f3_max() -> u8 {
        7
    }
}
// ---- harness conversions (generated by the zoo build script from the items above) ----
impl FromValue for Ts4mdmdn {
    fn from_value(v: &Value) -> Self {
        let s = match v { Value::Seq(s) => s, other => panic!("Ts4mdmdn: expected Seq, got {other:?}") };
        assert_eq!(s.len(), 4, "Ts4mdmdn: component count");
        let _ = s;
        Ts4mdmdn {
            f0: FromValue::from_value(s[0].as_ref().expect("component f0 of Ts4mdmdn must be present")),
            f1: FromValue::from_value(s[1].as_ref().expect("component f1 of Ts4mdmdn must be present")),
            f2: FromValue::from_value(s[2].as_ref().expect("component f2 of Ts4mdmdn must be present")),
            f3: FromValue::from_value(s[3].as_ref().expect("component f3 of Ts4mdmdn must be present")),
        }
    }
}
impl ToValue for Ts4mdmdn {
    fn to_value(&self) -> Value {
        Value::Seq(vec![
            Some(self.f0.to_value()),
            Some(self.f1.to_value()),
            Some(self.f2.to_value()),
            Some(self.f3.to_value()),
        ])
    }
}
impl FromValue for Ts4mdmde0 {
    fn from_value(v: &Value) -> Self {
        let s = match v { Value::Seq(s) => s, other => panic!("Ts4mdmde0: expected Seq, got {other:?}") };
        assert_eq!(s.len(), 4, "Ts4mdmde0: component count");
        let _ = s;
        Ts4mdmde0 {
            f0: FromValue::from_value(s[0].as_ref().expect("component f0 of Ts4mdmde0 must be present")),
            f1: FromValue::from_value(s[1].as_ref().expect("component f1 of Ts4mdmde0 must be present")),
            f2: s[2].as_ref().map(FromValue::from_value),
            f3: FromValue::from_value(s[3].as_ref().expect("component f3 of Ts4mdmde0 must be present")),
        }
    }
}
impl ToValue for Ts4mdmde0 {
    fn to_value(&self) -> Value {
        Value::Seq(vec![
            Some(self.f0.to_value()),
            Some(self.f1.to_value()),
            self.f2.as_ref().map(|x| x.to_value()),
            Some(self.f3.to_value()),
        ])
    }
}
impl FromValue for Ts4mdmde1 {
    fn from_value(v: &Value) -> Self {
        let s = match v { Value::Seq(s) => s, other => panic!("Ts4mdmde1: expected Seq, got {other:?}") };
        assert_eq!(s.len(), 4, "Ts4mdmde1: component count");
        let _ = s;
        Ts4mdmde1 {
            f0: FromValue::from_value(s[0].as_ref().expect("component f0 of Ts4mdmde1 must be present")),
            f1: FromValue::from_value(s[1].as_ref().expect("component f1 of Ts4mdmde1 must be present")),
            f2: s[2].as_ref().map(FromValue::from_value),
            f3: FromValue::from_value(s[3].as_ref().expect("component f3 of Ts4mdmde1 must be present")),
        }
    }
}
impl ToValue for Ts4mdmde1 {
    fn to_value(&self) -> Value {
        Value::Seq(vec![
            Some(self.f0.to_value()),
            Some(self.f1.to_value()),
            self.f2.as_ref().map(|x| x.to_value()),
            Some(self.f3.to_value()),
        ])
    }
}
impl FromValue for Ts4mdmde2 {
    fn from_value(v: &Value) -> Self {
        let s = match v { Value::Seq(s) => s, other => panic!("Ts4mdmde2: expected Seq, got {other:?}") };
        assert_eq!(s.len(), 4, "Ts4mdmde2: component count");
        let _ = s;
        Ts4mdmde2 {
            f0: FromValue::from_value(s[0].as_ref().expect("component f0 of Ts4mdmde2 must be present")),
            f1: FromValue::from_value(s[1].as_ref().expect("component f1 of Ts4mdmde2 must be present")),
            f2: s[2].as_ref().map(FromValue::from_value),
            f3: FromValue::from_value(s[3].as_ref().expect("component f3 of Ts4mdmde2 must be present")),
        }
    }
}
impl ToValue for Ts4mdmde2 {
    fn to_value(&self) -> Value {
        Value::Seq(vec![
            Some(self.f0.to_value()),
            Some(self.f1.to_value()),
            self.f2.as_ref().map(|x| x.to_value()),
            Some(self.f3.to_value()),
        ])
    }
}
impl FromValue for Ts4mdmde3 {
    fn from_value(v: &Value) -> Self {
        let s = match v { Value::Seq(s) => s, other => panic!("Ts4mdmde3: expected Seq, got {other:?}") };
        assert_eq!(s.len(), 4, "Ts4mdmde3: component count");
        let _ = s;
        Ts4mdmde3 {
            f0: FromValue::from_value(s[0].as_ref().expect("component f0 of Ts4mdmde3 must be present")),
            f1: FromValue::from_value(s[1].as_ref().expect("component f1 of Ts4mdmde3 must be present")),
            f2: FromValue::from_value(s[2].as_ref().expect("component f2 of Ts4mdmde3 must be present")),
            f3: FromValue::from_value(s[3].as_ref().expect("component f3 of Ts4mdmde3 must be present")),
        }
    }
}
impl ToValue for Ts4mdmde3 {
    fn to_value(&self) -> Value {
        Value::Seq(vec![
            Some(self.f0.to_value()),
            Some(self.f1.to_value()),
            Some(self.f2.to_value()),
            Some(self.f3.to_value()),
        ])
    }
}
impl FromValue for Ts4mdmde4 {
    fn from_value(v: &Value) -> Self {
        let s = match v { Value::Seq(s) => s, other => panic!("Ts4mdmde4: expected Seq, got {other:?}") };
        assert_eq!(s.len(), 4, "Ts4mdmde4: component count");
        let _ = s;
        Ts4mdmde4 {
            f0: FromValue::from_value(s[0].as_ref().expect("component f0 of Ts4mdmde4 must be present")),
            f1: FromValue::from_value(s[1].as_ref().expect("component f1 of Ts4mdmde4 must be present")),
            f2: FromValue::from_value(s[2].as_ref().expect("component f2 of Ts4mdmde4 must be present")),
            f3: FromValue::from_value(s[3].as_ref().expect("component f3 of Ts4mdmde4 must be present")),
        }
    }
}
impl ToValue for Ts4mdmde4 {
    fn to_value(&self) -> Value {
        Value::Seq(vec![
            Some(self.f0.to_value()),
            Some(self.f1.to_value()),
            Some(self.f2.to_value()),
            Some(self.f3.to_value()),
        ])
    }
}
impl FromValue for Ts4odmdn {
    fn from_value(v: &Value) -> Self {
        let s = match v { Value::Seq(s) => s, other => panic!("Ts4odmdn: expected Seq, got {other:?}") };
        assert_eq!(s.len(), 4, "Ts4odmdn: component count");
        let _ = s;
        Ts4odmdn {
            f0: s[0].as_ref().map(FromValue::from_value),
            f1: FromValue::from_value(s[1].as_ref().expect("component f1 of Ts4odmdn must be present")),
            f2: FromValue::from_value(s[2].as_ref().expect("component f2 of Ts4odmdn must be present")),
            f3: FromValue::from_value(s[3].as_ref().expect("component f3 of Ts4odmdn must be present")),
        }
    }
}
impl ToValue for Ts4odmdn {
    fn to_value(&self) -> Value {
        Value::Seq(vec![
            self.f0.as_ref().map(|x| x.to_value()),
            Some(self.f1.to_value()),
            Some(self.f2.to_value()),
            Some(self.f3.to_value()),
        ])
    }
}
impl FromValue for Ts4odmde0 {
    fn from_value(v: &Value) -> Self {
        let s = match v { Value::Seq(s) => s, other => panic!("Ts4odmde0: expected Seq, got {other:?}") };
        assert_eq!(s.len(), 4, "Ts4odmde0: component count");
        let _ = s;
        Ts4odmde0 {
            f0: s[0].as_ref().map(FromValue::from_value),
            f1: FromValue::from_value(s[1].as_ref().expect("component f1 of Ts4odmde0 must be present")),
            f2: s[2].as_ref().map(FromValue::from_value),
            f3: FromValue::from_value(s[3].as_ref().expect("component f3 of Ts4odmde0 must be present")),
        }
    }
}
impl ToValue for Ts4odmde0 {
    fn to_value(&self) -> Value {
        Value::Seq(vec![
            self.f0.as_ref().map(|x| x.to_value()),
            Some(self.f1.to_value()),
            self.f2.as_ref().map(|x| x.to_value()),
            Some(self.f3.to_value()),
        ])
    }
}
impl FromValue for Ts4odmde1 {
    fn from_value(v: &Value) -> Self {
        let s = match v { Value::Seq(s) => s, other => panic!("Ts4odmde1: expected Seq, got {other:?}") };
        assert_eq!(s.len(), 4, "Ts4odmde1: component count");
        let _ = s;
        Ts4odmde1 {
            f0: s[0].as_ref().map(FromValue::from_value),
            f1: FromValue::from_value(s[1].as_ref().expect("component f1 of Ts4odmde1 must be present")),
            f2: s[2].as_ref().map(FromValue::from_value),
            f3: FromValue::from_value(s[3].as_ref().expect("component f3 of Ts4odmde1 must be present")),
        }
    }
}
impl ToValue for Ts4odmde1 {
    fn to_value(&self) -> Value {
        Value::Seq(vec![
            self.f0.as_ref().map(|x| x.to_value()),
            Some(self.f1.to_value()),
            self.f2.as_ref().map(|x| x.to_value()),
            Some(self.f3.to_value()),
        ])
    }
}
impl FromValue for Ts4odmde2 {
    fn from_value(v: &Value) -> Self {
        let s = match v { Value::Seq(s) => s, other => panic!("Ts4odmde2: expected Seq, got {other:?}") };
        assert_eq!(s.len(), 4, "Ts4odmde2: component count");
        let _ = s;
        Ts4odmde2 {
            f0: s[0].as_ref().map(FromValue::from_value),
            f1: FromValue::from_value(s[1].as_ref().expect("component f1 of Ts4odmde2 must be present")),
            f2: s[2].as_ref().map(FromValue::from_value),
            f3: FromValue::from_value(s[3].as_ref().expect("component f3 of Ts4odmde2 must be present")),
        }
    }
}
impl ToValue for Ts4odmde2 {
    fn to_value(&self) -> Value {
        Value::Seq(vec![
            self.f0.as_ref().map(|x| x.to_value()),
            Some(self.f1.to_value()),
            self.f2.as_ref().map(|x| x.to_value()),
            Some(self.f3.to_value()),
        ])
    }
}
impl FromValue for Ts4odmde3 {
    fn from_value(v: &Value) -> Self {
        let s = match v { Value::Seq(s) => s, other => panic!("Ts4odmde3: expected Seq, got {other:?}") };
        assert_eq!(s.len(), 4, "Ts4odmde3: component count");
        let _ = s;
        Ts4odmde3 {
            f0: s[0].as_ref().map(FromValue::from_value),
            f1: FromValue::from_value(s[1].as_ref().expect("component f1 of Ts4odmde3 must be present")),
            f2: FromValue::from_value(s[2].as_ref().expect("component f2 of Ts4odmde3 must be present")),
            f3: FromValue::from_value(s[3].as_ref().expect("component f3 of Ts4odmde3 must be present")),
        }
    }
}
impl ToValue for Ts4odmde3 {
    fn to_value(&self) -> Value {
        Value::Seq(vec![
            self.f0.as_ref().map(|x| x.to_value()),
            Some(self.f1.to_value()),
            Some(self.f2.to_value()),
            Some(self.f3.to_value()),
        ])
    }
}
impl FromValue for Ts4odmde4 {
    fn from_value(v: &Value) -> Self {
        let s = match v { Value::Seq(s) => s, other => panic!("Ts4odmde4: expected Seq, got {other:?}") };
        assert_eq!(s.len(), 4, "Ts4odmde4: component count");
        let _ = s;
        Ts4odmde4 {
            f0: s[0].as_ref().map(FromValue::from_value),
            f1: FromValue::from_value(s[1].as_ref().expect("component f1 of Ts4odmde4 must be present")),
            f2: FromValue::from_value(s[2].as_ref().expect("component f2 of Ts4odmde4 must be present")),
            f3: FromValue::from_value(s[3].as_ref().expect("component f3 of Ts4odmde4 must be present")),
        }
    }
}
impl ToValue for Ts4odmde4 {
    fn to_value(&self) -> Value {
        Value::Seq(vec![
            self.f0.as_ref().map(|x| x.to_value()),
            Some(self.f1.to_value()),
            Some(self.f2.to_value()),
            Some(self.f3.to_value()),
        ])
    }
}
impl FromValue for Ts4ddmdn {
    fn from_value(v: &Value) -> Self {
        let s = match v { Value::Seq(s) => s, other => panic!("Ts4ddmdn: expected Seq, got {other:?}") };
        assert_eq!(s.len(), 4, "Ts4ddmdn: component count");
        let _ = s;
        Ts4ddmdn {
            f0: FromValue::from_value(s[0].as_ref().expect("component f0 of Ts4ddmdn must be present")),
            f1: FromValue::from_value(s[1].as_ref().expect("component f1 of Ts4ddmdn must be present")),
            f2: FromValue::from_value(s[2].as_ref().expect("component f2 of Ts4ddmdn must be present")),
            f3: FromValue::from_value(s[3].as_ref().expect("component f3 of Ts4ddmdn must be present")),
        }
    }
}
impl ToValue for Ts4ddmdn {
    fn to_value(&self) -> Value {
        Value::Seq(vec![
            Some(self.f0.to_value()),
            Some(self.f1.to_value()),
            Some(self.f2.to_value()),
            Some(self.f3.to_value()),
        ])
    }
}
impl FromValue for Ts4ddmde0 {
    fn from_value(v: &Value) -> Self {
        let s = match v { Value::Seq(s) => s, other => panic!("Ts4ddmde0: expected Seq, got {other:?}") };
        assert_eq!(s.len(), 4, "Ts4ddmde0: component count");
        let _ = s;
        Ts4ddmde0 {
            f0: FromValue::from_value(s[0].as_ref().expect("component f0 of Ts4ddmde0 must be present")),
            f1: FromValue::from_value(s[1].as_ref().expect("component f1 of Ts4ddmde0 must be present")),
            f2: s[2].as_ref().map(FromValue::from_value),
            f3: FromValue::from_value(s[3].as_ref().expect("component f3 of Ts4ddmde0 must be present")),
        }
    }
}
impl ToValue for Ts4ddmde0 {
    fn to_value(&self) -> Value {
        Value::Seq(vec![
            Some(self.f0.to_value()),
            Some(self.f1.to_value()),
            self.f2.as_ref().map(|x| x.to_value()),
            Some(self.f3.to_value()),
        ])
    }
}
impl FromValue for Ts4ddmde1 {
    fn from_value(v: &Value) -> Self {
        let s = match v { Value::Seq(s) => s, other => panic!("Ts4ddmde1: expected Seq, got {other:?}") };
        assert_eq!(s.len(), 4, "Ts4ddmde1: component count");
        let _ = s;
        Ts4ddmde1 {
            f0: FromValue::from_value(s[0].as_ref().expect("component f0 of Ts4ddmde1 must be present")),
            f1: FromValue::from_value(s[1].as_ref().expect("component f1 of Ts4ddmde1 must be present")),
            f2: s[2].as_ref().map(FromValue::from_value),
            f3: FromValue::from_value(s[3].as_ref().expect("component f3 of Ts4ddmde1 must be present")),
        }
    }
}
impl ToValue for Ts4ddmde1 {
    fn to_value(&self) -> Value {
        Value::Seq(vec![
            Some(self.f0.to_value()),
            Some(self.f1.to_value()),
            self.f2.as_ref().map(|x| x.to_value()),
            Some(self.f3.to_value()),
        ])
    }
}
impl FromValue for Ts4ddmde2 {
    fn from_value(v: &Value) -> Self {
        let s = match v { Value::Seq(s) => s, other => panic!("Ts4ddmde2: expected Seq, got {other:?}") };
        assert_eq!(s.len(), 4, "Ts4ddmde2: component count");
        let _ = s;
        Ts4ddmde2 {
            f0: FromValue::from_value(s[0].as_ref().expect("component f0 of Ts4ddmde2 must be present")),
            f1: FromValue::from_value(s[1].as_ref().expect("component f1 of Ts4ddmde2 must be present")),
            f2: s[2].as_ref().map(FromValue::from_value),
            f3: FromValue::from_value(s[3].as_ref().expect("component f3 of Ts4ddmde2 must be present")),
        }
    }
}
impl ToValue for Ts4ddmde2 {
    fn to_value(&self) -> Value {
        Value::Seq(vec![
            Some(self.f0.to_value()),
            Some(self.f1.to_value()),
            self.f2.as_ref().map(|x| x.to_value()),
            Some(self.f3.to_value()),
        ])
    }
}
impl FromValue for Ts4ddmde3 {
    fn from_value(v: &Value) -> Self {
        let s = match v { Value::Seq(s) => s, other => panic!("Ts4ddmde3: expected Seq, got {other:?}") };
        assert_eq!(s.len(), 4, "Ts4ddmde3: component count");
        let _ = s;
        Ts4ddmde3 {
            f0: FromValue::from_value(s[0].as_ref().expect("component f0 of Ts4ddmde3 must be present")),
            f1: FromValue::from_value(s[1].as_ref().expect("component f1 of Ts4ddmde3 must be present")),
            f2: FromValue::from_value(s[2].as_ref().expect("component f2 of Ts4ddmde3 must be present")),
            f3: FromValue::from_value(s[3].as_ref().expect("component f3 of Ts4ddmde3 must be present")),
        }
    }
}
impl ToValue for Ts4ddmde3 {
    fn to_value(&self) -> Value {
        Value::Seq(vec![
            Some(self.f0.to_value()),
            Some(self.f1.to_value()),
            Some(self.f2.to_value()),
            Some(self.f3.to_value()),
        ])
    }
}
impl FromValue for Ts4ddmde4 {
    fn from_value(v: &Value) -> Self {
        let s = match v { Value::Seq(s) => s, other => panic!("Ts4ddmde4: expected Seq, got {other:?}") };
        assert_eq!(s.len(), 4, "Ts4ddmde4: component count");
        let _ = s;
        Ts4ddmde4 {
            f0: FromValue::from_value(s[0].as_ref().expect("component f0 of Ts4ddmde4 must be present")),
            f1: FromValue::from_value(s[1].as_ref().expect("component f1 of Ts4ddmde4 must be present")),
            f2: FromValue::from_value(s[2].as_ref().expect("component f2 of Ts4ddmde4 must be present")),
            f3: FromValue::from_value(s[3].as_ref().expect("component f3 of Ts4ddmde4 must be present")),
        }
    }
}
impl ToValue for Ts4ddmde4 {
    fn to_value(&self) -> Value {
        Value::Seq(vec![
            Some(self.f0.to_value()),
            Some(self.f1.to_value()),
            Some(self.f2.to_value()),
            Some(self.f3.to_value()),
        ])
    }
}
impl FromValue for Ts4mmodn {
    fn from_value(v: &Value) -> Self {
        let s = match v { Value::Seq(s) => s, other => panic!("Ts4mmodn: expected Seq, got {other:?}") };
        assert_eq!(s.len(), 4, "Ts4mmodn: component count");
        let _ = s;
        Ts4mmodn {
            f0: FromValue::from_value(s[0].as_ref().expect("component f0 of Ts4mmodn must be present")),
            f1: FromValue::from_value(s[1].as_ref().expect("component f1 of Ts4mmodn must be present")),
            f2: s[2].as_ref().map(FromValue::from_value),
            f3: FromValue::from_value(s[3].as_ref().expect("component f3 of Ts4mmodn must be present")),
        }
    }
}
impl ToValue for Ts4mmodn {
    fn to_value(&self) -> Value {
        Value::Seq(vec![
            Some(self.f0.to_value()),
            Some(self.f1.to_value()),
            self.f2.as_ref().map(|x| x.to_value()),
            Some(self.f3.to_value()),
        ])
    }
}
impl FromValue for Ts4mmode0 {
    fn from_value(v: &Value) -> Self {
        let s = match v { Value::Seq(s) => s, other => panic!("Ts4mmode0: expected Seq, got {other:?}") };
        assert_eq!(s.len(), 4, "Ts4mmode0: component count");
        let _ = s;
        Ts4mmode0 {
            f0: FromValue::from_value(s[0].as_ref().expect("component f0 of Ts4mmode0 must be present")),
            f1: s[1].as_ref().map(FromValue::from_value),
            f2: s[2].as_ref().map(FromValue::from_value),
            f3: FromValue::from_value(s[3].as_ref().expect("component f3 of Ts4mmode0 must be present")),
        }
    }
}
impl ToValue for Ts4mmode0 {
    fn to_value(&self) -> Value {
        Value::Seq(vec![
            Some(self.f0.to_value()),
            self.f1.as_ref().map(|x| x.to_value()),
            self.f2.as_ref().map(|x| x.to_value()),
            Some(self.f3.to_value()),
        ])
    }
}
impl FromValue for Ts4mmode1 {
    fn from_value(v: &Value) -> Self {
        let s = match v { Value::Seq(s) => s, other => panic!("Ts4mmode1: expected Seq, got {other:?}") };
        assert_eq!(s.len(), 4, "Ts4mmode1: component count");
        let _ = s;
        Ts4mmode1 {
            f0: FromValue::from_value(s[0].as_ref().expect("component f0 of Ts4mmode1 must be present")),
            f1: s[1].as_ref().map(FromValue::from_value),
            f2: s[2].as_ref().map(FromValue::from_value),
            f3: FromValue::from_value(s[3].as_ref().expect("component f3 of Ts4mmode1 must be present")),
        }
    }
}
impl ToValue for Ts4mmode1 {
    fn to_value(&self) -> Value {
        Value::Seq(vec![
            Some(self.f0.to_value()),
            self.f1.as_ref().map(|x| x.to_value()),
            self.f2.as_ref().map(|x| x.to_value()),
            Some(self.f3.to_value()),
        ])
    }
}
impl FromValue for Ts4mmode2 {
    fn from_value(v: &Value) -> Self {
        let s = match v { Value::Seq(s) => s, other => panic!("Ts4mmode2: expected Seq, got {other:?}") };
        assert_eq!(s.len(), 4, "Ts4mmode2: component count");
        let _ = s;
        Ts4mmode2 {
            f0: FromValue::from_value(s[0].as_ref().expect("component f0 of Ts4mmode2 must be present")),
            f1: FromValue::from_value(s[1].as_ref().expect("component f1 of Ts4mmode2 must be present")),
            f2: s[2].as_ref().map(FromValue::from_value),
            f3: FromValue::from_value(s[3].as_ref().expect("component f3 of Ts4mmode2 must be present")),
        }
    }
}
impl ToValue for Ts4mmode2 {
    fn to_value(&self) -> Value {
        Value::Seq(vec![
            Some(self.f0.to_value()),
            Some(self.f1.to_value()),
            self.f2.as_ref().map(|x| x.to_value()),
            Some(self.f3.to_value()),
        ])
    }
}
impl FromValue for Ts4mmode3 {
    fn from_value(v: &Value) -> Self {
        let s = match v { Value::Seq(s) => s, other => panic!("Ts4mmode3: expected Seq, got {other:?}") };
        assert_eq!(s.len(), 4, "Ts4mmode3: component count");
        let _ = s;
        Ts4mmode3 {
            f0: FromValue::from_value(s[0].as_ref().expect("component f0 of Ts4mmode3 must be present")),
            f1: FromValue::from_value(s[1].as_ref().expect("component f1 of Ts4mmode3 must be present")),
            f2: s[2].as_ref().map(FromValue::from_value),
            f3: FromValue::from_value(s[3].as_ref().expect("component f3 of Ts4mmode3 must be present")),
        }
    }
}
impl ToValue for Ts4mmode3 {
    fn to_value(&self) -> Value {
        Value::Seq(vec![
            Some(self.f0.to_value()),
            Some(self.f1.to_value()),
            self.f2.as_ref().map(|x| x.to_value()),
            Some(self.f3.to_value()),
        ])
    }
}
impl FromValue for Ts4mmode4 {
    fn from_value(v: &Value) -> Self {
        let s = match v { Value::Seq(s) => s, other => panic!("Ts4mmode4: expected Seq, got {other:?}") };
        assert_eq!(s.len(), 4, "Ts4mmode4: component count");
        let _ = s;
        Ts4mmode4 {
            f0: FromValue::from_value(s[0].as_ref().expect("component f0 of Ts4mmode4 must be present")),
            f1: FromValue::from_value(s[1].as_ref().expect("component f1 of Ts4mmode4 must be present")),
            f2: s[2].as_ref().map(FromValue::from_value),
            f3: FromValue::from_value(s[3].as_ref().expect("component f3 of Ts4mmode4 must be present")),
        }
    }
}
impl ToValue for Ts4mmode4 {
    fn to_value(&self) -> Value {
        Value::Seq(vec![
            Some(self.f0.to_value()),
            Some(self.f1.to_value()),
            self.f2.as_ref().map(|x| x.to_value()),
            Some(self.f3.to_value()),
        ])
    }
}
impl FromValue for Ts4omodn {
    fn from_value(v: &Value) -> Self {
        let s = match v { Value::Seq(s) => s, other => panic!("Ts4omodn: expected Seq, got {other:?}") };
        assert_eq!(s.len(), 4, "Ts4omodn: component count");
        let _ = s;
        Ts4omodn {
            f0: s[0].as_ref().map(FromValue::from_value),
            f1: FromValue::from_value(s[1].as_ref().expect("component f1 of Ts4omodn must be present")),
            f2: s[2].as_ref().map(FromValue::from_value),
            f3: FromValue::from_value(s[3].as_ref().expect("component f3 of Ts4omodn must be present")),
        }
    }
}
impl ToValue for Ts4omodn {
    fn to_value(&self) -> Value {
        Value::Seq(vec![
            self.f0.as_ref().map(|x| x.to_value()),
            Some(self.f1.to_value()),
            self.f2.as_ref().map(|x| x.to_value()),
            Some(self.f3.to_value()),
        ])
    }
}
impl FromValue for Ts4omode0 {
    fn from_value(v: &Value) -> Self {
        let s = match v { Value::Seq(s) => s, other => panic!("Ts4omode0: expected Seq, got {other:?}") };
        assert_eq!(s.len(), 4, "Ts4omode0: component count");
        let _ = s;
        Ts4omode0 {
            f0: s[0].as_ref().map(FromValue::from_value),
            f1: s[1].as_ref().map(FromValue::from_value),
            f2: s[2].as_ref().map(FromValue::from_value),
            f3: FromValue::from_value(s[3].as_ref().expect("component f3 of Ts4omode0 must be present")),
        }
    }
}
impl ToValue for Ts4omode0 {
    fn to_value(&self) -> Value {
        Value::Seq(vec![
            self.f0.as_ref().map(|x| x.to_value()),
            self.f1.as_ref().map(|x| x.to_value()),
            self.f2.as_ref().map(|x| x.to_value()),
            Some(self.f3.to_value()),
        ])
    }
}
impl FromValue for Ts4omode1 {
    fn from_value(v: &Value) -> Self {
        let s = match v { Value::Seq(s) => s, other => panic!("Ts4omode1: expected Seq, got {other:?}") };
        assert_eq!(s.len(), 4, "Ts4omode1: component count");
        let _ = s;
        Ts4omode1 {
            f0: s[0].as_ref().map(FromValue::from_value),
            f1: s[1].as_ref().map(FromValue::from_value),
            f2: s[2].as_ref().map(FromValue::from_value),
            f3: FromValue::from_value(s[3].as_ref().expect("component f3 of Ts4omode1 must be present")),
        }
    }
}
impl ToValue for Ts4omode1 {
    fn to_value(&self) -> Value {
        Value::Seq(vec![
            self.f0.as_ref().map(|x| x.to_value()),
            self.f1.as_ref().map(|x| x.to_value()),
            self.f2.as_ref().map(|x| x.to_value()),
            Some(self.f3.to_value()),
        ])
    }
}
impl FromValue for Ts4omode2 {
    fn from_value(v: &Value) -> Self {
        let s = match v { Value::Seq(s) => s, other => panic!("Ts4omode2: expected Seq, got {other:?}") };
        assert_eq!(s.len(), 4, "Ts4omode2: component count");
        let _ = s;
        Ts4omode2 {
            f0: s[0].as_ref().map(FromValue::from_value),
            f1: FromValue::from_value(s[1].as_ref().expect("component f1 of Ts4omode2 must be present")),
            f2: s[2].as_ref().map(FromValue::from_value),
            f3: FromValue::from_value(s[3].as_ref().expect("component f3 of Ts4omode2 must be present")),
        }
    }
}
impl ToValue for Ts4omode2 {
    fn to_value(&self) -> Value {
        Value::Seq(vec![
            self.f0.as_ref().map(|x| x.to_value()),
            Some(self.f1.to_value()),
            self.f2.as_ref().map(|x| x.to_value()),
            Some(self.f3.to_value()),
        ])
    }
}
impl FromValue for Ts4omode3 {
    fn from_value(v: &Value) -> Self {
        let s = match v { Value::Seq(s) => s, other => panic!("Ts4omode3: expected Seq, got {other:?}") };
        assert_eq!(s.len(), 4, "Ts4omode3: component count");
        let _ = s;
        Ts4omode3 {
            f0: s[0].as_ref().map(FromValue::from_value),
            f1: FromValue::from_value(s[1].as_ref().expect("component f1 of Ts4omode3 must be present")),
            f2: s[2].as_ref().map(FromValue::from_value),
            f3: FromValue::from_value(s[3].as_ref().expect("component f3 of Ts4omode3 must be present")),
        }
    }
}
impl ToValue for Ts4omode3 {
    fn to_value(&self) -> Value {
        Value::Seq(vec![
            self.f0.as_ref().map(|x| x.to_value()),
            Some(self.f1.to_value()),
            self.f2.as_ref().map(|x| x.to_value()),
            Some(self.f3.to_value()),
        ])
    }
}
impl FromValue for Ts4omode4 {
    fn from_value(v: &Value) -> Self {
        let s = match v { Value::Seq(s) => s, other => panic!("Ts4omode4: expected Seq, got {other:?}") };
        assert_eq!(s.len(), 4, "Ts4omode4: component count");
        let _ = s;
        Ts4omode4 {
            f0: s[0].as_ref().map(FromValue::from_value),
            f1: FromValue::from_value(s[1].as_ref().expect("component f1 of Ts4omode4 must be present")),
            f2: s[2].as_ref().map(FromValue::from_value),
            f3: FromValue::from_value(s[3].as_ref().expect("component f3 of Ts4omode4 must be present")),
        }
    }
}
impl ToValue for Ts4omode4 {
    fn to_value(&self) -> Value {
        Value::Seq(vec![
            self.f0.as_ref().map(|x| x.to_value()),
            Some(self.f1.to_value()),
            self.f2.as_ref().map(|x| x.to_value()),
            Some(self.f3.to_value()),
        ])
    }
}
impl FromValue for Ts4dmodn {
    fn from_value(v: &Value) -> Self {
        let s = match v { Value::Seq(s) => s, other => panic!("Ts4dmodn: expected Seq, got {other:?}") };
        assert_eq!(s.len(), 4, "Ts4dmodn: component count");
        let _ = s;
        Ts4dmodn {
            f0: FromValue::from_value(s[0].as_ref().expect("component f0 of Ts4dmodn must be present")),
            f1: FromValue::from_value(s[1].as_ref().expect("component f1 of Ts4dmodn must be present")),
            f2: s[2].as_ref().map(FromValue::from_value),
            f3: FromValue::from_value(s[3].as_ref().expect("component f3 of Ts4dmodn must be present")),
        }
    }
}
impl ToValue for Ts4dmodn {
    fn to_value(&self) -> Value {
        Value::Seq(vec![
            Some(self.f0.to_value()),
            Some(self.f1.to_value()),
            self.f2.as_ref().map(|x| x.to_value()),
            Some(self.f3.to_value()),
        ])
    }
}
impl FromValue for Ts4dmode0 {
    fn from_value(v: &Value) -> Self {
        let s = match v { Value::Seq(s) => s, other => panic!("Ts4dmode0: expected Seq, got {other:?}") };
        assert_eq!(s.len(), 4, "Ts4dmode0: component count");
        let _ = s;
        Ts4dmode0 {
            f0: FromValue::from_value(s[0].as_ref().expect("component f0 of Ts4dmode0 must be present")),
            f1: s[1].as_ref().map(FromValue::from_value),
            f2: s[2].as_ref().map(FromValue::from_value),
            f3: FromValue::from_value(s[3].as_ref().expect("component f3 of Ts4dmode0 must be present")),
        }
    }
}
impl ToValue for Ts4dmode0 {
    fn to_value(&self) -> Value {
        Value::Seq(vec![
            Some(self.f0.to_value()),
            self.f1.as_ref().map(|x| x.to_value()),
            self.f2.as_ref().map(|x| x.to_value()),
            Some(self.f3.to_value()),
        ])
    }
}
impl FromValue for Ts4dmode1 {
    fn from_value(v: &Value) -> Self {
        let s = match v { Value::Seq(s) => s, other => panic!("Ts4dmode1: expected Seq, got {other:?}") };
        assert_eq!(s.len(), 4, "Ts4dmode1: component count");
        let _ = s;
        Ts4dmode1 {
            f0: FromValue::from_value(s[0].as_ref().expect("component f0 of Ts4dmode1 must be present")),
            f1: s[1].as_ref().map(FromValue::from_value),
            f2: s[2].as_ref().map(FromValue::from_value),
            f3: FromValue::from_value(s[3].as_ref().expect("component f3 of Ts4dmode1 must be present")),
        }
    }
}
impl ToValue for Ts4dmode1 {
    fn to_value(&self) -> Value {
        Value::Seq(vec![
            Some(self.f0.to_value()),
            self.f1.as_ref().map(|x| x.to_value()),
            self.f2.as_ref().map(|x| x.to_value()),
            Some(self.f3.to_value()),
        ])
    }
}
impl FromValue for Ts4dmode2 {
    fn from_value(v: &Value) -> Self {
        let s = match v { Value::Seq(s) => s, other => panic!("Ts4dmode2: expected Seq, got {other:?}") };
        assert_eq!(s.len(), 4, "Ts4dmode2: component count");
        let _ = s;
        Ts4dmode2 {
            f0: FromValue::from_value(s[0].as_ref().expect("component f0 of Ts4dmode2 must be present")),
            f1: FromValue::from_value(s[1].as_ref().expect("component f1 of Ts4dmode2 must be present")),
            f2: s[2].as_ref().map(FromValue::from_value),
            f3: FromValue::from_value(s[3].as_ref().expect("component f3 of Ts4dmode2 must be present")),
        }
    }
}
impl ToValue for Ts4dmode2 {
    fn to_value(&self) -> Value {
        Value::Seq(vec![
            Some(self.f0.to_value()),
            Some(self.f1.to_value()),
            self.f2.as_ref().map(|x| x.to_value()),
            Some(self.f3.to_value()),
        ])
    }
}
impl FromValue for Ts4dmode3 {
    fn from_value(v: &Value) -> Self {
        let s = match v { Value::Seq(s) => s, other => panic!("Ts4dmode3: expected Seq, got {other:?}") };
        assert_eq!(s.len(), 4, "Ts4dmode3: component count");
        let _ = s;
        Ts4dmode3 {
            f0: FromValue::from_value(s[0].as_ref().expect("component f0 of Ts4dmode3 must be present")),
            f1: FromValue::from_value(s[1].as_ref().expect("component f1 of Ts4dmode3 must be present")),
            f2: s[2].as_ref().map(FromValue::from_value),
            f3: FromValue::from_value(s[3].as_ref().expect("component f3 of Ts4dmode3 must be present")),
        }
    }
}
impl ToValue for Ts4dmode3 {
    fn to_value(&self) -> Value {
        Value::Seq(vec![
            Some(self.f0.to_value()),
            Some(self.f1.to_value()),
            self.f2.as_ref().map(|x| x.to_value()),
            Some(self.f3.to_value()),
        ])
    }
}
impl FromValue for Ts4dmode4 {
    fn from_value(v: &Value) -> Self {
        let s = match v { Value::Seq(s) => s, other => panic!("Ts4dmode4: expected Seq, got {other:?}") };
        assert_eq!(s.len(), 4, "Ts4dmode4: component count");
        let _ = s;
        Ts4dmode4 {
            f0: FromValue::from_value(s[0].as_ref().expect("component f0 of Ts4dmode4 must be present")),
            f1: FromValue::from_value(s[1].as_ref().expect("component f1 of Ts4dmode4 must be present")),
            f2: s[2].as_ref().map(FromValue::from_value),
            f3: FromValue::from_value(s[3].as_ref().expect("component f3 of Ts4dmode4 must be present")),
        }
    }
}
impl ToValue for Ts4dmode4 {
    fn to_value(&self) -> Value {
        Value::Seq(vec![
            Some(self.f0.to_value()),
            Some(self.f1.to_value()),
            self.f2.as_ref().map(|x| x.to_value()),
            Some(self.f3.to_value()),
        ])
    }
}
impl FromValue for Ts4moodn {
    fn from_value(v: &Value) -> Self {
        let s = match v { Value::Seq(s) => s, other => panic!("Ts4moodn: expected Seq, got {other:?}") };
        assert_eq!(s.len(), 4, "Ts4moodn: component count");
        let _ = s;
        Ts4moodn {
            f0: FromValue::from_value(s[0].as_ref().expect("component f0 of Ts4moodn must be present")),
            f1: s[1].as_ref().map(FromValue::from_value),
            f2: s[2].as_ref().map(FromValue::from_value),
            f3: FromValue::from_value(s[3].as_ref().expect("component f3 of Ts4moodn must be present")),
        }
    }
}
impl ToValue for Ts4moodn {
    fn to_value(&self) -> Value {
        Value::Seq(vec![
            Some(self.f0.to_value()),
            self.f1.as_ref().map(|x| x.to_value()),
            self.f2.as_ref().map(|x| x.to_value()),
            Some(self.f3.to_value()),
        ])
    }
}
impl FromValue for Ts4moode0 {
    fn from_value(v: &Value) -> Self {
        let s = match v { Value::Seq(s) => s, other => panic!("Ts4moode0: expected Seq, got {other:?}") };
        assert_eq!(s.len(), 4, "Ts4moode0: component count");
        let _ = s;
        Ts4moode0 {
            f0: FromValue::from_value(s[0].as_ref().expect("component f0 of Ts4moode0 must be present")),
            f1: s[1].as_ref().map(FromValue::from_value),
            f2: s[2].as_ref().map(FromValue::from_value),
            f3: FromValue::from_value(s[3].as_ref().expect("component f3 of Ts4moode0 must be present")),
        }
    }
}
impl ToValue for Ts4moode0 {
    fn to_value(&self) -> Value {
        Value::Seq(vec![
            Some(self.f0.to_value()),
            self.f1.as_ref().map(|x| x.to_value()),
            self.f2.as_ref().map(|x| x.to_value()),
            Some(self.f3.to_value()),
        ])
    }
}
impl FromValue for Ts4moode1 {
    fn from_value(v: &Value) -> Self {
        let s = match v { Value::Seq(s) => s, other => panic!("Ts4moode1: expected Seq, got {other:?}") };
        assert_eq!(s.len(), 4, "Ts4moode1: component count");
        let _ = s;
        Ts4moode1 {
            f0: FromValue::from_value(s[0].as_ref().expect("component f0 of Ts4moode1 must be present")),
            f1: s[1].as_ref().map(FromValue::from_value),
            f2: s[2].as_ref().map(FromValue::from_value),
            f3: FromValue::from_value(s[3].as_ref().expect("component f3 of Ts4moode1 must be present")),
        }
    }
}
impl ToValue for Ts4moode1 {
    fn to_value(&self) -> Value {
        Value::Seq(vec![
            Some(self.f0.to_value()),
            self.f1.as_ref().map(|x| x.to_value()),
            self.f2.as_ref().map(|x| x.to_value()),
            Some(self.f3.to_value()),
        ])
    }
}
impl FromValue for Ts4moode2 {
    fn from_value(v: &Value) -> Self {
        let s = match v { Value::Seq(s) => s, other => panic!("Ts4moode2: expected Seq, got {other:?}") };
        assert_eq!(s.len(), 4, "Ts4moode2: component count");
        let _ = s;
        Ts4moode2 {
            f0: FromValue::from_value(s[0].as_ref().expect("component f0 of Ts4moode2 must be present")),
            f1: s[1].as_ref().map(FromValue::from_value),
            f2: s[2].as_ref().map(FromValue::from_value),
            f3: FromValue::from_value(s[3].as_ref().expect("component f3 of Ts4moode2 must be present")),
        }
    }
}
impl ToValue for Ts4moode2 {
    fn to_value(&self) -> Value {
        Value::Seq(vec![
            Some(self.f0.to_value()),
            self.f1.as_ref().map(|x| x.to_value()),
            self.f2.as_ref().map(|x| x.to_value()),
            Some(self.f3.to_value()),
        ])
    }
}
impl FromValue for Ts4moode3 {
    fn from_value(v: &Value) -> Self {
        let s = match v { Value::Seq(s) => s, other => panic!("Ts4moode3: expected Seq, got {other:?}") };
        assert_eq!(s.len(), 4, "Ts4moode3: component count");
        let _ = s;
        Ts4moode3 {
            f0: FromValue::from_value(s[0].as_ref().expect("component f0 of Ts4moode3 must be present")),
            f1: s[1].as_ref().map(FromValue::from_value),
            f2: s[2].as_ref().map(FromValue::from_value),
            f3: FromValue::from_value(s[3].as_ref().expect("component f3 of Ts4moode3 must be present")),
        }
    }
}
impl ToValue for Ts4moode3 {
    fn to_value(&self) -> Value {
        Value::Seq(vec![
            Some(self.f0.to_value()),
            self.f1.as_ref().map(|x| x.to_value()),
            self.f2.as_ref().map(|x| x.to_value()),
            Some(self.f3.to_value()),
        ])
    }
}
impl FromValue for Ts4moode4 {
    fn from_value(v: &Value) -> Self {
        let s = match v { Value::Seq(s) => s, other => panic!("Ts4moode4: expected Seq, got {other:?}") };
        assert_eq!(s.len(), 4, "Ts4moode4: component count");
        let _ = s;
        Ts4moode4 {
            f0: FromValue::from_value(s[0].as_ref().expect("component f0 of Ts4moode4 must be present")),
            f1: s[1].as_ref().map(FromValue::from_value),
            f2: s[2].as_ref().map(FromValue::from_value),
            f3: FromValue::from_value(s[3].as_ref().expect("component f3 of Ts4moode4 must be present")),
        }
    }
}
impl ToValue for Ts4moode4 {
    fn to_value(&self) -> Value {
        Value::Seq(vec![
            Some(self.f0.to_value()),
            self.f1.as_ref().map(|x| x.to_value()),
            self.f2.as_ref().map(|x| x.to_value()),
            Some(self.f3.to_value()),
        ])
    }
}
impl FromValue for Ts4ooodn {
    fn from_value(v: &Value) -> Self {
        let s = match v { Value::Seq(s) => s, other => panic!("Ts4ooodn: expected Seq, got {other:?}") };
        assert_eq!(s.len(), 4, "Ts4ooodn: component count");
        let _ = s;
        Ts4ooodn {
            f0: s[0].as_ref().map(FromValue::from_value),
            f1: s[1].as_ref().map(FromValue::from_value),
            f2: s[2].as_ref().map(FromValue::from_value),
            f3: FromValue::from_value(s[3].as_ref().expect("component f3 of Ts4ooodn must be present")),
        }
    }
}
impl ToValue for Ts4ooodn {
    fn to_value(&self) -> Value {
        Value::Seq(vec![
            self.f0.as_ref().map(|x| x.to_value()),
            self.f1.as_ref().map(|x| x.to_value()),
            self.f2.as_ref().map(|x| x.to_value()),
            Some(self.f3.to_value()),
        ])
    }
}
impl FromValue for Ts4ooode0 {
    fn from_value(v: &Value) -> Self {
        let s = match v { Value::Seq(s) => s, other => panic!("Ts4ooode0: expected Seq, got {other:?}") };
        assert_eq!(s.len(), 4, "Ts4ooode0: component count");
        let _ = s;
        Ts4ooode0 {
            f0: s[0].as_ref().map(FromValue::from_value),
            f1: s[1].as_ref().map(FromValue::from_value),
            f2: s[2].as_ref().map(FromValue::from_value),
            f3: FromValue::from_value(s[3].as_ref().expect("component f3 of Ts4ooode0 must be present")),
        }
    }
}
impl ToValue for Ts4ooode0 {
    fn to_value(&self) -> Value {
        Value::Seq(vec![
            self.f0.as_ref().map(|x| x.to_value()),
            self.f1.as_ref().map(|x| x.to_value()),
            self.f2.as_ref().map(|x| x.to_value()),
            Some(self.f3.to_value()),
        ])
    }
}
impl FromValue for Ts4ooode1 {
    fn from_value(v: &Value) -> Self {
        let s = match v { Value::Seq(s) => s, other => panic!("Ts4ooode1: expected Seq, got {other:?}") };
        assert_eq!(s.len(), 4, "Ts4ooode1: component count");
        let _ = s;
        Ts4ooode1 {
            f0: s[0].as_ref().map(FromValue::from_value),
            f1: s[1].as_ref().map(FromValue::from_value),
            f2: s[2].as_ref().map(FromValue::from_value),
            f3: FromValue::from_value(s[3].as_ref().expect("component f3 of Ts4ooode1 must be present")),
        }
    }
}
impl ToValue for Ts4ooode1 {
    fn to_value(&self) -> Value {
        Value::Seq(vec![
            self.f0.as_ref().map(|x| x.to_value()),
            self.f1.as_ref().map(|x| x.to_value()),
            self.f2.as_ref().map(|x| x.to_value()),
            Some(self.f3.to_value()),
        ])
    }
}
impl FromValue for Ts4ooode2 {
    fn from_value(v: &Value) -> Self {
        let s = match v { Value::Seq(s) => s, other => panic!("Ts4ooode2: expected Seq, got {other:?}") };
        assert_eq!(s.len(), 4, "Ts4ooode2: component count");
        let _ = s;
        Ts4ooode2 {
            f0: s[0].as_ref().map(FromValue::from_value),
            f1: s[1].as_ref().map(FromValue::from_value),
            f2: s[2].as_ref().map(FromValue::from_value),
            f3: FromValue::from_value(s[3].as_ref().expect("component f3 of Ts4ooode2 must be present")),
        }
    }
}
impl ToValue for Ts4ooode2 {
    fn to_value(&self) -> Value {
        Value::Seq(vec![
            self.f0.as_ref().map(|x| x.to_value()),
            self.f1.as_ref().map(|x| x.to_value()),
            self.f2.as_ref().map(|x| x.to_value()),
            Some(self.f3.to_value()),
        ])
    }
}
impl FromValue for Ts4ooode3 {
    fn from_value(v: &Value) -> Self {
        let s = match v { Value::Seq(s) => s, other => panic!("Ts4ooode3: expected Seq, got {other:?}") };
        assert_eq!(s.len(), 4, "Ts4ooode3: component count");
        let _ = s;
        Ts4ooode3 {
            f0: s[0].as_ref().map(FromValue::from_value),
            f1: s[1].as_ref().map(FromValue::from_value),
            f2: s[2].as_ref().map(FromValue::from_value),
            f3: FromValue::from_value(s[3].as_ref().expect("component f3 of Ts4ooode3 must be present")),
        }
    }
}
impl ToValue for Ts4ooode3 {
    fn to_value(&self) -> Value {
        Value::Seq(vec![
            self.f0.as_ref().map(|x| x.to_value()),
            self.f1.as_ref().map(|x| x.to_value()),
            self.f2.as_ref().map(|x| x.to_value()),
            Some(self.f3.to_value()),
        ])
    }
}
impl FromValue for Ts4ooode4 {
    fn from_value(v: &Value) -> Self {
        let s = match v { Value::Seq(s) => s, other => panic!("Ts4ooode4: expected Seq, got {other:?}") };
        assert_eq!(s.len(), 4, "Ts4ooode4: component count");
        let _ = s;
        Ts4ooode4 {
            f0: s[0].as_ref().map(FromValue::from_value),
            f1: s[1].as_ref().map(FromValue::from_value),
            f2: s[2].as_ref().map(FromValue::from_value),
            f3: FromValue::from_value(s[3].as_ref().expect("component f3 of Ts4ooode4 must be present")),
        }
    }
}
impl ToValue for Ts4ooode4 {
    fn to_value(&self) -> Value {
        Value::Seq(vec![
            self.f0.as_ref().map(|x| x.to_value()),
            self.f1.as_ref().map(|x| x.to_value()),
            self.f2.as_ref().map(|x| x.to_value()),
            Some(self.f3.to_value()),
        ])
    }
}
impl FromValue for Ts4doodn {
    fn from_value(v: &Value) -> Self {
        let s = match v { Value::Seq(s) => s, other => panic!("Ts4doodn: expected Seq, got {other:?}") };
        assert_eq!(s.len(), 4, "Ts4doodn: component count");
        let _ = s;
        Ts4doodn {
            f0: FromValue::from_value(s[0].as_ref().expect("component f0 of Ts4doodn must be present")),
            f1: s[1].as_ref().map(FromValue::from_value),
            f2: s[2].as_ref().map(FromValue::from_value),
            f3: FromValue::from_value(s[3].as_ref().expect("component f3 of Ts4doodn must be present")),
        }
    }
}
impl ToValue for Ts4doodn {
    fn to_value(&self) -> Value {
        Value::Seq(vec![
            Some(self.f0.to_value()),
            self.f1.as_ref().map(|x| x.to_value()),
            self.f2.as_ref().map(|x| x.to_value()),
            Some(self.f3.to_value()),
        ])
    }
}
impl FromValue for Ts4doode0 {
    fn from_value(v: &Value) -> Self {
        let s = match v { Value::Seq(s) => s, other => panic!("Ts4doode0: expected Seq, got {other:?}") };
        assert_eq!(s.len(), 4, "Ts4doode0: component count");
        let _ = s;
        Ts4doode0 {
            f0: FromValue::from_value(s[0].as_ref().expect("component f0 of Ts4doode0 must be present")),
            f1: s[1].as_ref().map(FromValue::from_value),
            f2: s[2].as_ref().map(FromValue::from_value),
            f3: FromValue::from_value(s[3].as_ref().expect("component f3 of Ts4doode0 must be present")),
        }
    }
}
impl ToValue for Ts4doode0 {
    fn to_value(&self) -> Value {
        Value::Seq(vec![
            Some(self.f0.to_value()),
            self.f1.as_ref().map(|x| x.to_value()),
            self.f2.as_ref().map(|x| x.to_value()),
            Some(self.f3.to_value()),
        ])
    }
}
impl FromValue for Ts4doode1 {
    fn from_value(v: &Value) -> Self {
        let s = match v { Value::Seq(s) => s, other => panic!("Ts4doode1: expected Seq, got {other:?}") };
        assert_eq!(s.len(), 4, "Ts4doode1: component count");
        let _ = s;
        Ts4doode1 {
            f0: FromValue::from_value(s[0].as_ref().expect("component f0 of Ts4doode1 must be present")),
            f1: s[1].as_ref().map(FromValue::from_value),
            f2: s[2].as_ref().map(FromValue::from_value),
            f3: FromValue::from_value(s[3].as_ref().expect("component f3 of Ts4doode1 must be present")),
        }
    }
}
impl ToValue for Ts4doode1 {
    fn to_value(&self) -> Value {
        Value::Seq(vec![
            Some(self.f0.to_value()),
            self.f1.as_ref().map(|x| x.to_value()),
            self.f2.as_ref().map(|x| x.to_value()),
            Some(self.f3.to_value()),
        ])
    }
}
impl FromValue for Ts4doode2 {
    fn from_value(v: &Value) -> Self {
        let s = match v { Value::Seq(s) => s, other => panic!("Ts4doode2: expected Seq, got {other:?}") };
        assert_eq!(s.len(), 4, "Ts4doode2: component count");
        let _ = s;
        Ts4doode2 {
            f0: FromValue::from_value(s[0].as_ref().expect("component f0 of Ts4doode2 must be present")),
            f1: s[1].as_ref().map(FromValue::from_value),
            f2: s[2].as_ref().map(FromValue::from_value),
            f3: FromValue::from_value(s[3].as_ref().expect("component f3 of Ts4doode2 must be present")),
        }
    }
}
impl ToValue for Ts4doode2 {
    fn to_value(&self) -> Value {
        Value::Seq(vec![
            Some(self.f0.to_value()),
            self.f1.as_ref().map(|x| x.to_value()),
            self.f2.as_ref().map(|x| x.to_value()),
            Some(self.f3.to_value()),
        ])
    }
}
impl FromValue for Ts4doode3 {
    fn from_value(v: &Value) -> Self {
        let s = match v { Value::Seq(s) => s, other => panic!("Ts4doode3: expected Seq, got {other:?}") };
        assert_eq!(s.len(), 4, "Ts4doode3: component count");
        let _ = s;
        Ts4doode3 {
            f0: FromValue::from_value(s[0].as_ref().expect("component f0 of Ts4doode3 must be present")),
            f1: s[1].as_ref().map(FromValue::from_value),
            f2: s[2].as_ref().map(FromValue::from_value),
            f3: FromValue::from_value(s[3].as_ref().expect("component f3 of Ts4doode3 must be present")),
        }
    }
}
impl ToValue for Ts4doode3 {
    fn to_value(&self) -> Value {
        Value::Seq(vec![
            Some(self.f0.to_value()),
            self.f1.as_ref().map(|x| x.to_value()),
            self.f2.as_ref().map(|x| x.to_value()),
            Some(self.f3.to_value()),
        ])
    }
}
impl FromValue for Ts4doode4 {
    fn from_value(v: &Value) -> Self {
        let s = match v { Value::Seq(s) => s, other => panic!("Ts4doode4: expected Seq, got {other:?}") };
        assert_eq!(s.len(), 4, "Ts4doode4: component count");
        let _ = s;
        Ts4doode4 {
            f0: FromValue::from_value(s[0].as_ref().expect("component f0 of Ts4doode4 must be present")),
            f1: s[1].as_ref().map(FromValue::from_value),
            f2: s[2].as_ref().map(FromValue::from_value),
            f3: FromValue::from_value(s[3].as_ref().expect("component f3 of Ts4doode4 must be present")),
        }
    }
}
impl ToValue for Ts4doode4 {
    fn to_value(&self) -> Value {
        Value::Seq(vec![
            Some(self.f0.to_value()),
            self.f1.as_ref().map(|x| x.to_value()),
            self.f2.as_ref().map(|x| x.to_value()),
            Some(self.f3.to_value()),
        ])
    }
}
impl FromValue for Ts4mdodn {
    fn from_value(v: &Value) -> Self {
        let s = match v { Value::Seq(s) => s, other => panic!("Ts4mdodn: expected Seq, got {other:?}") };
        assert_eq!(s.len(), 4, "Ts4mdodn: component count");
        let _ = s;
        Ts4mdodn {
            f0: FromValue::from_value(s[0].as_ref().expect("component f0 of Ts4mdodn must be present")),
            f1: FromValue::from_value(s[1].as_ref().expect("component f1 of Ts4mdodn must be present")),
            f2: s[2].as_ref().map(FromValue::from_value),
            f3: FromValue::from_value(s[3].as_ref().expect("component f3 of Ts4mdodn must be present")),
        }
    }
}
impl ToValue for Ts4mdodn {
    fn to_value(&self) -> Value {
        Value::Seq(vec![
            Some(self.f0.to_value()),
            Some(self.f1.to_value()),
            self.f2.as_ref().map(|x| x.to_value()),
            Some(self.f3.to_value()),
        ])
    }
}
impl FromValue for Ts4mdode0 {
    fn from_value(v: &Value) -> Self {
        let s = match v { Value::Seq(s) => s, other => panic!("Ts4mdode0: expected Seq, got {other:?}") };
        assert_eq!(s.len(), 4, "Ts4mdode0: component count");
        let _ = s;
        Ts4mdode0 {
            f0: FromValue::from_value(s[0].as_ref().expect("component f0 of Ts4mdode0 must be present")),
            f1: FromValue::from_value(s[1].as_ref().expect("component f1 of Ts4mdode0 must be present")),
            f2: s[2].as_ref().map(FromValue::from_value),
            f3: FromValue::from_value(s[3].as_ref().expect("component f3 of Ts4mdode0 must be present")),
        }
    }
}
impl ToValue for Ts4mdode0 {
    fn to_value(&self) -> Value {
        Value::Seq(vec![
            Some(self.f0.to_value()),
            Some(self.f1.to_value()),
            self.f2.as_ref().map(|x| x.to_value()),
            Some(self.f3.to_value()),
        ])
    }
}
impl FromValue for Ts4mdode1 {
    fn from_value(v: &Value) -> Self {
        let s = match v { Value::Seq(s) => s, other => panic!("Ts4mdode1: expected Seq, got {other:?}") };
        assert_eq!(s.len(), 4, "Ts4mdode1: component count");
        let _ = s;
        Ts4mdode1 {
            f0: FromValue::from_value(s[0].as_ref().expect("component f0 of Ts4mdode1 must be present")),
            f1: FromValue::from_value(s[1].as_ref().expect("component f1 of Ts4mdode1 must be present")),
            f2: s[2].as_ref().map(FromValue::from_value),
            f3: FromValue::from_value(s[3].as_ref().expect("component f3 of Ts4mdode1 must be present")),
        }
    }
}
impl ToValue for Ts4mdode1 {
    fn to_value(&self) -> Value {
        Value::Seq(vec![
            Some(self.f0.to_value()),
            Some(self.f1.to_value()),
            self.f2.as_ref().map(|x| x.to_value()),
            Some(self.f3.to_value()),
        ])
    }
}
impl FromValue for Ts4mdode2 {
    fn from_value(v: &Value) -> Self {
        let s = match v { Value::Seq(s) => s, other => panic!("Ts4mdode2: expected Seq, got {other:?}") };
        assert_eq!(s.len(), 4, "Ts4mdode2: component count");
        let _ = s;
        Ts4mdode2 {
            f0: FromValue::from_value(s[0].as_ref().expect("component f0 of Ts4mdode2 must be present")),
            f1: FromValue::from_value(s[1].as_ref().expect("component f1 of Ts4mdode2 must be present")),
            f2: s[2].as_ref().map(FromValue::from_value),
            f3: FromValue::from_value(s[3].as_ref().expect("component f3 of Ts4mdode2 must be present")),
        }
    }
}
impl ToValue for Ts4mdode2 {
    fn to_value(&self) -> Value {
        Value::Seq(vec![
            Some(self.f0.to_value()),
            Some(self.f1.to_value()),
            self.f2.as_ref().map(|x| x.to_value()),
            Some(self.f3.to_value()),
        ])
    }
}
impl FromValue for Ts4mdode3 {
    fn from_value(v: &Value) -> Self {
        let s = match v { Value::Seq(s) => s, other => panic!("Ts4mdode3: expected Seq, got {other:?}") };
        assert_eq!(s.len(), 4, "Ts4mdode3: component count");
        let _ = s;
        Ts4mdode3 {
            f0: FromValue::from_value(s[0].as_ref().expect("component f0 of Ts4mdode3 must be present")),
            f1: FromValue::from_value(s[1].as_ref().expect("component f1 of Ts4mdode3 must be present")),
            f2: s[2].as_ref().map(FromValue::from_value),
            f3: FromValue::from_value(s[3].as_ref().expect("component f3 of Ts4mdode3 must be present")),
        }
    }
}
impl ToValue for Ts4mdode3 {
    fn to_value(&self) -> Value {
        Value::Seq(vec![
            Some(self.f0.to_value()),
            Some(self.f1.to_value()),
            self.f2.as_ref().map(|x| x.to_value()),
            Some(self.f3.to_value()),
        ])
    }
}
impl FromValue for Ts4mdode4 {
    fn from_value(v: &Value) -> Self {
        let s = match v { Value::Seq(s) => s, other => panic!("Ts4mdode4: expected Seq, got {other:?}") };
        assert_eq!(s.len(), 4, "Ts4mdode4: component count");
        let _ = s;
        Ts4mdode4 {
            f0: FromValue::from_value(s[0].as_ref().expect("component f0 of Ts4mdode4 must be present")),
            f1: FromValue::from_value(s[1].as_ref().expect("component f1 of Ts4mdode4 must be present")),
            f2: s[2].as_ref().map(FromValue::from_value),
            f3: FromValue::from_value(s[3].as_ref().expect("component f3 of Ts4mdode4 must be present")),
        }
    }
}
impl ToValue for Ts4mdode4 {
    fn to_value(&self) -> Value {
        Value::Seq(vec![
            Some(self.f0.to_value()),
            Some(self.f1.to_value()),
            self.f2.as_ref().map(|x| x.to_value()),
            Some(self.f3.to_value()),
        ])
    }
}
impl FromValue for Ts4ododn {
    fn from_value(v: &Value) -> Self {
        let s = match v { Value::Seq(s) => s, other => panic!("Ts4ododn: expected Seq, got {other:?}") };
        assert_eq!(s.len(), 4, "Ts4ododn: component count");
        let _ = s;
        Ts4ododn {
            f0: s[0].as_ref().map(FromValue::from_value),
            f1: FromValue::from_value(s[1].as_ref().expect("component f1 of Ts4ododn must be present")),
            f2: s[2].as_ref().map(FromValue::from_value),
            f3: FromValue::from_value(s[3].as_ref().expect("component f3 of Ts4ododn must be present")),
        }
    }
}
impl ToValue for Ts4ododn {
    fn to_value(&self) -> Value {
        Value::Seq(vec![
            self.f0.as_ref().map(|x| x.to_value()),
            Some(self.f1.to_value()),
            self.f2.as_ref().map(|x| x.to_value()),
            Some(self.f3.to_value()),
        ])
    }
}
impl FromValue for Ts4odode0 {
    fn from_value(v: &Value) -> Self {
        let s = match v { Value::Seq(s) => s, other => panic!("Ts4odode0: expected Seq, got {other:?}") };
        assert_eq!(s.len(), 4, "Ts4odode0: component count");
        let _ = s;
        Ts4odode0 {
            f0: s[0].as_ref().map(FromValue::from_value),
            f1: FromValue::from_value(s[1].as_ref().expect("component f1 of Ts4odode0 must be present")),
            f2: s[2].as_ref().map(FromValue::from_value),
            f3: FromValue::from_value(s[3].as_ref().expect("component f3 of Ts4odode0 must be present")),
        }
    }
}
impl ToValue for Ts4odode0 {
    fn to_value(&self) -> Value {
        Value::Seq(vec![
            self.f0.as_ref().map(|x| x.to_value()),
            Some(self.f1.to_value()),
            self.f2.as_ref().map(|x| x.to_value()),
            Some(self.f3.to_value()),
        ])
    }
}
impl FromValue for Ts4odode1 {
    fn from_value(v: &Value) -> Self {
        let s = match v { Value::Seq(s) => s, other => panic!("Ts4odode1: expected Seq, got {other:?}") };
        assert_eq!(s.len(), 4, "Ts4odode1: component count");
        let _ = s;
        Ts4odode1 {
            f0: s[0].as_ref().map(FromValue::from_value),
            f1: FromValue::from_value(s[1].as_ref().expect("component f1 of Ts4odode1 must be present")),
            f2: s[2].as_ref().map(FromValue::from_value),
            f3: FromValue::from_value(s[3].as_ref().expect("component f3 of Ts4odode1 must be present")),
        }
    }
}
impl ToValue for Ts4odode1 {
    fn to_value(&self) -> Value {
        Value::Seq(vec![
            self.f0.as_ref().map(|x| x.to_value()),
            Some(self.f1.to_value()),
            self.f2.as_ref().map(|x| x.to_value()),
            Some(self.f3.to_value()),
        ])
    }
}
impl FromValue for Ts4odode2 {
    fn from_value(v: &Value) -> Self {
        let s = match v { Value::Seq(s) => s, other => panic!("Ts4odode2: expected Seq, got {other:?}") };
        assert_eq!(s.len(), 4, "Ts4odode2: component count");
        let _ = s;
        Ts4odode2 {
            f0: s[0].as_ref().map(FromValue::from_value),
            f1: FromValue::from_value(s[1].as_ref().expect("component f1 of Ts4odode2 must be present")),
            f2: s[2].as_ref().map(FromValue::from_value),
            f3: FromValue::from_value(s[3].as_ref().expect("component f3 of Ts4odode2 must be present")),
        }
    }
}
impl ToValue for Ts4odode2 {
    fn to_value(&self) -> Value {
        Value::Seq(vec![
            self.f0.as_ref().map(|x| x.to_value()),
            Some(self.f1.to_value()),
            self.f2.as_ref().map(|x| x.to_value()),
            Some(self.f3.to_value()),
        ])
    }
}
impl FromValue for Ts4odode3 {
    fn from_value(v: &Value) -> Self {
        let s = match v { Value::Seq(s) => s, other => panic!("Ts4odode3: expected Seq, got {other:?}") };
        assert_eq!(s.len(), 4, "Ts4odode3: component count");
        let _ = s;
        Ts4odode3 {
            f0: s[0].as_ref().map(FromValue::from_value),
            f1: FromValue::from_value(s[1].as_ref().expect("component f1 of Ts4odode3 must be present")),
            f2: s[2].as_ref().map(FromValue::from_value),
            f3: FromValue::from_value(s[3].as_ref().expect("component f3 of Ts4odode3 must be present")),
        }
    }
}
impl ToValue for Ts4odode3 {
    fn to_value(&self) -> Value {
        Value::Seq(vec![
            self.f0.as_ref().map(|x| x.to_value()),
            Some(self.f1.to_value()),
            self.f2.as_ref().map(|x| x.to_value()),
            Some(self.f3.to_value()),
        ])
    }
}
impl FromValue for Ts4odode4 {
    fn from_value(v: &Value) -> Self {
        let s = match v { Value::Seq(s) => s, other => panic!("Ts4odode4: expected Seq, got {other:?}") };
        assert_eq!(s.len(), 4, "Ts4odode4: component count");
        let _ = s;
        Ts4odode4 {
            f0: s[0].as_ref().map(FromValue::from_value),
            f1: FromValue::from_value(s[1].as_ref().expect("component f1 of Ts4odode4 must be present")),
            f2: s[2].as_ref().map(FromValue::from_value),
            f3: FromValue::from_value(s[3].as_ref().expect("component f3 of Ts4odode4 must be present")),
        }
    }
}
impl ToValue for Ts4odode4 {
    fn to_value(&self) -> Value {
        Value::Seq(vec![
            self.f0.as_ref().map(|x| x.to_value()),
            Some(self.f1.to_value()),
            self.f2.as_ref().map(|x| x.to_value()),
            Some(self.f3.to_value()),
        ])
    }
}
impl FromValue for Ts4ddodn {
    fn from_value(v: &Value) -> Self {
        let s = match v { Value::Seq(s) => s, other => panic!("Ts4ddodn: expected Seq, got {other:?}") };
        assert_eq!(s.len(), 4, "Ts4ddodn: component count");
        let _ = s;
        Ts4ddodn {
            f0: FromValue::from_value(s[0].as_ref().expect("component f0 of Ts4ddodn must be present")),
            f1: FromValue::from_value(s[1].as_ref().expect("component f1 of Ts4ddodn must be present")),
            f2: s[2].as_ref().map(FromValue::from_value),
            f3: FromValue::from_value(s[3].as_ref().expect("component f3 of Ts4ddodn must be present")),
        }
    }
}
impl ToValue for Ts4ddodn {
    fn to_value(&self) -> Value {
        Value::Seq(vec![
            Some(self.f0.to_value()),
            Some(self.f1.to_value()),
            self.f2.as_ref().map(|x| x.to_value()),
            Some(self.f3.to_value()),
        ])
    }
}
impl FromValue for Ts4ddode0 {
    fn from_value(v: &Value) -> Self {
        let s = match v { Value::Seq(s) => s, other => panic!("Ts4ddode0: expected Seq, got {other:?}") };
        assert_eq!(s.len(), 4, "Ts4ddode0: component count");
        let _ = s;
        Ts4ddode0 {
            f0: FromValue::from_value(s[0].as_ref().expect("component f0 of Ts4ddode0 must be present")),
            f1: FromValue::from_value(s[1].as_ref().expect("component f1 of Ts4ddode0 must be present")),
            f2: s[2].as_ref().map(FromValue::from_value),
            f3: FromValue::from_value(s[3].as_ref().expect("component f3 of Ts4ddode0 must be present")),
        }
    }
}
impl ToValue for Ts4ddode0 {
    fn to_value(&self) -> Value {
        Value::Seq(vec![
            Some(self.f0.to_value()),
            Some(self.f1.to_value()),
            self.f2.as_ref().map(|x| x.to_value()),
            Some(self.f3.to_value()),
        ])
    }
}
impl FromValue for Ts4ddode1 {
    fn from_value(v: &Value) -> Self {
        let s = match v { Value::Seq(s) => s, other => panic!("Ts4ddode1: expected Seq, got {other:?}") };
        assert_eq!(s.len(), 4, "Ts4ddode1: component count");
        let _ = s;
        Ts4ddode1 {
            f0: FromValue::from_value(s[0].as_ref().expect("component f0 of Ts4ddode1 must be present")),
            f1: FromValue::from_value(s[1].as_ref().expect("component f1 of Ts4ddode1 must be present")),
            f2: s[2].as_ref().map(FromValue::from_value),
            f3: FromValue::from_value(s[3].as_ref().expect("component f3 of Ts4ddode1 must be present")),
        }
    }
}
impl ToValue for Ts4ddode1 {
    fn to_value(&self) -> Value {
        Value::Seq(vec![
            Some(self.f0.to_value()),
            Some(self.f1.to_value()),
            self.f2.as_ref().map(|x| x.to_value()),
            Some(self.f3.to_value()),
        ])
    }
}
impl FromValue for Ts4ddode2 {
    fn from_value(v: &Value) -> Self {
        let s = match v { Value::Seq(s) => s, other => panic!("Ts4ddode2: expected Seq, got {other:?}") };
        assert_eq!(s.len(), 4, "Ts4ddode2: component count");
        let _ = s;
        Ts4ddode2 {
            f0: FromValue::from_value(s[0].as_ref().expect("component f0 of Ts4ddode2 must be present")),
            f1: FromValue::from_value(s[1].as_ref().expect("component f1 of Ts4ddode2 must be present")),
            f2: s[2].as_ref().map(FromValue::from_value),
            f3: FromValue::from_value(s[3].as_ref().expect("component f3 of Ts4ddode2 must be present")),
        }
    }
}
impl ToValue for Ts4ddode2 {
    fn to_value(&self) -> Value {
        Value::Seq(vec![
            Some(self.f0.to_value()),
            Some(self.f1.to_value()),
            self.f2.as_ref().map(|x| x.to_value()),
            Some(self.f3.to_value()),
        ])
    }
}
impl FromValue for Ts4ddode3 {
    fn from_value(v: &Value) -> Self {
        let s = match v { Value::Seq(s) => s, other => panic!("Ts4ddode3: expected Seq, got {other:?}") };
        assert_eq!(s.len(), 4, "Ts4ddode3: component count");
        let _ = s;
        Ts4ddode3 {
            f0: FromValue::from_value(s[0].as_ref().expect("component f0 of Ts4ddode3 must be present")),
            f1: FromValue::from_value(s[1].as_ref().expect("component f1 of Ts4ddode3 must be present")),
            f2: s[2].as_ref().map(FromValue::from_value),
            f3: FromValue::from_value(s[3].as_ref().expect("component f3 of Ts4ddode3 must be present")),
        }
    }
}
impl ToValue for Ts4ddode3 {
    fn to_value(&self) -> Value {
        Value::Seq(vec![
            Some(self.f0.to_value()),
            Some(self.f1.to_value()),
            self.f2.as_ref().map(|x| x.to_value()),
            Some(self.f3.to_value()),
        ])
    }
}
impl FromValue for Ts4ddode4 {
    fn from_value(v: &Value) -> Self {
        let s = match v { Value::Seq(s) => s, other => panic!("Ts4ddode4: expected Seq, got {other:?}") };
        assert_eq!(s.len(), 4, "Ts4ddode4: component count");
        let _ = s;
        Ts4ddode4 {
            f0: FromValue::from_value(s[0].as_ref().expect("component f0 of Ts4ddode4 must be present")),
            f1: FromValue::from_value(s[1].as_ref().expect("component f1 of Ts4ddode4 must be present")),
            f2: s[2].as_ref().map(FromValue::from_value),
            f3: FromValue::from_value(s[3].as_ref().expect("component f3 of Ts4ddode4 must be present")),
        }
    }
}
impl ToValue for Ts4ddode4 {
    fn to_value(&self) -> Value {
        Value::Seq(vec![
            Some(self.f0.to_value()),
            Some(self.f1.to_value()),
            self.f2.as_ref().map(|x| x.to_value()),
            Some(self.f3.to_value()),
        ])
    }
}
impl FromValue for Ts4mmddn {
    fn from_value(v: &Value) -> Self {
        let s = match v { Value::Seq(s) => s, other => panic!("Ts4mmddn: expected Seq, got {other:?}") };
        assert_eq!(s.len(), 4, "Ts4mmddn: component count");
        let _ = s;
        Ts4mmddn {
            f0: FromValue::from_value(s[0].as_ref().expect("component f0 of Ts4mmddn must be present")),
            f1: FromValue::from_value(s[1].as_ref().expect("component f1 of Ts4mmddn must be present")),
            f2: FromValue::from_value(s[2].as_ref().expect("component f2 of Ts4mmddn must be present")),
            f3: FromValue::from_value(s[3].as_ref().expect("component f3 of Ts4mmddn must be present")),
        }
    }
}
impl ToValue for Ts4mmddn {
    fn to_value(&self) -> Value {
        Value::Seq(vec![
            Some(self.f0.to_value()),
            Some(self.f1.to_value()),
            Some(self.f2.to_value()),
            Some(self.f3.to_value()),
        ])
    }
}
impl FromValue for Ts4mmdde0 {
    fn from_value(v: &Value) -> Self {
        let s = match v { Value::Seq(s) => s, other => panic!("Ts4mmdde0: expected Seq, got {other:?}") };
        assert_eq!(s.len(), 4, "Ts4mmdde0: component count");
        let _ = s;
        Ts4mmdde0 {
            f0: FromValue::from_value(s[0].as_ref().expect("component f0 of Ts4mmdde0 must be present")),
            f1: s[1].as_ref().map(FromValue::from_value),
            f2: FromValue::from_value(s[2].as_ref().expect("component f2 of Ts4mmdde0 must be present")),
            f3: FromValue::from_value(s[3].as_ref().expect("component f3 of Ts4mmdde0 must be present")),
        }
    }
}
impl ToValue for Ts4mmdde0 {
    fn to_value(&self) -> Value {
        Value::Seq(vec![
            Some(self.f0.to_value()),
            self.f1.as_ref().map(|x| x.to_value()),
            Some(self.f2.to_value()),
            Some(self.f3.to_value()),
        ])
    }
}
impl FromValue for Ts4mmdde1 {
    fn from_value(v: &Value) -> Self {
        let s = match v { Value::Seq(s) => s, other => panic!("Ts4mmdde1: expected Seq, got {other:?}") };
        assert_eq!(s.len(), 4, "Ts4mmdde1: component count");
        let _ = s;
        Ts4mmdde1 {
            f0: FromValue::from_value(s[0].as_ref().expect("component f0 of Ts4mmdde1 must be present")),
            f1: s[1].as_ref().map(FromValue::from_value),
            f2: FromValue::from_value(s[2].as_ref().expect("component f2 of Ts4mmdde1 must be present")),
            f3: FromValue::from_value(s[3].as_ref().expect("component f3 of Ts4mmdde1 must be present")),
        }
    }
}
impl ToValue for Ts4mmdde1 {
    fn to_value(&self) -> Value {
        Value::Seq(vec![
            Some(self.f0.to_value()),
            self.f1.as_ref().map(|x| x.to_value()),
            Some(self.f2.to_value()),
            Some(self.f3.to_value()),
        ])
    }
}
impl FromValue for Ts4mmdde2 {
    fn from_value(v: &Value) -> Self {
        let s = match v { Value::Seq(s) => s, other => panic!("Ts4mmdde2: expected Seq, got {other:?}") };
        assert_eq!(s.len(), 4, "Ts4mmdde2: component count");
        let _ = s;
        Ts4mmdde2 {
            f0: FromValue::from_value(s[0].as_ref().expect("component f0 of Ts4mmdde2 must be present")),
            f1: FromValue::from_value(s[1].as_ref().expect("component f1 of Ts4mmdde2 must be present")),
            f2: FromValue::from_value(s[2].as_ref().expect("component f2 of Ts4mmdde2 must be present")),
            f3: FromValue::from_value(s[3].as_ref().expect("component f3 of Ts4mmdde2 must be present")),
        }
    }
}
impl ToValue for Ts4mmdde2 {
    fn to_value(&self) -> Value {
        Value::Seq(vec![
            Some(self.f0.to_value()),
            Some(self.f1.to_value()),
            Some(self.f2.to_value()),
            Some(self.f3.to_value()),
        ])
    }
}
impl FromValue for Ts4mmdde3 {
    fn from_value(v: &Value) -> Self {
        let s = match v { Value::Seq(s) => s, other => panic!("Ts4mmdde3: expected Seq, got {other:?}") };
        assert_eq!(s.len(), 4, "Ts4mmdde3: component count");
        let _ = s;
        Ts4mmdde3 {
            f0: FromValue::from_value(s[0].as_ref().expect("component f0 of Ts4mmdde3 must be present")),
            f1: FromValue::from_value(s[1].as_ref().expect("component f1 of Ts4mmdde3 must be present")),
            f2: FromValue::from_value(s[2].as_ref().expect("component f2 of Ts4mmdde3 must be present")),
            f3: FromValue::from_value(s[3].as_ref().expect("component f3 of Ts4mmdde3 must be present")),
        }
    }
}
impl ToValue for Ts4mmdde3 {
    fn to_value(&self) -> Value {
        Value::Seq(vec![
            Some(self.f0.to_value()),
            Some(self.f1.to_value()),
            Some(self.f2.to_value()),
            Some(self.f3.to_value()),
        ])
    }
}
impl FromValue for Ts4mmdde4 {
    fn from_value(v: &Value) -> Self {
        let s = match v { Value::Seq(s) => s, other => panic!("Ts4mmdde4: expected Seq, got {other:?}") };
        assert_eq!(s.len(), 4, "Ts4mmdde4: component count");
        let _ = s;
        Ts4mmdde4 {
            f0: FromValue::from_value(s[0].as_ref().expect("component f0 of Ts4mmdde4 must be present")),
            f1: FromValue::from_value(s[1].as_ref().expect("component f1 of Ts4mmdde4 must be present")),
            f2: FromValue::from_value(s[2].as_ref().expect("component f2 of Ts4mmdde4 must be present")),
            f3: FromValue::from_value(s[3].as_ref().expect("component f3 of Ts4mmdde4 must be present")),
        }
    }
}
impl ToValue for Ts4mmdde4 {
    fn to_value(&self) -> Value {
        Value::Seq(vec![
            Some(self.f0.to_value()),
            Some(self.f1.to_value()),
            Some(self.f2.to_value()),
            Some(self.f3.to_value()),
        ])
    }
}
impl FromValue for Ts4omddn {
    fn from_value(v: &Value) -> Self {
        let s = match v { Value::Seq(s) => s, other => panic!("Ts4omddn: expected Seq, got {other:?}") };
        assert_eq!(s.len(), 4, "Ts4omddn: component count");
        let _ = s;
        Ts4omddn {
            f0: s[0].as_ref().map(FromValue::from_value),
            f1: FromValue::from_value(s[1].as_ref().expect("component f1 of Ts4omddn must be present")),
            f2: FromValue::from_value(s[2].as_ref().expect("component f2 of Ts4omddn must be present")),
            f3: FromValue::from_value(s[3].as_ref().expect("component f3 of Ts4omddn must be present")),
        }
    }
}
impl ToValue for Ts4omddn {
    fn to_value(&self) -> Value {
        Value::Seq(vec![
            self.f0.as_ref().map(|x| x.to_value()),
            Some(self.f1.to_value()),
            Some(self.f2.to_value()),
            Some(self.f3.to_value()),
        ])
    }
}
impl FromValue for Ts4omdde0 {
    fn from_value(v: &Value) -> Self {
        let s = match v { Value::Seq(s) => s, other => panic!("Ts4omdde0: expected Seq, got {other:?}") };
        assert_eq!(s.len(), 4, "Ts4omdde0: component count");
        let _ = s;
        Ts4omdde0 {
            f0: s[0].as_ref().map(FromValue::from_value),
            f1: s[1].as_ref().map(FromValue::from_value),
            f2: FromValue::from_value(s[2].as_ref().expect("component f2 of Ts4omdde0 must be present")),
            f3: FromValue::from_value(s[3].as_ref().expect("component f3 of Ts4omdde0 must be present")),
        }
    }
}
impl ToValue for Ts4omdde0 {
    fn to_value(&self) -> Value {
        Value::Seq(vec![
            self.f0.as_ref().map(|x| x.to_value()),
            self.f1.as_ref().map(|x| x.to_value()),
            Some(self.f2.to_value()),
            Some(self.f3.to_value()),
        ])
    }
}
impl FromValue for Ts4omdde1 {
    fn from_value(v: &Value) -> Self {
        let s = match v { Value::Seq(s) => s, other => panic!("Ts4omdde1: expected Seq, got {other:?}") };
        assert_eq!(s.len(), 4, "Ts4omdde1: component count");
        let _ = s;
        Ts4omdde1 {
            f0: s[0].as_ref().map(FromValue::from_value),
            f1: s[1].as_ref().map(FromValue::from_value),
            f2: FromValue::from_value(s[2].as_ref().expect("component f2 of Ts4omdde1 must be present")),
            f3: FromValue::from_value(s[3].as_ref().expect("component f3 of Ts4omdde1 must be present")),
        }
    }
}
impl ToValue for Ts4omdde1 {
    fn to_value(&self) -> Value {
        Value::Seq(vec![
            self.f0.as_ref().map(|x| x.to_value()),
            self.f1.as_ref().map(|x| x.to_value()),
            Some(self.f2.to_value()),
            Some(self.f3.to_value()),
        ])
    }
}
impl FromValue for Ts4omdde2 {
    fn from_value(v: &Value) -> Self {
        let s = match v { Value::Seq(s) => s, other => panic!("Ts4omdde2: expected Seq, got {other:?}") };
        assert_eq!(s.len(), 4, "Ts4omdde2: component count");
        let _ = s;
        Ts4omdde2 {
            f0: s[0].as_ref().map(FromValue::from_value),
            f1: FromValue::from_value(s[1].as_ref().expect("component f1 of Ts4omdde2 must be present")),
            f2: FromValue::from_value(s[2].as_ref().expect("component f2 of Ts4omdde2 must be present")),
            f3: FromValue::from_value(s[3].as_ref().expect("component f3 of Ts4omdde2 must be present")),
        }
    }
}
impl ToValue for Ts4omdde2 {
    fn to_value(&self) -> Value {
        Value::Seq(vec![
            self.f0.as_ref().map(|x| x.to_value()),
            Some(self.f1.to_value()),
            Some(self.f2.to_value()),
            Some(self.f3.to_value()),
        ])
    }
}
impl FromValue for Ts4omdde3 {
    fn from_value(v: &Value) -> Self {
        let s = match v { Value::Seq(s) => s, other => panic!("Ts4omdde3: expected Seq, got {other:?}") };
        assert_eq!(s.len(), 4, "Ts4omdde3: component count");
        let _ = s;
        Ts4omdde3 {
            f0: s[0].as_ref().map(FromValue::from_value),
            f1: FromValue::from_value(s[1].as_ref().expect("component f1 of Ts4omdde3 must be present")),
            f2: FromValue::from_value(s[2].as_ref().expect("component f2 of Ts4omdde3 must be present")),
            f3: FromValue::from_value(s[3].as_ref().expect("component f3 of Ts4omdde3 must be present")),
        }
    }
}
impl ToValue for Ts4omdde3 {
    fn to_value(&self) -> Value {
        Value::Seq(vec![
            self.f0.as_ref().map(|x| x.to_value()),
            Some(self.f1.to_value()),
            Some(self.f2.to_value()),
            Some(self.f3.to_value()),
        ])
    }
}
impl FromValue for Ts4omdde4 {
    fn from_value(v: &Value) -> Self {
        let s = match v { Value::Seq(s) => s, other => panic!("Ts4omdde4: expected Seq, got {other:?}") };
        assert_eq!(s.len(), 4, "Ts4omdde4: component count");
        let _ = s;
        Ts4omdde4 {
            f0: s[0].as_ref().map(FromValue::from_value),
            f1: FromValue::from_value(s[1].as_ref().expect("component f1 of Ts4omdde4 must be present")),
            f2: FromValue::from_value(s[2].as_ref().expect("component f2 of Ts4omdde4 must be present")),
            f3: FromValue::from_value(s[3].as_ref().expect("component f3 of Ts4omdde4 must be present")),
        }
    }
}
impl ToValue for Ts4omdde4 {
    fn to_value(&self) -> Value {
        Value::Seq(vec![
            self.f0.as_ref().map(|x| x.to_value()),
            Some(self.f1.to_value()),
            Some(self.f2.to_value()),
            Some(self.f3.to_value()),
        ])
    }
}
impl FromValue for Ts4dmddn {
    fn from_value(v: &Value) -> Self {
        let s = match v { Value::Seq(s) => s, other => panic!("Ts4dmddn: expected Seq, got {other:?}") };
        assert_eq!(s.len(), 4, "Ts4dmddn: component count");
        let _ = s;
        Ts4dmddn {
            f0: FromValue::from_value(s[0].as_ref().expect("component f0 of Ts4dmddn must be present")),
            f1: FromValue::from_value(s[1].as_ref().expect("component f1 of Ts4dmddn must be present")),
            f2: FromValue::from_value(s[2].as_ref().expect("component f2 of Ts4dmddn must be present")),
            f3: FromValue::from_value(s[3].as_ref().expect("component f3 of Ts4dmddn must be present")),
        }
    }
}
impl ToValue for Ts4dmddn {
    fn to_value(&self) -> Value {
        Value::Seq(vec![
            Some(self.f0.to_value()),
            Some(self.f1.to_value()),
            Some(self.f2.to_value()),
            Some(self.f3.to_value()),
        ])
    }
}
impl FromValue for Ts4dmdde0 {
    fn from_value(v: &Value) -> Self {
        let s = match v { Value::Seq(s) => s, other => panic!("Ts4dmdde0: expected Seq, got {other:?}") };
        assert_eq!(s.len(), 4, "Ts4dmdde0: component count");
        let _ = s;
        Ts4dmdde0 {
            f0: FromValue::from_value(s[0].as_ref().expect("component f0 of Ts4dmdde0 must be present")),
            f1: s[1].as_ref().map(FromValue::from_value),
            f2: FromValue::from_value(s[2].as_ref().expect("component f2 of Ts4dmdde0 must be present")),
            f3: FromValue::from_value(s[3].as_ref().expect("component f3 of Ts4dmdde0 must be present")),
        }
    }
}
impl ToValue for Ts4dmdde0 {
    fn to_value(&self) -> Value {
        Value::Seq(vec![
            Some(self.f0.to_value()),
            self.f1.as_ref().map(|x| x.to_value()),
            Some(self.f2.to_value()),
            Some(self.f3.to_value()),
        ])
    }
}
impl FromValue for Ts4dmdde1 {
    fn from_value(v: &Value) -> Self {
        let s = match v { Value::Seq(s) => s, other => panic!("Ts4dmdde1: expected Seq, got {other:?}") };
        assert_eq!(s.len(), 4, "Ts4dmdde1: component count");
        let _ = s;
        Ts4dmdde1 {
            f0: FromValue::from_value(s[0].as_ref().expect("component f0 of Ts4dmdde1 must be present")),
            f1: s[1].as_ref().map(FromValue::from_value),
            f2: FromValue::from_value(s[2].as_ref().expect("component f2 of Ts4dmdde1 must be present")),
            f3: FromValue::from_value(s[3].as_ref().expect("component f3 of Ts4dmdde1 must be present")),
        }
    }
}
impl ToValue for Ts4dmdde1 {
    fn to_value(&self) -> Value {
        Value::Seq(vec![
            Some(self.f0.to_value()),
            self.f1.as_ref().map(|x| x.to_value()),
            Some(self.f2.to_value()),
            Some(self.f3.to_value()),
        ])
    }
}
impl FromValue for Ts4dmdde2 {
    fn from_value(v: &Value) -> Self {
        let s = match v { Value::Seq(s) => s, other => panic!("Ts4dmdde2: expected Seq, got {other:?}") };
        assert_eq!(s.len(), 4, "Ts4dmdde2: component count");
        let _ = s;
        Ts4dmdde2 {
            f0: FromValue::from_value(s[0].as_ref().expect("component f0 of Ts4dmdde2 must be present")),
            f1: FromValue::from_value(s[1].as_ref().expect("component f1 of Ts4dmdde2 must be present")),
            f2: FromValue::from_value(s[2].as_ref().expect("component f2 of Ts4dmdde2 must be present")),
            f3: FromValue::from_value(s[3].as_ref().expect("component f3 of Ts4dmdde2 must be present")),
        }
    }
}
impl ToValue for Ts4dmdde2 {
    fn to_value(&self) -> Value {
        Value::Seq(vec![
            Some(self.f0.to_value()),
            Some(self.f1.to_value()),
            Some(self.f2.to_value()),
            Some(self.f3.to_value()),
        ])
    }
}
impl FromValue for Ts4dmdde3 {
    fn from_value(v: &Value) -> Self {
        let s = match v { Value::Seq(s) => s, other => panic!("Ts4dmdde3: expected Seq, got {other:?}") };
        assert_eq!(s.len(), 4, "Ts4dmdde3: component count");
        let _ = s;
        Ts4dmdde3 {
            f0: FromValue::from_value(s[0].as_ref().expect("component f0 of Ts4dmdde3 must be present")),
            f1: FromValue::from_value(s[1].as_ref().expect("component f1 of Ts4dmdde3 must be present")),
            f2: FromValue::from_value(s[2].as_ref().expect("component f2 of Ts4dmdde3 must be present")),
            f3: FromValue::from_value(s[3].as_ref().expect("component f3 of Ts4dmdde3 must be present")),
        }
    }
}
impl ToValue for Ts4dmdde3 {
    fn to_value(&self) -> Value {
        Value::Seq(vec![
            Some(self.f0.to_value()),
            Some(self.f1.to_value()),
            Some(self.f2.to_value()),
            Some(self.f3.to_value()),
        ])
    }
}
impl FromValue for Ts4dmdde4 {
    fn from_value(v: &Value) -> Self {
        let s = match v { Value::Seq(s) => s, other => panic!("Ts4dmdde4: expected Seq, got {other:?}") };
        assert_eq!(s.len(), 4, "Ts4dmdde4: component count");
        let _ = s;
        Ts4dmdde4 {
            f0: FromValue::from_value(s[0].as_ref().expect("component f0 of Ts4dmdde4 must be present")),
            f1: FromValue::from_value(s[1].as_ref().expect("component f1 of Ts4dmdde4 must be present")),
            f2: FromValue::from_value(s[2].as_ref().expect("component f2 of Ts4dmdde4 must be present")),
            f3: FromValue::from_value(s[3].as_ref().expect("component f3 of Ts4dmdde4 must be present")),
        }
    }
}
impl ToValue for Ts4dmdde4 {
    fn to_value(&self) -> Value {
        Value::Seq(vec![
            Some(self.f0.to_value()),
            Some(self.f1.to_value()),
            Some(self.f2.to_value()),
            Some(self.f3.to_value()),
        ])
    }
}
impl FromValue for Ts4moddn {
    fn from_value(v: &Value) -> Self {
        let s = match v { Value::Seq(s) => s, other => panic!("Ts4moddn: expected Seq, got {other:?}") };
        assert_eq!(s.len(), 4, "Ts4moddn: component count");
        let _ = s;
        Ts4moddn {
            f0: FromValue::from_value(s[0].as_ref().expect("component f0 of Ts4moddn must be present")),
            f1: s[1].as_ref().map(FromValue::from_value),
            f2: FromValue::from_value(s[2].as_ref().expect("component f2 of Ts4moddn must be present")),
            f3: FromValue::from_value(s[3].as_ref().expect("component f3 of Ts4moddn must be present")),
        }
    }
}
impl ToValue for Ts4moddn {
    fn to_value(&self) -> Value {
        Value::Seq(vec![
            Some(self.f0.to_value()),
            self.f1.as_ref().map(|x| x.to_value()),
            Some(self.f2.to_value()),
            Some(self.f3.to_value()),
        ])
    }
}
impl FromValue for Ts4modde0 {
    fn from_value(v: &Value) -> Self {
        let s = match v { Value::Seq(s) => s, other => panic!("Ts4modde0: expected Seq, got {other:?}") };
        assert_eq!(s.len(), 4, "Ts4modde0: component count");
        let _ = s;
        Ts4modde0 {
            f0: FromValue::from_value(s[0].as_ref().expect("component f0 of Ts4modde0 must be present")),
            f1: s[1].as_ref().map(FromValue::from_value),
            f2: FromValue::from_value(s[2].as_ref().expect("component f2 of Ts4modde0 must be present")),
            f3: FromValue::from_value(s[3].as_ref().expect("component f3 of Ts4modde0 must be present")),
        }
    }
}
impl ToValue for Ts4modde0 {
    fn to_value(&self) -> Value {
        Value::Seq(vec![
            Some(self.f0.to_value()),
            self.f1.as_ref().map(|x| x.to_value()),
            Some(self.f2.to_value()),
            Some(self.f3.to_value()),
        ])
    }
}
impl FromValue for Ts4modde1 {
    fn from_value(v: &Value) -> Self {
        let s = match v { Value::Seq(s) => s, other => panic!("Ts4modde1: expected Seq, got {other:?}") };
        assert_eq!(s.len(), 4, "Ts4modde1: component count");
        let _ = s;
        Ts4modde1 {
            f0: FromValue::from_value(s[0].as_ref().expect("component f0 of Ts4modde1 must be present")),
            f1: s[1].as_ref().map(FromValue::from_value),
            f2: FromValue::from_value(s[2].as_ref().expect("component f2 of Ts4modde1 must be present")),
            f3: FromValue::from_value(s[3].as_ref().expect("component f3 of Ts4modde1 must be present")),
        }
    }
}
impl ToValue for Ts4modde1 {
    fn to_value(&self) -> Value {
        Value::Seq(vec![
            Some(self.f0.to_value()),
            self.f1.as_ref().map(|x| x.to_value()),
            Some(self.f2.to_value()),
            Some(self.f3.to_value()),
        ])
    }
}
impl FromValue for Ts4modde2 {
    fn from_value(v: &Value) -> Self {
        let s = match v { Value::Seq(s) => s, other => panic!("Ts4modde2: expected Seq, got {other:?}") };
        assert_eq!(s.len(), 4, "Ts4modde2: component count");
        let _ = s;
        Ts4modde2 {
            f0: FromValue::from_value(s[0].as_ref().expect("component f0 of Ts4modde2 must be present")),
            f1: s[1].as_ref().map(FromValue::from_value),
            f2: FromValue::from_value(s[2].as_ref().expect("component f2 of Ts4modde2 must be present")),
            f3: FromValue::from_value(s[3].as_ref().expect("component f3 of Ts4modde2 must be present")),
        }
    }
}
impl ToValue for Ts4modde2 {
    fn to_value(&self) -> Value {
        Value::Seq(vec![
            Some(self.f0.to_value()),
            self.f1.as_ref().map(|x| x.to_value()),
            Some(self.f2.to_value()),
            Some(self.f3.to_value()),
        ])
    }
}
impl FromValue for Ts4modde3 {
    fn from_value(v: &Value) -> Self {
        let s = match v { Value::Seq(s) => s, other => panic!("Ts4modde3: expected Seq, got {other:?}") };
        assert_eq!(s.len(), 4, "Ts4modde3: component count");
        let _ = s;
        Ts4modde3 {
            f0: FromValue::from_value(s[0].as_ref().expect("component f0 of Ts4modde3 must be present")),
            f1: s[1].as_ref().map(FromValue::from_value),
            f2: FromValue::from_value(s[2].as_ref().expect("component f2 of Ts4modde3 must be present")),
            f3: FromValue::from_value(s[3].as_ref().expect("component f3 of Ts4modde3 must be present")),
        }
    }
}
impl ToValue for Ts4modde3 {
    fn to_value(&self) -> Value {
        Value::Seq(vec![
            Some(self.f0.to_value()),
            self.f1.as_ref().map(|x| x.to_value()),
            Some(self.f2.to_value()),
            Some(self.f3.to_value()),
        ])
    }
}
impl FromValue for Ts4modde4 {
    fn from_value(v: &Value) -> Self {
        let s = match v { Value::Seq(s) => s, other => panic!("Ts4modde4: expected Seq, got {other:?}") };
        assert_eq!(s.len(), 4, "Ts4modde4: component count");
        let _ = s;
        Ts4modde4 {
            f0: FromValue::from_value(s[0].as_ref().expect("component f0 of Ts4modde4 must be present")),
            f1: s[1].as_ref().map(FromValue::from_value),
            f2: FromValue::from_value(s[2].as_ref().expect("component f2 of Ts4modde4 must be present")),
            f3: FromValue::from_value(s[3].as_ref().expect("component f3 of Ts4modde4 must be present")),
        }
    }
}
impl ToValue for Ts4modde4 {
    fn to_value(&self) -> Value {
        Value::Seq(vec![
            Some(self.f0.to_value()),
            self.f1.as_ref().map(|x| x.to_value()),
            Some(self.f2.to_value()),
            Some(self.f3.to_value()),
        ])
    }
}
impl FromValue for Ts4ooddn {
    fn from_value(v: &Value) -> Self {
        let s = match v { Value::Seq(s) => s, other => panic!("Ts4ooddn: expected Seq, got {other:?}") };
        assert_eq!(s.len(), 4, "Ts4ooddn: component count");
        let _ = s;
        Ts4ooddn {
            f0: s[0].as_ref().map(FromValue::from_value),
            f1: s[1].as_ref().map(FromValue::from_value),
            f2: FromValue::from_value(s[2].as_ref().expect("component f2 of Ts4ooddn must be present")),
            f3: FromValue::from_value(s[3].as_ref().expect("component f3 of Ts4ooddn must be present")),
        }
    }
}
impl ToValue for Ts4ooddn {
    fn to_value(&self) -> Value {
        Value::Seq(vec![
            self.f0.as_ref().map(|x| x.to_value()),
            self.f1.as_ref().map(|x| x.to_value()),
            Some(self.f2.to_value()),
            Some(self.f3.to_value()),
        ])
    }
}
impl FromValue for Ts4oodde0 {
    fn from_value(v: &Value) -> Self {
        let s = match v { Value::Seq(s) => s, other => panic!("Ts4oodde0: expected Seq, got {other:?}") };
        assert_eq!(s.len(), 4, "Ts4oodde0: component count");
        let _ = s;
        Ts4oodde0 {
            f0: s[0].as_ref().map(FromValue::from_value),
            f1: s[1].as_ref().map(FromValue::from_value),
            f2: FromValue::from_value(s[2].as_ref().expect("component f2 of Ts4oodde0 must be present")),
            f3: FromValue::from_value(s[3].as_ref().expect("component f3 of Ts4oodde0 must be present")),
        }
    }
}
impl ToValue for Ts4oodde0 {
    fn to_value(&self) -> Value {
        Value::Seq(vec![
            self.f0.as_ref().map(|x| x.to_value()),
            self.f1.as_ref().map(|x| x.to_value()),
            Some(self.f2.to_value()),
            Some(self.f3.to_value()),
        ])
    }
}
impl FromValue for Ts4oodde1 {
    fn from_value(v: &Value) -> Self {
        let s = match v { Value::Seq(s) => s, other => panic!("Ts4oodde1: expected Seq, got {other:?}") };
        assert_eq!(s.len(), 4, "Ts4oodde1: component count");
        let _ = s;
        Ts4oodde1 {
            f0: s[0].as_ref().map(FromValue::from_value),
            f1: s[1].as_ref().map(FromValue::from_value),
            f2: FromValue::from_value(s[2].as_ref().expect("component f2 of Ts4oodde1 must be present")),
            f3: FromValue::from_value(s[3].as_ref().expect("component f3 of Ts4oodde1 must be present")),
        }
    }
}
impl ToValue for Ts4oodde1 {
    fn to_value(&self) -> Value {
        Value::Seq(vec![
            self.f0.as_ref().map(|x| x.to_value()),
            self.f1.as_ref().map(|x| x.to_value()),
            Some(self.f2.to_value()),
            Some(self.f3.to_value()),
        ])
    }
}
impl FromValue for Ts4oodde2 {
    fn from_value(v: &Value) -> Self {
        let s = match v { Value::Seq(s) => s, other => panic!("Ts4oodde2: expected Seq, got {other:?}") };
        assert_eq!(s.len(), 4, "Ts4oodde2: component count");
        let _ = s;
        Ts4oodde2 {
            f0: s[0].as_ref().map(FromValue::from_value),
            f1: s[1].as_ref().map(FromValue::from_value),
            f2: FromValue::from_value(s[2].as_ref().expect("component f2 of Ts4oodde2 must be present")),
            f3: FromValue::from_value(s[3].as_ref().expect("component f3 of Ts4oodde2 must be present")),
        }
    }
}
impl ToValue for Ts4oodde2 {
    fn to_value(&self) -> Value {
        Value::Seq(vec![
            self.f0.as_ref().map(|x| x.to_value()),
            self.f1.as_ref().map(|x| x.to_value()),
            Some(self.f2.to_value()),
            Some(self.f3.to_value()),
        ])
    }
}
impl FromValue for Ts4oodde3 {
    fn from_value(v: &Value) -> Self {
        let s = match v { Value::Seq(s) => s, other => panic!("Ts4oodde3: expected Seq, got {other:?}") };
        assert_eq!(s.len(), 4, "Ts4oodde3: component count");
        let _ = s;
        Ts4oodde3 {
            f0: s[0].as_ref().map(FromValue::from_value),
            f1: s[1].as_ref().map(FromValue::from_value),
            f2: FromValue::from_value(s[2].as_ref().expect("component f2 of Ts4oodde3 must be present")),
            f3: FromValue::from_value(s[3].as_ref().expect("component f3 of Ts4oodde3 must be present")),
        }
    }
}
impl ToValue for Ts4oodde3 {
    fn to_value(&self) -> Value {
        Value::Seq(vec![
            self.f0.as_ref().map(|x| x.to_value()),
            self.f1.as_ref().map(|x| x.to_value()),
            Some(self.f2.to_value()),
            Some(self.f3.to_value()),
        ])
    }
}
impl FromValue for Ts4oodde4 {
    fn from_value(v: &Value) -> Self {
        let s = match v { Value::Seq(s) => s, other => panic!("Ts4oodde4: expected Seq, got {other:?}") };
        assert_eq!(s.len(), 4, "Ts4oodde4: component count");
        let _ = s;
        Ts4oodde4 {
            f0: s[0].as_ref().map(FromValue::from_value),
            f1: s[1].as_ref().map(FromValue::from_value),
            f2: FromValue::from_value(s[2].as_ref().expect("component f2 of Ts4oodde4 must be present")),
            f3: FromValue::from_value(s[3].as_ref().expect("component f3 of Ts4oodde4 must be present")),
        }
    }
}
impl ToValue for Ts4oodde4 {
    fn to_value(&self) -> Value {
        Value::Seq(vec![
            self.f0.as_ref().map(|x| x.to_value()),
            self.f1.as_ref().map(|x| x.to_value()),
            Some(self.f2.to_value()),
            Some(self.f3.to_value()),
        ])
    }
}
impl FromValue for Ts4doddn {
    fn from_value(v: &Value) -> Self {
        let s = match v { Value::Seq(s) => s, other => panic!("Ts4doddn: expected Seq, got {other:?}") };
        assert_eq!(s.len(), 4, "Ts4doddn: component count");
        let _ = s;
        Ts4doddn {
            f0: FromValue::from_value(s[0].as_ref().expect("component f0 of Ts4doddn must be present")),
            f1: s[1].as_ref().map(FromValue::from_value),
            f2: FromValue::from_value(s[2].as_ref().expect("component f2 of Ts4doddn must be present")),
            f3: FromValue::from_value(s[3].as_ref().expect("component f3 of Ts4doddn must be present")),
        }
    }
}
impl ToValue for Ts4doddn {
    fn to_value(&self) -> Value {
        Value::Seq(vec![
            Some(self.f0.to_value()),
            self.f1.as_ref().map(|x| x.to_value()),
            Some(self.f2.to_value()),
            Some(self.f3.to_value()),
        ])
    }
}
impl FromValue for Ts4dodde0 {
    fn from_value(v: &Value) -> Self {
        let s = match v { Value::Seq(s) => s, other => panic!("Ts4dodde0: expected Seq, got {other:?}") };
        assert_eq!(s.len(), 4, "Ts4dodde0: component count");
        let _ = s;
        Ts4dodde0 {
            f0: FromValue::from_value(s[0].as_ref().expect("component f0 of Ts4dodde0 must be present")),
            f1: s[1].as_ref().map(FromValue::from_value),
            f2: FromValue::from_value(s[2].as_ref().expect("component f2 of Ts4dodde0 must be present")),
            f3: FromValue::from_value(s[3].as_ref().expect("component f3 of Ts4dodde0 must be present")),
        }
    }
}
impl ToValue for Ts4dodde0 {
    fn to_value(&self) -> Value {
        Value::Seq(vec![
            Some(self.f0.to_value()),
            self.f1.as_ref().map(|x| x.to_value()),
            Some(self.f2.to_value()),
            Some(self.f3.to_value()),
        ])
    }
}
impl FromValue for Ts4dodde1 {
    fn from_value(v: &Value) -> Self {
        let s = match v { Value::Seq(s) => s, other => panic!("Ts4dodde1: expected Seq, got {other:?}") };
        assert_eq!(s.len(), 4, "Ts4dodde1: component count");
        let _ = s;
        Ts4dodde1 {
            f0: FromValue::from_value(s[0].as_ref().expect("component f0 of Ts4dodde1 must be present")),
            f1: s[1].as_ref().map(FromValue::from_value),
            f2: FromValue::from_value(s[2].as_ref().expect("component f2 of Ts4dodde1 must be present")),
            f3: FromValue::from_value(s[3].as_ref().expect("component f3 of Ts4dodde1 must be present")),
        }
    }
}
impl ToValue for Ts4dodde1 {
    fn to_value(&self) -> Value {
        Value::Seq(vec![
            Some(self.f0.to_value()),
            self.f1.as_ref().map(|x| x.to_value()),
            Some(self.f2.to_value()),
            Some(self.f3.to_value()),
        ])
    }
}
impl FromValue for Ts4dodde2 {
    fn from_value(v: &Value) -> Self {
        let s = match v { Value::Seq(s) => s, other => panic!("Ts4dodde2: expected Seq, got {other:?}") };
        assert_eq!(s.len(), 4, "Ts4dodde2: component count");
        let _ = s;
        Ts4dodde2 {
            f0: FromValue::from_value(s[0].as_ref().expect("component f0 of Ts4dodde2 must be present")),
            f1: s[1].as_ref().map(FromValue::from_value),
            f2: FromValue::from_value(s[2].as_ref().expect("component f2 of Ts4dodde2 must be present")),
            f3: FromValue::from_value(s[3].as_ref().expect("component f3 of Ts4dodde2 must be present")),
        }
    }
}
impl ToValue for Ts4dodde2 {
    fn to_value(&self) -> Value {
        Value::Seq(vec![
            Some(self.f0.to_value()),
            self.f1.as_ref().map(|x| x.to_value()),
            Some(self.f2.to_value()),
            Some(self.f3.to_value()),
        ])
    }
}
impl FromValue for Ts4dodde3 {
    fn from_value(v: &Value) -> Self {
        let s = match v { Value::Seq(s) => s, other => panic!("Ts4dodde3: expected Seq, got {other:?}") };
        assert_eq!(s.len(), 4, "Ts4dodde3: component count");
        let _ = s;
        Ts4dodde3 {
            f0: FromValue::from_value(s[0].as_ref().expect("component f0 of Ts4dodde3 must be present")),
            f1: s[1].as_ref().map(FromValue::from_value),
            f2: FromValue::from_value(s[2].as_ref().expect("component f2 of Ts4dodde3 must be present")),
            f3: FromValue::from_value(s[3].as_ref().expect("component f3 of Ts4dodde3 must be present")),
        }
    }
}
impl ToValue for Ts4dodde3 {
    fn to_value(&self) -> Value {
        Value::Seq(vec![
            Some(self.f0.to_value()),
            self.f1.as_ref().map(|x| x.to_value()),
            Some(self.f2.to_value()),
            Some(self.f3.to_value()),
        ])
    }
}
impl FromValue for Ts4dodde4 {
    fn from_value(v: &Value) -> Self {
        let s = match v { Value::Seq(s) => s, other => panic!("Ts4dodde4: expected Seq, got {other:?}") };
        assert_eq!(s.len(), 4, "Ts4dodde4: component count");
        let _ = s;
        Ts4dodde4 {
            f0: FromValue::from_value(s[0].as_ref().expect("component f0 of Ts4dodde4 must be present")),
            f1: s[1].as_ref().map(FromValue::from_value),
            f2: FromValue::from_value(s[2].as_ref().expect("component f2 of Ts4dodde4 must be present")),
            f3: FromValue::from_value(s[3].as_ref().expect("component f3 of Ts4dodde4 must be present")),
        }
    }
}
impl ToValue for Ts4dodde4 {
    fn to_value(&self) -> Value {
        Value::Seq(vec![
            Some(self.f0.to_value()),
            self.f1.as_ref().map(|x| x.to_value()),
            Some(self.f2.to_value()),
            Some(self.f3.to_value()),
        ])
    }
}
impl FromValue for Ts4mdddn {
    fn from_value(v: &Value) -> Self {
        let s = match v { Value::Seq(s) => s, other => panic!("Ts4mdddn: expected Seq, got {other:?}") };
        assert_eq!(s.len(), 4, "Ts4mdddn: component count");
        let _ = s;
        Ts4mdddn {
            f0: FromValue::from_value(s[0].as_ref().expect("component f0 of Ts4mdddn must be present")),
            f1: FromValue::from_value(s[1].as_ref().expect("component f1 of Ts4mdddn must be present")),
            f2: FromValue::from_value(s[2].as_ref().expect("component f2 of Ts4mdddn must be present")),
            f3: FromValue::from_value(s[3].as_ref().expect("component f3 of Ts4mdddn must be present")),
        }
    }
}
impl ToValue for Ts4mdddn {
    fn to_value(&self) -> Value {
        Value::Seq(vec![
            Some(self.f0.to_value()),
            Some(self.f1.to_value()),
            Some(self.f2.to_value()),
            Some(self.f3.to_value()),
        ])
    }
}
impl FromValue for Ts4mddde0 {
    fn from_value(v: &Value) -> Self {
        let s = match v { Value::Seq(s) => s, other => panic!("Ts4mddde0: expected Seq, got {other:?}") };
        assert_eq!(s.len(), 4, "Ts4mddde0: component count");
        let _ = s;
        Ts4mddde0 {
            f0: FromValue::from_value(s[0].as_ref().expect("component f0 of Ts4mddde0 must be present")),
            f1: FromValue::from_value(s[1].as_ref().expect("component f1 of Ts4mddde0 must be present")),
            f2: FromValue::from_value(s[2].as_ref().expect("component f2 of Ts4mddde0 must be present")),
            f3: FromValue::from_value(s[3].as_ref().expect("component f3 of Ts4mddde0 must be present")),
        }
    }
}
impl ToValue for Ts4mddde0 {
    fn to_value(&self) -> Value {
        Value::Seq(vec![
            Some(self.f0.to_value()),
            Some(self.f1.to_value()),
            Some(self.f2.to_value()),
            Some(self.f3.to_value()),
        ])
    }
}
impl FromValue for Ts4mddde1 {
    fn from_value(v: &Value) -> Self {
        let s = match v { Value::Seq(s) => s, other => panic!("Ts4mddde1: expected Seq, got {other:?}") };
        assert_eq!(s.len(), 4, "Ts4mddde1: component count");
        let _ = s;
        Ts4mddde1 {
            f0: FromValue::from_value(s[0].as_ref().expect("component f0 of Ts4mddde1 must be present")),
            f1: FromValue::from_value(s[1].as_ref().expect("component f1 of Ts4mddde1 must be present")),
            f2: FromValue::from_value(s[2].as_ref().expect("component f2 of Ts4mddde1 must be present")),
            f3: FromValue::from_value(s[3].as_ref().expect("component f3 of Ts4mddde1 must be present")),
        }
    }
}
impl ToValue for Ts4mddde1 {
    fn to_value(&self) -> Value {
        Value::Seq(vec![
            Some(self.f0.to_value()),
            Some(self.f1.to_value()),
            Some(self.f2.to_value()),
            Some(self.f3.to_value()),
        ])
    }
}
impl FromValue for Ts4mddde2 {
    fn from_value(v: &Value) -> Self {
        let s = match v { Value::Seq(s) => s, other => panic!("Ts4mddde2: expected Seq, got {other:?}") };
        assert_eq!(s.len(), 4, "Ts4mddde2: component count");
        let _ = s;
        Ts4mddde2 {
            f0: FromValue::from_value(s[0].as_ref().expect("component f0 of Ts4mddde2 must be present")),
            f1: FromValue::from_value(s[1].as_ref().expect("component f1 of Ts4mddde2 must be present")),
            f2: FromValue::from_value(s[2].as_ref().expect("component f2 of Ts4mddde2 must be present")),
            f3: FromValue::from_value(s[3].as_ref().expect("component f3 of Ts4mddde2 must be present")),
        }
    }
}
impl ToValue for Ts4mddde2 {
    fn to_value(&self) -> Value {
        Value::Seq(vec![
            Some(self.f0.to_value()),
            Some(self.f1.to_value()),
            Some(self.f2.to_value()),
            Some(self.f3.to_value()),
        ])
    }
}
impl FromValue for Ts4mddde3 {
    fn from_value(v: &Value) -> Self {
        let s = match v { Value::Seq(s) => s, other => panic!("Ts4mddde3: expected Seq, got {other:?}") };
        assert_eq!(s.len(), 4, "Ts4mddde3: component count");
        let _ = s;
        Ts4mddde3 {
            f0: FromValue::from_value(s[0].as_ref().expect("component f0 of Ts4mddde3 must be present")),
            f1: FromValue::from_value(s[1].as_ref().expect("component f1 of Ts4mddde3 must be present")),
            f2: FromValue::from_value(s[2].as_ref().expect("component f2 of Ts4mddde3 must be present")),
            f3: FromValue::from_value(s[3].as_ref().expect("component f3 of Ts4mddde3 must be present")),
        }
    }
}
impl ToValue for Ts4mddde3 {
    fn to_value(&self) -> Value {
        Value::Seq(vec![
            Some(self.f0.to_value()),
            Some(self.f1.to_value()),
            Some(self.f2.to_value()),
            Some(self.f3.to_value()),
        ])
    }
}
impl FromValue for Ts4mddde4 {
    fn from_value(v: &Value) -> Self {
        let s = match v { Value::Seq(s) => s, other => panic!("Ts4mddde4: expected Seq, got {other:?}") };
        assert_eq!(s.len(), 4, "Ts4mddde4: component count");
        let _ = s;
        Ts4mddde4 {
            f0: FromValue::from_value(s[0].as_ref().expect("component f0 of Ts4mddde4 must be present")),
            f1: FromValue::from_value(s[1].as_ref().expect("component f1 of Ts4mddde4 must be present")),
            f2: FromValue::from_value(s[2].as_ref().expect("component f2 of Ts4mddde4 must be present")),
            f3: FromValue::from_value(s[3].as_ref().expect("component f3 of Ts4mddde4 must be present")),
        }
    }
}
impl ToValue for Ts4mddde4 {
    fn to_value(&self) -> Value {
        Value::Seq(vec![
            Some(self.f0.to_value()),
            Some(self.f1.to_value()),
            Some(self.f2.to_value()),
            Some(self.f3.to_value()),
        ])
    }
}
impl FromValue for Ts4odddn {
    fn from_value(v: &Value) -> Self {
        let s = match v { Value::Seq(s) => s, other => panic!("Ts4odddn: expected Seq, got {other:?}") };
        assert_eq!(s.len(), 4, "Ts4odddn: component count");
        let _ = s;
        Ts4odddn {
            f0: s[0].as_ref().map(FromValue::from_value),
            f1: FromValue::from_value(s[1].as_ref().expect("component f1 of Ts4odddn must be present")),
            f2: FromValue::from_value(s[2].as_ref().expect("component f2 of Ts4odddn must be present")),
            f3: FromValue::from_value(s[3].as_ref().expect("component f3 of Ts4odddn must be present")),
        }
    }
}
impl ToValue for Ts4odddn {
    fn to_value(&self) -> Value {
        Value::Seq(vec![
            self.f0.as_ref().map(|x| x.to_value()),
            Some(self.f1.to_value()),
            Some(self.f2.to_value()),
            Some(self.f3.to_value()),
        ])
    }
}
impl FromValue for Ts4oddde0 {
    fn from_value(v: &Value) -> Self {
        let s = match v { Value::Seq(s) => s, other => panic!("Ts4oddde0: expected Seq, got {other:?}") };
        assert_eq!(s.len(), 4, "Ts4oddde0: component count");
        let _ = s;
        Ts4oddde0 {
            f0: s[0].as_ref().map(FromValue::from_value),
            f1: FromValue::from_value(s[1].as_ref().expect("component f1 of Ts4oddde0 must be present")),
            f2: FromValue::from_value(s[2].as_ref().expect("component f2 of Ts4oddde0 must be present")),
            f3: FromValue::from_value(s[3].as_ref().expect("component f3 of Ts4oddde0 must be present")),
        }
    }
}
impl ToValue for Ts4oddde0 {
    fn to_value(&self) -> Value {
        Value::Seq(vec![
            self.f0.as_ref().map(|x| x.to_value()),
            Some(self.f1.to_value()),
            Some(self.f2.to_value()),
            Some(self.f3.to_value()),
        ])
    }
}
impl FromValue for Ts4oddde1 {
    fn from_value(v: &Value) -> Self {
        let s = match v { Value::Seq(s) => s, other => panic!("Ts4oddde1: expected Seq, got {other:?}") };
        assert_eq!(s.len(), 4, "Ts4oddde1: component count");
        let _ = s;
        Ts4oddde1 {
            f0: s[0].as_ref().map(FromValue::from_value),
            f1: FromValue::from_value(s[1].as_ref().expect("component f1 of Ts4oddde1 must be present")),
            f2: FromValue::from_value(s[2].as_ref().expect("component f2 of Ts4oddde1 must be present")),
            f3: FromValue::from_value(s[3].as_ref().expect("component f3 of Ts4oddde1 must be present")),
        }
    }
}
impl ToValue for Ts4oddde1 {
    fn to_value(&self) -> Value {
        Value::Seq(vec![
            self.f0.as_ref().map(|x| x.to_value()),
            Some(self.f1.to_value()),
            Some(self.f2.to_value()),
            Some(self.f3.to_value()),
        ])
    }
}
impl FromValue for Ts4oddde2 {
    fn from_value(v: &Value) -> Self {
        let s = match v { Value::Seq(s) => s, other => panic!("Ts4oddde2: expected Seq, got {other:?}") };
        assert_eq!(s.len(), 4, "Ts4oddde2: component count");
        let _ = s;
        Ts4oddde2 {
            f0: s[0].as_ref().map(FromValue::from_value),
            f1: FromValue::from_value(s[1].as_ref().expect("component f1 of Ts4oddde2 must be present")),
            f2: FromValue::from_value(s[2].as_ref().expect("component f2 of Ts4oddde2 must be present")),
            f3: FromValue::from_value(s[3].as_ref().expect("component f3 of Ts4oddde2 must be present")),
        }
    }
}
impl ToValue for Ts4oddde2 {
    fn to_value(&self) -> Value {
        Value::Seq(vec![
            self.f0.as_ref().map(|x| x.to_value()),
            Some(self.f1.to_value()),
            Some(self.f2.to_value()),
            Some(self.f3.to_value()),
        ])
    }
}
impl FromValue for Ts4oddde3 {
    fn from_value(v: &Value) -> Self {
        let s = match v { Value::Seq(s) => s, other => panic!("Ts4oddde3: expected Seq, got {other:?}") };
        assert_eq!(s.len(), 4, "Ts4oddde3: component count");
        let _ = s;
        Ts4oddde3 {
            f0: s[0].as_ref().map(FromValue::from_value),
            f1: FromValue::from_value(s[1].as_ref().expect("component f1 of Ts4oddde3 must be present")),
            f2: FromValue::from_value(s[2].as_ref().expect("component f2 of Ts4oddde3 must be present")),
            f3: FromValue::from_value(s[3].as_ref().expect("component f3 of Ts4oddde3 must be present")),
        }
    }
}
impl ToValue for Ts4oddde3 {
    fn to_value(&self) -> Value {
        Value::Seq(vec![
            self.f0.as_ref().map(|x| x.to_value()),
            Some(self.f1.to_value()),
            Some(self.f2.to_value()),
            Some(self.f3.to_value()),
        ])
    }
}
impl FromValue for Ts4oddde4 {
    fn from_value(v: &Value) -> Self {
        let s = match v { Value::Seq(s) => s, other => panic!("Ts4oddde4: expected Seq, got {other:?}") };
        assert_eq!(s.len(), 4, "Ts4oddde4: component count");
        let _ = s;
        Ts4oddde4 {
            f0: s[0].as_ref().map(FromValue::from_value),
            f1: FromValue::from_value(s[1].as_ref().expect("component f1 of Ts4oddde4 must be present")),
            f2: FromValue::from_value(s[2].as_ref().expect("component f2 of Ts4oddde4 must be present")),
            f3: FromValue::from_value(s[3].as_ref().expect("component f3 of Ts4oddde4 must be present")),
        }
    }
}
impl ToValue for Ts4oddde4 {
    fn to_value(&self) -> Value {
        Value::Seq(vec![
            self.f0.as_ref().map(|x| x.to_value()),
            Some(self.f1.to_value()),
            Some(self.f2.to_value()),
            Some(self.f3.to_value()),
        ])
    }
}

use asn1rs::prelude::*;

#[asn(sequence, extensible_after(f2))]

#[derive(Default, Debug, Clone, PartialEq, Hash)]
pub struct Ts5dddmde3 {
    #[asn(default(integer(0..7), 5))] pub f0: u8,
    #[asn(default(integer(0..7), 5))] pub f1: u8,
    #[asn(default(integer(0..7), 5))] pub f2: u8,
    #[asn(optional(integer(0..7)))] pub f3: Option<u8>,
    #[asn(default(integer(0..7), 5))] pub f4: u8,
}

impl Ts5dddmde3 {
    pub const fn f0_min() -> u8 {
        0
    }

    pub const fn f0_max() -> u8 {
        7
    }

    pub const fn f1_min() -> u8 {
        0
    }

    pub const fn f1_max() -> u8 {
        7
    }

    pub const fn f2_min() -> u8 {
        0
    }

    pub const fn f2_max() -> u8 {
        7
    }

    pub const fn f3_min() -> u8 {
        0
    }

    pub const fn f3_max() -> u8 {
        7
    }

    pub const fn f4_min() -> u8 {
        0
    }

    pub const fn f4_max() -> u8 {
        7
    }
}

#[asn(sequence, extensible_after(f3))]

#[derive(Default, Debug, Clone, PartialEq, Hash)]
pub struct Ts5dddmde4 {
    #[asn(default(integer(0..7), 5))] pub f0: u8,
    #[asn(default(integer(0..7), 5))] pub f1: u8,
    #[asn(default(integer(0..7), 5))] pub f2: u8,
    #[asn(integer(0..7))] pub f3: u8,
    #[asn(default(integer(0..7), 5))] pub f4: u8,
}

impl Ts5dddmde4 {
    pub const fn f0_min() -> u8 {
        0
    }

    pub const fn f0_max() -> u8 {
        7
    }

    pub const fn f1_min() -> u8 {
        0
    }

    pub const fn f1_max() -> u8 {
        7
    }

    pub const fn f2_min() -> u8 {
        0
    }

    pub const fn f2_max() -> u8 {
        7
    }

    pub const fn f3_min() -> u8 {
        0
    }

    pub const fn f3_max() -> u8 {
        7
    }

    pub const fn f4_min() -> u8 {
        0
    }

    pub const fn f4_max() -> u8 {
        7
    }
}

#[asn(sequence, extensible_after(f4))]

#[derive(Default, Debug, Clone, PartialEq, Hash)]
pub struct Ts5dddmde5 {
    #[asn(default(integer(0..7), 5))] pub f0: u8,
    #[asn(default(integer(0..7), 5))] pub f1: u8,
    #[asn(default(integer(0..7), 5))] pub f2: u8,
    #[asn(integer(0..7))] pub f3: u8,
    #[asn(default(integer(0..7), 5))] pub f4: u8,
}

impl Ts5dddmde5 {
    pub const fn f0_min() -> u8 {
        0
    }

    pub const fn f0_max() -> u8 {
        7
    }

    pub const fn f1_min() -> u8 {
        0
    }

    pub const fn f1_max() -> u8 {
        7
    }

    pub const fn f2_min() -> u8 {
        0
    }

    pub const fn f2_max() -> u8 {
        7
    }

    pub const fn f3_min() -> u8 {
        0
    }

    pub const fn f3_max() -> u8 {
        7
    }

    pub const fn f4_min() -> u8 {
        0
    }

    pub const fn f4_max() -> u8 {
        7
    }
}

#[asn(sequence)]

#[derive(Default, Debug, Clone, PartialEq, Hash)]
pub struct Ts5mmmodn {
    #[asn(integer(0..7))] pub f0: u8,
    #[asn(integer(0..7))] pub f1: u8,
    #[asn(integer(0..7))] pub f2: u8,
    #[asn(optional(integer(0..7)))] pub f3: Option<u8>,
    #[asn(default(integer(0..7), 5))] pub f4: u8,
}

impl Ts5mmmodn {
    pub const fn f0_min() -> u8 {
        0
    }

    pub const fn f0_max() -> u8 {
        7
    }

    pub const fn f1_min() -> u8 {
        0
    }

    pub const fn f1_max() -> u8 {
        7
    }

    pub const fn f2_min() -> u8 {
        0
    }

    pub const fn f2_max() -> u8 {
        7
    }

    pub const fn f3_min() -> u8 {
        0
    }

    pub const fn f3_max() -> u8 {
        7
    }

    pub const fn f4_min() -> u8 {
        0
    }

    pub const fn f4_max() -> u8 {
        7
    }
}

#[asn(sequence, extensible_after(f0))]

#[derive(Default, Debug, Clone, PartialEq, Hash)]
pub struct Ts5mmmode0 {
    #[asn(integer(0..7))] pub f0: u8,
    #[asn(optional(integer(0..7)))] pub f1: Option<u8>,
    #[asn(optional(integer(0..7)))] pub f2: Option<u8>,
    #[asn(optional(integer(0..7)))] pub f3: Option<u8>,
    #[asn(default(integer(0..7), 5))] pub f4: u8,
}

impl Ts5mmmode0 {
    pub const fn f0_min() -> u8 {
        0
    }

    pub const fn f0_max() -> u8 {
        7
    }

    pub const fn f1_min() -> u8 {
        0
    }

    pub const fn f1_max() -> u8 {
        7
    }

    pub const fn f2_min() -> u8 {
        0
    }

    pub const fn f2_max() -> u8 {
        7
    }

    pub const fn f3_min() -> u8 {
        0
    }

    pub const fn f3_max() -> u8 {
        7
    }

    pub const fn f4_min() -> u8 {
        0
    }

    pub const fn f4_max() -> u8 {
        7
    }
}

#[asn(sequence, extensible_after(f0))]

#[derive(Default, Debug, Clone, PartialEq, Hash)]
pub struct Ts5mmmode1 {
    #[asn(integer(0..7))] pub f0: u8,
    #[asn(optional(integer(0..7)))] pub f1: Option<u8>,
    #[asn(optional(integer(0..7)))] pub f2: Option<u8>,
    #[asn(optional(integer(0..7)))] pub f3: Option<u8>,
    #[asn(default(integer(0..7), 5))] pub f4: u8,
}

impl Ts5mmmode1 {
    pub const fn f0_min() -> u8 {
        0
    }

    pub const fn f0_max() -> u8 {
        7
    }

    pub const fn f1_min() -> u8 {
        0
    }

    pub const fn f1_max() -> u8 {
        7
    }

    pub const fn f2_min() -> u8 {
        0
    }

    pub const fn f2_max() -> u8 {
        7
    }

    pub const fn f3_min() -> u8 {
        0
    }

    pub const fn f3_max() -> u8 {
        7
    }

    pub const fn f4_min() -> u8 {
        0
    }

    pub const fn f4_max() -> u8 {
        7
    }
}

#[asn(sequence, extensible_after(f1))]

#[derive(Default, Debug, Clone, PartialEq, Hash)]
pub struct Ts5mmmode2 {
    #[asn(integer(0..7))] pub f0: u8,
    #[asn(integer(0..7))] pub f1: u8,
    #[asn(optional(integer(0..7)))] pub f2: Option<u8>,
    #[asn(optional(integer(0..7)))] pub f3: Option<u8>,
    #[asn(default(integer(0..7), 5))] pub f4: u8,
}

impl Ts5mmmode2 {
    pub const fn f0_min() -> u8 {
        0
    }

    pub const fn f0_max() -> u8 {
        7
    }

    pub const fn f1_min() -> u8 {
        0
    }

    pub const fn f1_max() -> u8 {
        7
    }

    pub const fn f2_min() -> u8 {
        0
    }

    pub const fn f2_max() -> u8 {
        7
    }

    pub const fn f3_min() -> u8 {
        0
    }

    pub const fn f3_max() -> u8 {
        7
    }

    pub const fn f4_min() -> u8 {
        0
    }

    pub const fn f4_max() -> u8 {
        7
    }
}

#[asn(sequence, extensible_after(f2))]

#[derive(Default, Debug, Clone, PartialEq, Hash)]
pub struct Ts5mmmode3 {
    #[asn(integer(0..7))] pub f0: u8,
    #[asn(integer(0..7))] pub f1: u8,
    #[asn(integer(0..7))] pub f2: u8,
    #[asn(optional(integer(0..7)))] pub f3: Option<u8>,
    #[asn(default(integer(0..7), 5))] pub f4: u8,
}

impl Ts5mmmode3 {
    pub const fn f0_min() -> u8 {
        0
    }

    pub const fn f0_max() -> u8 {
        7
    }

    pub const fn f1_min() -> u8 {
        0
    }

    pub const fn f1_max() -> u8 {
        7
    }

    pub const fn f2_min() -> u8 {
        0
    }

    pub const fn f2_max() -> u8 {
        7
    }

    pub const fn f3_min() -> u8 {
        0
    }

    pub const fn f3_max() -> u8 {
        7
    }

    pub const fn f4_min() -> u8 {
        0
    }

    pub const fn f4_max() -> u8 {
        7
    }
}

#[asn(sequence, extensible_after(f3))]

#[derive(Default, Debug, Clone, PartialEq, Hash)]
pub struct Ts5mmmode4 {
    #[asn(integer(0..7))] pub f0: u8,
    #[asn(integer(0..7))] pub f1: u8,
    #[asn(integer(0..7))] pub f2: u8,
    #[asn(optional(integer(0..7)))] pub f3: Option<u8>,
    #[asn(default(integer(0..7), 5))] pub f4: u8,
}

impl Ts5mmmode4 {
    pub const fn f0_min() -> u8 {
        0
    }

    pub const fn f0_max() -> u8 {
        7
    }

    pub const fn f1_min() -> u8 {
        0
    }

    pub const fn f1_max() -> u8 {
        7
    }

    pub const fn f2_min() -> u8 {
        0
    }

    pub const fn f2_max() -> u8 {
        7
    }

    pub const fn f3_min() -> u8 {
        0
    }

    pub const fn f3_max() -> u8 {
        7
    }

    pub const fn f4_min() -> u8 {
        0
    }

    pub const fn f4_max() -> u8 {
        7
    }
}

#[asn(sequence, extensible_after(f4))]

#[derive(Default, Debug, Clone, PartialEq, Hash)]
pub struct Ts5mmmode5 {
    #[asn(integer(0..7))] pub f0: u8,
    #[asn(integer(0..7))] pub f1: u8,
    #[asn(integer(0..7))] pub f2: u8,
    #[asn(optional(integer(0..7)))] pub f3: Option<u8>,
    #[asn(default(integer(0..7), 5))] pub f4: u8,
}

impl Ts5mmmode5 {
    pub const fn f0_min() -> u8 {
        0
    }

    pub const fn f0_max() -> u8 {
        7
    }

    pub const fn f1_min() -> u8 {
        0
    }

    pub const fn f1_max() -> u8 {
        7
    }

    pub const fn f2_min() -> u8 {
        0
    }

    pub const fn f2_max() -> u8 {
        7
    }

    pub const fn f3_min() -> u8 {
        0
    }

    pub const fn f3_max() -> u8 {
        7
    }

    pub const fn f4_min() -> u8 {
        0
    }

    pub const fn f4_max() -> u8 {
        7
    }
}

#[asn(sequence)]

#[derive(Default, Debug, Clone, PartialEq, Hash)]
pub struct Ts5ommodn {
    #[asn(optional(integer(0..7)))] pub f0: Option<u8>,
    #[asn(integer(0..7))] pub f1: u8,
    #[asn(integer(0..7))] pub f2: u8,
    #[asn(optional(integer(0..7)))] pub f3: Option<u8>,
    #[asn(default(integer(0..7), 5))] pub f4: u8,
}

impl Ts5ommodn {
    pub const fn f0_min() -> u8 {
        0
    }

    pub const fn f0_max() -> u8 {
        7
    }

    pub const fn f1_min() -> u8 {
        0
    }

    pub const fn f1_max() -> u8 {
        7
    }

    pub const fn f2_min() -> u8 {
        0
    }

    pub const fn f2_max() -> u8 {
        7
    }

    pub const fn f3_min() -> u8 {
        0
    }

    pub const fn f3_max() -> u8 {
        7
    }

    pub const fn f4_min() -> u8 {
        0
    }

    pub const fn f4_max() -> u8 {
        7
    }
}

#[asn(sequence, extensible_after(f0))]

#[derive(Default, Debug, Clone, PartialEq, Hash)]
pub struct Ts5ommode0 {
    #[asn(optional(integer(0..7)))] pub f0: Option<u8>,
    #[asn(optional(integer(0..7)))] pub f1: Option<u8>,
    #[asn(optional(integer(0..7)))] pub f2: Option<u8>,
    #[asn(optional(integer(0..7)))] pub f3: Option<u8>,
    #[asn(default(integer(0..7), 5))] pub f4: u8,
}

impl Ts5ommode0 {
    pub const fn f0_min() -> u8 {
        0
    }

    pub const fn f0_max() -> u8 {
        7
    }

    pub const fn f1_min() -> u8 {
        0
    }

    pub const fn f1_max() -> u8 {
        7
    }

    pub const fn f2_min() -> u8 {
        0
    }

    pub const fn f2_max() -> u8 {
        7
    }

    pub const fn f3_min() -> u8 {
        0
    }

    pub const fn f3_max() -> u8 {
        7
    }

    pub const fn f4_min() -> u8 {
        0
    }

    pub const fn f4_max() -> u8 {
        7
    }
}

#[asn(sequence, extensible_after(f0))]

#[derive(Default, Debug, Clone, PartialEq, Hash)]
pub struct Ts5ommode1 {
    #[asn(optional(integer(0..7)))] pub f0: Option<u8>,
    #[asn(optional(integer(0..7)))] pub f1: Option<u8>,
    #[asn(optional(integer(0..7)))] pub f2: Option<u8>,
    #[asn(optional(integer(0..7)))] pub f3: Option<u8>,
    #[asn(default(integer(0..7), 5))] pub f4: u8,
}

impl Ts5ommode1 {
    pub const fn f0_min() -> u8 {
        0
    }

    pub const fn f0_max() -> u8 {
        7
    }

    pub const fn f1_min() -> u8 {
        0
    }

    pub const fn f1_max() -> u8 {
        7
    }

    pub const fn f2_min() -> u8 {
        0
    }

    pub const fn f2_max() -> u8 {
        7
    }

    pub const fn f3_min() -> u8 {
        0
    }

    pub const fn f3_max() -> u8 {
        7
    }

    pub const fn f4_min() -> u8 {
        0
    }

    pub const fn f4_max() -> u8 {
        7
    }
}

#[asn(sequence, extensible_after(f1))]

#[derive(Default, Debug, Clone, PartialEq, Hash)]
pub struct Ts5ommode2 {
    #[asn(optional(integer(0..7)))] pub f0: Option<u8>,
    #[asn(integer(0..7))] pub f1: u8,
    #[asn(optional(integer(0..7)))] pub f2: Option<u8>,
    #[asn(optional(integer(0..7)))] pub f3: Option<u8>,
    #[asn(default(integer(0..7), 5))] pub f4: u8,
}

impl Ts5ommode2 {
    pub const fn f0_min() -> u8 {
        0
    }

    pub const fn f0_max() -> u8 {
        7
    }

    pub const fn f1_min() -> u8 {
        0
    }

    pub const fn f1_max() -> u8 {
        7
    }

    pub const fn f2_min() -> u8 {
        0
    }

    pub const fn f2_max() -> u8 {
        7
    }

    pub const fn f3_min() -> u8 {
        0
    }

    pub const fn f3_max() -> u8 {
        7
    }

    pub const fn f4_min() -> u8 {
        0
    }

    pub const fn f4_max() -> u8 {
        7
    }
}

#[asn(sequence, extensible_after(f2))]

#[derive(Default, Debug, Clone, PartialEq, Hash)]
pub struct Ts5ommode3 {
    #[asn(optional(integer(0..7)))] pub f0: Option<u8>,
    #[asn(integer(0..7))] pub f1: u8,
    #[asn(integer(0..7))] pub f2: u8,
    #[asn(optional(integer(0..7)))] pub f3: Option<u8>,
    #[asn(default(integer(0..7), 5))] pub f4: u8,
}

impl Ts5ommode3 {
    pub const fn f0_min() -> u8 {
        0
    }

    pub const fn f0_max() -> u8 {
        7
    }

    pub const fn f1_min() -> u8 {
        0
    }

    pub const fn f1_max() -> u8 {
        7
    }

    pub const fn f2_min() -> u8 {
        0
    }

    pub const fn f2_max() -> u8 {
        7
    }

    pub const fn f3_min() -> u8 {
        0
    }

    pub const fn f3_max() -> u8 {
        7
    }

    pub const fn f4_min() -> u8 {
        0
    }

    pub const fn f4_max() -> u8 {
        7
    }
}

#[asn(sequence, extensible_after(f3))]

#[derive(Default, Debug, Clone, PartialEq, Hash)]
pub struct Ts5ommode4 {
    #[asn(optional(integer(0..7)))] pub f0: Option<u8>,
    #[asn(integer(0..7))] pub f1: u8,
    #[asn(integer(0..7))] pub f2: u8,
    #[asn(optional(integer(0..7)))] pub f3: Option<u8>,
    #[asn(default(integer(0..7), 5))] pub f4: u8,
}

impl Ts5ommode4 {
    pub const fn f0_min() -> u8 {
        0
    }

    pub const fn f0_max() -> u8 {
        7
    }

    pub const fn f1_min() -> u8 {
        0
    }

    pub const fn f1_max() -> u8 {
        7
    }

    pub const fn f2_min() -> u8 {
        0
    }

    pub const fn f2_max() -> u8 {
        7
    }

    pub const fn f3_min() -> u8 {
        0
    }

    pub const fn f3_max() -> u8 {
        7
    }

    pub const fn f4_min() -> u8 {
        0
    }

    pub const fn f4_max() -> u8 {
        7
    }
}

#[asn(sequence, extensible_after(f4))]

#[derive(Default, Debug, Clone, PartialEq, Hash)]
pub struct Ts5ommode5 {
    #[asn(optional(integer(0..7)))] pub f0: Option<u8>,
    #[asn(integer(0..7))] pub f1: u8,
    #[asn(integer(0..7))] pub f2: u8,
    #[asn(optional(integer(0..7)))] pub f3: Option<u8>,
    #[asn(default(integer(0..7), 5))] pub f4: u8,
}

impl Ts5ommode5 {
    pub const fn f0_min() -> u8 {
        0
    }

    pub const fn f0_max() -> u8 {
        7
    }

    pub const fn f1_min() -> u8 {
        0
    }

    pub const fn f1_max() -> u8 {
        7
    }

    pub const fn f2_min() -> u8 {
        0
    }

    pub const fn f2_max() -> u8 {
        7
    }

    pub const fn f3_min() -> u8 {
        0
    }

    pub const fn f3_max() -> u8 {
        7
    }

    pub const fn f4_min() -> u8 {
        0
    }

    pub const fn f4_max() -> u8 {
        7
    }
}

#[asn(sequence)]

#[derive(Default, Debug, Clone, PartialEq, Hash)]
pub struct Ts5dmmodn {
    #[asn(default(integer(0..7), 5))] pub f0: u8,
    #[asn(integer(0..7))] pub f1: u8,
    #[asn(integer(0..7))] pub f2: u8,
    #[asn(optional(integer(0..7)))] pub f3: Option<u8>,
    #[asn(default(integer(0..7), 5))] pub f4: u8,
}

impl Ts5dmmodn {
    pub const fn f0_min() -> u8 {
        0
    }

    pub const fn f0_max() -> u8 {
        7
    }

    pub const fn f1_min() -> u8 {
        0
    }

    pub const fn f1_max() -> u8 {
        7
    }

    pub const fn f2_min() -> u8 {
        0
    }

    pub const fn f2_max() -> u8 {
        7
    }

    pub const fn f3_min() -> u8 {
        0
    }

    pub const fn f3_max() -> u8 {
        7
    }

    pub const fn f4_min() -> u8 {
        0
    }

    pub const fn f4_max() -> u8 {
        7
    }
}

#[asn(sequence, extensible_after(f0))]

#[derive(Default, Debug, Clone, PartialEq, Hash)]
pub struct Ts5dmmode0 {
    #[asn(default(integer(0..7), 5))] pub f0: u8,
    #[asn(optional(integer(0..7)))] pub f1: Option<u8>,
    #[asn(optional(integer(0..7)))] pub f2: Option<u8>,
    #[asn(optional(integer(0..7)))] pub f3: Option<u8>,
    #[asn(default(integer(0..7), 5))] pub f4: u8,
}

impl Ts5dmmode0 {
    pub const fn f0_min() -> u8 {
        0
    }

    pub const fn f0_max() -> u8 {
        7
    }

    pub const fn f1_min() -> u8 {
        0
    }

    pub const fn f1_max() -> u8 {
        7
    }

    pub const fn f2_min() -> u8 {
        0
    }

    pub const fn f2_max() -> u8 {
        7
    }

    pub const fn f3_min() -> u8 {
        0
    }

    pub const fn f3_max() -> u8 {
        7
    }

    pub const fn f4_min() -> u8 {
        0
    }

    pub const fn f4_max() -> u8 {
        7
    }
}

#[asn(sequence, extensible_after(f0))]

#[derive(Default, Debug, Clone, PartialEq, Hash)]
pub struct Ts5dmmode1 {
    #[asn(default(integer(0..7), 5))] pub f0: u8,
    #[asn(optional(integer(0..7)))] pub f1: Option<u8>,
    #[asn(optional(integer(0..7)))] pub f2: Option<u8>,
    #[asn(optional(integer(0..7)))] pub f3: Option<u8>,
    #[asn(default(integer(0..7), 5))] pub f4: u8,
}

impl Ts5dmmode1 {
    pub const fn f0_min() -> u8 {
        0
    }

    pub const fn f0_max() -> u8 {
        7
    }

    pub const fn f1_min() -> u8 {
        0
    }

    pub const fn f1_max() -> u8 {
        7
    }

    pub const fn f2_min() -> u8 {
        0
    }

    pub const fn f2_max() -> u8 {
        7
    }

    pub const fn f3_min() -> u8 {
        0
    }

    pub const fn f3_max() -> u8 {
        7
    }

    pub const fn f4_min() -> u8 {
        0
    }

    pub const fn f4_max() -> u8 {
        7
    }
}

#[asn(sequence, extensible_after(f1))]

#[derive(Default, Debug, Clone, PartialEq, Hash)]
pub struct Ts5dmmode2 {
    #[asn(default(integer(0..7), 5))] pub f0: u8,
    #[asn(integer(0..7))] pub f1: u8,
    #[asn(optional(integer(0..7)))] pub f2: Option<u8>,
    #[asn(optional(integer(0..7)))] pub f3: Option<u8>,
    #[asn(default(integer(0..7), 5))] pub f4: u8,
}

impl Ts5dmmode2 {
    pub const fn f0_min() -> u8 {
        0
    }

    pub const fn f0_max() -> u8 {
        7
    }

    pub const fn f1_min() -> u8 {
        0
    }

    pub const fn f1_max() -> u8 {
        7
    }

    pub const fn f2_min() -> u8 {
        0
    }

    pub const fn f2_max() -> u8 {
        7
    }

    pub const fn f3_min() -> u8 {
        0
    }

    pub const fn f3_max() -> u8 {
        7
    }

    pub const fn f4_min() -> u8 {
        0
    }

    pub const fn f4_max() -> u8 {
        7
    }
}

#[asn(sequence, extensible_after(f2))]

#[derive(Default, Debug, Clone, PartialEq, Hash)]
pub struct Ts5dmmode3 {
    #[asn(default(integer(0..7), 5))] pub f0: u8,
    #[asn(integer(0..7))] pub f1: u8,
    #[asn(integer(0..7))] pub f2: u8,
    #[asn(optional(integer(0..7)))] pub f3: Option<u8>,
    #[asn(default(integer(0..7), 5))] pub f4: u8,
}

impl Ts5dmmode3 {
    pub const fn f0_min() -> u8 {
        0
    }

    pub const fn f0_max() -> u8 {
        7
    }

    pub const fn f1_min() -> u8 {
        0
    }

    pub const fn f1_max() -> u8 {
        7
    }

    pub const fn f2_min() -> u8 {
        0
    }

    pub const fn f2_max() -> u8 {
        7
    }

    pub const fn f3_min() -> u8 {
        0
    }

    pub const fn f3_max() -> u8 {
        7
    }

    pub const fn f4_min() -> u8 {
        0
    }

    pub const fn f4_max() -> u8 {
        7
    }
}

#[asn(sequence, extensible_after(f3))]

#[derive(Default, Debug, Clone, PartialEq, Hash)]
pub struct Ts5dmmode4 {
    #[asn(default(integer(0..7), 5))] pub f0: u8,
    #[asn(integer(0..7))] pub f1: u8,
    #[asn(integer(0..7))] pub f2: u8,
    #[asn(optional(integer(0..7)))] pub f3: Option<u8>,
    #[asn(default(integer(0..7), 5))] pub f4: u8,
}

impl Ts5dmmode4 {
    pub const fn f0_min() -> u8 {
        0
    }

    pub const fn f0_max() -> u8 {
        7
    }

    pub const fn f1_min() -> u8 {
        0
    }

    pub const fn f1_max() -> u8 {
        7
    }

    pub const fn f2_min() -> u8 {
        0
    }

    pub const fn f2_max() -> u8 {
        7
    }

    pub const fn f3_min() -> u8 {
        0
    }

    pub const fn f3_max() -> u8 {
        7
    }

    pub const fn f4_min() -> u8 {
        0
    }

    pub const fn f4_max() -> u8 {
        7
    }
}

#[asn(sequence, extensible_after(f4))]

#[derive(Default, Debug, Clone, PartialEq, Hash)]
pub struct Ts5dmmode5 {
    #[asn(default(integer(0..7), 5))] pub f0: u8,
    #[asn(integer(0..7))] pub f1: u8,
    #[asn(integer(0..7))] pub f2: u8,
    #[asn(optional(integer(0..7)))] pub f3: Option<u8>,
    #[asn(default(integer(0..7), 5))] pub f4: u8,
}

impl Ts5dmmode5 {
    pub const fn f0_min() -> u8 {
        0
    }

    pub const fn f0_max() -> u8 {
        7
    }

    pub const fn f1_min() -> u8 {
        0
    }

    pub const fn f1_max() -> u8 {
        7
    }

    pub const fn f2_min() -> u8 {
        0
    }

    pub const fn f2_max() -> u8 {
        7
    }

    pub const fn f3_min() -> u8 {
        0
    }

    pub const fn f3_max() -> u8 {
        7
    }

    pub const fn f4_min() -> u8 {
        0
    }

    pub const fn f4_max() -> u8 {
        7
    }
}

#[asn(sequence)]

#[derive(Default, Debug, Clone, PartialEq, Hash)]
pub struct Ts5momodn {
    #[asn(integer(0..7))] pub f0: u8,
    #[asn(optional(integer(0..7)))] pub f1: Option<u8>,
    #[asn(integer(0..7))] pub f2: u8,
    #[asn(optional(integer(0..7)))] pub f3: Option<u8>,
    #[asn(default(integer(0..7), 5))] pub f4: u8,
}

impl Ts5momodn {
    pub const fn f0_min() -> u8 {
        0
    }

    pub const fn f0_max() -> u8 {
        7
    }

    pub const fn f1_min() -> u8 {
        0
    }

    pub const fn f1_max() -> u8 {
        7
    }

    pub const fn f2_min() -> u8 {
        0
    }

    pub const fn f2_max() -> u8 {
        7
    }

    pub const fn f3_min() -> u8 {
        0
    }

    pub const fn f3_max() -> u8 {
        7
    }

    pub const fn f4_min() -> u8 {
        0
    }

    pub const fn f4_max() -> u8 {
        7
    }
}

#[asn(sequence, extensible_after(f0))]

#[derive(Default, Debug, Clone, PartialEq, Hash)]
pub struct Ts5momode0 {
    #[asn(integer(0..7))] pub f0: u8,
    #[asn(optional(integer(0..7)))] pub f1: Option<u8>,
    #[asn(optional(integer(0..7)))] pub f2: Option<u8>,
    #[asn(optional(integer(0..7)))] pub f3: Option<u8>,
    #[asn(default(integer(0..7), 5))] pub f4: u8,
}

impl Ts5momode0 {
    pub const fn f0_min() -> u8 {
        0
    }

    pub const fn f0_max() -> u8 {
        7
    }

    pub const fn f1_min() -> u8 {
        0
    }

    pub const fn f1_max() -> u8 {
        7
    }

    pub const fn f2_min() -> u8 {
        0
    }

    pub const fn f2_max() -> u8 {
        7
    }

    pub const fn f3_min() -> u8 {
        0
    }

    pub const fn f3_max() -> u8 {
        7
    }

    pub const fn f4_min() -> u8 {
        0
    }

    pub const fn f4_max() -> u8 {
        7
    }
}

#[asn(sequence, extensible_after(f0))]

#[derive(Default, Debug, Clone, PartialEq, Hash)]
pub struct Ts5momode1 {
    #[asn(integer(0..7))] pub f0: u8,
    #[asn(optional(integer(0..7)))] pub f1: Option<u8>,
    #[asn(optional(integer(0..7)))] pub f2: Option<u8>,
    #[asn(optional(integer(0..7)))] pub f3: Option<u8>,
    #[asn(default(integer(0..7), 5))] pub f4: u8,
}

impl Ts5momode1 {
    pub const fn f0_min() -> u8 {
        0
    }

    pub const fn f0_max() -> u8 {
        7
    }

    pub const fn f1_min() -> u8 {
        0
    }

    pub const fn f1_max() -> u8 {
        7
    }

    pub const fn f2_min() -> u8 {
        0
    }

    pub const fn f2_max() -> u8 {
        7
    }

    pub const fn f3_min() -> u8 {
        0
    }

    pub const fn f3_max() -> u8 {
        7
    }

    pub const fn f4_min() -> u8 {
        0
    }

    pub const fn f4_max() -> u8 {
        7
    }
}

#[asn(sequence, extensible_after(f1))]

#[derive(Default, Debug, Clone, PartialEq, Hash)]
pub struct Ts5momode2 {
    #[asn(integer(0..7))] pub f0: u8,
    #[asn(optional(integer(0..7)))] pub f1: Option<u8>,
    #[asn(optional(integer(0..7)))] pub f2: Option<u8>,
    #[asn(optional(integer(0..7)))] pub f3: Option<u8>,
    #[asn(default(integer(0..7), 5))] pub f4: u8,
}

impl Ts5momode2 {
    pub const fn f0_min() -> u8 {
        0
    }

    pub const fn f0_max() -> u8 {
        7
    }

    pub const fn f1_min() -> u8 {
        0
    }

    pub const fn f1_max() -> u8 {
        7
    }

    pub const fn f2_min() -> u8 {
        0
    }

    pub const fn f2_max() -> u8 {
        7
    }

    pub const fn f3_min() -> u8 {
        0
    }

    pub const fn f3_max() -> u8 {
        7
    }

    pub const fn f4_min() -> u8 {
        0
    }

    pub const fn f4_max() -> u8 {
        7
    }
}

#[asn(sequence, extensible_after(f2))]

#[derive(Default, Debug, Clone, PartialEq, Hash)]
pub struct Ts5momode3 {
    #[asn(integer(0..7))] pub f0: u8,
    #[asn(optional(integer(0..7)))] pub f1: Option<u8>,
    #[asn(integer(0..7))] pub f2: u8,
    #[asn(optional(integer(0..7)))] pub f3: Option<u8>,
    #[asn(default(integer(0..7), 5))] pub f4: u8,
}

impl Ts5momode3 {
    pub const fn f0_min() -> u8 {
        0
    }

    pub const fn f0_max() -> u8 {
        7
    }

    pub const fn f1_min() -> u8 {
        0
    }

    pub const fn f1_max() -> u8 {
        7
    }

    pub const fn f2_min() -> u8 {
        0
    }

    pub const fn f2_max() -> u8 {
        7
    }

    pub const fn f3_min() -> u8 {
        0
    }

    pub const fn f3_max() -> u8 {
        7
    }

    pub const fn f4_min() -> u8 {
        0
    }

    pub const fn f4_max() -> u8 {
        7
    }
}

#[asn(sequence, extensible_after(f3))]

#[derive(Default, Debug, Clone, PartialEq, Hash)]
pub struct Ts5momode4 {
    #[asn(integer(0..7))] pub f0: u8,
    #[asn(optional(integer(0..7)))] pub f1: Option<u8>,
    #[asn(integer(0..7))] pub f2: u8,
    #[asn(optional(integer(0..7)))] pub f3: Option<u8>,
    #[asn(default(integer(0..7), 5))] pub f4: u8,
}

impl Ts5momode4 {
    pub const fn f0_min() -> u8 {
        0
    }

    pub const fn f0_max() -> u8 {
        7
    }

    pub const fn f1_min() -> u8 {
        0
    }

    pub const fn f1_max() -> u8 {
        7
    }

    pub const fn f2_min() -> u8 {
        0
    }

    pub const fn f2_max() -> u8 {
        7
    }

    pub const fn f3_min() -> u8 {
        0
    }

    pub const fn f3_max() -> u8 {
        7
    }

    pub const fn f4_min() -> u8 {
        0
    }

    pub const fn f4_max() -> u8 {
        7
    }
}

#[asn(sequence, extensible_after(f4))]

#[derive(Default, Debug, Clone, PartialEq, Hash)]
pub struct Ts5momode5 {
    #[asn(integer(0..7))] pub f0: u8,
    #[asn(optional(integer(0..7)))] pub f1: Option<u8>,
    #[asn(integer(0..7))] pub f2: u8,
    #[asn(optional(integer(0..7)))] pub f3: Option<u8>,
    #[asn(default(integer(0..7), 5))] pub f4: u8,
}

impl Ts5momode5 {
    pub const fn f0_min() -> u8 {
        0
    }

    pub const fn f0_max() -> u8 {
        7
    }

    pub const fn f1_min() -> u8 {
        0
    }

    pub const fn f1_max() -> u8 {
        7
    }

    pub const fn f2_min() -> u8 {
        0
    }

    pub const fn f2_max() -> u8 {
        7
    }

    pub const fn f3_min() -> u8 {
        0
    }

    pub const fn f3_max() -> u8 {
        7
    }

    pub const fn f4_min() -> u8 {
        0
    }

    pub const fn f4_max() -> u8 {
        7
    }
}

#[asn(sequence)]

#[derive(Default, Debug, Clone, PartialEq, Hash)]
pub struct Ts5oomodn {
    #[asn(optional(integer(0..7)))] pub f0: Option<u8>,
    #[asn(optional(integer(0..7)))] pub f1: Option<u8>,
    #[asn(integer(0..7))] pub f2: u8,
    #[asn(optional(integer(0..7)))] pub f3: Option<u8>,
    #[asn(default(integer(0..7), 5))] pub f4: u8,
}

impl Ts5oomodn {
    pub const fn f0_min() -> u8 {
        0
    }

    pub const fn f0_max() -> u8 {
        7
    }

    pub const fn f1_min() -> u8 {
        0
    }

    pub const fn f1_max() -> u8 {
        7
    }

    pub const fn f2_min() -> u8 {
        0
    }

    pub const fn f2_max() -> u8 {
        7
    }

    pub const fn f3_min() -> u8 {
        0
    }

    pub const fn f3_max() -> u8 {
        7
    }

    pub const fn f4_min() -> u8 {
        0
    }

    pub const fn f4_max() -> u8 {
        7
    }
}

#[asn(sequence, extensible_after(f0))]

#[derive(Default, Debug, Clone, PartialEq, Hash)]
pub struct Ts5oomode0 {
    #[asn(optional(integer(0..7)))] pub f0: Option<u8>,
    #[asn(optional(integer(0..7)))] pub f1: Option<u8>,
    #[asn(optional(integer(0..7)))] pub f2: Option<u8>,
    #[asn(optional(integer(0..7)))] pub f3: Option<u8>,
    #[asn(default(integer(0..7), 5))] pub f4: u8,
}

impl Ts5oomode0 {
    pub const fn f0_min() -> u8 {
        0
    }

    pub const fn f0_max() -> u8 {
        7
    }

    pub const fn f1_min() -> u8 {
        0
    }

    pub const fn f1_max() -> u8 {
        7
    }

    pub const fn f2_min() -> u8 {
        0
    }

    pub const fn f2_max() -> u8 {
        7
    }

    pub const fn f3_min() -> u8 {
        0
    }

    pub const fn f3_max() -> u8 {
        7
    }

    pub const fn f4_min() -> u8 {
        0
    }

    pub const fn f4_max() -> u8 {
        7
    }
}

#[asn(sequence, extensible_after(f0))]

#[derive(Default, Debug, Clone, PartialEq, Hash)]
pub struct Ts5oomode1 {
    #[asn(optional(integer(0..7)))] pub f0: Option<u8>,
    #[asn(optional(integer(0..7)))] pub f1: Option<u8>,
    #[asn(optional(integer(0..7)))] pub f2: Option<u8>,
    #[asn(optional(integer(0..7)))] pub f3: Option<u8>,
    #[asn(default(integer(0..7), 5))] pub f4: u8,
}

impl Ts5oomode1 {
    pub const fn f0_min() -> u8 {
        0
    }

    pub const fn f0_max() -> u8 {
        7
    }

    pub const fn f1_min() -> u8 {
        0
    }

    pub const fn f1_max() -> u8 {
        7
    }

    pub const fn f2_min() -> u8 {
        0
    }

    pub const fn f2_max() -> u8 {
        7
    }

    pub const fn f3_min() -> u8 {
        0
    }

    pub const fn f3_max() -> u8 {
        7
    }

    pub const fn f4_min() -> u8 {
        0
    }

    pub const fn f4_max() -> u8 {
        7
    }
}

#[asn(sequence, extensible_after(f1))]

#[derive(Default, Debug, Clone, PartialEq, Hash)]
pub struct Ts5oomode2 {
    #[asn(optional(integer(0..7)))] pub f0: Option<u8>,
    #[asn(optional(integer(0..7)))] pub f1: Option<u8>,
    #[asn(optional(integer(0..7)))] pub f2: Option<u8>,
    #[asn(optional(integer(0..7)))] pub f3: Option<u8>,
    #[asn(default(integer(0..7), 5))] pub f4: u8,
}

impl Ts5oomode2 {
    pub const fn f0_min() -> u8 {
        0
    }

    pub const fn f0_max() -> u8 {
        7
    }

    pub const fn f1_min() -> u8 {
        0
    }

    pub const fn f1_max() -> u8 {
        7
    }

    pub const fn f2_min() -> u8 {
        0
    }

    pub const fn f2_max() -> u8 {
        7
    }

    pub const fn f3_min() -> u8 {
        0
    }

    pub const fn f3_max() -> u8 {
        7
    }

    pub const fn f4_min() -> u8 {
        0
    }

    pub const fn f4_max() -> u8 {
        7
    }
}

#[asn(sequence, extensible_after(f2))]

#[derive(Default, Debug, Clone, PartialEq, Hash)]
pub struct Ts5oomode3 {
    #[asn(optional(integer(0..7)))] pub f0: Option<u8>,
    #[asn(optional(integer(0..7)))] pub f1: Option<u8>,
    #[asn(integer(0..7))] pub f2: u8,
    #[asn(optional(integer(0..7)))] pub f3: Option<u8>,
    #[asn(default(integer(0..7), 5))] pub f4: u8,
}

impl Ts5oomode3 {
    pub const fn f0_min() -> u8 {
        0
    }

    pub const fn f0_max() -> u8 {
        7
    }

    pub const fn f1_min() -> u8 {
        0
    }

    pub const fn f1_max() -> u8 {
        7
    }

    pub const fn f2_min() -> u8 {
        0
    }

    pub const fn f2_max() -> u8 {
        7
    }

    pub const fn f3_min() -> u8 {
        0
    }

    pub const fn f3_max() -> u8 {
        7
    }

    pub const fn f4_min() -> u8 {
        0
    }

    pub const fn f4_max() -> u8 {
        7
    }
}

#[asn(sequence, extensible_after(f3))]

#[derive(Default, Debug, Clone, PartialEq, Hash)]
pub struct Ts5oomode4 {
    #[asn(optional(integer(0..7)))] pub f0: Option<u8>,
    #[asn(optional(integer(0..7)))] pub f1: Option<u8>,
    #[asn(integer(0..7))] pub f2: u8,
    #[asn(optional(integer(0..7)))] pub f3: Option<u8>,
    #[asn(default(integer(0..7), 5))] pub f4: u8,
}

impl Ts5oomode4 {
    pub const fn f0_min() -> u8 {
        0
    }

    pub const fn f0_max() -> u8 {
        7
    }

    pub const fn f1_min() -> u8 {
        0
    }

    pub const fn f1_max() -> u8 {
        7
    }

    pub const fn f2_min() -> u8 {
        0
    }

    pub const fn f2_max() -> u8 {
        7
    }

    pub const fn f3_min() -> u8 {
        0
    }

    pub const fn f3_max() -> u8 {
        7
    }

    pub const fn f4_min() -> u8 {
        0
    }

    pub const fn f4_max() -> u8 {
        7
    }
}

#[asn(sequence, extensible_after(f4))]

#[derive(Default, Debug, Clone, PartialEq, Hash)]
pub struct Ts5oomode5 {
    #[asn(optional(integer(0..7)))] pub f0: Option<u8>,
    #[asn(optional(integer(0..7)))] pub f1: Option<u8>,
    #[asn(integer(0..7))] pub f2: u8,
    #[asn(optional(integer(0..7)))] pub f3: Option<u8>,
    #[asn(default(integer(0..7), 5))] pub f4: u8,
}

impl Ts5oomode5 {
    pub const fn f0_min() -> u8 {
        0
    }

    pub const fn f0_max() -> u8 {
        7
    }

    pub const fn f1_min() -> u8 {
        0
    }

    pub const fn f1_max() -> u8 {
        7
    }

    pub const fn f2_min() -> u8 {
        0
    }

    pub const fn f2_max() -> u8 {
        7
    }

    pub const fn f3_min() -> u8 {
        0
    }

    pub const fn f3_max() -> u8 {
        7
    }

    pub const fn f4_min() -> u8 {
        0
    }

    pub const fn f4_max() -> u8 {
        7
    }
}

#[asn(sequence)]

#[derive(Default, Debug, Clone, PartialEq, Hash)]
pub struct Ts5domodn {
    #[asn(default(integer(0..7), 5))] pub f0: u8,
    #[asn(optional(integer(0..7)))] pub f1: Option<u8>,
    #[asn(integer(0..7))] pub f2: u8,
    #[asn(optional(integer(0..7)))] pub f3: Option<u8>,
    #[asn(default(integer(0..7), 5))] pub f4: u8,
}

impl Ts5domodn {
    pub const fn f0_min() -> u8 {
        0
    }

    pub const fn f0_max() -> u8 {
        7
    }

    pub const fn f1_min() -> u8 {
        0
    }

    pub const fn f1_max() -> u8 {
        7
    }

    pub const fn f2_min() -> u8 {
        0
    }

    pub const fn f2_max() -> u8 {
        7
    }

    pub const fn f3_min() -> u8 {
        0
    }

    pub const fn f3_max() -> u8 {
        7
    }

    pub const fn f4_min() -> u8 {
        0
    }

    pub const fn f4_max() -> u8 {
        7
    }
}

#[asn(sequence, extensible_after(f0))]

#[derive(Default, Debug, Clone, PartialEq, Hash)]
pub struct Ts5domode0 {
    #[asn(default(integer(0..7), 5))] pub f0: u8,
    #[asn(optional(integer(0..7)))] pub f1: Option<u8>,
    #[asn(optional(integer(0..7)))] pub f2: Option<u8>,
    #[asn(optional(integer(0..7)))] pub f3: Option<u8>,
    #[asn(default(integer(0..7), 5))] pub f4: u8,
}

impl Ts5domode0 {
    pub const fn f0_min() -> u8 {
        0
    }

    pub const fn f0_max() -> u8 {
        7
    }

    pub const fn f1_min() -> u8 {
        0
    }

    pub const fn f1_max() -> u8 {
        7
    }

    pub const fn f2_min() -> u8 {
        0
    }

    pub const fn f2_max() -> u8 {
        7
    }

    pub const fn f3_min() -> u8 {
        0
    }

    pub const fn f3_max() -> u8 {
        7
    }

    pub const fn f4_min() -> u8 {
        0
    }

    pub const fn f4_max() -> u8 {
        7
    }
}

#[asn(sequence, extensible_after(f0))]

#[derive(Default, Debug, Clone, PartialEq, Hash)]
pub struct Ts5domode1 {
    #[asn(default(integer(0..7), 5))] pub f0: u8,
    #[asn(optional(integer(0..7)))] pub f1: Option<u8>,
    #[asn(optional(integer(0..7)))] pub f2: Option<u8>,
    #[asn(optional(integer(0..7)))] pub f3: Option<u8>,
    #[asn(default(integer(0..7), 5))] pub f4: u8,
}

impl Ts5domode1 {
    pub const fn f0_min() -> u8 {
        0
    }

    pub const fn f0_max() -> u8 {
        7
    }

    pub const fn f1_min() -> u8 {
        0
    }

    pub const fn f1_max() -> u8 {
        7
    }

    pub const fn f2_min() -> u8 {
        0
    }

    pub const fn f2_max() -> u8 {
        7
    }

    pub const fn f3_min() -> u8 {
        0
    }

    pub const fn f3_max() -> u8 {
        7
    }

    pub const fn f4_min() -> u8 {
        0
    }

    pub const fn f4_max() -> u8 {
        7
    }
}

#[asn(sequence, extensible_after(f1))]

#[derive(Default, Debug, Clone, PartialEq, Hash)]
pub struct Ts5domode2 {
    #[asn(default(integer(0..7), 5))] pub f0: u8,
    #[asn(optional(integer(0..7)))] pub f1: Option<u8>,
    #[asn(optional(integer(0..7)))] pub f2: Option<u8>,
    #[asn(optional(integer(0..7)))] pub f3: Option<u8>,
    #[asn(default(integer(0..7), 5))] pub f4: u8,
}

impl Ts5domode2 {
    pub const fn f0_min() -> u8 {
        0
    }

    pub const fn f0_max() -> u8 {
        7
    }

    pub const fn f1_min() -> u8 {
        0
    }

    pub const fn f1_max() -> u8 {
        7
    }

    pub const fn f2_min() -> u8 {
        0
    }

    pub const fn f2_max() -> u8 {
        7
    }

    pub const fn f3_min() -> u8 {
        0
    }

    pub const fn f3_max() -> u8 {
        7
    }

    pub const fn f4_min() -> u8 {
        0
    }

    pub const fn f4_max() -> u8 {
        7
    }
}

#[asn(sequence, extensible_after(f2))]

#[derive(Default, Debug, Clone, PartialEq, Hash)]
pub struct Ts5domode3 {
    #[asn(default(integer(0..7), 5))] pub f0: u8,
    #[asn(optional(integer(0..7)))] pub f1: Option<u8>,
    #[asn(integer(0..7))] pub f2: u8,
    #[asn(optional(integer(0..7)))] pub f3: Option<u8>,
    #[asn(default(integer(0..7), 5))] pub f4: u8,
}

impl Ts5domode3 {
    pub const fn f0_min() -> u8 {
        0
    }

    pub const fn f0_max() -> u8 {
        7
    }

    pub const fn f1_min() -> u8 {
        0
    }

    pub const fn f1_max() -> u8 {
        7
    }

    pub const fn f2_min() -> u8 {
        0
    }

    pub const fn f2_max() -> u8 {
        7
    }

    pub const fn f3_min() -> u8 {
        0
    }

    pub const fn f3_max() -> u8 {
        7
    }

    pub const fn f4_min() -> u8 {
        0
    }

    pub const fn f4_max() -> u8 {
        7
    }
}

#[asn(sequence, extensible_after(f3))]

#[derive(Default, Debug, Clone, PartialEq, Hash)]
pub struct Ts5domode4 {
    #[asn(default(integer(0..7), 5))] pub f0: u8,
    #[asn(optional(integer(0..7)))] pub f1: Option<u8>,
    #[asn(integer(0..7))] pub f2: u8,
    #[asn(optional(integer(0..7)))] pub f3: Option<u8>,
    #[asn(default(integer(0..7), 5))] pub f4: u8,
}

impl Ts5domode4 {
    pub const fn f0_min() -> u8 {
        0
    }

    pub const fn f0_max() -> u8 {
        7
    }

    pub const fn f1_min() -> u8 {
        0
    }

    pub const fn f1_max() -> u8 {
        7
    }

    pub const fn f2_min() -> u8 {
        0
    }

    pub const fn f2_max() -> u8 {
        7
    }

    pub const fn f3_min() -> u8 {
        0
    }

    pub const fn f3_max() -> u8 {
        7
    }

    pub const fn f4_min() -> u8 {
        0
    }

    pub const fn f4_max() -> u8 {
        7
    }
}

#[asn(sequence, extensible_after(f4))]

#[derive(Default, Debug, Clone, PartialEq, Hash)]
pub struct Ts5domode5 {
    #[asn(default(integer(0..7), 5))] pub f0: u8,
    #[asn(optional(integer(0..7)))] pub f1: Option<u8>,
    #[asn(integer(0..7))] pub f2: u8,
    #[asn(optional(integer(0..7)))] pub f3: Option<u8>,
    #[asn(default(integer(0..7), 5))] pub f4: u8,
}

impl Ts5domode5 {
    pub const fn f0_min() -> u8 {
        0
    }

    pub const fn f0_max() -> u8 {
        7
    }

    pub const fn f1_min() -> u8 {
        0
    }

    pub const fn f1_max() -> u8 {
        7
    }

    pub const fn f2_min() -> u8 {
        0
    }

    pub const fn f2_max() -> u8 {
        7
    }

    pub const fn f3_min() -> u8 {
        0
    }

    pub const fn f3_max() -> u8 {
        7
    }

    pub const fn f4_min() -> u8 {
        0
    }

    pub const fn f4_max() -> u8 {
        7
    }
}

#[asn(sequence)]

#[derive(Default, Debug, Clone, PartialEq, Hash)]
pub struct Ts5mdmodn {
    #[asn(integer(0..7))] pub f0: u8,
    #[asn(default(integer(0..7), 5))] pub f1: u8,
    #[asn(integer(0..7))] pub f2: u8,
    #[asn(optional(integer(0..7)))] pub f3: Option<u8>,
    #[asn(default(integer(0..7), 5))] pub f4: u8,
}

impl Ts5mdmodn {
    pub const fn f0_min() -> u8 {
        0
    }

    pub const fn f0_max() -> u8 {
        7
    }

    pub const fn f1_min() -> u8 {
        0
    }

    pub const fn f1_max() -> u8 {
        7
    }

    pub const fn f2_min() -> u8 {
        0
    }

    pub const fn f2_max() -> u8 {
        7
    }

    pub const fn f3_min() -> u8 {
        0
    }

    pub const fn f3_max() -> u8 {
        7
    }

    pub const fn f4_min() -> u8 {
        0
    }

    pub const fn f4_max() -> u8 {
        7
    }
}

#[asn(sequence, extensible_after(f0))]

#[derive(Default, Debug, Clone, PartialEq, Hash)]
pub struct Ts5mdmode0 {
    #[asn(integer(0..7))] pub f0: u8,
    #[asn(default(integer(0..7), 5))] pub f1: u8,
    #[asn(optional(integer(0..7)))] pub f2: Option<u8>,
    #[asn(optional(integer(0..7)))] pub f3: Option<u8>,
    #[asn(default(integer(0..7), 5))] pub f4: u8,
}

impl Ts5mdmode0 {
    pub const fn f0_min() -> u8 {
        0
    }

    pub const fn f0_max() -> u8 {
        7
    }

    pub const fn f1_min() -> u8 {
        0
    }

    pub const fn f1_max() -> u8 {
        7
    }

    pub const fn f2_min() -> u8 {
        0
    }

    pub const fn f2_max() -> u8 {
        7
    }

    pub const fn f3_min() -> u8 {
        0
    }

    pub const fn f3_max() -> u8 {
        7
    }

    pub const fn f4_min() -> u8 {
        0
    }

    pub const fn f4_max() -> u8 {
        7
    }
}

#[asn(sequence, extensible_after(f0))]

#[derive(Default, Debug, Clone, PartialEq, Hash)]
pub struct Ts5mdmode1 {
    #[asn(integer(0..7))] pub f0: u8,
    #[asn(default(integer(0..7), 5))] pub f1: u8,
    #[asn(optional(integer(0..7)))] pub f2: Option<u8>,
    #[asn(optional(integer(0..7)))] pub f3: Option<u8>,
    #[asn(default(integer(0..7), 5))] pub f4: u8,
}

impl Ts5mdmode1 {
    pub const fn f0_min() -> u8 {
        0
    }

    pub const fn f0_max() -> u8 {
        7
    }

    pub const fn f1_min() -> u8 {
        0
    }

    pub const fn f1_max() -> u8 {
        7
    }

    pub const fn f2_min() -> u8 {
        0
    }

    pub const fn f2_max() -> u8 {
        7
    }

    pub const fn f3_min() -> u8 {
        0
    }

    pub const fn f3_max() -> u8 {
        7
    }

    pub const fn f4_min() -> u8 {
        0
    }

    pub const fn f4_max() -> u8 {
        7
    }
}

#[asn(sequence, extensible_after(f1))]

#[derive(Default, Debug, Clone, PartialEq, Hash)]
pub struct Ts5mdmode2 {
    #[asn(integer(0..7))] pub f0: u8,
    #[asn(default(integer(0..7), 5))] pub f1: u8,
    #[asn(optional(integer(0..7)))] pub f2: Option<u8>,
    #[asn(optional(integer(0..7)))] pub f3: Option<u8>,
    #[asn(default(integer(0..7), 5))] pub f4: u8,
}

impl Ts5mdmode2 {
    pub const fn f0_min() -> u8 {
        0
    }

    pub const fn f0_max() -> u8 {
        7
    }

    pub const fn f1_min() -> u8 {
        0
    }

    pub const fn f1_max() -> u8 {
        7
    }

    pub const fn f2_min() -> u8 {
        0
    }

    pub const fn f2_max() -> u8 {
        7
    }

    pub const fn f3_min() -> u8 {
        0
    }

    pub const fn f3_max() -> u8 {
        7
    }

    pub const fn f4_min() -> u8 {
        0
    }

    pub const fn f4_max() -> u8 {
        7
    }
}

#[asn(sequence, extensible_after(f2))]

#[derive(Default, Debug, Clone, PartialEq, Hash)]
pub struct Ts5mdmode3 {
    #[asn(integer(0..7))] pub f0: u8,
    #[asn(default(integer(0..7), 5))] pub f1: u8,
    #[asn(integer(0..7))] pub f2: u8,
    #[asn(optional(integer(0..7)))] pub f3: Option<u8>,
    #[asn(default(integer(0..7), 5))] pub f4: u8,
}

impl Ts5mdmode3 {
    pub const fn f0_min() -> u8 {
        0
    }

    pub const fn f0_max() -> u8 {
        7
    }

    pub const fn f1_min() -> u8 {
        0
    }

    pub const fn f1_max() -> u8 {
        7
    }

    pub const fn f2_min() -> u8 {
        0
    }

    pub const fn f2_max() -> u8 {
        7
    }

    pub const fn f3_min() -> u8 {
        0
    }

    pub const fn f3_max() -> u8 {
        7
    }

    pub const fn f4_min() -> u8 {
        0
    }

    pub const fn f4_max() -> u8 {
        7
    }
}

#[asn(sequence, extensible_after(f3))]

#[derive(Default, Debug, Clone, PartialEq, Hash)]
pub struct Ts5mdmode4 {
    #[asn(integer(0..7))] pub f0: u8,
    #[asn(default(integer(0..7), 5))] pub f1: u8,
    #[asn(integer(0..7))] pub f2: u8,
    #[asn(optional(integer(0..7)))] pub f3: Option<u8>,
    #[asn(default(integer(0..7), 5))] pub f4: u8,
}

impl Ts5mdmode4 {
    pub const fn f0_min() -> u8 {
        0
    }

    pub const fn f0_max() -> u8 {
        7
    }

    pub const fn f1_min() -> u8 {
        0
    }

    pub const fn f1_max() -> u8 {
        7
    }

    pub const fn f2_min() -> u8 {
        0
    }

    pub const fn f2_max() -> u8 {
        7
    }

    pub const fn f3_min() -> u8 {
        0
    }

    pub const fn f3_max() -> u8 {
        7
    }

    pub const fn f4_min() -> u8 {
        0
    }

    pub const fn f4_max() -> u8 {
        7
    }
}

#[asn(sequence, extensible_after(f4))]

#[derive(Default, Debug, Clone, PartialEq, Hash)]
pub struct Ts5mdmode5 {
    #[asn(integer(0..7))] pub f0: u8,
    #[asn(default(integer(0..7), 5))] pub f1: u8,
    #[asn(integer(0..7))] pub f2: u8,
    #[asn(optional(integer(0..7)))] pub f3: Option<u8>,
    #[asn(default(integer(0..7), 5))] pub f4: u8,
}

impl Ts5mdmode5 {
    pub const fn f0_min() -> u8 {
        0
    }

    pub const fn f0_max() -> u8 {
        7
    }

    pub const fn f1_min() -> u8 {
        0
    }

    pub const fn f1_max() -> u8 {
        7
    }

    pub const fn f2_min() -> u8 {
        0
    }

    pub const fn f2_max() -> u8 {
        7
    }

    pub const fn f3_min() -> u8 {
        0
    }

    pub const fn f3_max() -> u8 {
        7
    }

    pub const fn f4_min() -> u8 {
        0
    }

    pub const fn f4_max() -> u8 {
        7
    }
}

#[asn(sequence)]

#[derive(Default, Debug, Clone, PartialEq, Hash)]
pub struct Ts5odmodn {
    #[asn(optional(integer(0..7)))] pub f0: Option<u8>,
    #[asn(default(integer(0..7), 5))] pub f1: u8,
    #[asn(integer(0..7))] pub f2: u8,
    #[asn(optional(integer(0..7)))] pub f3: Option<u8>,
    #[asn(default(integer(0..7), 5))] pub f4: u8,
}

impl Ts5odmodn {
    pub const fn f0_min() -> u8 {
        0
    }

    pub const fn f0_max() -> u8 {
        7
    }

    pub const fn f1_min() -> u8 {
        0
    }

    pub const fn f1_max() -> u8 {
        7
    }

    pub const fn f2_min() -> u8 {
        0
    }

    pub const fn f2_max() -> u8 {
        7
    }

    pub const fn f3_min() -> u8 {
        0
    }

    pub const fn f3_max() -> u8 {
        7
    }

    pub const fn f4_min() -> u8 {
        0
    }

    pub const fn f4_max() -> u8 {
        7
    }
}

#[asn(sequence, extensible_after(f0))]

#[derive(Default, Debug, Clone, PartialEq, Hash)]
pub struct Ts5odmode0 {
    #[asn(optional(integer(0..7)))] pub f0: Option<u8>,
    #[asn(default(integer(0..7), 5))] pub f1: u8,
    #[asn(optional(integer(0..7)))] pub f2: Option<u8>,
    #[asn(optional(integer(0..7)))] pub f3: Option<u8>,
    #[asn(default(integer(0..7), 5))] pub f4: u8,
}

impl Ts5odmode0 {
    pub const fn f0_min() -> u8 {
        0
    }

    pub const fn f0_max() -> u8 {
        7
    }

    pub const fn f1_min() -> u8 {
        0
    }

    pub const fn f1_max() -> u8 {
        7
    }

    pub const fn f2_min() -> u8 {
        0
    }

    pub const fn f2_max() -> u8 {
        7
    }

    pub const fn f3_min() -> u8 {
        0
    }

    pub const fn f3_max() -> u8 {
        7
    }

    pub const fn f4_min() -> u8 {
        0
    }

    pub const fn f4_max() -> u8 {
        7
    }
}

#[asn(sequence, extensible_after(f0))]

#[derive(Default, Debug, Clone, PartialEq, Hash)]
pub struct Ts5odmode1 {
    #[asn(optional(integer(0..7)))] pub f0: Option<u8>,
    #[asn(default(integer(0..7), 5))] pub f1: u8,
    #[asn(optional(integer(0..7)))] pub f2: Option<u8>,
    #[asn(optional(integer(0..7)))] pub f3: Option<u8>,
    #[asn(default(integer(0..7), 5))] pub f4: u8,
}

impl Ts5odmode1 {
    pub const fn f0_min() -> u8 {
        0
    }

    pub const fn f0_max() -> u8 {
        7
    }

    pub const fn f1_min() -> u8 {
        0
    }

    pub const fn f1_max() -> u8 {
        7
    }

    pub const fn f2_min() -> u8 {
        0
    }

    pub const fn f2_max() -> u8 {
        7
    }

    pub const fn f3_min() -> u8 {
        0
    }

    pub const fn f3_max() -> u8 {
        7
    }

    pub const fn f4_min() -> u8 {
        0
    }

    pub const fn f4_max() -> u8 {
        7
    }
}

#[asn(sequence, extensible_after(f1))]

#[derive(Default, Debug, Clone, PartialEq, Hash)]
pub struct Ts5odmode2 {
    #[asn(optional(integer(0..7)))] pub f0: Option<u8>,
    #[asn(default(integer(0..7), 5))] pub f1: u8,
    #[asn(optional(integer(0..7)))] pub f2: Option<u8>,
    #[asn(optional(integer(0..7)))] pub f3: Option<u8>,
    #[asn(default(integer(0..7), 5))] pub f4: u8,
}

impl Ts5odmode2 {
    pub const fn f0_min() -> u8 {
        0
    }

    pub const fn f0_max() -> u8 {
        7
    }

    pub const fn f1_min() -> u8 {
        0
    }

    pub const fn f1_max() -> u8 {
        7
    }

    pub const fn f2_min() -> u8 {
        0
    }

    pub const fn f2_max() -> u8 {
        7
    }

    pub const fn f3_min() -> u8 {
        0
    }

    pub const fn f3_max() -> u8 {
        7
    }

    pub const fn f4_min() -> u8 {
        0
    }

    pub const fn f4_max() -> u8 {
        7
    }
}

#[asn(sequence, extensible_after(f2))]

#[derive(Default, Debug, Clone, PartialEq, Hash)]
pub struct Ts5odmode3 {
    #[asn(optional(integer(0..7)))] pub f0: Option<u8>,
    #[asn(default(integer(0..7), 5))] pub f1: u8,
    #[asn(integer(0..7))] pub f2: u8,
    #[asn(optional(integer(0..7)))] pub f3: Option<u8>,
    #[asn(default(integer(0..7), 5))] pub f4: u8,
}

impl Ts5odmode3 {
    pub const fn f0_min() -> u8 {
        0
    }

    pub const fn f0_max() -> u8 {
        7
    }

    pub const fn f1_min() -> u8 {
        0
    }

    pub const fn f1_max() -> u8 {
        7
    }

    pub const fn f2_min() -> u8 {
        0
    }

    pub const fn f2_max() -> u8 {
        7
    }

    pub const fn f3_min() -> u8 {
        0
    }

    pub const fn f3_max() -> u8 {
        7
    }

    pub const fn f4_min() -> u8 {
        0
    }

    pub const fn f4_max() -> u8 {
        7
    }
}

#[asn(sequence, extensible_after(f3))]

#[derive(Default, Debug, Clone, PartialEq, Hash)]
pub struct Ts5odmode4 {
    #[asn(optional(integer(0..7)))] pub f0: Option<u8>,
    #[asn(default(integer(0..7), 5))] pub f1: u8,
    #[asn(integer(0..7))] pub f2: u8,
    #[asn(optional(integer(0..7)))] pub f3: Option<u8>,
    #[asn(default(integer(0..7), 5))] pub f4: u8,
}

impl Ts5odmode4 {
    pub const fn f0_min() -> u8 {
        0
    }

    pub const fn f0_max() -> u8 {
        7
    }

    pub const fn f1_min() -> u8 {
        0
    }

    pub const fn f1_max() -> u8 {
        7
    }

    pub const fn f2_min() -> u8 {
        0
    }

    pub const fn f2_max() -> u8 {
        7
    }

    pub const fn f3_min() -> u8 {
        0
    }

    pub const fn f3_max() -> u8 {
        7
    }

    pub const fn f4_min() -> u8 {
        0
    }

    pub const fn f4_max() -> u8 {
        7
    }
}

#[asn(sequence, extensible_after(f4))]

#[derive(Default, Debug, Clone, PartialEq, Hash)]
pub struct Ts5odmode5 {
    #[asn(optional(integer(0..7)))] pub f0: Option<u8>,
    #[asn(default(integer(0..7), 5))] pub f1: u8,
    #[asn(integer(0..7))] pub f2: u8,
    #[asn(optional(integer(0..7)))] pub f3: Option<u8>,
    #[asn(default(integer(0..7), 5))] pub f4: u8,
}

impl Ts5odmode5 {
    pub const fn f0_min() -> u8 {
        0
    }

    pub const fn f0_max() -> u8 {
        7
    }

    pub const fn f1_min() -> u8 {
        0
    }

    pub const fn f1_max() -> u8 {
        7
    }

    pub const fn f2_min() -> u8 {
        0
    }

    pub const fn f2_max() -> u8 {
        7
    }

    pub const fn f3_min() -> u8 {
        0
    }

    pub const fn f3_max() -> u8 {
        7
    }

    pub const fn f4_min() -> u8 {
        0
    }

    pub const fn f4_max() -> u8 {
        7
    }
}

#[asn(sequence)]

#[derive(Default, Debug, Clone, PartialEq, Hash)]
pub struct Ts5ddmodn {
    #[asn(default(integer(0..7), 5))] pub f0: u8,
    #[asn(default(integer(0..7), 5))] pub f1: u8,
    #[asn(integer(0..7))] pub f2: u8,
    #[asn(optional(integer(0..7)))] pub f3: Option<u8>,
    #[asn(default(integer(0..7), 5))] pub f4: u8,
}

impl Ts5ddmodn {
    pub const fn f0_min() -> u8 {
        0
    }

    pub const fn f0_max() -> u8 {
        7
    }

    pub const fn f1_min() -> u8 {
        0
    }

    pub const fn f1_max() -> u8 {
        7
    }

    pub const fn f2_min() -> u8 {
        0
    }

    pub const fn f2_max() -> u8 {
        7
    }

    pub const fn f3_min() -> u8 {
        0
    }

    pub const fn f3_max() -> u8 {
        7
    }

    pub const fn f4_min() -> u8 {
        0
    }

    pub const fn f4_max() -> u8 {
        7
    }
}

#[asn(sequence, extensible_after(f0))]

#[derive(Default, Debug, Clone, PartialEq, Hash)]
pub struct Ts5ddmode0 {
    #[asn(default(integer(0..7), 5))] pub f0: u8,
    #[asn(default(integer(0..7), 5))] pub f1: u8,
    #[asn(optional(integer(0..7)))] pub f2: Option<u8>,
    #[asn(optional(integer(0..7)))] pub f3: Option<u8>,
    #[asn(default(integer(0..7), 5))] pub f4: u8,
}

impl Ts5ddmode0 {
    pub const fn f0_min() -> u8 {
        0
    }

    pub const fn f0_max() -> u8 {
        7
    }

    pub const fn f1_min() -> u8 {
        0
    }

    pub const fn f1_max() -> u8 {
        7
    }

    pub const fn f2_min() -> u8 {
        0
    }

    pub const fn f2_max() -> u8 {
        7
    }

    pub const fn f3_min() -> u8 {
        0
    }

    pub const fn f3_max() -> u8 {
        7
    }

    pub const fn f4_min() -> u8 {
        0
    }

    pub const fn f4_max() -> u8 {
        7
    }
}

#[asn(sequence, extensible_after(f0))]

#[derive(Default, Debug, Clone, PartialEq, Hash)]
pub struct Ts5ddmode1 {
    #[asn(default(integer(0..7), 5))] pub f0: u8,
    #[asn(default(integer(0..7), 5))] pub f1: u8,
    #[asn(optional(integer(0..7)))] pub f2: Option<u8>,
    #[asn(optional(integer(0..7)))] pub f3: Option<u8>,
    #[asn(default(integer(0..7), 5))] pub f4: u8,
}

impl Ts5ddmode1 {
    pub const fn f0_min() -> u8 {
        0
    }

    pub const fn f0_max() -> u8 {
        7
    }

    pub const fn f1_min() -> u8 {
        0
    }

    pub const fn f1_max() -> u8 {
        7
    }

    pub const fn f2_min() -> u8 {
        0
    }

    pub const fn f2_max() -> u8 {
        7
    }

    pub const fn f3_min() -> u8 {
        0
    }

    pub const fn f3_max() -> u8 {
        7
    }

    pub const fn f4_min() -> u8 {
        0
    }

    pub const fn f4_max() -> u8 {
        7
    }
}

#[asn(sequence, extensible_after(f1))]

#[derive(Default, Debug, Clone, PartialEq, Hash)]
pub struct Ts5ddmode2 {
    #[asn(default(integer(0..7), 5))] pub f0: u8,
    #[asn(default(integer(0..7), 5))] pub f1: u8,
    #[asn(optional(integer(0..7)))] pub f2: Option<u8>,
    #[asn(optional(integer(0..7)))] pub f3: Option<u8>,
    #[asn(default(integer(0..7), 5))] pub f4: u8,
}

impl Ts5ddmode2 {
    pub const fn f0_min() -> u8 {
        0
    }

    pub const fn f0_max() -> u8 {
        7
    }

    pub const fn f1_min() -> u8 {
        0
    }

    pub const fn f1_max() -> u8 {
        7
    }

    pub const fn f2_min() -> u8 {
        0
    }

    pub const fn f2_max() -> u8 {
        7
    }

    pub const fn f3_min() -> u8 {
        0
    }

    pub const fn f3_max() -> u8 {
        7
    }

    pub const fn f4_min() -> u8 {
        0
    }

    pub const fn f4_max() -> u8 {
        7
    }
}

#[asn(sequence, extensible_after(f2))]

#[derive(Default, Debug, Clone, PartialEq, Hash)]
pub struct Ts5ddmode3 {
    #[asn(default(integer(0..7), 5))] pub f0: u8,
    #[asn(default(integer(0..7), 5))] pub f1: u8,
    #[asn(integer(0..7))] pub f2: u8,
    #[asn(optional(integer(0..7)))] pub f3: Option<u8>,
    #[asn(default(integer(0..7), 5))] pub f4: u8,
}

impl Ts5ddmode3 {
    pub const fn f0_min() -> u8 {
        0
    }

    pub const fn f0_max() -> u8 {
        7
    }

    pub const fn f1_min() -> u8 {
        0
    }

    pub const fn f1_max() -> u8 {
        7
    }

    pub const fn f2_min() -> u8 {
        0
    }

    pub const fn f2_max() -> u8 {
        7
    }

    pub const fn f3_min() -> u8 {
        0
    }

    pub const fn f3_max() -> u8 {
        7
    }

    pub const fn f4_min() -> u8 {
        0
    }

    pub const fn f4_max() -> u8 {
        7
    }
}

#[asn(sequence, extensible_after(f3))]

#[derive(Default, Debug, Clone, PartialEq, Hash)]
pub struct Ts5ddmode4 {
    #[asn(default(integer(0..7), 5))] pub f0: u8,
    #[asn(default(integer(0..7), 5))] pub f1: u8,
    #[asn(integer(0..7))] pub f2: u8,
    #[asn(optional(integer(0..7)))] pub f3: Option<u8>,
    #[asn(default(integer(0..7), 5))] pub f4: u8,
}

impl Ts5ddmode4 {
    pub const fn f0_min() -> u8 {
        0
    }

    pub const fn f0_max() -> u8 {
        7
    }

    pub const fn f1_min() -> u8 {
        0
    }

    pub const fn f1_max() -> u8 {
        7
    }

    pub const fn f2_min() -> u8 {
        0
    }

    pub const fn f2_max() -> u8 {
        7
    }

    pub const fn f3_min() -> u8 {
        0
    }

    pub const fn f3_max() -> u8 {
        7
    }

    pub const fn f4_min() -> u8 {
        0
    }

    pub const fn f4_max() -> u8 {
        7
    }
}

#[asn(sequence, extensible_after(f4))]

#[derive(Default, Debug, Clone, PartialEq, Hash)]
pub struct Ts5ddmode5 {
    #[asn(default(integer(0..7), 5))] pub f0: u8,
    #[asn(default(integer(0..7), 5))] pub f1: u8,
    #[asn(integer(0..7))] pub f2: u8,
    #[asn(optional(integer(0..7)))] pub f3: Option<u8>,
    #[asn(default(integer(0..7), 5))] pub f4: u8,
}

impl Ts5ddmode5 {
    pub const fn f0_min() -> u8 {
        0
    }

    pub const fn f0_max() -> u8 {
        7
    }

    pub const fn f1_min() -> u8 {
        0
    }

    pub const fn f1_max() -> u8 {
        7
    }

    pub const fn f2_min() -> u8 {
        0
    }

    pub const fn f2_max() -> u8 {
        7
    }

    pub const fn f3_min() -> u8 {
        0
    }

    pub const fn f3_max() -> u8 {
        7
    }

    pub const fn f4_min() -> u8 {
        0
    }

    pub const fn f4_max() -> u8 {
        7
    }
}

#[asn(sequence)]

#[derive(Default, Debug, Clone, PartialEq, Hash)]
pub struct Ts5mmoodn {
    #[asn(integer(0..7))] pub f0: u8,
    #[asn(integer(0..7))] pub f1: u8,
    #[asn(optional(integer(0..7)))] pub f2: Option<u8>,
    #[asn(optional(integer(0..7)))] pub f3: Option<u8>,
    #[asn(default(integer(0..7), 5))] pub f4: u8,
}

impl Ts5mmoodn {
    pub const fn f0_min() -> u8 {
        0
    }

    pub const fn f0_max() -> u8 {
        7
    }

    pub const fn f1_min() -> u8 {
        0
    }

    pub const fn f1_max() -> u8 {
        7
    }

    pub const fn f2_min() -> u8 {
        0
    }

    pub const fn f2_max() -> u8 {
        7
    }

    pub const fn f3_min() -> u8 {
        0
    }

    pub const fn f3_max() -> u8 {
        7
    }

    pub const fn f4_min() -> u8 {
        0
    }

    pub const fn f4_max() -> u8 {
        7
    }
}

#[asn(sequence, extensible_after(f0))]

#[derive(Default, Debug, Clone, PartialEq, Hash)]
pub struct Ts5mmoode0 {
    #[asn(integer(0..7))] pub f0: u8,
    #[asn(optional(integer(0..7)))] pub f1: Option<u8>,
    #[asn(optional(integer(0..7)))] pub f2: Option<u8>,
    #[asn(optional(integer(0..7)))] pub f3: Option<u8>,
    #[asn(default(integer(0..7), 5))] pub f4: u8,
}

impl Ts5mmoode0 {
    pub const fn f0_min() -> u8 {
        0
    }

    pub const fn f0_max() -> u8 {
        7
    }

    pub const fn f1_min() -> u8 {
        0
    }

    pub const fn f1_max() -> u8 {
        7
    }

    pub const fn f2_min() -> u8 {
        0
    }

    pub const fn f2_max() -> u8 {
        7
    }

    pub const fn f3_min() -> u8 {
        0
    }

    pub const fn f3_max() -> u8 {
        7
    }

    pub const fn f4_min() -> u8 {
        0
    }

    pub const fn f4_max() -> u8 {
        7
    }
}

#[asn(sequence, extensible_after(f0))]

#[derive(Default, Debug, Clone, PartialEq, Hash)]
pub struct Ts5mmoode1 {
    #[asn(integer(0..7))] pub f0: u8,
    #[asn(optional(integer(0..7)))] pub f1: Option<u8>,
    #[asn(optional(integer(0..7)))] pub f2: Option<u8>,
    #[asn(optional(integer(0..7)))] pub f3: Option<u8>,
    #[asn(default(integer(0..7), 5))] pub f4: u8,
}

impl Ts5mmoode1 {
    pub const fn f0_min() -> u8 {
        0
    }

    pub const fn f0_max() -> u8 {
        7
    }

    pub const fn f1_min() -> u8 {
        0
    }

    pub const fn f1_max() -> u8 {
        7
    }

    pub const fn f2_min() -> u8 {
        0
    }

    pub const fn f2_max() -> u8 {
        7
    }

    pub const fn f3_min() -> u8 {
        0
    }

    pub const fn f3_max() -> u8 {
        7
    }

    pub const fn f4_min() -> u8 {
        0
    }

    pub const fn f4_max() -> u8 {
        7
    }
}

#[asn(sequence, extensible_after(f1))]

#[derive(Default, Debug, Clone, PartialEq, Hash)]
pub struct Ts5mmoode2 {
    #[asn(integer(0..7))] pub f0: u8,
    #[asn(integer(0..7))] pub f1: u8,
    #[asn(optional(integer(0..7)))] pub f2: Option<u8>,
    #[asn(optional(integer(0..7)))] pub f3: Option<u8>,
    #[asn(default(integer(0..7), 5))] pub f4: u8,
}

impl Ts5mmoode2 {
    pub const fn f0_min() -> u8 {
        0
    }

    pub const fn f0_max() -> u8 {
        7
    }

    pub const fn f1_min() -> u8 {
        0
    }

    pub const fn f1_max() -> u8 {
        7
    }

    pub const fn f2_min() -> u8 {
        0
    }

    pub const fn f2_max() -> u8 {
        7
    }

    pub const fn f3_min() -> u8 {
        0
    }

    pub const fn f3_max() -> u8 {
        7
    }

    pub const fn f4_min() -> u8 {
        0
    }

    pub const fn f4_max() -> u8 {
        7
    }
}

#[asn(sequence, extensible_after(f2))]

#[derive(Default, Debug, Clone, PartialEq, Hash)]
pub struct Ts5mmoode3 {
    #[asn(integer(0..7))] pub f0: u8,
    #[asn(integer(0..7))] pub f1: u8,
    #[asn(optional(integer(0..7)))] pub f2: Option<u8>,
    #[asn(optional(integer(0..7)))] pub f3: Option<u8>,
    #[asn(default(integer(0..7), 5))] pub f4: u8,
}

impl Ts5mmoode3 {
    pub const fn f0_min() -> u8 {
        0
    }

    pub const fn f0_max() -> u8 {
        7
    }

    pub const fn f1_min() -> u8 {
        0
    }

    pub const fn f1_max() -> u8 {
        7
    }

    pub const fn f2_min() -> u8 {
        0
    }

    pub const fn f2_max() -> u8 {
        7
    }

    pub const fn f3_min() -> u8 {
        0
    }

    pub const fn f3_max() -> u8 {
        7
    }

    pub const fn f4_min() -> u8 {
        0
    }

    pub const fn f4_max() -> u8 {
        7
    }
}

#[asn(sequence, extensible_after(f3))]

#[derive(Default, Debug, Clone, PartialEq, Hash)]
pub struct Ts5mmoode4 {
    #[asn(integer(0..7))] pub f0: u8,
    #[asn(integer(0..7))] pub f1: u8,
    #[asn(optional(integer(0..7)))] pub f2: Option<u8>,
    #[asn(optional(integer(0..7)))] pub f3: Option<u8>,
    #[asn(default(integer(0..7), 5))] pub f4: u8,
}

impl Ts5mmoode4 {
    pub const fn f0_min() -> u8 {
        0
    }

    pub const fn f0_max() -> u8 {
        7
    }

    pub const fn f1_min() -> u8 {
        0
    }

    pub const fn f1_max() -> u8 {
        7
    }

    pub const fn f2_min() -> u8 {
        0
    }

    pub const fn f2_max() -> u8 {
        7
    }

    pub const fn f3_min() -> u8 {
        0
    }

    pub const fn f3_max() -> u8 {
        7
    }

    pub const fn f4_min() -> u8 {
        0
    }

    pub const fn f4_max() -> u8 {
        7
    }
}

#[asn(sequence, extensible_after(f4))]

#[derive(Default, Debug, Clone, PartialEq, Hash)]
pub struct Ts5mmoode5 {
    #[asn(integer(0..7))] pub f0: u8,
    #[asn(integer(0..7))] pub f1: u8,
    #[asn(optional(integer(0..7)))] pub f2: Option<u8>,
    #[asn(optional(integer(0..7)))] pub f3: Option<u8>,
    #[asn(default(integer(0..7), 5))] pub f4: u8,
}

impl Ts5mmoode5 {
    pub const fn f0_min() -> u8 {
        0
    }

    pub const fn f0_max() -> u8 {
        7
    }

    pub const fn f1_min() -> u8 {
        0
    }

    pub const fn f1_max() -> u8 {
        7
    }

    pub const fn f2_min() -> u8 {
        0
    }

    pub const fn f2_max() -> u8 {
        7
    }

    pub const fn f3_min() -> u8 {
        0
    }

    pub const fn f3_max() -> u8 {
        7
    }

    pub const fn f4_min() -> u8 {
        0
    }

    pub const fn f4_max() -> u8 {
        7
    }
}

#[asn(sequence)]

#[derive(Default, Debug, Clone, PartialEq, Hash)]
pub struct Ts5omoodn {
    #[asn(optional(integer(0..7)))] pub f0: Option<u8>,
    #[asn(integer(0..7))] pub f1: u8,
    #[asn(optional(integer(0..7)))] pub f2: Option<u8>,
    #[asn(optional(integer(0..7)))] pub f3: Option<u8>,
    #[asn(default(integer(0..7), 5))] pub f4: u8,
}

impl Ts5omoodn {
    pub const fn f0_min() -> u8 {
        0
    }

    pub const fn f0_max() -> u8 {
        7
    }

    pub const fn f1_min() -> u8 {
        0
    }

    pub const fn f1_max() -> u8 {
        7
    }

    pub const fn f2_min() -> u8 {
        0
    }

    pub const fn f2_max() -> u8 {
        7
    }

    pub const fn f3_min() -> u8 {
        0
    }

    pub const fn f3_max() -> u8 {
        7
    }

    pub const fn f4_min() -> u8 {
        0
    }

    pub const fn f4_max() -> u8 {
        7
    }
}

#[asn(sequence, extensible_after(f0))]

#[derive(Default, Debug, Clone, PartialEq, Hash)]
pub struct Ts5omoode0 {
    #[asn(optional(integer(0..7)))] pub f0: Option<u8>,
    #[asn(optional(integer(0..7)))] pub f1: Option<u8>,
    #[asn(optional(integer(0..7)))] pub f2: Option<u8>,
    #[asn(optional(integer(0..7)))] pub f3: Option<u8>,
    #[asn(default(integer(0..7), 5))] pub f4: u8,
}

impl Ts5omoode0 {
    pub const fn f0_min() -> u8 {
        0
    }

    pub const fn f0_max() -> u8 {
        7
    }

    pub const fn f1_min() -> u8 {
        0
    }

    pub const fn f1_max() -> u8 {
        7
    }

    pub const fn f2_min() -> u8 {
        0
    }

    pub const fn f2_max() -> u8 {
        7
    }

    pub const fn f3_min() -> u8 {
        0
    }

    pub const fn f3_max() -> u8 {
        7
    }

    pub const fn f4_min() -> u8 {
        0
    }

    pub const fn f4_max() -> u8 {
        7
    }
}

#[asn(sequence, extensible_after(f0))]

#[derive(Default, Debug, Clone, PartialEq, Hash)]
pub struct Ts5omoode1 {
    #[asn(optional(integer(0..7)))] pub f0: Option<u8>,
    #[asn(optional(integer(0..7)))] pub f1: Option<u8>,
    #[asn(optional(integer(0..7)))] pub f2: Option<u8>,
    #[asn(optional(integer(0..7)))] pub f3: Option<u8>,
    #[asn(default(integer(0..7), 5))] pub f4: u8,
}

impl Ts5omoode1 {
    pub const fn f0_min() -> u8 {
        0
    }

    pub const fn f0_max() -> u8 {
        7
    }

    pub const fn f1_min() -> u8 {
        0
    }

    pub const fn f1_max() -> u8 {
        7
    }

    pub const fn f2_min() -> u8 {
        0
    }

    pub const fn f2_max() -> u8 {
        7
    }

    pub const fn f3_min() -> u8 {
        0
    }

    pub const fn f3_max() -> u8 {
        7
    }

    pub const fn f4_min() -> u8 {
        0
    }

    pub const fn f4_max() -> u8 {
        7
    }
}

#[asn(sequence, extensible_after(f1))]

#[derive(Default, Debug, Clone, PartialEq, Hash)]
pub struct Ts5omoode2 {
    #[asn(optional(integer(0..7)))] pub f0: Option<u8>,
    #[asn(integer(0..7))] pub f1: u8,
    #[asn(optional(integer(0..7)))] pub f2: Option<u8>,
    #[asn(optional(integer(0..7)))] pub f3: Option<u8>,
    #[asn(default(integer(0..7), 5))] pub f4: u8,
}

impl Ts5omoode2 {
    pub const fn f0_min() -> u8 {
        0
    }

    pub const fn f0_max() -> u8 {
        7
    }

    pub const fn f1_min() -> u8 {
        0
    }

    pub const fn f1_max() -> u8 {
        7
    }

    pub const fn f2_min() -> u8 {
        0
    }

    pub const fn f2_max() -> u8 {
        7
    }

    pub const fn f3_min() -> u8 {
        0
    }

    pub const fn f3_max() -> u8 {
        7
    }

    pub const fn f4_min() -> u8 {
        0
    }

    pub const fn f4_max() -> u8 {
        7
    }
}

#[asn(sequence, extensible_after(f2))]

#[derive(Default, Debug, Clone, PartialEq, Hash)]
pub struct Ts5omoode3 {
    #[asn(optional(integer(0..7)))] pub f0: Option<u8>,
    #[asn(integer(0..7))] pub f1: u8,
    #[asn(optional(integer(0..7)))] pub f2: Option<u8>,
    #[asn(optional(integer(0..7)))] pub f3: Option<u8>,
    #[asn(default(integer(0..7), 5))] pub f4: u8,
}

impl Ts5omoode3 {
    pub const fn f0_min() -> u8 {
        0
    }

    pub const fn f0_max() -> u8 {
        7
    }

    pub const fn f1_min() -> u8 {
        0
    }

    pub const fn f1_max() -> u8 {
        7
    }

    pub const fn f2_min() -> u8 {
        0
    }

    pub const fn f2_max() -> u8 {
        7
    }

    pub const fn f3_min() -> u8 {
        0
    }

    pub const fn f3_max() -> u8 {
        7
    }

    pub const fn f4_min() -> u8 {
        0
    }

    pub const fn f4_max() -> u8 {
        7
    }
}

#[asn(sequence, extensible_after(f3))]

#[derive(Default, Debug, Clone, PartialEq, Hash)]
pub struct Ts5omoode4 {
    #[asn(optional(integer(0..7)))] pub f0: Option<u8>,
    #[asn(integer(0..7))] pub f1: u8,
    #[asn(optional(integer(0..7)))] pub f2: Option<u8>,
    #[asn(optional(integer(0..7)))] pub f3: Option<u8>,
    #[asn(default(integer(0..7), 5))] pub f4: u8,
}

impl Ts5omoode4 {
    pub const fn f0_min() -> u8 {
        0
    }

    pub const fn f0_max() -> u8 {
        7
    }

    pub const fn f1_min() -> u8 {
        0
    }

    pub const fn f1_max() -> u8 {
        7
    }

    pub const fn f2_min() -> u8 {
        0
    }

    pub const fn f2_max() -> u8 {
        7
    }

    pub const fn f3_min() -> u8 {
        0
    }

    pub const fn f3_max() -> u8 {
        7
    }

    pub const fn f4_min() -> u8 {
        0
    }

    pub const fn f4_max() -> u8 {
        7
    }
}

#[asn(sequence, extensible_after(f4))]

#[derive(Default, Debug, Clone, PartialEq, Hash)]
pub struct Ts5omoode5 {
    #[asn(optional(integer(0..7)))] pub f0: Option<u8>,
    #[asn(integer(0..7))] pub f1: u8,
    #[asn(optional(integer(0..7)))] pub f2: Option<u8>,
    #[asn(optional(integer(0..7)))] pub f3: Option<u8>,
    #[asn(default(integer(0..7), 5))] pub f4: u8,
}

impl Ts5omoode5 {
    pub const fn f0_min() -> u8 {
        0
    }

    pub const fn f0_max() -> u8 {
        7
    }

    pub const fn f1_min() -> u8 {
        0
    }

    pub const fn f1_max() -> u8 {
        7
    }

    pub const fn f2_min() -> u8 {
        0
    }

    pub const fn f2_max() -> u8 {
        7
    }

    pub const fn f3_min() -> u8 {
        0
    }

    pub const fn f3_max() -> u8 {
        7
    }

    pub const fn f4_min() -> u8 {
        0
    }

    pub const fn f4_max() -> u8 {
        7
    }
}

#[asn(sequence)]

#[derive(Default, Debug, Clone, PartialEq, Hash)]
pub struct Ts5dmoodn {
    #[asn(default(integer(0..7), 5))] pub f0: u8,
    #[asn(integer(0..7))] pub f1: u8,
    #[asn(optional(integer(0..7)))] pub f2: Option<u8>,
    #[asn(optional(integer(0..7)))] pub f3: Option<u8>,
    #[asn(default(integer(0..7), 5))] pub f4: u8,
}

impl Ts5dmoodn {
    pub const fn f0_min() -> u8 {
        0
    }

    pub const fn f0_max() -> u8 {
        7
    }

    pub const fn f1_min() -> u8 {
        0
    }

    pub const fn f1_max() -> u8 {
        7
    }

    pub const fn f2_min() -> u8 {
        0
    }

    pub const fn f2_max() -> u8 {
        7
    }

    pub const fn f3_min() -> u8 {
        0
    }

    pub const fn f3_max() -> u8 {
        7
    }

    pub const fn f4_min() -> u8 {
        0
    }

    pub const fn f4_max() -> u8 {
        7
    }
}

#[asn(sequence, extensible_after(f0))]

#[derive(Default, Debug, Clone, PartialEq, Hash)]
pub struct Ts5dmoode0 {
    #[asn(default(integer(0..7), 5))] pub f0: u8,
    #[asn(optional(integer(0..7)))] pub f1: Option<u8>,
    #[asn(optional(integer(0..7)))] pub f2: Option<u8>,
    #[asn(optional(integer(0..7)))] pub f3: Option<u8>,
    #[asn(default(integer(0..7), 5))] pub f4: u8,
}

impl Ts5dmoode0 {
    pub const fn f0_min() -> u8 {
        0
    }

    pub const fn f0_max() -> u8 {
        7
    }

    pub const fn f1_min() -> u8 {
        0
    }

    pub const fn f1_max() -> u8 {
        7
    }

    pub const fn f2_min() -> u8 {
        0
    }

    pub const fn f2_max() -> u8 {
        7
    }

    pub const fn f3_min() -> u8 {
        0
    }

    pub const fn f3_max() -> u8 {
        7
    }

    pub const fn f4_min() -> u8 {
        0
    }

    pub const fn f4_max() -> u8 {
        7
    }
}

#[asn(sequence, extensible_after(f0))]

#[derive(Default, Debug, Clone, PartialEq, Hash)]
pub struct Ts5dmoode1 {
    #[asn(default(integer(0..7), 5))] pub f0: u8,
    #[asn(optional(integer(0..7)))] pub f1: Option<u8>,
    #[asn(optional(integer(0..7)))] pub f2: Option<u8>,
    #[asn(optional(integer(0..7)))] pub f3: Option<u8>,
    #[asn(default(integer(0..7), 5))] pub f4: u8,
}

impl Ts5dmoode1 {
    pub const fn f0_min() -> u8 {
        0
    }

    pub const fn f0_max() -> u8 {
        7
    }

    pub const fn f1_min() -> u8 {
        0
    }

    pub const fn f1_max() -> u8 {
        7
    }

    pub const fn f2_min() -> u8 {
        0
    }

    pub const fn f2_max() -> u8 {
        7
    }

    pub const fn f3_min() -> u8 {
        0
    }

    pub const fn f3_max() -> u8 {
        7
    }

    pub const fn f4_min() -> u8 {
        0
    }

    pub const fn f4_max() -> u8 {
        7
    }
}

#[asn(sequence, extensible_after(f1))]

#[derive(Default, Debug, Clone, PartialEq, Hash)]
pub struct Ts5dmoode2 {
    #[asn(default(integer(0..7), 5))] pub f0: u8,
    #[asn(integer(0..7))] pub f1: u8,
    #[asn(optional(integer(0..7)))] pub f2: Option<u8>,
    #[asn(optional(integer(0..7)))] pub f3: Option<u8>,
    #[asn(default(integer(0..7), 5))] pub f4: u8,
}

impl Ts5dmoode2 {
    pub const fn f0_min() -> u8 {
        0
    }

    pub const fn f0_max() -> u8 {
        7
    }

    pub const fn f1_min() -> u8 {
        0
    }

    pub const fn f1_max() -> u8 {
        7
    }

    pub const fn f2_min() -> u8 {
        0
    }

    pub const fn f2_max() -> u8 {
        7
    }

    pub const fn f3_min() -> u8 {
        0
    }

    pub const fn f3_max() -> u8 {
        7
    }

    pub const fn f4_min() -> u8 {
        0
    }

    pub const fn f4_max() -> u8 {
        7
    }
}

#[asn(sequence, extensible_after(f2))]

#[derive(Default, Debug, Clone, PartialEq, Hash)]
pub struct Ts5dmoode3 {
    #[asn(default(integer(0..7), 5))] pub f0: u8,
    #[asn(integer(0..7))] pub f1: u8,
    #[asn(optional(integer(0..7)))] pub f2: Option<u8>,
    #[asn(optional(integer(0..7)))] pub f3: Option<u8>,
    #[asn(default(integer(0..7), 5))] pub f4: u8,
}

impl Ts5dmoode3 {
    pub const fn f0_min() -> u8 {
        0
    }

    pub const fn f0_max() -> u8 {
        7
    }

    pub const fn f1_min() -> u8 {
        0
    }

    pub const fn f1_max() -> u8 {
        7
    }

    pub const fn f2_min() -> u8 {
        0
    }

    pub const fn f2_max() -> u8 {
        7
    }

    pub const fn f3_min() -> u8 {
        0
    }

    pub const fn f3_max() -> u8 {
        7
    }

    pub const fn f4_min() -> u8 {
        0
    }

    pub const fn f4_max() -> u8 {
        7
    }
}

#[asn(sequence, extensible_after(f3))]

#[derive(Default, Debug, Clone, PartialEq, Hash)]
pub struct Ts5dmoode4 {
    #[asn(default(integer(0..7), 5))] pub f0: u8,
    #[asn(integer(0..7))] pub f1: u8,
    #[asn(optional(integer(0..7)))] pub f2: Option<u8>,
    #[asn(optional(integer(0..7)))] pub f3: Option<u8>,
    #[asn(default(integer(0..7), 5))] pub f4: u8,
}

impl Ts5dmoode4 {
    pub const fn f0_min() -> u8 {
        0
    }

    pub const fn f0_max() -> u8 {
        7
    }

    pub const fn f1_min() -> u8 {
        0
    }

    pub const fn f1_max() -> u8 {
        7
    }

    pub const fn f2_min() -> u8 {
        0
    }

    pub const fn f2_max() -> u8 {
        7
    }

    pub const fn f3_min() -> u8 {
        0
    }

    pub const fn f3_max() -> u8 {
        7
    }

    pub const fn f4_min() -> u8 {
        0
    }

    pub const fn f4_max() -> u8 {
        7
    }
}

#[asn(sequence, extensible_after(f4))]

#[derive(Default, Debug, Clone, PartialEq, Hash)]
pub struct Ts5dmoode5 {
    #[asn(default(integer(0..7), 5))] pub f0: u8,
    #[asn(integer(0..7))] pub f1: u8,
    #[asn(optional(integer(0..7)))] pub f2: Option<u8>,
    #[asn(optional(integer(0..7)))] pub f3: Option<u8>,
    #[asn(default(integer(0..7), 5))] pub f4: u8,
}

impl Ts5dmoode5 {
    pub const fn f0_min() -> u8 {
        0
    }

    pub const fn f0_max() -> u8 {
        7
    }

    pub const fn f1_min() -> u8 {
        0
    }

    pub const fn f1_max() -> u8 {
        7
    }

    pub const fn f2_min() -> u8 {
        0
    }

    pub const fn f2_max() -> u8 {
        7
    }

    pub const fn f3_min() -> u8 {
        0
    }

    pub const fn f3_max() -> u8 {
        7
    }

    pub const fn f4_min() -> u8 {
        0
    }

    pub const fn f4_max() -> u8 {
        7
    }
}

#[asn(sequence)]

#[derive(Default, Debug, Clone, PartialEq, Hash)]
pub struct Ts5mooodn {
    #[asn(integer(0..7))] pub f0: u8,
    #[asn(optional(integer(0..7)))] pub f1: Option<u8>,
    #[asn(optional(integer(0..7)))] pub f2: Option<u8>,
    #[asn(optional(integer(0..7)))] pub f3: Option<u8>,
    #[asn(default(integer(0..7), 5))] pub f4: u8,
}

impl Ts5mooodn {
    pub const fn f0_min() -> u8 {
        0
    }

    pub const fn f0_max() -> u8 {
        7
    }

    pub const fn f1_min() -> u8 {
        0
    }

    pub const fn f1_max() -> u8 {
        7
    }

    pub const fn f2_min() -> u8 {
        0
    }

    pub const fn f2_max() -> u8 {
        7
    }

    pub const fn f3_min() -> u8 {
        0
    }

    pub const fn f3_max() -> u8 {
        7
    }

    pub const fn f4_min() -> u8 {
        0
    }

    pub const fn f4_max() -> u8 {
        7
    }
}

#[asn(sequence, extensible_after(f0))]

#[derive(Default, Debug, Clone, PartialEq, Hash)]
pub struct Ts5mooode0 {
    #[asn(integer(0..7))] pub f0: u8,
    #[asn(optional(integer(0..7)))] pub f1: Option<u8>,
    #[asn(optional(integer(0..7)))] pub f2: Option<u8>,
    #[asn(optional(integer(0..7)))] pub f3: Option<u8>,
    #[asn(default(integer(0..7), 5))] pub f4: u8,
}

impl Ts5mooode0 {
    pub const fn f0_min() -> u8 {
        0
    }

    pub const fn f0_max() -> u8 {
        7
    }

    pub const fn f1_min() -> u8 {
        0
    }

    pub const fn f1_max() -> u8 {
        7
    }

    pub const fn f2_min() -> u8 {
        0
    }

    pub const fn f2_max() -> u8 {
        7
    }

    pub const fn f3_min() -> u8 {
        0
    }

    pub const fn f3_max() -> u8 {
        7
    }

    pub const fn f4_min() -> u8 {
        0
    }

    pub const fn f4_max() -> u8 {
        7
    }
}

#[asn(sequence, extensible_after(f0))]

#[derive(Default, Debug, Clone, PartialEq, Hash)]
pub struct Ts5mooode1 {
    #[asn(integer(0..7))] pub f0: u8,
    #[asn(optional(integer(0..7)))] pub f1: Option<u8>,
    #[asn(optional(integer(0..7)))] pub f2: Option<u8>,
    #[asn(optional(integer(0..7)))] pub f3: Option<u8>,
    #[asn(default(integer(0..7), 5))] pub f4: u8,
}

impl Ts5mooode1 {
    pub const fn f0_min() -> u8 {
        0
    }

    pub const fn f0_max() -> u8 {
        7
    }

    pub const fn f1_min() -> u8 {
        0
    }

    pub const fn f1_max() -> u8 {
        7
    }

    pub const fn f2_min() -> u8 {
        0
    }

    pub const fn f2_max() -> u8 {
        7
    }

    pub const fn f3_min() -> u8 {
        0
    }

    pub const fn f3_max() -> u8 {
        7
    }

    pub const fn f4_min() -> u8 {
        0
    }

    pub const fn f4_max() -> u8 {
        7
    }
}

#[asn(sequence, extensible_after(f1))]

#[derive(Default, Debug, Clone, PartialEq, Hash)]
pub struct Ts5mooode2 {
    #[asn(integer(0..7))] pub f0: u8,
    #[asn(optional(integer(0..7)))] pub f1: Option<u8>,
    #[asn(optional(integer(0..7)))] pub f2: Option<u8>,
    #[asn(optional(integer(0..7)))] pub f3: Option<u8>,
    #[asn(default(integer(0..7), 5))] pub f4: u8,
}

impl Ts5mooode2 {
    pub const fn f0_min() -> u8 {
        0
    }

    pub const fn f0_max() -> u8 {
        7
    }

    pub const fn f1_min() -> u8 {
        0
    }

    pub const fn f1_max() -> u8 {
        7
    }

    pub const fn f2_min() -> u8 {
        0
    }

    pub const fn f2_max() -> u8 {
        7
    }

    pub const fn f3_min() -> u8 {
        0
    }

    pub const fn f3_max() -> u8 {
        7
    }

    pub const fn f4_min() -> u8 {
        0
    }

    pub const fn f4_max() -> u8 {
        7
    }
}

#[asn(sequence, extensible_after(f2))]

#[derive(Default, Debug, Clone, PartialEq, Hash)]
pub struct Ts5mooode3 {
    #[asn(integer(0..7))] pub f0: u8,
    #[asn(optional(integer(0..7)))] pub f1: Option<u8>,
    #[asn(optional(integer(0..7)))] pub f2: Option<u8>,
    #[asn(optional(integer(0..7)))] pub f3: Option<u8>,
    #[asn(default(integer(0..7), 5))] pub f4: u8,
}

impl Ts5mooode3 {
    pub const fn f0_min() -> u8 {
        0
    }

    pub const fn f0_max() -> u8 {
        7
    }

    pub const fn f1_min() -> u8 {
        0
    }

    pub const fn f1_max() -> u8 {
        7
    }

    pub const fn f2_min() -> u8 {
        0
    }

    pub const fn f2_max() -> u8 {
        7
    }

    pub const fn f3_min() -> u8 {
        0
    }

    pub const fn f3_max() -> u8 {
        7
    }

    pub const fn f4_min() -> u8 {
        0
    }

    pub const fn f4_max() -> u8 {
        7
    }
}

#[asn(sequence, extensible_after(f3))]

#[derive(Default, Debug, Clone, PartialEq, Hash)]
pub struct Ts5mooode4 {
    #[asn(integer(0..7))] pub f0: u8,
    #[asn(optional(integer(0..7)))] pub f1: Option<u8>,
    #[asn(optional(integer(0..7)))] pub f2: Option<u8>,
    #[asn(optional(integer(0..7)))] pub f3: Option<u8>,
    #[asn(default(integer(0..7), 5))] pub f4: u8,
}

impl Ts5mooode4 {
    pub const fn f0_min() -> u8 {
        0
    }

    pub const fn f0_max() -> u8 {
        7
    }

    pub const fn f1_min() -> u8 {
        0
    }

    pub const fn f1_max() -> u8 {
        7
    }

    pub const fn f2_min() -> u8 {
        0
    }

    pub const fn f2_max() -> u8 {
        7
    }

    pub const fn f3_min() -> u8 {
        0
    }

    pub const fn f3_max() -> u8 {
        7
    }

    pub const fn f4_min() -> u8 {
        0
    }

    pub const fn f4_max() -> u8 {
        7
    }
}

#[asn(sequence, extensible_after(f4))]

#[derive(Default, Debug, Clone, PartialEq, Hash)]
pub struct Ts5mooode5 {
    #[asn(integer(0..7))] pub f0: u8,
    #[asn(optional(integer(0..7)))] pub f1: Option<u8>,
    #[asn(optional(integer(0..7)))] pub f2: Option<u8>,
    #[asn(optional(integer(0..7)))] pub f3: Option<u8>,
    #[asn(default(integer(0..7), 5))] pub f4: u8,
}

impl Ts5mooode5 {
    pub const fn f0_min() -> u8 {
        0
    }

    pub const fn f0_max() -> u8 {
        7
    }

    pub const fn f1_min() -> u8 {
        0
    }

    pub const fn f1_max() -> u8 {
        7
    }

    pub const fn f2_min() -> u8 {
        0
    }

    pub const fn f2_max() -> u8 {
        7
    }

    pub const fn f3_min() -> u8 {
        0
    }

    pub const fn f3_max() -> u8 {
        7
    }

    pub const fn f4_min() -> u8 {
        0
    }

    pub const fn f4_max() -> u8 {
        7
    }
}

#[asn(sequence)]

#[derive(Default, Debug, Clone, PartialEq, Hash)]
pub struct Ts5oooodn {
    #[asn(optional(integer(0..7)))] pub f0: Option<u8>,
    #[asn(optional(integer(0..7)))] pub f1: Option<u8>,
    #[asn(optional(integer(0..7)))] pub f2: Option<u8>,
    #[asn(optional(integer(0..7)))] pub f3: Option<u8>,
    #[asn(default(integer(0..7), 5))] pub f4: u8,
}

impl Ts5oooodn {
    pub const fn f0_min() -> u8 {
        0
    }

    pub const fn f0_max() -> u8 {
        7
    }

    pub const fn f1_min() -> u8 {
        0
    }

    pub const fn f1_max() -> u8 {
        7
    }

    pub const fn f2_min() -> u8 {
        0
    }

    pub const fn f2_max() -> u8 {
        7
    }

    pub const fn f3_min() -> u8 {
        0
    }

    pub const fn f3_max() -> u8 {
        7
    }

    pub const fn f4_min() -> u8 {
        0
    }

    pub const fn f4_max() -> u8 {
        7
    }
}

#[asn(sequence, extensible_after(f0))]

#[derive(Default, Debug, Clone, PartialEq, Hash)]
pub struct Ts5oooode0 {
    #[asn(optional(integer(0..7)))] pub f0: Option<u8>,
    #[asn(optional(integer(0..7)))] pub f1: Option<u8>,
    #[asn(optional(integer(0..7)))] pub f2: Option<u8>,
    #[asn(optional(integer(0..7)))] pub f3: Option<u8>,
    #[asn(default(integer(0..7), 5))] pub f4: u8,
}

impl Ts5oooode0 {
    pub const fn f0_min() -> u8 {
        0
    }

    pub const fn f0_max() -> u8 {
        7
    }

    pub const fn f1_min() -> u8 {
        0
    }

    pub const fn f1_max() -> u8 {
        7
    }

    pub const fn f2_min() -> u8 {
        0
    }

    pub const fn f2_max() -> u8 {
        7
    }

    pub const fn f3_min() -> u8 {
        0
    }

    pub const fn f3_max() -> u8 {
        7
    }

    pub const fn f4_min() -> u8 {
        0
    }

    pub const fn f4_max() -> u8 {
        7
    }
}

#[asn(sequence, extensible_after(f0))]

#[derive(Default, Debug, Clone, PartialEq, Hash)]
pub struct Ts5oooode1 {
    #[asn(optional(integer(0..7)))] pub f0: Option<u8>,
    #[asn(optional(integer(0..7)))] pub f1: Option<u8>,
    #[asn(optional(integer(0..7)))] pub f2: Option<u8>,
    #[asn(optional(integer(0..7)))] pub f3: Option<u8>,
    #[asn(default(integer(0..7), 5))] pub f4: u8,
}

impl Ts5oooode1 {
    pub const fn f0_min() -> u8 {
        0
    }

    pub const fn f0_max() -> u8 {
        7
    }

    pub const fn f1_min() -> u8 {
        0
    }

    pub const fn f1_max() -> u8 {
        7
    }

    pub const fn f2_min() -> u8 {
        0
    }

    pub const fn f2_max() -> u8 {
        7
    }

    pub const fn f3_min() -> u8 {
        0
    }

    pub const fn f3_max() -> u8 {
        7
    }

    pub const fn f4_min() -> u8 {
        0
    }

    pub const fn f4_max() -> u8 {
        7
    }
}

#[asn(sequence, extensible_after(f1))]

#[derive(Default, Debug, Clone, PartialEq, Hash)]
pub struct Ts5oooode2 {
    #[asn(optional(integer(0..7)))] pub f0: Option<u8>,
    #[asn(optional(integer(0..7)))] pub f1: Option<u8>,
    #[asn(optional(integer(0..7)))] pub f2: Option<u8>,
    #[asn(optional(integer(0..7)))] pub f3: Option<u8>,
    #[asn(default(integer(0..7), 5))] pub f4: u8,
}

impl Ts5oooode2 {
    pub const fn f0_min() -> u8 {
        0
    }

    pub const fn f0_max() -> u8 {
        7
    }

    pub const fn f1_min() -> u8 {
        0
    }

    pub const fn f1_max() -> u8 {
        7
    }

    pub const fn f2_min() -> u8 {
        0
    }

    pub const fn f2_max() -> u8 {
        7
    }

    pub const fn f3_min() -> u8 {
        0
    }

    pub const fn f3_max() -> u8 {
        7
    }

    pub const fn f4_min() -> u8 {
        0
    }

    pub const fn f4_max() -> u8 {
        7
    }
}

#[asn(sequence, extensible_after(f2))]

#[derive(Default, Debug, Clone, PartialEq, Hash)]
pub struct Ts5oooode3 {
    #[asn(optional(integer(0..7)))] pub f0: Option<u8>,
    #[asn(optional(integer(0..7)))] pub f1: Option<u8>,
    #[asn(optional(integer(0..7)))] pub f2: Option<u8>,
    #[asn(optional(integer(0..7)))] pub f3: Option<u8>,
    #[asn(default(integer(0..7), 5))] pub f4: u8,
}

impl Ts5oooode3 {
    pub const fn f0_min() -> u8 {
        0
    }

    pub const fn f0_max() -> u8 {
        7
    }

    pub const fn f1_min() -> u8 {
        0
    }

    pub const fn f1_max() -> u8 {
        7
    }

    pub const fn f2_min() -> u8 {
        0
    }

    pub const fn f2_max() -> u8 {
        7
    }

    pub const fn f3_min() -> u8 {
        0
    }

    pub const fn f3_max() -> u8 {
        7
    }

    pub const fn f4_min() -> u8 {
        0
    }

    pub const fn f4_max() -> u8 {
        7
    }
}

#[asn(sequence, extensible_after(f3))]

#[derive(Default, Debug, Clone, PartialEq, Hash)]
pub struct Ts5oooode4 {
    #[asn(optional(integer(0..7)))] pub f0: Option<u8>,
    #[asn(optional(integer(0..7)))] pub f1: Option<u8>,
    #[asn(optional(integer(0..7)))] pub f2: Option<u8>,
    #[asn(optional(integer(0..7)))] pub f3: Option<u8>,
    #[asn(default(integer(0..7), 5))] pub f4: u8,
}

impl Ts5oooode4 {
    pub const fn f0_min() -> u8 {
        0
    }

    pub const fn f0_max() -> u8 {
        7
    }

    pub const fn f1_min() -> u8 {
        0
    }

    pub const fn f1_max() -> u8 {
        7
    }

    pub const fn f2_min() -> u8 {
        0
    }

    pub const fn f2_max() -> u8 {
        7
    }

    pub const fn f3_min() -> u8 {
        0
    }

    pub const fn f3_max() -> u8 {
        7
    }

    pub const fn f4_min() -> u8 {
        0
    }

    pub const fn f4_max() -> u8 {
        7
    }
}

#[asn(sequence, extensible_after(f4))]

#[derive(Default, Debug, Clone, PartialEq, Hash)]
pub struct Ts5oooode5 {
    #[asn(optional(integer(0..7)))] pub f0: Option<u8>,
    #[asn(optional(integer(0..7)))] pub f1: Option<u8>,
    #[asn(optional(integer(0..7)))] pub f2: Option<u8>,
    #[asn(optional(integer(0..7)))] pub f3: Option<u8>,
    #[asn(default(integer(0..7), 5))] pub f4: u8,
}

impl Ts5oooode5 {
    pub const fn f0_min() -> u8 {
        0
    }

    pub const fn f0_max() -> u8 {
        7
    }

    pub const fn f1_min() -> u8 {
        0
    }

    pub const fn f1_max() -> u8 {
        7
    }

    pub const fn f2_min() -> u8 {
        0
    }

    pub const fn f2_max() -> u8 {
        7
    }

    pub const fn f3_min() -> u8 {
        0
    }

    pub const fn f3_max() -> u8 {
        7
    }

    pub const fn f4_min() -> u8 {
        0
    }

    pub const fn f4_max() -> u8 {
        7
    }
}

#[asn(sequence)]

#[derive(Default, Debug, Clone, PartialEq, Hash)]
pub struct Ts5dooodn {
    #[asn(default(integer(0..7), 5))] pub f0: u8,
    #[asn(optional(integer(0..7)))] pub f1: Option<u8>,
    #[asn(optional(integer(0..7)))] pub f2: Option<u8>,
    #[asn(optional(integer(0..7)))] pub f3: Option<u8>,
    #[asn(default(integer(0..7), 5))] pub f4: u8,
}

impl Ts5dooodn {
    pub const fn f0_min() -> u8 {
        0
    }

    pub const fn f0_max() -> u8 {
        7
    }

    pub const fn f1_min() -> u8 {
        0
    }

    pub const fn f1_max() -> u8 {
        7
    }

    pub const fn f2_min() -> u8 {
        0
    }

    pub const fn f2_max() -> u8 {
        7
    }

    pub const fn f3_min() -> u8 {
        0
    }

    pub const fn f3_max() -> u8 {
        7
    }

    pub const fn f4_min() -> u8 {
        0
    }

    pub const fn f4_max() -> u8 {
        7
    }
}

#[asn(sequence, extensible_after(f0))]

#[derive(Default, Debug, Clone, PartialEq, Hash)]
pub struct Ts5dooode0 {
    #[asn(default(integer(0..7), 5))] pub f0: u8,
    #[asn(optional(integer(0..7)))] pub f1: Option<u8>,
    #[asn(optional(integer(0..7)))] pub f2: Option<u8>,
    #[asn(optional(integer(0..7)))] pub f3: Option<u8>,
    #[asn(default(integer(0..7), 5))] pub f4: u8,
}

impl Ts5dooode0 {
    pub const fn f0_min() -> u8 {
        0
    }

    pub const fn f0_max() -> u8 {
        7
    }

    pub const fn f1_min() -> u8 {
        0
    }

    pub const fn f1_max() -> u8 {
        7
    }

    pub const fn f2_min() -> u8 {
        0
    }

    pub const fn f2_max() -> u8 {
        7
    }

    pub const fn f3_min() -> u8 {
        0
    }

    pub const fn f3_max() -> u8 {
        7
    }

    pub const fn f4_min() -> u8 {
        0
    }

    pub const fn f4_max() -> u8 {
        7
    }
}

#[asn(sequence, extensible_after(f0))]

#[derive(Default, Debug, Clone, PartialEq, Hash)]
pub struct Ts5dooode1 {
    #[asn(default(integer(0..7), 5))] pub f0: u8,
    #[asn(optional(integer(0..7)))] pub f1: Option<u8>,
    #[asn(optional(integer(0..7)))] pub f2: Option<u8>,
    #[asn(optional(integer(0..7)))] pub f3: Option<u8>,
    #[asn(default(integer(0..7), 5))] pub f4: u8,
}

impl Ts5dooode1 {
    pub const fn f0_min() -> u8 {
        0
    }

    pub const fn f0_max() -> u8 {
        7
    }

    pub const fn f1_min() -> u8 {
        0
    }

    pub const fn f1_max() -> u8 {
        7
    }

    pub const fn f2_min() -> u8 {
        0
    }

    pub const fn f2_max() -> u8 {
        7
    }

    pub const fn f3_min() -> u8 {
        0
    }

    pub const fn f3_max() -> u8 {
        7
    }

    pub const fn f4_min() -> u8 {
        0
    }

    pub const fn f4_max() -> u8 {
        7
    }
}

#[asn(sequence, extensible_after(f1))]

#[derive(Default, Debug, Clone, PartialEq, Hash)]
pub struct Ts5dooode2 {
    #[asn(default(integer(0..7), 5))] pub f0: u8,
    #[asn(optional(integer(0..7)))] pub f1: Option<u8>,
    #[asn(optional(integer(0..7)))] pub f2: Option<u8>,
    #[asn(optional(integer(0..7)))] pub f3: Option<u8>,
    #[asn(default(integer(0..7), 5))] pub f4: u8,
}

impl Ts5dooode2 {
    pub const fn f0_min() -> u8 {
        0
    }

    pub const fn f0_max() -> u8 {
        7
    }

    pub const fn f1_min() -> u8 {
        0
    }

    pub const fn f1_max() -> u8 {
        7
    }

    pub const fn f2_min() -> u8 {
        0
    }

    pub const fn f2_max() -> u8 {
        7
    }

    pub const fn f3_min() -> u8 {
        0
    }

    pub const fn f3_max() -> u8 {
        7
    }

    pub const fn f4_min() -> u8 {
        0
    }

    pub const fn f4_max() -> u8 {
        7
    }
}

#[asn(sequence, extensible_after(f2))]

#[derive(Default, Debug, Clone, PartialEq, Hash)]
pub struct Ts5dooode3 {
    #[asn(default(integer(0..7), 5))] pub f0: u8,
    #[asn(optional(integer(0..7)))] pub f1: Option<u8>,
    #[asn(optional(integer(0..7)))] pub f2: Option<u8>,
    #[asn(optional(integer(0..7)))] pub f3: Option<u8>,
    #[asn(default(integer(0..7), 5))] pub f4: u8,
}

impl Ts5dooode3 {
    pub const fn f0_min() -> u8 {
        0
    }

    pub const fn f0_max() -> u8 {
        7
    }

    pub const fn f1_min() -> u8 {
        0
    }

    pub const fn f1_max() -> u8 {
        7
    }

    pub const fn f2_min() -> u8 {
        0
    }

    pub const fn f2_max() -> u8 {
        7
    }

    pub const fn f3_min() -> u8 {
        0
    }

    pub const fn f3_max() -> u8 {
        7
    }

    pub const fn f4_min() -> u8 {
        0
    }

    pub const fn f4_max() -> u8 {
        7
    }
}

#[asn(sequence, extensible_after(f3))]

#[derive(Default, Debug, Clone, PartialEq, Hash)]
pub struct Ts5dooode4 {
    #[asn(default(integer(0..7), 5))] pub f0: u8,
    #[asn(optional(integer(0..7)))] pub f1: Option<u8>,
    #[asn(optional(integer(0..7)))] pub f2: Option<u8>,
    #[asn(optional(integer(0..7)))] pub f3: Option<u8>,
    #[asn(default(integer(0..7), 5))] pub f4: u8,
}

impl Ts5dooode4 {
    pub const fn f0_min() -> u8 {
        0
    }

    pub const fn f0_max() -> u8 {
        7
    }

    pub const fn f1_min() -> u8 {
        0
    }

    pub const fn f1_max() -> u8 {
        7
    }

    pub const fn f2_min() -> u8 {
        0
    }

    pub const fn f2_max() -> u8 {
        7
    }

    pub const fn f3_min() -> u8 {
        0
    }

    pub const fn f3_max() -> u8 {
        7
    }

    pub const fn f4_min() -> u8 {
        0
    }

    pub const fn f4_max() -> u8 {
        7
    }
}

#[asn(sequence, extensible_after(f4))]

#[derive(Default, Debug, Clone, PartialEq, Hash)]
pub struct Ts5dooode5 {
    #[asn(default(integer(0..7), 5))] pub f0: u8,
    #[asn(optional(integer(0..7)))] pub f1: Option<u8>,
    #[asn(optional(integer(0..7)))] pub f2: Option<u8>,
    #[asn(optional(integer(0..7)))] pub f3: Option<u8>,
    #[asn(default(integer(0..7), 5))] pub f4: u8,
}

impl Ts5dooode5 {
    pub const fn f0_min() -> u8 {
        0
    }

    pub const fn f0_max() -> u8 {
        7
    }

    pub const fn f1_min() -> u8 {
        0
    }

    pub const fn f1_max() -> u8 {
        7
    }

    pub const fn f2_min() -> u8 {
        0
    }

    pub const fn f2_max() -> u8 {
        7
    }

    pub const fn f3_min() -> u8 {
        0
    }

    pub const fn f3_max() -> u8 {
        7
    }

    pub const fn f4_min() -> u8 {
        0
    }

    pub const fn f4_max() -> u8 {
        7
    }
}

#[asn(sequence)]

#[derive(Default, Debug, Clone, PartialEq, Hash)]
pub struct Ts5mdoodn {
    #[asn(integer(0..7))] pub f0: u8,
    #[asn(default(integer(0..7), 5))] pub f1: u8,
    #[asn(optional(integer(0..7)))] pub f2: Option<u8>,
    #[asn(optional(integer(0..7)))] pub f3: Option<u8>,
    #[asn(default(integer(0..7), 5))] pub f4: u8,
}

impl Ts5mdoodn {
    pub const fn f0_min() -> u8 {
        0
    }

    pub const fn f0_max() -> u8 {
        7
    }

    pub const fn f1_min() -> u8 {
        0
    }

    pub const fn f1_max() -> u8 {
        7
    }

    pub const fn f2_min() -> u8 {
        0
    }

    pub const fn f2_max() -> u8 {
        7
    }

    pub const fn f3_min() -> u8 {
        0
    }

    pub const fn f3_max() -> u8 {
        7
    }

    pub const fn f4_min() -> u8 {
        0
    }

    pub const fn f4_max() -> u8 {
        7
    }
}

#[asn(sequence, extensible_after(f0))]

#[derive(Default, Debug, Clone, PartialEq, Hash)]
pub struct Ts5mdoode0 {
    #[asn(integer(0..7))] pub f0: u8,
    #[asn(default(integer(0..7), 5))] pub f1: u8,
    #[asn(optional(integer(0..7)))] pub f2: Option<u8>,
    #[asn(optional(integer(0..7)))] pub f3: Option<u8>,
    #[asn(default(integer(0..7), 5))] pub f4: u8,
}

impl Ts5mdoode0 {
    pub const fn f0_min() -> u8 {
        0
    }

    pub const fn f0_max() -> u8 {
        7
    }

    pub const fn f1_min() -> u8 {
        0
    }

    pub const fn f1_max() -> u8 {
        7
    }

    pub const fn f2_min() -> u8 {
        0
    }

    pub const fn f2_max() -> u8 {
        7
    }

    pub const fn f3_min() -> u8 {
        0
    }

    pub const fn f3_max() -> u8 {
        7
    }

    pub const fn f4_min() -> u8 {
        0
    }

    pub const fn f4_max() -> u8 {
        7
    }
}

#[asn(sequence, extensible_after(f0))]

#[derive(Default, Debug, Clone, PartialEq, Hash)]
pub struct Ts5mdoode1 {
    #[asn(integer(0..7))] pub f0: u8,
    #[asn(default(integer(0..7), 5))] pub f1: u8,
    #[asn(optional(integer(0..7)))] pub f2: Option<u8>,
    #[asn(optional(integer(0..7)))] pub f3: Option<u8>,
    #[asn(default(integer(0..7), 5))] pub f4: u8,
}

impl Ts5mdoode1 {
    pub const fn f0_min() -> u8 {
        0
    }

    pub const fn f0_max() -> u8 {
        7
    }

    pub const fn f1_min() -> u8 {
        0
    }

    pub const fn f1_max() -> u8 {
        7
    }

    pub const fn f2_min() -> u8 {
        0
    }

    pub const fn f2_max() -> u8 {
        7
    }

    pub const fn f3_min() -> u8 {
        0
    }

    pub const fn f3_max() -> u8 {
        7
    }

    pub const fn f4_min() -> u8 {
        0
    }

    pub const fn f4_max() -> u8 {
        7
    }
}

#[asn(sequence, extensible_after(f1))]

#[derive(Default, Debug, Clone, PartialEq, Hash)]
pub struct Ts5mdoode2 {
    #[asn(integer(0..7))] pub f0: u8,
    #[asn(default(integer(0..7), 5))] pub f1: u8,
    #[asn(optional(integer(0..7)))] pub f2: Option<u8>,
    #[asn(optional(integer(0..7)))] pub f3: Option<u8>,
    #[asn(default(integer(0..7), 5))] pub f4: u8,
}

impl Ts5mdoode2 {
    pub const fn f0_min() -> u8 {
        0
    }

    pub const fn f0_max() -> u8 {
        7
    }

    pub const fn f1_min() -> u8 {
        0
    }

    pub const fn f1_max() -> u8 {
        7
    }

    pub const fn f2_min() -> u8 {
        0
    }

    pub const fn f2_max() -> u8 {
        7
    }

    pub const fn f3_min() -> u8 {
        0
    }

    pub const fn f3_max() -> u8 {
        7
    }

    pub const fn f4_min() -> u8 {
        0
    }

    pub const fn f4_max() -> u8 {
        7
    }
}

#[asn(sequence, extensible_after(f2))]

#[derive(Default, Debug, Clone, PartialEq, Hash)]
pub struct Ts5mdoode3 {
    #[asn(integer(0..7))] pub f0: u8,
    #[asn(default(integer(0..7), 5))] pub f1: u8,
    #[asn(optional(integer(0..7)))] pub f2: Option<u8>,
    #[asn(optional(integer(0..7)))] pub f3: Option<u8>,
    #[asn(default(integer(0..7), 5))] pub f4: u8,
}

impl Ts5mdoode3 {
    pub const fn f0_min() -> u8 {
        0
    }

    pub const fn f0_max() -> u8 {
        7
    }

    pub const fn f1_min() -> u8 {
        0
    }

    pub const fn f1_max() -> u8 {
        7
    }

    pub const fn f2_min() -> u8 {
        0
    }

    pub const fn f2_max() -> u8 {
        7
    }

    pub const fn f3_min() -> u8 {
        0
    }

    pub const fn f3_max() -> u8 {
        7
    }

    pub const fn f4_min() -> u8 {
        0
    }

    pub const fn f4_max() -> u8 {
        7
    }
}

#[asn(sequence, extensible_after(f3))]

#[derive(Default, Debug, Clone, PartialEq, Hash)]
pub struct Ts5mdoode4 {
    #[asn(integer(0..7))] pub f0: u8,
    #[asn(default(integer(0..7), 5))] pub f1: u8,
    #[asn(optional(integer(0..7)))] pub f2: Option<u8>,
    #[asn(optional(integer(0..7)))] pub f3: Option<u8>,
    #[asn(default(integer(0..7), 5))] pub f4: u8,
}

impl Ts5mdoode4 {
    pub const fn f0_min() -> u8 {
        0
    }

    pub const fn f0_max() -> u8 {
        7
    }

    pub const fn f1_min() -> u8 {
        0
    }

    pub const fn f1_max() -> u8 {
        7
    }

    pub const fn f2_min() -> u8 {
        0
    }

    pub const fn f2_max() -> u8 {
        7
    }

    pub const fn f3_min() -> u8 {
        0
    }

    pub const fn f3_max() -> u8 {
        7
    }

    pub const fn f4_min() -> u8 {
        0
    }

    pub const fn f4_max() -> u8 {
        7
    }
}

#[asn(sequence, extensible_after(f4))]

#[derive(Default, Debug, Clone, PartialEq, Hash)]
pub struct Ts5mdoode5 {
    #[asn(integer(0..7))] pub f0: u8,
    #[asn(default(integer(0..7), 5))] pub f1: u8,
    #[asn(optional(integer(0..7)))] pub f2: Option<u8>,
    #[asn(optional(integer(0..7)))] pub f3: Option<u8>,
    #[asn(default(integer(0..7), 5))] pub f4: u8,
}

impl Ts5mdoode5 {
    pub const fn f0_min() -> u8 {
        0
    }

    pub const fn f0_max() -> u8 {
        7
    }

    pub const fn f1_min() -> u8 {
        0
    }

    pub const fn f1_max() -> u8 {
        7
    }

    pub const fn f2_min() -> u8 {
        0
    }

    pub const fn f2_max() -> u8 {
        7
    }

    pub const fn f3_min() -> u8 {
        0
    }

    pub const fn f3_max() -> u8 {
        7
    }

    pub const fn f4_min() -> u8 {
        0
    }

    pub const fn f4_max() -> u8 {
        7
    }
}

#[asn(sequence)]

#[derive(Default, Debug, Clone, PartialEq, Hash)]
pub struct Ts5odoodn {
    #[asn(optional(integer(0..7)))] pub f0: Option<u8>,
    #[asn(default(integer(0..7), 5))] pub f1: u8,
    #[asn(optional(integer(0..7)))] pub f2: Option<u8>,
    #[asn(optional(integer(0..7)))] pub f3: Option<u8>,
    #[asn(default(integer(0..7), 5))] pub f4: u8,
}

impl Ts5odoodn {
    pub const fn f0_min() -> u8 {
        0
    }

    pub const fn f0_max() -> u8 {
        7
    }

    pub const fn f1_min() -> u8 {
        0
    }

    pub const fn f1_max() -> u8 {
        7
    }

    pub const fn f2_min() -> u8 {
        0
    }

    pub const fn f2_max() -> u8 {
        7
    }

    pub const fn f3_min() -> u8 {
        0
    }

    pub const fn f3_max() -> u8 {
        7
    }

    pub const fn f4_min() -> u8 {
        0
    }

    pub const fn f4_max() -> u8 {
        7
    }
}

#[asn(sequence, extensible_after(f0))]

#[derive(Default, Debug, Clone, PartialEq, Hash)]
pub struct Ts5odoode0 {
    #[asn(optional(integer(0..7)))] pub f0: Option<u8>,
    #[asn(default(integer(0..7), 5))] pub f1: u8,
    #[asn(optional(integer(0..7)))] pub f2: Option<u8>,
    #[asn(optional(integer(0..7)))] pub f3: Option<u8>,
    #[asn(default(integer(0..7), 5))] pub f4: u8,
}

impl Ts5odoode0 {
    pub const fn f0_min() -> u8 {
        0
    }

    pub const fn f0_max() -> u8 {
        7
    }

    pub const fn f1_min() -> u8 {
        0
    }

    pub const fn f1_max() -> u8 {
        7
    }

    pub const fn f2_min() -> u8 {
        0
    }

    pub const fn f2_max() -> u8 {
        7
    }

    pub const fn f3_min() -> u8 {
        0
    }

    pub const fn f3_max() -> u8 {
        7
    }

    pub const fn f4_min() -> u8 {
        0
    }

    pub const fn f4_max() -> u8 {
        7
    }
}

#[asn(sequence, extensible_after(f0))]

#[derive(Default, Debug, Clone, PartialEq, Hash)]
pub struct Ts5odoode1 {
    #[asn(optional(integer(0..7)))] pub f0: Option<u8>,
    #[asn(default(integer(0..7), 5))] pub f1: u8,
    #[asn(optional(integer(0..7)))] pub f2: Option<u8>,
    #[asn(optional(integer(0..7)))] pub f3: Option<u8>,
    #[asn(default(integer(0..7), 5))] pub f4: u8,
}

impl Ts5odoode1 {
    pub const fn f0_min() -> u8 {
        0
    }

    pub const fn f0_max() -> u8 {
        7
    }

    pub const fn f1_min() -> u8 {
        0
    }

    pub const fn f1_max() -> u8 {
        7
    }

    pub const fn f2_min() -> u8 {
        0
    }

    pub const fn f2_max() -> u8 {
        7
    }

    pub const fn f3_min() -> u8 {
        0
    }

    pub const fn f3_max() -> u8 {
        7
    }

    pub const fn f4_min() -> u8 {
        0
    }

    pub const fn f4_max() -> u8 {
        7
    }
}

#[asn(sequence, extensible_after(f1))]

#[derive(Default, Debug, Clone, PartialEq, Hash)]
pub struct Ts5odoode2 {
    #[asn(optional(integer(0..7)))] pub f0: Option<u8>,
    #[asn(default(integer(0..7), 5))] pub f1: u8,
    #[asn(optional(integer(0..7)))] pub f2: Option<u8>,
    #[asn(optional(integer(0..7)))] pub f3: Option<u8>,
    #[asn(default(integer(0..7), 5))] pub f4: u8,
}

impl Ts5odoode2 {
    pub const fn f0_min() -> u8 {
        0
    }

    pub const fn f0_max() -> u8 {
        7
    }

    pub const fn f1_min() -> u8 {
        0
    }

    pub const fn f1_max() -> u8 {
        7
    }

    pub const fn f2_min() -> u8 {
        0
    }

    pub const fn f2_max() -> u8 {
        7
    }

    pub const fn f3_min() -> u8 {
        0
    }

    pub const fn f3_max() -> u8 {
        7
    }

    pub const fn f4_min() -> u8 {
        0
    }

    pub const fn f4_max() -> u8 {
        7
    }
}

#[asn(sequence, extensible_after(f2))]

#[derive(Default, Debug, Clone, PartialEq, Hash)]
pub struct Ts5odoode3 {
    #[asn(optional(integer(0..7)))] pub f0: Option<u8>,
    #[asn(default(integer(0..7), 5))] pub f1: u8,
    #[asn(optional(integer(0..7)))] pub f2: Option<u8>,
    #[asn(optional(integer(0..7)))] pub f3: Option<u8>,
    #[asn(default(integer(0..7), 5))] pub f4: u8,
}

impl Ts5odoode3 {
    pub const fn f0_min() -> u8 {
        0
    }

    pub const fn f0_max() -> u8 {
        7
    }

    pub const fn f1_min() -> u8 {
        0
    }

    pub const fn f1_max() -> u8 {
        7
    }

    pub const fn f2_min() -> u8 {
        0
    }

    pub const fn f2_max() -> u8 {
        7
    }

    pub const fn f3_min() -> u8 {
        0
    }

    pub const fn f3_max() -> u8 {
        7
    }

    pub const fn f4_min() -> u8 {
        0
    }

    pub const fn f4_max() -> u8 {
        7
    }
}
// ---- harness conversions (generated by the zoo build script from the items above) ----
impl FromValue for Ts5dddmde3 {
    fn from_value(v: &Value) -> Self {
        let s = match v { Value::Seq(s) => s, other => panic!("Ts5dddmde3: expected Seq, got {other:?}") };
        assert_eq!(s.len(), 5, "Ts5dddmde3: component count");
        let _ = s;
        Ts5dddmde3 {
            f0: FromValue::from_value(s[0].as_ref().expect("component f0 of Ts5dddmde3 must be present")),
            f1: FromValue::from_value(s[1].as_ref().expect("component f1 of Ts5dddmde3 must be present")),
            f2: FromValue::from_value(s[2].as_ref().expect("component f2 of Ts5dddmde3 must be present")),
            f3: s[3].as_ref().map(FromValue::from_value),
            f4: FromValue::from_value(s[4].as_ref().expect("component f4 of Ts5dddmde3 must be present")),
        }
    }
}
impl ToValue for Ts5dddmde3 {
    fn to_value(&self) -> Value {
        Value::Seq(vec![
            Some(self.f0.to_value()),
            Some(self.f1.to_value()),
            Some(self.f2.to_value()),
            self.f3.as_ref().map(|x| x.to_value()),
            Some(self.f4.to_value()),
        ])
    }
}
impl FromValue for Ts5dddmde4 {
    fn from_value(v: &Value) -> Self {
        let s = match v { Value::Seq(s) => s, other => panic!("Ts5dddmde4: expected Seq, got {other:?}") };
        assert_eq!(s.len(), 5, "Ts5dddmde4: component count");
        let _ = s;
        Ts5dddmde4 {
            f0: FromValue::from_value(s[0].as_ref().expect("component f0 of Ts5dddmde4 must be present")),
            f1: FromValue::from_value(s[1].as_ref().expect("component f1 of Ts5dddmde4 must be present")),
            f2: FromValue::from_value(s[2].as_ref().expect("component f2 of Ts5dddmde4 must be present")),
            f3: FromValue::from_value(s[3].as_ref().expect("component f3 of Ts5dddmde4 must be present")),
            f4: FromValue::from_value(s[4].as_ref().expect("component f4 of Ts5dddmde4 must be present")),
        }
    }
}
impl ToValue for Ts5dddmde4 {
    fn to_value(&self) -> Value {
        Value::Seq(vec![
            Some(self.f0.to_value()),
            Some(self.f1.to_value()),
            Some(self.f2.to_value()),
            Some(self.f3.to_value()),
            Some(self.f4.to_value()),
        ])
    }
}
impl FromValue for Ts5dddmde5 {
    fn from_value(v: &Value) -> Self {
        let s = match v { Value::Seq(s) => s, other => panic!("Ts5dddmde5: expected Seq, got {other:?}") };
        assert_eq!(s.len(), 5, "Ts5dddmde5: component count");
        let _ = s;
        Ts5dddmde5 {
            f0: FromValue::from_value(s[0].as_ref().expect("component f0 of Ts5dddmde5 must be present")),
            f1: FromValue::from_value(s[1].as_ref().expect("component f1 of Ts5dddmde5 must be present")),
            f2: FromValue::from_value(s[2].as_ref().expect("component f2 of Ts5dddmde5 must be present")),
            f3: FromValue::from_value(s[3].as_ref().expect("component f3 of Ts5dddmde5 must be present")),
            f4: FromValue::from_value(s[4].as_ref().expect("component f4 of Ts5dddmde5 must be present")),
        }
    }
}
impl ToValue for Ts5dddmde5 {
    fn to_value(&self) -> Value {
        Value::Seq(vec![
            Some(self.f0.to_value()),
            Some(self.f1.to_value()),
            Some(self.f2.to_value()),
            Some(self.f3.to_value()),
            Some(self.f4.to_value()),
        ])
    }
}
impl FromValue for Ts5mmmodn {
    fn from_value(v: &Value) -> Self {
        let s = match v { Value::Seq(s) => s, other => panic!("Ts5mmmodn: expected Seq, got {other:?}") };
        assert_eq!(s.len(), 5, "Ts5mmmodn: component count");
        let _ = s;
        Ts5mmmodn {
            f0: FromValue::from_value(s[0].as_ref().expect("component f0 of Ts5mmmodn must be present")),
            f1: FromValue::from_value(s[1].as_ref().expect("component f1 of Ts5mmmodn must be present")),
            f2: FromValue::from_value(s[2].as_ref().expect("component f2 of Ts5mmmodn must be present")),
            f3: s[3].as_ref().map(FromValue::from_value),
            f4: FromValue::from_value(s[4].as_ref().expect("component f4 of Ts5mmmodn must be present")),
        }
    }
}
impl ToValue for Ts5mmmodn {
    fn to_value(&self) -> Value {
        Value::Seq(vec![
            Some(self.f0.to_value()),
            Some(self.f1.to_value()),
            Some(self.f2.to_value()),
            self.f3.as_ref().map(|x| x.to_value()),
            Some(self.f4.to_value()),
        ])
    }
}
impl FromValue for Ts5mmmode0 {
    fn from_value(v: &Value) -> Self {
        let s = match v { Value::Seq(s) => s, other => panic!("Ts5mmmode0: expected Seq, got {other:?}") };
        assert_eq!(s.len(), 5, "Ts5mmmode0: component count");
        let _ = s;
        Ts5mmmode0 {
            f0: FromValue::from_value(s[0].as_ref().expect("component f0 of Ts5mmmode0 must be present")),
            f1: s[1].as_ref().map(FromValue::from_value),
            f2: s[2].as_ref().map(FromValue::from_value),
            f3: s[3].as_ref().map(FromValue::from_value),
            f4: FromValue::from_value(s[4].as_ref().expect("component f4 of Ts5mmmode0 must be present")),
        }
    }
}
impl ToValue for Ts5mmmode0 {
    fn to_value(&self) -> Value {
        Value::Seq(vec![
            Some(self.f0.to_value()),
            self.f1.as_ref().map(|x| x.to_value()),
            self.f2.as_ref().map(|x| x.to_value()),
            self.f3.as_ref().map(|x| x.to_value()),
            Some(self.f4.to_value()),
        ])
    }
}
impl FromValue for Ts5mmmode1 {
    fn from_value(v: &Value) -> Self {
        let s = match v { Value::Seq(s) => s, other => panic!("Ts5mmmode1: expected Seq, got {other:?}") };
        assert_eq!(s.len(), 5, "Ts5mmmode1: component count");
        let _ = s;
        Ts5mmmode1 {
            f0: FromValue::from_value(s[0].as_ref().expect("component f0 of Ts5mmmode1 must be present")),
            f1: s[1].as_ref().map(FromValue::from_value),
            f2: s[2].as_ref().map(FromValue::from_value),
            f3: s[3].as_ref().map(FromValue::from_value),
            f4: FromValue::from_value(s[4].as_ref().expect("component f4 of Ts5mmmode1 must be present")),
        }
    }
}
impl ToValue for Ts5mmmode1 {
    fn to_value(&self) -> Value {
        Value::Seq(vec![
            Some(self.f0.to_value()),
            self.f1.as_ref().map(|x| x.to_value()),
            self.f2.as_ref().map(|x| x.to_value()),
            self.f3.as_ref().map(|x| x.to_value()),
            Some(self.f4.to_value()),
        ])
    }
}
impl FromValue for Ts5mmmode2 {
    fn from_value(v: &Value) -> Self {
        let s = match v { Value::Seq(s) => s, other => panic!("Ts5mmmode2: expected Seq, got {other:?}") };
        assert_eq!(s.len(), 5, "Ts5mmmode2: component count");
        let _ = s;
        Ts5mmmode2 {
            f0: FromValue::from_value(s[0].as_ref().expect("component f0 of Ts5mmmode2 must be present")),
            f1: FromValue::from_value(s[1].as_ref().expect("component f1 of Ts5mmmode2 must be present")),
            f2: s[2].as_ref().map(FromValue::from_value),
            f3: s[3].as_ref().map(FromValue::from_value),
            f4: FromValue::from_value(s[4].as_ref().expect("component f4 of Ts5mmmode2 must be present")),
        }
    }
}
impl ToValue for Ts5mmmode2 {
    fn to_value(&self) -> Value {
        Value::Seq(vec![
            Some(self.f0.to_value()),
            Some(self.f1.to_value()),
            self.f2.as_ref().map(|x| x.to_value()),
            self.f3.as_ref().map(|x| x.to_value()),
            Some(self.f4.to_value()),
        ])
    }
}
impl FromValue for Ts5mmmode3 {
    fn from_value(v: &Value) -> Self {
        let s = match v { Value::Seq(s) => s, other => panic!("Ts5mmmode3: expected Seq, got {other:?}") };
        assert_eq!(s.len(), 5, "Ts5mmmode3: component count");
        let _ = s;
        Ts5mmmode3 {
            f0: FromValue::from_value(s[0].as_ref().expect("component f0 of Ts5mmmode3 must be present")),
            f1: FromValue::from_value(s[1].as_ref().expect("component f1 of Ts5mmmode3 must be present")),
            f2: FromValue::from_value(s[2].as_ref().expect("component f2 of Ts5mmmode3 must be present")),
            f3: s[3].as_ref().map(FromValue::from_value),
            f4: FromValue::from_value(s[4].as_ref().expect("component f4 of Ts5mmmode3 must be present")),
        }
    }
}
impl ToValue for Ts5mmmode3 {
    fn to_value(&self) -> Value {
        Value::Seq(vec![
            Some(self.f0.to_value()),
            Some(self.f1.to_value()),
            Some(self.f2.to_value()),
            self.f3.as_ref().map(|x| x.to_value()),
            Some(self.f4.to_value()),
        ])
    }
}
impl FromValue for Ts5mmmode4 {
    fn from_value(v: &Value) -> Self {
        let s = match v { Value::Seq(s) => s, other => panic!("Ts5mmmode4: expected Seq, got {other:?}") };
        assert_eq!(s.len(), 5, "Ts5mmmode4: component count");
        let _ = s;
        Ts5mmmode4 {
            f0: FromValue::from_value(s[0].as_ref().expect("component f0 of Ts5mmmode4 must be present")),
            f1: FromValue::from_value(s[1].as_ref().expect("component f1 of Ts5mmmode4 must be present")),
            f2: FromValue::from_value(s[2].as_ref().expect("component f2 of Ts5mmmode4 must be present")),
            f3: s[3].as_ref().map(FromValue::from_value),
            f4: FromValue::from_value(s[4].as_ref().expect("component f4 of Ts5mmmode4 must be present")),
        }
    }
}
impl ToValue for Ts5mmmode4 {
    fn to_value(&self) -> Value {
        Value::Seq(vec![
            Some(self.f0.to_value()),
            Some(self.f1.to_value()),
            Some(self.f2.to_value()),
            self.f3.as_ref().map(|x| x.to_value()),
            Some(self.f4.to_value()),
        ])
    }
}
impl FromValue for Ts5mmmode5 {
    fn from_value(v: &Value) -> Self {
        let s = match v { Value::Seq(s) => s, other => panic!("Ts5mmmode5: expected Seq, got {other:?}") };
        assert_eq!(s.len(), 5, "Ts5mmmode5: component count");
        let _ = s;
        Ts5mmmode5 {
            f0: FromValue::from_value(s[0].as_ref().expect("component f0 of Ts5mmmode5 must be present")),
            f1: FromValue::from_value(s[1].as_ref().expect("component f1 of Ts5mmmode5 must be present")),
            f2: FromValue::from_value(s[2].as_ref().expect("component f2 of Ts5mmmode5 must be present")),
            f3: s[3].as_ref().map(FromValue::from_value),
            f4: FromValue::from_value(s[4].as_ref().expect("component f4 of Ts5mmmode5 must be present")),
        }
    }
}
impl ToValue for Ts5mmmode5 {
    fn to_value(&self) -> Value {
        Value::Seq(vec![
            Some(self.f0.to_value()),
            Some(self.f1.to_value()),
            Some(self.f2.to_value()),
            self.f3.as_ref().map(|x| x.to_value()),
            Some(self.f4.to_value()),
        ])
    }
}
impl FromValue for Ts5ommodn {
    fn from_value(v: &Value) -> Self {
        let s = match v { Value::Seq(s) => s, other => panic!("Ts5ommodn: expected Seq, got {other:?}") };
        assert_eq!(s.len(), 5, "Ts5ommodn: component count");
        let _ = s;
        Ts5ommodn {
            f0: s[0].as_ref().map(FromValue::from_value),
            f1: FromValue::from_value(s[1].as_ref().expect("component f1 of Ts5ommodn must be present")),
            f2: FromValue::from_value(s[2].as_ref().expect("component f2 of Ts5ommodn must be present")),
            f3: s[3].as_ref().map(FromValue::from_value),
            f4: FromValue::from_value(s[4].as_ref().expect("component f4 of Ts5ommodn must be present")),
        }
    }
}
impl ToValue for Ts5ommodn {
    fn to_value(&self) -> Value {
        Value::Seq(vec![
            self.f0.as_ref().map(|x| x.to_value()),
            Some(self.f1.to_value()),
            Some(self.f2.to_value()),
            self.f3.as_ref().map(|x| x.to_value()),
            Some(self.f4.to_value()),
        ])
    }
}
impl FromValue for Ts5ommode0 {
    fn from_value(v: &Value) -> Self {
        let s = match v { Value::Seq(s) => s, other => panic!("Ts5ommode0: expected Seq, got {other:?}") };
        assert_eq!(s.len(), 5, "Ts5ommode0: component count");
        let _ = s;
        Ts5ommode0 {
            f0: s[0].as_ref().map(FromValue::from_value),
            f1: s[1].as_ref().map(FromValue::from_value),
            f2: s[2].as_ref().map(FromValue::from_value),
            f3: s[3].as_ref().map(FromValue::from_value),
            f4: FromValue::from_value(s[4].as_ref().expect("component f4 of Ts5ommode0 must be present")),
        }
    }
}
impl ToValue for Ts5ommode0 {
    fn to_value(&self) -> Value {
        Value::Seq(vec![
            self.f0.as_ref().map(|x| x.to_value()),
            self.f1.as_ref().map(|x| x.to_value()),
            self.f2.as_ref().map(|x| x.to_value()),
            self.f3.as_ref().map(|x| x.to_value()),
            Some(self.f4.to_value()),
        ])
    }
}
impl FromValue for Ts5ommode1 {
    fn from_value(v: &Value) -> Self {
        let s = match v { Value::Seq(s) => s, other => panic!("Ts5ommode1: expected Seq, got {other:?}") };
        assert_eq!(s.len(), 5, "Ts5ommode1: component count");
        let _ = s;
        Ts5ommode1 {
            f0: s[0].as_ref().map(FromValue::from_value),
            f1: s[1].as_ref().map(FromValue::from_value),
            f2: s[2].as_ref().map(FromValue::from_value),
            f3: s[3].as_ref().map(FromValue::from_value),
            f4: FromValue::from_value(s[4].as_ref().expect("component f4 of Ts5ommode1 must be present")),
        }
    }
}
impl ToValue for Ts5ommode1 {
    fn to_value(&self) -> Value {
        Value::Seq(vec![
            self.f0.as_ref().map(|x| x.to_value()),
            self.f1.as_ref().map(|x| x.to_value()),
            self.f2.as_ref().map(|x| x.to_value()),
            self.f3.as_ref().map(|x| x.to_value()),
            Some(self.f4.to_value()),
        ])
    }
}
impl FromValue for Ts5ommode2 {
    fn from_value(v: &Value) -> Self {
        let s = match v { Value::Seq(s) => s, other => panic!("Ts5ommode2: expected Seq, got {other:?}") };
        assert_eq!(s.len(), 5, "Ts5ommode2: component count");
        let _ = s;
        Ts5ommode2 {
            f0: s[0].as_ref().map(FromValue::from_value),
            f1: FromValue::from_value(s[1].as_ref().expect("component f1 of Ts5ommode2 must be present")),
            f2: s[2].as_ref().map(FromValue::from_value),
            f3: s[3].as_ref().map(FromValue::from_value),
            f4: FromValue::from_value(s[4].as_ref().expect("component f4 of Ts5ommode2 must be present")),
        }
    }
}
impl ToValue for Ts5ommode2 {
    fn to_value(&self) -> Value {
        Value::Seq(vec![
            self.f0.as_ref().map(|x| x.to_value()),
            Some(self.f1.to_value()),
            self.f2.as_ref().map(|x| x.to_value()),
            self.f3.as_ref().map(|x| x.to_value()),
            Some(self.f4.to_value()),
        ])
    }
}
impl FromValue for Ts5ommode3 {
    fn from_value(v: &Value) -> Self {
        let s = match v { Value::Seq(s) => s, other => panic!("Ts5ommode3: expected Seq, got {other:?}") };
        assert_eq!(s.len(), 5, "Ts5ommode3: component count");
        let _ = s;
        Ts5ommode3 {
            f0: s[0].as_ref().map(FromValue::from_value),
            f1: FromValue::from_value(s[1].as_ref().expect("component f1 of Ts5ommode3 must be present")),
            f2: FromValue::from_value(s[2].as_ref().expect("component f2 of Ts5ommode3 must be present")),
            f3: s[3].as_ref().map(FromValue::from_value),
            f4: FromValue::from_value(s[4].as_ref().expect("component f4 of Ts5ommode3 must be present")),
        }
    }
}
impl ToValue for Ts5ommode3 {
    fn to_value(&self) -> Value {
        Value::Seq(vec![
            self.f0.as_ref().map(|x| x.to_value()),
            Some(self.f1.to_value()),
            Some(self.f2.to_value()),
            self.f3.as_ref().map(|x| x.to_value()),
            Some(self.f4.to_value()),
        ])
    }
}
impl FromValue for Ts5ommode4 {
    fn from_value(v: &Value) -> Self {
        let s = match v { Value::Seq(s) => s, other => panic!("Ts5ommode4: expected Seq, got {other:?}") };
        assert_eq!(s.len(), 5, "Ts5ommode4: component count");
        let _ = s;
        Ts5ommode4 {
            f0: s[0].as_ref().map(FromValue::from_value),
            f1: FromValue::from_value(s[1].as_ref().expect("component f1 of Ts5ommode4 must be present")),
            f2: FromValue::from_value(s[2].as_ref().expect("component f2 of Ts5ommode4 must be present")),
            f3: s[3].as_ref().map(FromValue::from_value),
            f4: FromValue::from_value(s[4].as_ref().expect("component f4 of Ts5ommode4 must be present")),
        }
    }
}
impl ToValue for Ts5ommode4 {
    fn to_value(&self) -> Value {
        Value::Seq(vec![
            self.f0.as_ref().map(|x| x.to_value()),
            Some(self.f1.to_value()),
            Some(self.f2.to_value()),
            self.f3.as_ref().map(|x| x.to_value()),
            Some(self.f4.to_value()),
        ])
    }
}
impl FromValue for Ts5ommode5 {
    fn from_value(v: &Value) -> Self {
        let s = match v { Value::Seq(s) => s, other => panic!("Ts5ommode5: expected Seq, got {other:?}") };
        assert_eq!(s.len(), 5, "Ts5ommode5: component count");
        let _ = s;
        Ts5ommode5 {
            f0: s[0].as_ref().map(FromValue::from_value),
            f1: FromValue::from_value(s[1].as_ref().expect("component f1 of Ts5ommode5 must be present")),
            f2: FromValue::from_value(s[2].as_ref().expect("component f2 of Ts5ommode5 must be present")),
            f3: s[3].as_ref().map(FromValue::from_value),
            f4: FromValue::from_value(s[4].as_ref().expect("component f4 of Ts5ommode5 must be present")),
        }
    }
}
impl ToValue for Ts5ommode5 {
    fn to_value(&self) -> Value {
        Value::Seq(vec![
            self.f0.as_ref().map(|x| x.to_value()),
            Some(self.f1.to_value()),
            Some(self.f2.to_value()),
            self.f3.as_ref().map(|x| x.to_value()),
            Some(self.f4.to_value()),
        ])
    }
}
impl FromValue for Ts5dmmodn {
    fn from_value(v: &Value) -> Self {
        let s = match v { Value::Seq(s) => s, other => panic!("Ts5dmmodn: expected Seq, got {other:?}") };
        assert_eq!(s.len(), 5, "Ts5dmmodn: component count");
        let _ = s;
        Ts5dmmodn {
            f0: FromValue::from_value(s[0].as_ref().expect("component f0 of Ts5dmmodn must be present")),
            f1: FromValue::from_value(s[1].as_ref().expect("component f1 of Ts5dmmodn must be present")),
            f2: FromValue::from_value(s[2].as_ref().expect("component f2 of Ts5dmmodn must be present")),
            f3: s[3].as_ref().map(FromValue::from_value),
            f4: FromValue::from_value(s[4].as_ref().expect("component f4 of Ts5dmmodn must be present")),
        }
    }
}
impl ToValue for Ts5dmmodn {
    fn to_value(&self) -> Value {
        Value::Seq(vec![
            Some(self.f0.to_value()),
            Some(self.f1.to_value()),
            Some(self.f2.to_value()),
            self.f3.as_ref().map(|x| x.to_value()),
            Some(self.f4.to_value()),
        ])
    }
}
impl FromValue for Ts5dmmode0 {
    fn from_value(v: &Value) -> Self {
        let s = match v { Value::Seq(s) => s, other => panic!("Ts5dmmode0: expected Seq, got {other:?}") };
        assert_eq!(s.len(), 5, "Ts5dmmode0: component count");
        let _ = s;
        Ts5dmmode0 {
            f0: FromValue::from_value(s[0].as_ref().expect("component f0 of Ts5dmmode0 must be present")),
            f1: s[1].as_ref().map(FromValue::from_value),
            f2: s[2].as_ref().map(FromValue::from_value),
            f3: s[3].as_ref().map(FromValue::from_value),
            f4: FromValue::from_value(s[4].as_ref().expect("component f4 of Ts5dmmode0 must be present")),
        }
    }
}
impl ToValue for Ts5dmmode0 {
    fn to_value(&self) -> Value {
        Value::Seq(vec![
            Some(self.f0.to_value()),
            self.f1.as_ref().map(|x| x.to_value()),
            self.f2.as_ref().map(|x| x.to_value()),
            self.f3.as_ref().map(|x| x.to_value()),
            Some(self.f4.to_value()),
        ])
    }
}
impl FromValue for Ts5dmmode1 {
    fn from_value(v: &Value) -> Self {
        let s = match v { Value::Seq(s) => s, other => panic!("Ts5dmmode1: expected Seq, got {other:?}") };
        assert_eq!(s.len(), 5, "Ts5dmmode1: component count");
        let _ = s;
        Ts5dmmode1 {
            f0: FromValue::from_value(s[0].as_ref().expect("component f0 of Ts5dmmode1 must be present")),
            f1: s[1].as_ref().map(FromValue::from_value),
            f2: s[2].as_ref().map(FromValue::from_value),
            f3: s[3].as_ref().map(FromValue::from_value),
            f4: FromValue::from_value(s[4].as_ref().expect("component f4 of Ts5dmmode1 must be present")),
        }
    }
}
impl ToValue for Ts5dmmode1 {
    fn to_value(&self) -> Value {
        Value::Seq(vec![
            Some(self.f0.to_value()),
            self.f1.as_ref().map(|x| x.to_value()),
            self.f2.as_ref().map(|x| x.to_value()),
            self.f3.as_ref().map(|x| x.to_value()),
            Some(self.f4.to_value()),
        ])
    }
}
impl FromValue for Ts5dmmode2 {
    fn from_value(v: &Value) -> Self {
        let s = match v { Value::Seq(s) => s, other => panic!("Ts5dmmode2: expected Seq, got {other:?}") };
        assert_eq!(s.len(), 5, "Ts5dmmode2: component count");
        let _ = s;
        Ts5dmmode2 {
            f0: FromValue::from_value(s[0].as_ref().expect("component f0 of Ts5dmmode2 must be present")),
            f1: FromValue::from_value(s[1].as_ref().expect("component f1 of Ts5dmmode2 must be present")),
            f2: s[2].as_ref().map(FromValue::from_value),
            f3: s[3].as_ref().map(FromValue::from_value),
            f4: FromValue::from_value(s[4].as_ref().expect("component f4 of Ts5dmmode2 must be present")),
        }
    }
}
impl ToValue for Ts5dmmode2 {
    fn to_value(&self) -> Value {
        Value::Seq(vec![
            Some(self.f0.to_value()),
            Some(self.f1.to_value()),
            self.f2.as_ref().map(|x| x.to_value()),
            self.f3.as_ref().map(|x| x.to_value()),
            Some(self.f4.to_value()),
        ])
    }
}
impl FromValue for Ts5dmmode3 {
    fn from_value(v: &Value) -> Self {
        let s = match v { Value::Seq(s) => s, other => panic!("Ts5dmmode3: expected Seq, got {other:?}") };
        assert_eq!(s.len(), 5, "Ts5dmmode3: component count");
        let _ = s;
        Ts5dmmode3 {
            f0: FromValue::from_value(s[0].as_ref().expect("component f0 of Ts5dmmode3 must be present")),
            f1: FromValue::from_value(s[1].as_ref().expect("component f1 of Ts5dmmode3 must be present")),
            f2: FromValue::from_value(s[2].as_ref().expect("component f2 of Ts5dmmode3 must be present")),
            f3: s[3].as_ref().map(FromValue::from_value),
            f4: FromValue::from_value(s[4].as_ref().expect("component f4 of Ts5dmmode3 must be present")),
        }
    }
}
impl ToValue for Ts5dmmode3 {
    fn to_value(&self) -> Value {
        Value::Seq(vec![
            Some(self.f0.to_value()),
            Some(self.f1.to_value()),
            Some(self.f2.to_value()),
            self.f3.as_ref().map(|x| x.to_value()),
            Some(self.f4.to_value()),
        ])
    }
}
impl FromValue for Ts5dmmode4 {
    fn from_value(v: &Value) -> Self {
        let s = match v { Value::Seq(s) => s, other => panic!("Ts5dmmode4: expected Seq, got {other:?}") };
        assert_eq!(s.len(), 5, "Ts5dmmode4: component count");
        let _ = s;
        Ts5dmmode4 {
            f0: FromValue::from_value(s[0].as_ref().expect("component f0 of Ts5dmmode4 must be present")),
            f1: FromValue::from_value(s[1].as_ref().expect("component f1 of Ts5dmmode4 must be present")),
            f2: FromValue::from_value(s[2].as_ref().expect("component f2 of Ts5dmmode4 must be present")),
            f3: s[3].as_ref().map(FromValue::from_value),
            f4: FromValue::from_value(s[4].as_ref().expect("component f4 of Ts5dmmode4 must be present")),
        }
    }
}
impl ToValue for Ts5dmmode4 {
    fn to_value(&self) -> Value {
        Value::Seq(vec![
            Some(self.f0.to_value()),
            Some(self.f1.to_value()),
            Some(self.f2.to_value()),
            self.f3.as_ref().map(|x| x.to_value()),
            Some(self.f4.to_value()),
        ])
    }
}
impl FromValue for Ts5dmmode5 {
    fn from_value(v: &Value) -> Self {
        let s = match v { Value::Seq(s) => s, other => panic!("Ts5dmmode5: expected Seq, got {other:?}") };
        assert_eq!(s.len(), 5, "Ts5dmmode5: component count");
        let _ = s;
        Ts5dmmode5 {
            f0: FromValue::from_value(s[0].as_ref().expect("component f0 of Ts5dmmode5 must be present")),
            f1: FromValue::from_value(s[1].as_ref().expect("component f1 of Ts5dmmode5 must be present")),
            f2: FromValue::from_value(s[2].as_ref().expect("component f2 of Ts5dmmode5 must be present")),
            f3: s[3].as_ref().map(FromValue::from_value),
            f4: FromValue::from_value(s[4].as_ref().expect("component f4 of Ts5dmmode5 must be present")),
        }
    }
}
impl ToValue for Ts5dmmode5 {
    fn to_value(&self) -> Value {
        Value::Seq(vec![
            Some(self.f0.to_value()),
            Some(self.f1.to_value()),
            Some(self.f2.to_value()),
            self.f3.as_ref().map(|x| x.to_value()),
            Some(self.f4.to_value()),
        ])
    }
}
impl FromValue for Ts5momodn {
    fn from_value(v: &Value) -> Self {
        let s = match v { Value::Seq(s) => s, other => panic!("Ts5momodn: expected Seq, got {other:?}") };
        assert_eq!(s.len(), 5, "Ts5momodn: component count");
        let _ = s;
        Ts5momodn {
            f0: FromValue::from_value(s[0].as_ref().expect("component f0 of Ts5momodn must be present")),
            f1: s[1].as_ref().map(FromValue::from_value),
            f2: FromValue::from_value(s[2].as_ref().expect("component f2 of Ts5momodn must be present")),
            f3: s[3].as_ref().map(FromValue::from_value),
            f4: FromValue::from_value(s[4].as_ref().expect("component f4 of Ts5momodn must be present")),
        }
    }
}
impl ToValue for Ts5momodn {
    fn to_value(&self) -> Value {
        Value::Seq(vec![
            Some(self.f0.to_value()),
            self.f1.as_ref().map(|x| x.to_value()),
            Some(self.f2.to_value()),
            self.f3.as_ref().map(|x| x.to_value()),
            Some(self.f4.to_value()),
        ])
    }
}
impl FromValue for Ts5momode0 {
    fn from_value(v: &Value) -> Self {
        let s = match v { Value::Seq(s) => s, other => panic!("Ts5momode0: expected Seq, got {other:?}") };
        assert_eq!(s.len(), 5, "Ts5momode0: component count");
        let _ = s;
        Ts5momode0 {
            f0: FromValue::from_value(s[0].as_ref().expect("component f0 of Ts5momode0 must be present")),
            f1: s[1].as_ref().map(FromValue::from_value),
            f2: s[2].as_ref().map(FromValue::from_value),
            f3: s[3].as_ref().map(FromValue::from_value),
            f4: FromValue::from_value(s[4].as_ref().expect("component f4 of Ts5momode0 must be present")),
        }
    }
}
impl ToValue for Ts5momode0 {
    fn to_value(&self) -> Value {
        Value::Seq(vec![
            Some(self.f0.to_value()),
            self.f1.as_ref().map(|x| x.to_value()),
            self.f2.as_ref().map(|x| x.to_value()),
            self.f3.as_ref().map(|x| x.to_value()),
            Some(self.f4.to_value()),
        ])
    }
}
impl FromValue for Ts5momode1 {
    fn from_value(v: &Value) -> Self {
        let s = match v { Value::Seq(s) => s, other => panic!("Ts5momode1: expected Seq, got {other:?}") };
        assert_eq!(s.len(), 5, "Ts5momode1: component count");
        let _ = s;
        Ts5momode1 {
            f0: FromValue::from_value(s[0].as_ref().expect("component f0 of Ts5momode1 must be present")),
            f1: s[1].as_ref().map(FromValue::from_value),
            f2: s[2].as_ref().map(FromValue::from_value),
            f3: s[3].as_ref().map(FromValue::from_value),
            f4: FromValue::from_value(s[4].as_ref().expect("component f4 of Ts5momode1 must be present")),
        }
    }
}
impl ToValue for Ts5momode1 {
    fn to_value(&self) -> Value {
        Value::Seq(vec![
            Some(self.f0.to_value()),
            self.f1.as_ref().map(|x| x.to_value()),
            self.f2.as_ref().map(|x| x.to_value()),
            self.f3.as_ref().map(|x| x.to_value()),
            Some(self.f4.to_value()),
        ])
    }
}
impl FromValue for Ts5momode2 {
    fn from_value(v: &Value) -> Self {
        let s = match v { Value::Seq(s) => s, other => panic!("Ts5momode2: expected Seq, got {other:?}") };
        assert_eq!(s.len(), 5, "Ts5momode2: component count");
        let _ = s;
        Ts5momode2 {
            f0: FromValue::from_value(s[0].as_ref().expect("component f0 of Ts5momode2 must be present")),
            f1: s[1].as_ref().map(FromValue::from_value),
            f2: s[2].as_ref().map(FromValue::from_value),
            f3: s[3].as_ref().map(FromValue::from_value),
            f4: FromValue::from_value(s[4].as_ref().expect("component f4 of Ts5momode2 must be present")),
        }
    }
}
impl ToValue for Ts5momode2 {
    fn to_value(&self) -> Value {
        Value::Seq(vec![
            Some(self.f0.to_value()),
            self.f1.as_ref().map(|x| x.to_value()),
            self.f2.as_ref().map(|x| x.to_value()),
            self.f3.as_ref().map(|x| x.to_value()),
            Some(self.f4.to_value()),
        ])
    }
}
impl FromValue for Ts5momode3 {
    fn from_value(v: &Value) -> Self {
        let s = match v { Value::Seq(s) => s, other => panic!("Ts5momode3: expected Seq, got {other:?}") };
        assert_eq!(s.len(), 5, "Ts5momode3: component count");
        let _ = s;
        Ts5momode3 {
            f0: FromValue::from_value(s[0].as_ref().expect("component f0 of Ts5momode3 must be present")),
            f1: s[1].as_ref().map(FromValue::from_value),
            f2: FromValue::from_value(s[2].as_ref().expect("component f2 of Ts5momode3 must be present")),
            f3: s[3].as_ref().map(FromValue::from_value),
            f4: FromValue::from_value(s[4].as_ref().expect("component f4 of Ts5momode3 must be present")),
        }
    }
}
impl ToValue for Ts5momode3 {
    fn to_value(&self) -> Value {
        Value::Seq(vec![
            Some(self.f0.to_value()),
            self.f1.as_ref().map(|x| x.to_value()),
            Some(self.f2.to_value()),
            self.f3.as_ref().map(|x| x.to_value()),
            Some(self.f4.to_value()),
        ])
    }
}
impl FromValue for Ts5momode4 {
    fn from_value(v: &Value) -> Self {
        let s = match v { Value::Seq(s) => s, other => panic!("Ts5momode4: expected Seq, got {other:?}") };
        assert_eq!(s.len(), 5, "Ts5momode4: component count");
        let _ = s;
        Ts5momode4 {
            f0: FromValue::from_value(s[0].as_ref().expect("component f0 of Ts5momode4 must be present")),
            f1: s[1].as_ref().map(FromValue::from_value),
            f2: FromValue::from_value(s[2].as_ref().expect("component f2 of Ts5momode4 must be present")),
            f3: s[3].as_ref().map(FromValue::from_value),
            f4: FromValue::from_value(s[4].as_ref().expect("component f4 of Ts5momode4 must be present")),
        }
    }
}
impl ToValue for Ts5momode4 {
    fn to_value(&self) -> Value {
        Value::Seq(vec![
            Some(self.f0.to_value()),
            self.f1.as_ref().map(|x| x.to_value()),
            Some(self.f2.to_value()),
            self.f3.as_ref().map(|x| x.to_value()),
            Some(self.f4.to_value()),
        ])
    }
}
impl FromValue for Ts5momode5 {
    fn from_value(v: &Value) -> Self {
        let s = match v { Value::Seq(s) => s, other => panic!("Ts5momode5: expected Seq, got {other:?}") };
        assert_eq!(s.len(), 5, "Ts5momode5: component count");
        let _ = s;
        Ts5momode5 {
            f0: FromValue::from_value(s[0].as_ref().expect("component f0 of Ts5momode5 must be present")),
            f1: s[1].as_ref().map(FromValue::from_value),
            f2: FromValue::from_value(s[2].as_ref().expect("component f2 of Ts5momode5 must be present")),
            f3: s[3].as_ref().map(FromValue::from_value),
            f4: FromValue::from_value(s[4].as_ref().expect("component f4 of Ts5momode5 must be present")),
        }
    }
}
impl ToValue for Ts5momode5 {
    fn to_value(&self) -> Value {
        Value::Seq(vec![
            Some(self.f0.to_value()),
            self.f1.as_ref().map(|x| x.to_value()),
            Some(self.f2.to_value()),
            self.f3.as_ref().map(|x| x.to_value()),
            Some(self.f4.to_value()),
        ])
    }
}
impl FromValue for Ts5oomodn {
    fn from_value(v: &Value) -> Self {
        let s = match v { Value::Seq(s) => s, other => panic!("Ts5oomodn: expected Seq, got {other:?}") };
        assert_eq!(s.len(), 5, "Ts5oomodn: component count");
        let _ = s;
        Ts5oomodn {
            f0: s[0].as_ref().map(FromValue::from_value),
            f1: s[1].as_ref().map(FromValue::from_value),
            f2: FromValue::from_value(s[2].as_ref().expect("component f2 of Ts5oomodn must be present")),
            f3: s[3].as_ref().map(FromValue::from_value),
            f4: FromValue::from_value(s[4].as_ref().expect("component f4 of Ts5oomodn must be present")),
        }
    }
}
impl ToValue for Ts5oomodn {
    fn to_value(&self) -> Value {
        Value::Seq(vec![
            self.f0.as_ref().map(|x| x.to_value()),
            self.f1.as_ref().map(|x| x.to_value()),
            Some(self.f2.to_value()),
            self.f3.as_ref().map(|x| x.to_value()),
            Some(self.f4.to_value()),
        ])
    }
}
impl FromValue for Ts5oomode0 {
    fn from_value(v: &Value) -> Self {
        let s = match v { Value::Seq(s) => s, other => panic!("Ts5oomode0: expected Seq, got {other:?}") };
        assert_eq!(s.len(), 5, "Ts5oomode0: component count");
        let _ = s;
        Ts5oomode0 {
            f0: s[0].as_ref().map(FromValue::from_value),
            f1: s[1].as_ref().map(FromValue::from_value),
            f2: s[2].as_ref().map(FromValue::from_value),
            f3: s[3].as_ref().map(FromValue::from_value),
            f4: FromValue::from_value(s[4].as_ref().expect("component f4 of Ts5oomode0 must be present")),
        }
    }
}
impl ToValue for Ts5oomode0 {
    fn to_value(&self) -> Value {
        Value::Seq(vec![
            self.f0.as_ref().map(|x| x.to_value()),
            self.f1.as_ref().map(|x| x.to_value()),
            self.f2.as_ref().map(|x| x.to_value()),
            self.f3.as_ref().map(|x| x.to_value()),
            Some(self.f4.to_value()),
        ])
    }
}
impl FromValue for Ts5oomode1 {
    fn from_value(v: &Value) -> Self {
        let s = match v { Value::Seq(s) => s, other => panic!("Ts5oomode1: expected Seq, got {other:?}") };
        assert_eq!(s.len(), 5, "Ts5oomode1: component count");
        let _ = s;
        Ts5oomode1 {
            f0: s[0].as_ref().map(FromValue::from_value),
            f1: s[1].as_ref().map(FromValue::from_value),
            f2: s[2].as_ref().map(FromValue::from_value),
            f3: s[3].as_ref().map(FromValue::from_value),
            f4: FromValue::from_value(s[4].as_ref().expect("component f4 of Ts5oomode1 must be present")),
        }
    }
}
impl ToValue for Ts5oomode1 {
    fn to_value(&self) -> Value {
        Value::Seq(vec![
            self.f0.as_ref().map(|x| x.to_value()),
            self.f1.as_ref().map(|x| x.to_value()),
            self.f2.as_ref().map(|x| x.to_value()),
            self.f3.as_ref().map(|x| x.to_value()),
            Some(self.f4.to_value()),
        ])
    }
}
impl FromValue for Ts5oomode2 {
    fn from_value(v: &Value) -> Self {
        let s = match v { Value::Seq(s) => s, other => panic!("Ts5oomode2: expected Seq, got {other:?}") };
        assert_eq!(s.len(), 5, "Ts5oomode2: component count");
        let _ = s;
        Ts5oomode2 {
            f0: s[0].as_ref().map(FromValue::from_value),
            f1: s[1].as_ref().map(FromValue::from_value),
            f2: s[2].as_ref().map(FromValue::from_value),
            f3: s[3].as_ref().map(FromValue::from_value),
            f4: FromValue::from_value(s[4].as_ref().expect("component f4 of Ts5oomode2 must be present")),
        }
    }
}
impl ToValue for Ts5oomode2 {
    fn to_value(&self) -> Value {
        Value::Seq(vec![
            self.f0.as_ref().map(|x| x.to_value()),
            self.f1.as_ref().map(|x| x.to_value()),
            self.f2.as_ref().map(|x| x.to_value()),
            self.f3.as_ref().map(|x| x.to_value()),
            Some(self.f4.to_value()),
        ])
    }
}
impl FromValue for Ts5oomode3 {
    fn from_value(v: &Value) -> Self {
        let s = match v { Value::Seq(s) => s, other => panic!("Ts5oomode3: expected Seq, got {other:?}") };
        assert_eq!(s.len(), 5, "Ts5oomode3: component count");
        let _ = s;
        Ts5oomode3 {
            f0: s[0].as_ref().map(FromValue::from_value),
            f1: s[1].as_ref().map(FromValue::from_value),
            f2: FromValue::from_value(s[2].as_ref().expect("component f2 of Ts5oomode3 must be present")),
            f3: s[3].as_ref().map(FromValue::from_value),
            f4: FromValue::from_value(s[4].as_ref().expect("component f4 of Ts5oomode3 must be present")),
        }
    }
}
impl ToValue for Ts5oomode3 {
    fn to_value(&self) -> Value {
        Value::Seq(vec![
            self.f0.as_ref().map(|x| x.to_value()),
            self.f1.as_ref().map(|x| x.to_value()),
            Some(self.f2.to_value()),
            self.f3.as_ref().map(|x| x.to_value()),
            Some(self.f4.to_value()),
        ])
    }
}
impl FromValue for Ts5oomode4 {
    fn from_value(v: &Value) -> Self {
        let s = match v { Value::Seq(s) => s, other => panic!("Ts5oomode4: expected Seq, got {other:?}") };
        assert_eq!(s.len(), 5, "Ts5oomode4: component count");
        let _ = s;
        Ts5oomode4 {
            f0: s[0].as_ref().map(FromValue::from_value),
            f1: s[1].as_ref().map(FromValue::from_value),
            f2: FromValue::from_value(s[2].as_ref().expect("component f2 of Ts5oomode4 must be present")),
            f3: s[3].as_ref().map(FromValue::from_value),
            f4: FromValue::from_value(s[4].as_ref().expect("component f4 of Ts5oomode4 must be present")),
        }
    }
}
impl ToValue for Ts5oomode4 {
    fn to_value(&self) -> Value {
        Value::Seq(vec![
            self.f0.as_ref().map(|x| x.to_value()),
            self.f1.as_ref().map(|x| x.to_value()),
            Some(self.f2.to_value()),
            self.f3.as_ref().map(|x| x.to_value()),
            Some(self.f4.to_value()),
        ])
    }
}
impl FromValue for Ts5oomode5 {
    fn from_value(v: &Value) -> Self {
        let s = match v { Value::Seq(s) => s, other => panic!("Ts5oomode5: expected Seq, got {other:?}") };
        assert_eq!(s.len(), 5, "Ts5oomode5: component count");
        let _ = s;
        Ts5oomode5 {
            f0: s[0].as_ref().map(FromValue::from_value),
            f1: s[1].as_ref().map(FromValue::from_value),
            f2: FromValue::from_value(s[2].as_ref().expect("component f2 of Ts5oomode5 must be present")),
            f3: s[3].as_ref().map(FromValue::from_value),
            f4: FromValue::from_value(s[4].as_ref().expect("component f4 of Ts5oomode5 must be present")),
        }
    }
}
impl ToValue for Ts5oomode5 {
    fn to_value(&self) -> Value {
        Value::Seq(vec![
            self.f0.as_ref().map(|x| x.to_value()),
            self.f1.as_ref().map(|x| x.to_value()),
            Some(self.f2.to_value()),
            self.f3.as_ref().map(|x| x.to_value()),
            Some(self.f4.to_value()),
        ])
    }
}
impl FromValue for Ts5domodn {
    fn from_value(v: &Value) -> Self {
        let s = match v { Value::Seq(s) => s, other => panic!("Ts5domodn: expected Seq, got {other:?}") };
        assert_eq!(s.len(), 5, "Ts5domodn: component count");
        let _ = s;
        Ts5domodn {
            f0: FromValue::from_value(s[0].as_ref().expect("component f0 of Ts5domodn must be present")),
            f1: s[1].as_ref().map(FromValue::from_value),
            f2: FromValue::from_value(s[2].as_ref().expect("component f2 of Ts5domodn must be present")),
            f3: s[3].as_ref().map(FromValue::from_value),
            f4: FromValue::from_value(s[4].as_ref().expect("component f4 of Ts5domodn must be present")),
        }
    }
}
impl ToValue for Ts5domodn {
    fn to_value(&self) -> Value {
        Value::Seq(vec![
            Some(self.f0.to_value()),
            self.f1.as_ref().map(|x| x.to_value()),
            Some(self.f2.to_value()),
            self.f3.as_ref().map(|x| x.to_value()),
            Some(self.f4.to_value()),
        ])
    }
}
impl FromValue for Ts5domode0 {
    fn from_value(v: &Value) -> Self {
        let s = match v { Value::Seq(s) => s, other => panic!("Ts5domode0: expected Seq, got {other:?}") };
        assert_eq!(s.len(), 5, "Ts5domode0: component count");
        let _ = s;
        Ts5domode0 {
            f0: FromValue::from_value(s[0].as_ref().expect("component f0 of Ts5domode0 must be present")),
            f1: s[1].as_ref().map(FromValue::from_value),
            f2: s[2].as_ref().map(FromValue::from_value),
            f3: s[3].as_ref().map(FromValue::from_value),
            f4: FromValue::from_value(s[4].as_ref().expect("component f4 of Ts5domode0 must be present")),
        }
    }
}
impl ToValue for Ts5domode0 {
    fn to_value(&self) -> Value {
        Value::Seq(vec![
            Some(self.f0.to_value()),
            self.f1.as_ref().map(|x| x.to_value()),
            self.f2.as_ref().map(|x| x.to_value()),
            self.f3.as_ref().map(|x| x.to_value()),
            Some(self.f4.to_value()),
        ])
    }
}
impl FromValue for Ts5domode1 {
    fn from_value(v: &Value) -> Self {
        let s = match v { Value::Seq(s) => s, other => panic!("Ts5domode1: expected Seq, got {other:?}") };
        assert_eq!(s.len(), 5, "Ts5domode1: component count");
        let _ = s;
        Ts5domode1 {
            f0: FromValue::from_value(s[0].as_ref().expect("component f0 of Ts5domode1 must be present")),
            f1: s[1].as_ref().map(FromValue::from_value),
            f2: s[2].as_ref().map(FromValue::from_value),
            f3: s[3].as_ref().map(FromValue::from_value),
            f4: FromValue::from_value(s[4].as_ref().expect("component f4 of Ts5domode1 must be present")),
        }
    }
}
impl ToValue for Ts5domode1 {
    fn to_value(&self) -> Value {
        Value::Seq(vec![
            Some(self.f0.to_value()),
            self.f1.as_ref().map(|x| x.to_value()),
            self.f2.as_ref().map(|x| x.to_value()),
            self.f3.as_ref().map(|x| x.to_value()),
            Some(self.f4.to_value()),
        ])
    }
}
impl FromValue for Ts5domode2 {
    fn from_value(v: &Value) -> Self {
        let s = match v { Value::Seq(s) => s, other => panic!("Ts5domode2: expected Seq, got {other:?}") };
        assert_eq!(s.len(), 5, "Ts5domode2: component count");
        let _ = s;
        Ts5domode2 {
            f0: FromValue::from_value(s[0].as_ref().expect("component f0 of Ts5domode2 must be present")),
            f1: s[1].as_ref().map(FromValue::from_value),
            f2: s[2].as_ref().map(FromValue::from_value),
            f3: s[3].as_ref().map(FromValue::from_value),
            f4: FromValue::from_value(s[4].as_ref().expect("component f4 of Ts5domode2 must be present")),
        }
    }
}
impl ToValue for Ts5domode2 {
    fn to_value(&self) -> Value {
        Value::Seq(vec![
            Some(self.f0.to_value()),
            self.f1.as_ref().map(|x| x.to_value()),
            self.f2.as_ref().map(|x| x.to_value()),
            self.f3.as_ref().map(|x| x.to_value()),
            Some(self.f4.to_value()),
        ])
    }
}
impl FromValue for Ts5domode3 {
    fn from_value(v: &Value) -> Self {
        let s = match v { Value::Seq(s) => s, other => panic!("Ts5domode3: expected Seq, got {other:?}") };
        assert_eq!(s.len(), 5, "Ts5domode3: component count");
        let _ = s;
        Ts5domode3 {
            f0: FromValue::from_value(s[0].as_ref().expect("component f0 of Ts5domode3 must be present")),
            f1: s[1].as_ref().map(FromValue::from_value),
            f2: FromValue::from_value(s[2].as_ref().expect("component f2 of Ts5domode3 must be present")),
            f3: s[3].as_ref().map(FromValue::from_value),
            f4: FromValue::from_value(s[4].as_ref().expect("component f4 of Ts5domode3 must be present")),
        }
    }
}
impl ToValue for Ts5domode3 {
    fn to_value(&self) -> Value {
        Value::Seq(vec![
            Some(self.f0.to_value()),
            self.f1.as_ref().map(|x| x.to_value()),
            Some(self.f2.to_value()),
            self.f3.as_ref().map(|x| x.to_value()),
            Some(self.f4.to_value()),
        ])
    }
}
impl FromValue for Ts5domode4 {
    fn from_value(v: &Value) -> Self {
        let s = match v { Value::Seq(s) => s, other => panic!("Ts5domode4: expected Seq, got {other:?}") };
        assert_eq!(s.len(), 5, "Ts5domode4: component count");
        let _ = s;
        Ts5domode4 {
            f0: FromValue::from_value(s[0].as_ref().expect("component f0 of Ts5domode4 must be present")),
            f1: s[1].as_ref().map(FromValue::from_value),
            f2: FromValue::from_value(s[2].as_ref().expect("component f2 of Ts5domode4 must be present")),
            f3: s[3].as_ref().map(FromValue::from_value),
            f4: FromValue::from_value(s[4].as_ref().expect("component f4 of Ts5domode4 must be present")),
        }
    }
}
impl ToValue for Ts5domode4 {
    fn to_value(&self) -> Value {
        Value::Seq(vec![
            Some(self.f0.to_value()),
            self.f1.as_ref().map(|x| x.to_value()),
            Some(self.f2.to_value()),
            self.f3.as_ref().map(|x| x.to_value()),
            Some(self.f4.to_value()),
        ])
    }
}
impl FromValue for Ts5domode5 {
    fn from_value(v: &Value) -> Self {
        let s = match v { Value::Seq(s) => s, other => panic!("Ts5domode5: expected Seq, got {other:?}") };
        assert_eq!(s.len(), 5, "Ts5domode5: component count");
        let _ = s;
        Ts5domode5 {
            f0: FromValue::from_value(s[0].as_ref().expect("component f0 of Ts5domode5 must be present")),
            f1: s[1].as_ref().map(FromValue::from_value),
            f2: FromValue::from_value(s[2].as_ref().expect("component f2 of Ts5domode5 must be present")),
            f3: s[3].as_ref().map(FromValue::from_value),
            f4: FromValue::from_value(s[4].as_ref().expect("component f4 of Ts5domode5 must be present")),
        }
    }
}
impl ToValue for Ts5domode5 {
    fn to_value(&self) -> Value {
        Value::Seq(vec![
            Some(self.f0.to_value()),
            self.f1.as_ref().map(|x| x.to_value()),
            Some(self.f2.to_value()),
            self.f3.as_ref().map(|x| x.to_value()),
            Some(self.f4.to_value()),
        ])
    }
}
impl FromValue for Ts5mdmodn {
    fn from_value(v: &Value) -> Self {
        let s = match v { Value::Seq(s) => s, other => panic!("Ts5mdmodn: expected Seq, got {other:?}") };
        assert_eq!(s.len(), 5, "Ts5mdmodn: component count");
        let _ = s;
        Ts5mdmodn {
            f0: FromValue::from_value(s[0].as_ref().expect("component f0 of Ts5mdmodn must be present")),
            f1: FromValue::from_value(s[1].as_ref().expect("component f1 of Ts5mdmodn must be present")),
            f2: FromValue::from_value(s[2].as_ref().expect("component f2 of Ts5mdmodn must be present")),
            f3: s[3].as_ref().map(FromValue::from_value),
            f4: FromValue::from_value(s[4].as_ref().expect("component f4 of Ts5mdmodn must be present")),
        }
    }
}
impl ToValue for Ts5mdmodn {
    fn to_value(&self) -> Value {
        Value::Seq(vec![
            Some(self.f0.to_value()),
            Some(self.f1.to_value()),
            Some(self.f2.to_value()),
            self.f3.as_ref().map(|x| x.to_value()),
            Some(self.f4.to_value()),
        ])
    }
}
impl FromValue for Ts5mdmode0 {
    fn from_value(v: &Value) -> Self {
        let s = match v { Value::Seq(s) => s, other => panic!("Ts5mdmode0: expected Seq, got {other:?}") };
        assert_eq!(s.len(), 5, "Ts5mdmode0: component count");
        let _ = s;
        Ts5mdmode0 {
            f0: FromValue::from_value(s[0].as_ref().expect("component f0 of Ts5mdmode0 must be present")),
            f1: FromValue::from_value(s[1].as_ref().expect("component f1 of Ts5mdmode0 must be present")),
            f2: s[2].as_ref().map(FromValue::from_value),
            f3: s[3].as_ref().map(FromValue::from_value),
            f4: FromValue::from_value(s[4].as_ref().expect("component f4 of Ts5mdmode0 must be present")),
        }
    }
}
impl ToValue for Ts5mdmode0 {
    fn to_value(&self) -> Value {
        Value::Seq(vec![
            Some(self.f0.to_value()),
            Some(self.f1.to_value()),
            self.f2.as_ref().map(|x| x.to_value()),
            self.f3.as_ref().map(|x| x.to_value()),
            Some(self.f4.to_value()),
        ])
    }
}
impl FromValue for Ts5mdmode1 {
    fn from_value(v: &Value) -> Self {
        let s = match v { Value::Seq(s) => s, other => panic!("Ts5mdmode1: expected Seq, got {other:?}") };
        assert_eq!(s.len(), 5, "Ts5mdmode1: component count");
        let _ = s;
        Ts5mdmode1 {
            f0: FromValue::from_value(s[0].as_ref().expect("component f0 of Ts5mdmode1 must be present")),
            f1: FromValue::from_value(s[1].as_ref().expect("component f1 of Ts5mdmode1 must be present")),
            f2: s[2].as_ref().map(FromValue::from_value),
            f3: s[3].as_ref().map(FromValue::from_value),
            f4: FromValue::from_value(s[4].as_ref().expect("component f4 of Ts5mdmode1 must be present")),
        }
    }
}
impl ToValue for Ts5mdmode1 {
    fn to_value(&self) -> Value {
        Value::Seq(vec![
            Some(self.f0.to_value()),
            Some(self.f1.to_value()),
            self.f2.as_ref().map(|x| x.to_value()),
            self.f3.as_ref().map(|x| x.to_value()),
            Some(self.f4.to_value()),
        ])
    }
}
impl FromValue for Ts5mdmode2 {
    fn from_value(v: &Value) -> Self {
        let s = match v { Value::Seq(s) => s, other => panic!("Ts5mdmode2: expected Seq, got {other:?}") };
        assert_eq!(s.len(), 5, "Ts5mdmode2: component count");
        let _ = s;
        Ts5mdmode2 {
            f0: FromValue::from_value(s[0].as_ref().expect("component f0 of Ts5mdmode2 must be present")),
            f1: FromValue::from_value(s[1].as_ref().expect("component f1 of Ts5mdmode2 must be present")),
            f2: s[2].as_ref().map(FromValue::from_value),
            f3: s[3].as_ref().map(FromValue::from_value),
            f4: FromValue::from_value(s[4].as_ref().expect("component f4 of Ts5mdmode2 must be present")),
        }
    }
}
impl ToValue for Ts5mdmode2 {
    fn to_value(&self) -> Value {
        Value::Seq(vec![
            Some(self.f0.to_value()),
            Some(self.f1.to_value()),
            self.f2.as_ref().map(|x| x.to_value()),
            self.f3.as_ref().map(|x| x.to_value()),
            Some(self.f4.to_value()),
        ])
    }
}
impl FromValue for Ts5mdmode3 {
    fn from_value(v: &Value) -> Self {
        let s = match v { Value::Seq(s) => s, other => panic!("Ts5mdmode3: expected Seq, got {other:?}") };
        assert_eq!(s.len(), 5, "Ts5mdmode3: component count");
        let _ = s;
        Ts5mdmode3 {
            f0: FromValue::from_value(s[0].as_ref().expect("component f0 of Ts5mdmode3 must be present")),
            f1: FromValue::from_value(s[1].as_ref().expect("component f1 of Ts5mdmode3 must be present")),
            f2: FromValue::from_value(s[2].as_ref().expect("component f2 of Ts5mdmode3 must be present")),
            f3: s[3].as_ref().map(FromValue::from_value),
            f4: FromValue::from_value(s[4].as_ref().expect("component f4 of Ts5mdmode3 must be present")),
        }
    }
}
impl ToValue for Ts5mdmode3 {
    fn to_value(&self) -> Value {
        Value::Seq(vec![
            Some(self.f0.to_value()),
            Some(self.f1.to_value()),
            Some(self.f2.to_value()),
            self.f3.as_ref().map(|x| x.to_value()),
            Some(self.f4.to_value()),
        ])
    }
}
impl FromValue for Ts5mdmode4 {
    fn from_value(v: &Value) -> Self {
        let s = match v { Value::Seq(s) => s, other => panic!("Ts5mdmode4: expected Seq, got {other:?}") };
        assert_eq!(s.len(), 5, "Ts5mdmode4: component count");
        let _ = s;
        Ts5mdmode4 {
            f0: FromValue::from_value(s[0].as_ref().expect("component f0 of Ts5mdmode4 must be present")),
            f1: FromValue::from_value(s[1].as_ref().expect("component f1 of Ts5mdmode4 must be present")),
            f2: FromValue::from_value(s[2].as_ref().expect("component f2 of Ts5mdmode4 must be present")),
            f3: s[3].as_ref().map(FromValue::from_value),
            f4: FromValue::from_value(s[4].as_ref().expect("component f4 of Ts5mdmode4 must be present")),
        }
    }
}
impl ToValue for Ts5mdmode4 {
    fn to_value(&self) -> Value {
        Value::Seq(vec![
            Some(self.f0.to_value()),
            Some(self.f1.to_value()),
            Some(self.f2.to_value()),
            self.f3.as_ref().map(|x| x.to_value()),
            Some(self.f4.to_value()),
        ])
    }
}
impl FromValue for Ts5mdmode5 {
    fn from_value(v: &Value) -> Self {
        let s = match v { Value::Seq(s) => s, other => panic!("Ts5mdmode5: expected Seq, got {other:?}") };
        assert_eq!(s.len(), 5, "Ts5mdmode5: component count");
        let _ = s;
        Ts5mdmode5 {
            f0: FromValue::from_value(s[0].as_ref().expect("component f0 of Ts5mdmode5 must be present")),
            f1: FromValue::from_value(s[1].as_ref().expect("component f1 of Ts5mdmode5 must be present")),
            f2: FromValue::from_value(s[2].as_ref().expect("component f2 of Ts5mdmode5 must be present")),
            f3: s[3].as_ref().map(FromValue::from_value),
            f4: FromValue::from_value(s[4].as_ref().expect("component f4 of Ts5mdmode5 must be present")),
        }
    }
}
impl ToValue for Ts5mdmode5 {
    fn to_value(&self) -> Value {
        Value::Seq(vec![
            Some(self.f0.to_value()),
            Some(self.f1.to_value()),
            Some(self.f2.to_value()),
            self.f3.as_ref().map(|x| x.to_value()),
            Some(self.f4.to_value()),
        ])
    }
}
impl FromValue for Ts5odmodn {
    fn from_value(v: &Value) -> Self {
        let s = match v { Value::Seq(s) => s, other => panic!("Ts5odmodn: expected Seq, got {other:?}") };
        assert_eq!(s.len(), 5, "Ts5odmodn: component count");
        let _ = s;
        Ts5odmodn {
            f0: s[0].as_ref().map(FromValue::from_value),
            f1: FromValue::from_value(s[1].as_ref().expect("component f1 of Ts5odmodn must be present")),
            f2: FromValue::from_value(s[2].as_ref().expect("component f2 of Ts5odmodn must be present")),
            f3: s[3].as_ref().map(FromValue::from_value),
            f4: FromValue::from_value(s[4].as_ref().expect("component f4 of Ts5odmodn must be present")),
        }
    }
}
impl ToValue for Ts5odmodn {
    fn to_value(&self) -> Value {
        Value::Seq(vec![
            self.f0.as_ref().map(|x| x.to_value()),
            Some(self.f1.to_value()),
            Some(self.f2.to_value()),
            self.f3.as_ref().map(|x| x.to_value()),
            Some(self.f4.to_value()),
        ])
    }
}
impl FromValue for Ts5odmode0 {
    fn from_value(v: &Value) -> Self {
        let s = match v { Value::Seq(s) => s, other => panic!("Ts5odmode0: expected Seq, got {other:?}") };
        assert_eq!(s.len(), 5, "Ts5odmode0: component count");
        let _ = s;
        Ts5odmode0 {
            f0: s[0].as_ref().map(FromValue::from_value),
            f1: FromValue::from_value(s[1].as_ref().expect("component f1 of Ts5odmode0 must be present")),
            f2: s[2].as_ref().map(FromValue::from_value),
            f3: s[3].as_ref().map(FromValue::from_value),
            f4: FromValue::from_value(s[4].as_ref().expect("component f4 of Ts5odmode0 must be present")),
        }
    }
}
impl ToValue for Ts5odmode0 {
    fn to_value(&self) -> Value {
        Value::Seq(vec![
            self.f0.as_ref().map(|x| x.to_value()),
            Some(self.f1.to_value()),
            self.f2.as_ref().map(|x| x.to_value()),
            self.f3.as_ref().map(|x| x.to_value()),
            Some(self.f4.to_value()),
        ])
    }
}
impl FromValue for Ts5odmode1 {
    fn from_value(v: &Value) -> Self {
        let s = match v { Value::Seq(s) => s, other => panic!("Ts5odmode1: expected Seq, got {other:?}") };
        assert_eq!(s.len(), 5, "Ts5odmode1: component count");
        let _ = s;
        Ts5odmode1 {
            f0: s[0].as_ref().map(FromValue::from_value),
            f1: FromValue::from_value(s[1].as_ref().expect("component f1 of Ts5odmode1 must be present")),
            f2: s[2].as_ref().map(FromValue::from_value),
            f3: s[3].as_ref().map(FromValue::from_value),
            f4: FromValue::from_value(s[4].as_ref().expect("component f4 of Ts5odmode1 must be present")),
        }
    }
}
impl ToValue for Ts5odmode1 {
    fn to_value(&self) -> Value {
        Value::Seq(vec![
            self.f0.as_ref().map(|x| x.to_value()),
            Some(self.f1.to_value()),
            self.f2.as_ref().map(|x| x.to_value()),
            self.f3.as_ref().map(|x| x.to_value()),
            Some(self.f4.to_value()),
        ])
    }
}
impl FromValue for Ts5odmode2 {
    fn from_value(v: &Value) -> Self {
        let s = match v { Value::Seq(s) => s, other => panic!("Ts5odmode2: expected Seq, got {other:?}") };
        assert_eq!(s.len(), 5, "Ts5odmode2: component count");
        let _ = s;
        Ts5odmode2 {
            f0: s[0].as_ref().map(FromValue::from_value),
            f1: FromValue::from_value(s[1].as_ref().expect("component f1 of Ts5odmode2 must be present")),
            f2: s[2].as_ref().map(FromValue::from_value),
            f3: s[3].as_ref().map(FromValue::from_value),
            f4: FromValue::from_value(s[4].as_ref().expect("component f4 of Ts5odmode2 must be present")),
        }
    }
}
impl ToValue for Ts5odmode2 {
    fn to_value(&self) -> Value {
        Value::Seq(vec![
            self.f0.as_ref().map(|x| x.to_value()),
            Some(self.f1.to_value()),
            self.f2.as_ref().map(|x| x.to_value()),
            self.f3.as_ref().map(|x| x.to_value()),
            Some(self.f4.to_value()),
        ])
    }
}
impl FromValue for Ts5odmode3 {
    fn from_value(v: &Value) -> Self {
        let s = match v { Value::Seq(s) => s, other => panic!("Ts5odmode3: expected Seq, got {other:?}") };
        assert_eq!(s.len(), 5, "Ts5odmode3: component count");
        let _ = s;
        Ts5odmode3 {
            f0: s[0].as_ref().map(FromValue::from_value),
            f1: FromValue::from_value(s[1].as_ref().expect("component f1 of Ts5odmode3 must be present")),
            f2: FromValue::from_value(s[2].as_ref().expect("component f2 of Ts5odmode3 must be present")),
            f3: s[3].as_ref().map(FromValue::from_value),
            f4: FromValue::from_value(s[4].as_ref().expect("component f4 of Ts5odmode3 must be present")),
        }
    }
}
impl ToValue for Ts5odmode3 {
    fn to_value(&self) -> Value {
        Value::Seq(vec![
            self.f0.as_ref().map(|x| x.to_value()),
            Some(self.f1.to_value()),
            Some(self.f2.to_value()),
            self.f3.as_ref().map(|x| x.to_value()),
            Some(self.f4.to_value()),
        ])
    }
}
impl FromValue for Ts5odmode4 {
    fn from_value(v: &Value) -> Self {
        let s = match v { Value::Seq(s) => s, other => panic!("Ts5odmode4: expected Seq, got {other:?}") };
        assert_eq!(s.len(), 5, "Ts5odmode4: component count");
        let _ = s;
        Ts5odmode4 {
            f0: s[0].as_ref().map(FromValue::from_value),
            f1: FromValue::from_value(s[1].as_ref().expect("component f1 of Ts5odmode4 must be present")),
            f2: FromValue::from_value(s[2].as_ref().expect("component f2 of Ts5odmode4 must be present")),
            f3: s[3].as_ref().map(FromValue::from_value),
            f4: FromValue::from_value(s[4].as_ref().expect("component f4 of Ts5odmode4 must be present")),
        }
    }
}
impl ToValue for Ts5odmode4 {
    fn to_value(&self) -> Value {
        Value::Seq(vec![
            self.f0.as_ref().map(|x| x.to_value()),
            Some(self.f1.to_value()),
            Some(self.f2.to_value()),
            self.f3.as_ref().map(|x| x.to_value()),
            Some(self.f4.to_value()),
        ])
    }
}
impl FromValue for Ts5odmode5 {
    fn from_value(v: &Value) -> Self {
        let s = match v { Value::Seq(s) => s, other => panic!("Ts5odmode5: expected Seq, got {other:?}") };
        assert_eq!(s.len(), 5, "Ts5odmode5: component count");
        let _ = s;
        Ts5odmode5 {
            f0: s[0].as_ref().map(FromValue::from_value),
            f1: FromValue::from_value(s[1].as_ref().expect("component f1 of Ts5odmode5 must be present")),
            f2: FromValue::from_value(s[2].as_ref().expect("component f2 of Ts5odmode5 must be present")),
            f3: s[3].as_ref().map(FromValue::from_value),
            f4: FromValue::from_value(s[4].as_ref().expect("component f4 of Ts5odmode5 must be present")),
        }
    }
}
impl ToValue for Ts5odmode5 {
    fn to_value(&self) -> Value {
        Value::Seq(vec![
            self.f0.as_ref().map(|x| x.to_value()),
            Some(self.f1.to_value()),
            Some(self.f2.to_value()),
            self.f3.as_ref().map(|x| x.to_value()),
            Some(self.f4.to_value()),
        ])
    }
}
impl FromValue for Ts5ddmodn {
    fn from_value(v: &Value) -> Self {
        let s = match v { Value::Seq(s) => s, other => panic!("Ts5ddmodn: expected Seq, got {other:?}") };
        assert_eq!(s.len(), 5, "Ts5ddmodn: component count");
        let _ = s;
        Ts5ddmodn {
            f0: FromValue::from_value(s[0].as_ref().expect("component f0 of Ts5ddmodn must be present")),
            f1: FromValue::from_value(s[1].as_ref().expect("component f1 of Ts5ddmodn must be present")),
            f2: FromValue::from_value(s[2].as_ref().expect("component f2 of Ts5ddmodn must be present")),
            f3: s[3].as_ref().map(FromValue::from_value),
            f4: FromValue::from_value(s[4].as_ref().expect("component f4 of Ts5ddmodn must be present")),
        }
    }
}
impl ToValue for Ts5ddmodn {
    fn to_value(&self) -> Value {
        Value::Seq(vec![
            Some(self.f0.to_value()),
            Some(self.f1.to_value()),
            Some(self.f2.to_value()),
            self.f3.as_ref().map(|x| x.to_value()),
            Some(self.f4.to_value()),
        ])
    }
}
impl FromValue for Ts5ddmode0 {
    fn from_value(v: &Value) -> Self {
        let s = match v { Value::Seq(s) => s, other => panic!("Ts5ddmode0: expected Seq, got {other:?}") };
        assert_eq!(s.len(), 5, "Ts5ddmode0: component count");
        let _ = s;
        Ts5ddmode0 {
            f0: FromValue::from_value(s[0].as_ref().expect("component f0 of Ts5ddmode0 must be present")),
            f1: FromValue::from_value(s[1].as_ref().expect("component f1 of Ts5ddmode0 must be present")),
            f2: s[2].as_ref().map(FromValue::from_value),
            f3: s[3].as_ref().map(FromValue::from_value),
            f4: FromValue::from_value(s[4].as_ref().expect("component f4 of Ts5ddmode0 must be present")),
        }
    }
}
impl ToValue for Ts5ddmode0 {
    fn to_value(&self) -> Value {
        Value::Seq(vec![
            Some(self.f0.to_value()),
            Some(self.f1.to_value()),
            self.f2.as_ref().map(|x| x.to_value()),
            self.f3.as_ref().map(|x| x.to_value()),
            Some(self.f4.to_value()),
        ])
    }
}
impl FromValue for Ts5ddmode1 {
    fn from_value(v: &Value) -> Self {
        let s = match v { Value::Seq(s) => s, other => panic!("Ts5ddmode1: expected Seq, got {other:?}") };
        assert_eq!(s.len(), 5, "Ts5ddmode1: component count");
        let _ = s;
        Ts5ddmode1 {
            f0: FromValue::from_value(s[0].as_ref().expect("component f0 of Ts5ddmode1 must be present")),
            f1: FromValue::from_value(s[1].as_ref().expect("component f1 of Ts5ddmode1 must be present")),
            f2: s[2].as_ref().map(FromValue::from_value),
            f3: s[3].as_ref().map(FromValue::from_value),
            f4: FromValue::from_value(s[4].as_ref().expect("component f4 of Ts5ddmode1 must be present")),
        }
    }
}
impl ToValue for Ts5ddmode1 {
    fn to_value(&self) -> Value {
        Value::Seq(vec![
            Some(self.f0.to_value()),
            Some(self.f1.to_value()),
            self.f2.as_ref().map(|x| x.to_value()),
            self.f3.as_ref().map(|x| x.to_value()),
            Some(self.f4.to_value()),
        ])
    }
}
impl FromValue for Ts5ddmode2 {
    fn from_value(v: &Value) -> Self {
        let s = match v { Value::Seq(s) => s, other => panic!("Ts5ddmode2: expected Seq, got {other:?}") };
        assert_eq!(s.len(), 5, "Ts5ddmode2: component count");
        let _ = s;
        Ts5ddmode2 {
            f0: FromValue::from_value(s[0].as_ref().expect("component f0 of Ts5ddmode2 must be present")),
            f1: FromValue::from_value(s[1].as_ref().expect("component f1 of Ts5ddmode2 must be present")),
            f2: s[2].as_ref().map(FromValue::from_value),
            f3: s[3].as_ref().map(FromValue::from_value),
            f4: FromValue::from_value(s[4].as_ref().expect("component f4 of Ts5ddmode2 must be present")),
        }
    }
}
impl ToValue for Ts5ddmode2 {
    fn to_value(&self) -> Value {
        Value::Seq(vec![
            Some(self.f0.to_value()),
            Some(self.f1.to_value()),
            self.f2.as_ref().map(|x| x.to_value()),
            self.f3.as_ref().map(|x| x.to_value()),
            Some(self.f4.to_value()),
        ])
    }
}
impl FromValue for Ts5ddmode3 {
    fn from_value(v: &Value) -> Self {
        let s = match v { Value::Seq(s) => s, other => panic!("Ts5ddmode3: expected Seq, got {other:?}") };
        assert_eq!(s.len(), 5, "Ts5ddmode3: component count");
        let _ = s;
        Ts5ddmode3 {
            f0: FromValue::from_value(s[0].as_ref().expect("component f0 of Ts5ddmode3 must be present")),
            f1: FromValue::from_value(s[1].as_ref().expect("component f1 of Ts5ddmode3 must be present")),
            f2: FromValue::from_value(s[2].as_ref().expect("component f2 of Ts5ddmode3 must be present")),
            f3: s[3].as_ref().map(FromValue::from_value),
            f4: FromValue::from_value(s[4].as_ref().expect("component f4 of Ts5ddmode3 must be present")),
        }
    }
}
impl ToValue for Ts5ddmode3 {
    fn to_value(&self) -> Value {
        Value::Seq(vec![
            Some(self.f0.to_value()),
            Some(self.f1.to_value()),
            Some(self.f2.to_value()),
            self.f3.as_ref().map(|x| x.to_value()),
            Some(self.f4.to_value()),
        ])
    }
}
impl FromValue for Ts5ddmode4 {
    fn from_value(v: &Value) -> Self {
        let s = match v { Value::Seq(s) => s, other => panic!("Ts5ddmode4: expected Seq, got {other:?}") };
        assert_eq!(s.len(), 5, "Ts5ddmode4: component count");
        let _ = s;
        Ts5ddmode4 {
            f0: FromValue::from_value(s[0].as_ref().expect("component f0 of Ts5ddmode4 must be present")),
            f1: FromValue::from_value(s[1].as_ref().expect("component f1 of Ts5ddmode4 must be present")),
            f2: FromValue::from_value(s[2].as_ref().expect("component f2 of Ts5ddmode4 must be present")),
            f3: s[3].as_ref().map(FromValue::from_value),
            f4: FromValue::from_value(s[4].as_ref().expect("component f4 of Ts5ddmode4 must be present")),
        }
    }
}
impl ToValue for Ts5ddmode4 {
    fn to_value(&self) -> Value {
        Value::Seq(vec![
            Some(self.f0.to_value()),
            Some(self.f1.to_value()),
            Some(self.f2.to_value()),
            self.f3.as_ref().map(|x| x.to_value()),
            Some(self.f4.to_value()),
        ])
    }
}
impl FromValue for Ts5ddmode5 {
    fn from_value(v: &Value) -> Self {
        let s = match v { Value::Seq(s) => s, other => panic!("Ts5ddmode5: expected Seq, got {other:?}") };
        assert_eq!(s.len(), 5, "Ts5ddmode5: component count");
        let _ = s;
        Ts5ddmode5 {
            f0: FromValue::from_value(s[0].as_ref().expect("component f0 of Ts5ddmode5 must be present")),
            f1: FromValue::from_value(s[1].as_ref().expect("component f1 of Ts5ddmode5 must be present")),
            f2: FromValue::from_value(s[2].as_ref().expect("component f2 of Ts5ddmode5 must be present")),
            f3: s[3].as_ref().map(FromValue::from_value),
            f4: FromValue::from_value(s[4].as_ref().expect("component f4 of Ts5ddmode5 must be present")),
        }
    }
}
impl ToValue for Ts5ddmode5 {
    fn to_value(&self) -> Value {
        Value::Seq(vec![
            Some(self.f0.to_value()),
            Some(self.f1.to_value()),
            Some(self.f2.to_value()),
            self.f3.as_ref().map(|x| x.to_value()),
            Some(self.f4.to_value()),
        ])
    }
}
impl FromValue for Ts5mmoodn {
    fn from_value(v: &Value) -> Self {
        let s = match v { Value::Seq(s) => s, other => panic!("Ts5mmoodn: expected Seq, got {other:?}") };
        assert_eq!(s.len(), 5, "Ts5mmoodn: component count");
        let _ = s;
        Ts5mmoodn {
            f0: FromValue::from_value(s[0].as_ref().expect("component f0 of Ts5mmoodn must be present")),
            f1: FromValue::from_value(s[1].as_ref().expect("component f1 of Ts5mmoodn must be present")),
            f2: s[2].as_ref().map(FromValue::from_value),
            f3: s[3].as_ref().map(FromValue::from_value),
            f4: FromValue::from_value(s[4].as_ref().expect("component f4 of Ts5mmoodn must be present")),
        }
    }
}
impl ToValue for Ts5mmoodn {
    fn to_value(&self) -> Value {
        Value::Seq(vec![
            Some(self.f0.to_value()),
            Some(self.f1.to_value()),
            self.f2.as_ref().map(|x| x.to_value()),
            self.f3.as_ref().map(|x| x.to_value()),
            Some(self.f4.to_value()),
        ])
    }
}
impl FromValue for Ts5mmoode0 {
    fn from_value(v: &Value) -> Self {
        let s = match v { Value::Seq(s) => s, other => panic!("Ts5mmoode0: expected Seq, got {other:?}") };
        assert_eq!(s.len(), 5, "Ts5mmoode0: component count");
        let _ = s;
        Ts5mmoode0 {
            f0: FromValue::from_value(s[0].as_ref().expect("component f0 of Ts5mmoode0 must be present")),
            f1: s[1].as_ref().map(FromValue::from_value),
            f2: s[2].as_ref().map(FromValue::from_value),
            f3: s[3].as_ref().map(FromValue::from_value),
            f4: FromValue::from_value(s[4].as_ref().expect("component f4 of Ts5mmoode0 must be present")),
        }
    }
}
impl ToValue for Ts5mmoode0 {
    fn to_value(&self) -> Value {
        Value::Seq(vec![
            Some(self.f0.to_value()),
            self.f1.as_ref().map(|x| x.to_value()),
            self.f2.as_ref().map(|x| x.to_value()),
            self.f3.as_ref().map(|x| x.to_value()),
            Some(self.f4.to_value()),
        ])
    }
}
impl FromValue for Ts5mmoode1 {
    fn from_value(v: &Value) -> Self {
        let s = match v { Value::Seq(s) => s, other => panic!("Ts5mmoode1: expected Seq, got {other:?}") };
        assert_eq!(s.len(), 5, "Ts5mmoode1: component count");
        let _ = s;
        Ts5mmoode1 {
            f0: FromValue::from_value(s[0].as_ref().expect("component f0 of Ts5mmoode1 must be present")),
            f1: s[1].as_ref().map(FromValue::from_value),
            f2: s[2].as_ref().map(FromValue::from_value),
            f3: s[3].as_ref().map(FromValue::from_value),
            f4: FromValue::from_value(s[4].as_ref().expect("component f4 of Ts5mmoode1 must be present")),
        }
    }
}
impl ToValue for Ts5mmoode1 {
    fn to_value(&self) -> Value {
        Value::Seq(vec![
            Some(self.f0.to_value()),
            self.f1.as_ref().map(|x| x.to_value()),
            self.f2.as_ref().map(|x| x.to_value()),
            self.f3.as_ref().map(|x| x.to_value()),
            Some(self.f4.to_value()),
        ])
    }
}
impl FromValue for Ts5mmoode2 {
    fn from_value(v: &Value) -> Self {
        let s = match v { Value::Seq(s) => s, other => panic!("Ts5mmoode2: expected Seq, got {other:?}") };
        assert_eq!(s.len(), 5, "Ts5mmoode2: component count");
        let _ = s;
        Ts5mmoode2 {
            f0: FromValue::from_value(s[0].as_ref().expect("component f0 of Ts5mmoode2 must be present")),
            f1: FromValue::from_value(s[1].as_ref().expect("component f1 of Ts5mmoode2 must be present")),
            f2: s[2].as_ref().map(FromValue::from_value),
            f3: s[3].as_ref().map(FromValue::from_value),
            f4: FromValue::from_value(s[4].as_ref().expect("component f4 of Ts5mmoode2 must be present")),
        }
    }
}
impl ToValue for Ts5mmoode2 {
    fn to_value(&self) -> Value {
        Value::Seq(vec![
            Some(self.f0.to_value()),
            Some(self.f1.to_value()),
            self.f2.as_ref().map(|x| x.to_value()),
            self.f3.as_ref().map(|x| x.to_value()),
            Some(self.f4.to_value()),
        ])
    }
}
impl FromValue for Ts5mmoode3 {
    fn from_value(v: &Value) -> Self {
        let s = match v { Value::Seq(s) => s, other => panic!("Ts5mmoode3: expected Seq, got {other:?}") };
        assert_eq!(s.len(), 5, "Ts5mmoode3: component count");
        let _ = s;
        Ts5mmoode3 {
            f0: FromValue::from_value(s[0].as_ref().expect("component f0 of Ts5mmoode3 must be present")),
            f1: FromValue::from_value(s[1].as_ref().expect("component f1 of Ts5mmoode3 must be present")),
            f2: s[2].as_ref().map(FromValue::from_value),
            f3: s[3].as_ref().map(FromValue::from_value),
            f4: FromValue::from_value(s[4].as_ref().expect("component f4 of Ts5mmoode3 must be present")),
        }
    }
}
impl ToValue for Ts5mmoode3 {
    fn to_value(&self) -> Value {
        Value::Seq(vec![
            Some(self.f0.to_value()),
            Some(self.f1.to_value()),
            self.f2.as_ref().map(|x| x.to_value()),
            self.f3.as_ref().map(|x| x.to_value()),
            Some(self.f4.to_value()),
        ])
    }
}
impl FromValue for Ts5mmoode4 {
    fn from_value(v: &Value) -> Self {
        let s = match v { Value::Seq(s) => s, other => panic!("Ts5mmoode4: expected Seq, got {other:?}") };
        assert_eq!(s.len(), 5, "Ts5mmoode4: component count");
        let _ = s;
        Ts5mmoode4 {
            f0: FromValue::from_value(s[0].as_ref().expect("component f0 of Ts5mmoode4 must be present")),
            f1: FromValue::from_value(s[1].as_ref().expect("component f1 of Ts5mmoode4 must be present")),
            f2: s[2].as_ref().map(FromValue::from_value),
            f3: s[3].as_ref().map(FromValue::from_value),
            f4: FromValue::from_value(s[4].as_ref().expect("component f4 of Ts5mmoode4 must be present")),
        }
    }
}
impl ToValue for Ts5mmoode4 {
    fn to_value(&self) -> Value {
        Value::Seq(vec![
            Some(self.f0.to_value()),
            Some(self.f1.to_value()),
            self.f2.as_ref().map(|x| x.to_value()),
            self.f3.as_ref().map(|x| x.to_value()),
            Some(self.f4.to_value()),
        ])
    }
}
impl FromValue for Ts5mmoode5 {
    fn from_value(v: &Value) -> Self {
        let s = match v { Value::Seq(s) => s, other => panic!("Ts5mmoode5: expected Seq, got {other:?}") };
        assert_eq!(s.len(), 5, "Ts5mmoode5: component count");
        let _ = s;
        Ts5mmoode5 {
            f0: FromValue::from_value(s[0].as_ref().expect("component f0 of Ts5mmoode5 must be present")),
            f1: FromValue::from_value(s[1].as_ref().expect("component f1 of Ts5mmoode5 must be present")),
            f2: s[2].as_ref().map(FromValue::from_value),
            f3: s[3].as_ref().map(FromValue::from_value),
            f4: FromValue::from_value(s[4].as_ref().expect("component f4 of Ts5mmoode5 must be present")),
        }
    }
}
impl ToValue for Ts5mmoode5 {
    fn to_value(&self) -> Value {
        Value::Seq(vec![
            Some(self.f0.to_value()),
            Some(self.f1.to_value()),
            self.f2.as_ref().map(|x| x.to_value()),
            self.f3.as_ref().map(|x| x.to_value()),
            Some(self.f4.to_value()),
        ])
    }
}
impl FromValue for Ts5omoodn {
    fn from_value(v: &Value) -> Self {
        let s = match v { Value::Seq(s) => s, other => panic!("Ts5omoodn: expected Seq, got {other:?}") };
        assert_eq!(s.len(), 5, "Ts5omoodn: component count");
        let _ = s;
        Ts5omoodn {
            f0: s[0].as_ref().map(FromValue::from_value),
            f1: FromValue::from_value(s[1].as_ref().expect("component f1 of Ts5omoodn must be present")),
            f2: s[2].as_ref().map(FromValue::from_value),
            f3: s[3].as_ref().map(FromValue::from_value),
            f4: FromValue::from_value(s[4].as_ref().expect("component f4 of Ts5omoodn must be present")),
        }
    }
}
impl ToValue for Ts5omoodn {
    fn to_value(&self) -> Value {
        Value::Seq(vec![
            self.f0.as_ref().map(|x| x.to_value()),
            Some(self.f1.to_value()),
            self.f2.as_ref().map(|x| x.to_value()),
            self.f3.as_ref().map(|x| x.to_value()),
            Some(self.f4.to_value()),
        ])
    }
}
impl FromValue for Ts5omoode0 {
    fn from_value(v: &Value) -> Self {
        let s = match v { Value::Seq(s) => s, other => panic!("Ts5omoode0: expected Seq, got {other:?}") };
        assert_eq!(s.len(), 5, "Ts5omoode0: component count");
        let _ = s;
        Ts5omoode0 {
            f0: s[0].as_ref().map(FromValue::from_value),
            f1: s[1].as_ref().map(FromValue::from_value),
            f2: s[2].as_ref().map(FromValue::from_value),
            f3: s[3].as_ref().map(FromValue::from_value),
            f4: FromValue::from_value(s[4].as_ref().expect("component f4 of Ts5omoode0 must be present")),
        }
    }
}
impl ToValue for Ts5omoode0 {
    fn to_value(&self) -> Value {
        Value::Seq(vec![
            self.f0.as_ref().map(|x| x.to_value()),
            self.f1.as_ref().map(|x| x.to_value()),
            self.f2.as_ref().map(|x| x.to_value()),
            self.f3.as_ref().map(|x| x.to_value()),
            Some(self.f4.to_value()),
        ])
    }
}
impl FromValue for Ts5omoode1 {
    fn from_value(v: &Value) -> Self {
        let s = match v { Value::Seq(s) => s, other => panic!("Ts5omoode1: expected Seq, got {other:?}") };
        assert_eq!(s.len(), 5, "Ts5omoode1: component count");
        let _ = s;
        Ts5omoode1 {
            f0: s[0].as_ref().map(FromValue::from_value),
            f1: s[1].as_ref().map(FromValue::from_value),
            f2: s[2].as_ref().map(FromValue::from_value),
            f3: s[3].as_ref().map(FromValue::from_value),
            f4: FromValue::from_value(s[4].as_ref().expect("component f4 of Ts5omoode1 must be present")),
        }
    }
}
impl ToValue for Ts5omoode1 {
    fn to_value(&self) -> Value {
        Value::Seq(vec![
            self.f0.as_ref().map(|x| x.to_value()),
            self.f1.as_ref().map(|x| x.to_value()),
            self.f2.as_ref().map(|x| x.to_value()),
            self.f3.as_ref().map(|x| x.to_value()),
            Some(self.f4.to_value()),
        ])
    }
}
impl FromValue for Ts5omoode2 {
    fn from_value(v: &Value) -> Self {
        let s = match v { Value::Seq(s) => s, other => panic!("Ts5omoode2: expected Seq, got {other:?}") };
        assert_eq!(s.len(), 5, "Ts5omoode2: component count");
        let _ = s;
        Ts5omoode2 {
            f0: s[0].as_ref().map(FromValue::from_value),
            f1: FromValue::from_value(s[1].as_ref().expect("component f1 of Ts5omoode2 must be present")),
            f2: s[2].as_ref().map(FromValue::from_value),
            f3: s[3].as_ref().map(FromValue::from_value),
            f4: FromValue::from_value(s[4].as_ref().expect("component f4 of Ts5omoode2 must be present")),
        }
    }
}
impl ToValue for Ts5omoode2 {
    fn to_value(&self) -> Value {
        Value::Seq(vec![
            self.f0.as_ref().map(|x| x.to_value()),
            Some(self.f1.to_value()),
            self.f2.as_ref().map(|x| x.to_value()),
            self.f3.as_ref().map(|x| x.to_value()),
            Some(self.f4.to_value()),
        ])
    }
}
impl FromValue for Ts5omoode3 {
    fn from_value(v: &Value) -> Self {
        let s = match v { Value::Seq(s) => s, other => panic!("Ts5omoode3: expected Seq, got {other:?}") };
        assert_eq!(s.len(), 5, "Ts5omoode3: component count");
        let _ = s;
        Ts5omoode3 {
            f0: s[0].as_ref().map(FromValue::from_value),
            f1: FromValue::from_value(s[1].as_ref().expect("component f1 of Ts5omoode3 must be present")),
            f2: s[2].as_ref().map(FromValue::from_value),
            f3: s[3].as_ref().map(FromValue::from_value),
            f4: FromValue::from_value(s[4].as_ref().expect("component f4 of Ts5omoode3 must be present")),
        }
    }
}
impl ToValue for Ts5omoode3 {
    fn to_value(&self) -> Value {
        Value::Seq(vec![
            self.f0.as_ref().map(|x| x.to_value()),
            Some(self.f1.to_value()),
            self.f2.as_ref().map(|x| x.to_value()),
            self.f3.as_ref().map(|x| x.to_value()),
            Some(self.f4.to_value()),
        ])
    }
}
impl FromValue for Ts5omoode4 {
    fn from_value(v: &Value) -> Self {
        let s = match v { Value::Seq(s) => s, other => panic!("Ts5omoode4: expected Seq, got {other:?}") };
        assert_eq!(s.len(), 5, "Ts5omoode4: component count");
        let _ = s;
        Ts5omoode4 {
            f0: s[0].as_ref().map(FromValue::from_value),
            f1: FromValue::from_value(s[1].as_ref().expect("component f1 of Ts5omoode4 must be present")),
            f2: s[2].as_ref().map(FromValue::from_value),
            f3: s[3].as_ref().map(FromValue::from_value),
            f4: FromValue::from_value(s[4].as_ref().expect("component f4 of Ts5omoode4 must be present")),
        }
    }
}
impl ToValue for Ts5omoode4 {
    fn to_value(&self) -> Value {
        Value::Seq(vec![
            self.f0.as_ref().map(|x| x.to_value()),
            Some(self.f1.to_value()),
            self.f2.as_ref().map(|x| x.to_value()),
            self.f3.as_ref().map(|x| x.to_value()),
            Some(self.f4.to_value()),
        ])
    }
}
impl FromValue for Ts5omoode5 {
    fn from_value(v: &Value) -> Self {
        let s = match v { Value::Seq(s) => s, other => panic!("Ts5omoode5: expected Seq, got {other:?}") };
        assert_eq!(s.len(), 5, "Ts5omoode5: component count");
        let _ = s;
        Ts5omoode5 {
            f0: s[0].as_ref().map(FromValue::from_value),
            f1: FromValue::from_value(s[1].as_ref().expect("component f1 of Ts5omoode5 must be present")),
            f2: s[2].as_ref().map(FromValue::from_value),
            f3: s[3].as_ref().map(FromValue::from_value),
            f4: FromValue::from_value(s[4].as_ref().expect("component f4 of Ts5omoode5 must be present")),
        }
    }
}
impl ToValue for Ts5omoode5 {
    fn to_value(&self) -> Value {
        Value::Seq(vec![
            self.f0.as_ref().map(|x| x.to_value()),
            Some(self.f1.to_value()),
            self.f2.as_ref().map(|x| x.to_value()),
            self.f3.as_ref().map(|x| x.to_value()),
            Some(self.f4.to_value()),
        ])
    }
}
impl FromValue for Ts5dmoodn {
    fn from_value(v: &Value) -> Self {
        let s = match v { Value::Seq(s) => s, other => panic!("Ts5dmoodn: expected Seq, got {other:?}") };
        assert_eq!(s.len(), 5, "Ts5dmoodn: component count");
        let _ = s;
        Ts5dmoodn {
            f0: FromValue::from_value(s[0].as_ref().expect("component f0 of Ts5dmoodn must be present")),
            f1: FromValue::from_value(s[1].as_ref().expect("component f1 of Ts5dmoodn must be present")),
            f2: s[2].as_ref().map(FromValue::from_value),
            f3: s[3].as_ref().map(FromValue::from_value),
            f4: FromValue::from_value(s[4].as_ref().expect("component f4 of Ts5dmoodn must be present")),
        }
    }
}
impl ToValue for Ts5dmoodn {
    fn to_value(&self) -> Value {
        Value::Seq(vec![
            Some(self.f0.to_value()),
            Some(self.f1.to_value()),
            self.f2.as_ref().map(|x| x.to_value()),
            self.f3.as_ref().map(|x| x.to_value()),
            Some(self.f4.to_value()),
        ])
    }
}
impl FromValue for Ts5dmoode0 {
    fn from_value(v: &Value) -> Self {
        let s = match v { Value::Seq(s) => s, other => panic!("Ts5dmoode0: expected Seq, got {other:?}") };
        assert_eq!(s.len(), 5, "Ts5dmoode0: component count");
        let _ = s;
        Ts5dmoode0 {
            f0: FromValue::from_value(s[0].as_ref().expect("component f0 of Ts5dmoode0 must be present")),
            f1: s[1].as_ref().map(FromValue::from_value),
            f2: s[2].as_ref().map(FromValue::from_value),
            f3: s[3].as_ref().map(FromValue::from_value),
            f4: FromValue::from_value(s[4].as_ref().expect("component f4 of Ts5dmoode0 must be present")),
        }
    }
}
impl ToValue for Ts5dmoode0 {
    fn to_value(&self) -> Value {
        Value::Seq(vec![
            Some(self.f0.to_value()),
            self.f1.as_ref().map(|x| x.to_value()),
            self.f2.as_ref().map(|x| x.to_value()),
            self.f3.as_ref().map(|x| x.to_value()),
            Some(self.f4.to_value()),
        ])
    }
}
impl FromValue for Ts5dmoode1 {
    fn from_value(v: &Value) -> Self {
        let s = match v { Value::Seq(s) => s, other => panic!("Ts5dmoode1: expected Seq, got {other:?}") };
        assert_eq!(s.len(), 5, "Ts5dmoode1: component count");
        let _ = s;
        Ts5dmoode1 {
            f0: FromValue::from_value(s[0].as_ref().expect("component f0 of Ts5dmoode1 must be present")),
            f1: s[1].as_ref().map(FromValue::from_value),
            f2: s[2].as_ref().map(FromValue::from_value),
            f3: s[3].as_ref().map(FromValue::from_value),
            f4: FromValue::from_value(s[4].as_ref().expect("component f4 of Ts5dmoode1 must be present")),
        }
    }
}
impl ToValue for Ts5dmoode1 {
    fn to_value(&self) -> Value {
        Value::Seq(vec![
            Some(self.f0.to_value()),
            self.f1.as_ref().map(|x| x.to_value()),
            self.f2.as_ref().map(|x| x.to_value()),
            self.f3.as_ref().map(|x| x.to_value()),
            Some(self.f4.to_value()),
        ])
    }
}
impl FromValue for Ts5dmoode2 {
    fn from_value(v: &Value) -> Self {
        let s = match v { Value::Seq(s) => s, other => panic!("Ts5dmoode2: expected Seq, got {other:?}") };
        assert_eq!(s.len(), 5, "Ts5dmoode2: component count");
        let _ = s;
        Ts5dmoode2 {
            f0: FromValue::from_value(s[0].as_ref().expect("component f0 of Ts5dmoode2 must be present")),
            f1: FromValue::from_value(s[1].as_ref().expect("component f1 of Ts5dmoode2 must be present")),
            f2: s[2].as_ref().map(FromValue::from_value),
            f3: s[3].as_ref().map(FromValue::from_value),
            f4: FromValue::from_value(s[4].as_ref().expect("component f4 of Ts5dmoode2 must be present")),
        }
    }
}
impl ToValue for Ts5dmoode2 {
    fn to_value(&self) -> Value {
        Value::Seq(vec![
            Some(self.f0.to_value()),
            Some(self.f1.to_value()),
            self.f2.as_ref().map(|x| x.to_value()),
            self.f3.as_ref().map(|x| x.to_value()),
            Some(self.f4.to_value()),
        ])
    }
}
impl FromValue for Ts5dmoode3 {
    fn from_value(v: &Value) -> Self {
        let s = match v { Value::Seq(s) => s, other => panic!("Ts5dmoode3: expected Seq, got {other:?}") };
        assert_eq!(s.len(), 5, "Ts5dmoode3: component count");
        let _ = s;
        Ts5dmoode3 {
            f0: FromValue::from_value(s[0].as_ref().expect("component f0 of Ts5dmoode3 must be present")),
            f1: FromValue::from_value(s[1].as_ref().expect("component f1 of Ts5dmoode3 must be present")),
            f2: s[2].as_ref().map(FromValue::from_value),
            f3: s[3].as_ref().map(FromValue::from_value),
            f4: FromValue::from_value(s[4].as_ref().expect("component f4 of Ts5dmoode3 must be present")),
        }
    }
}
impl ToValue for Ts5dmoode3 {
    fn to_value(&self) -> Value {
        Value::Seq(vec![
            Some(self.f0.to_value()),
            Some(self.f1.to_value()),
            self.f2.as_ref().map(|x| x.to_value()),
            self.f3.as_ref().map(|x| x.to_value()),
            Some(self.f4.to_value()),
        ])
    }
}
impl FromValue for Ts5dmoode4 {
    fn from_value(v: &Value) -> Self {
        let s = match v { Value::Seq(s) => s, other => panic!("Ts5dmoode4: expected Seq, got {other:?}") };
        assert_eq!(s.len(), 5, "Ts5dmoode4: component count");
        let _ = s;
        Ts5dmoode4 {
            f0: FromValue::from_value(s[0].as_ref().expect("component f0 of Ts5dmoode4 must be present")),
            f1: FromValue::from_value(s[1].as_ref().expect("component f1 of Ts5dmoode4 must be present")),
            f2: s[2].as_ref().map(FromValue::from_value),
            f3: s[3].as_ref().map(FromValue::from_value),
            f4: FromValue::from_value(s[4].as_ref().expect("component f4 of Ts5dmoode4 must be present")),
        }
    }
}
impl ToValue for Ts5dmoode4 {
    fn to_value(&self) -> Value {
        Value::Seq(vec![
            Some(self.f0.to_value()),
            Some(self.f1.to_value()),
            self.f2.as_ref().map(|x| x.to_value()),
            self.f3.as_ref().map(|x| x.to_value()),
            Some(self.f4.to_value()),
        ])
    }
}
impl FromValue for Ts5dmoode5 {
    fn from_value(v: &Value) -> Self {
        let s = match v { Value::Seq(s) => s, other => panic!("Ts5dmoode5: expected Seq, got {other:?}") };
        assert_eq!(s.len(), 5, "Ts5dmoode5: component count");
        let _ = s;
        Ts5dmoode5 {
            f0: FromValue::from_value(s[0].as_ref().expect("component f0 of Ts5dmoode5 must be present")),
            f1: FromValue::from_value(s[1].as_ref().expect("component f1 of Ts5dmoode5 must be present")),
            f2: s[2].as_ref().map(FromValue::from_value),
            f3: s[3].as_ref().map(FromValue::from_value),
            f4: FromValue::from_value(s[4].as_ref().expect("component f4 of Ts5dmoode5 must be present")),
        }
    }
}
impl ToValue for Ts5dmoode5 {
    fn to_value(&self) -> Value {
        Value::Seq(vec![
            Some(self.f0.to_value()),
            Some(self.f1.to_value()),
            self.f2.as_ref().map(|x| x.to_value()),
            self.f3.as_ref().map(|x| x.to_value()),
            Some(self.f4.to_value()),
        ])
    }
}
impl FromValue for Ts5mooodn {
    fn from_value(v: &Value) -> Self {
        let s = match v { Value::Seq(s) => s, other => panic!("Ts5mooodn: expected Seq, got {other:?}") };
        assert_eq!(s.len(), 5, "Ts5mooodn: component count");
        let _ = s;
        Ts5mooodn {
            f0: FromValue::from_value(s[0].as_ref().expect("component f0 of Ts5mooodn must be present")),
            f1: s[1].as_ref().map(FromValue::from_value),
            f2: s[2].as_ref().map(FromValue::from_value),
            f3: s[3].as_ref().map(FromValue::from_value),
            f4: FromValue::from_value(s[4].as_ref().expect("component f4 of Ts5mooodn must be present")),
        }
    }
}
impl ToValue for Ts5mooodn {
    fn to_value(&self) -> Value {
        Value::Seq(vec![
            Some(self.f0.to_value()),
            self.f1.as_ref().map(|x| x.to_value()),
            self.f2.as_ref().map(|x| x.to_value()),
            self.f3.as_ref().map(|x| x.to_value()),
            Some(self.f4.to_value()),
        ])
    }
}
impl FromValue for Ts5mooode0 {
    fn from_value(v: &Value) -> Self {
        let s = match v { Value::Seq(s) => s, other => panic!("Ts5mooode0: expected Seq, got {other:?}") };
        assert_eq!(s.len(), 5, "Ts5mooode0: component count");
        let _ = s;
        Ts5mooode0 {
            f0: FromValue::from_value(s[0].as_ref().expect("component f0 of Ts5mooode0 must be present")),
            f1: s[1].as_ref().map(FromValue::from_value),
            f2: s[2].as_ref().map(FromValue::from_value),
            f3: s[3].as_ref().map(FromValue::from_value),
            f4: FromValue::from_value(s[4].as_ref().expect("component f4 of Ts5mooode0 must be present")),
        }
    }
}
impl ToValue for Ts5mooode0 {
    fn to_value(&self) -> Value {
        Value::Seq(vec![
            Some(self.f0.to_value()),
            self.f1.as_ref().map(|x| x.to_value()),
            self.f2.as_ref().map(|x| x.to_value()),
            self.f3.as_ref().map(|x| x.to_value()),
            Some(self.f4.to_value()),
        ])
    }
}
impl FromValue for Ts5mooode1 {
    fn from_value(v: &Value) -> Self {
        let s = match v { Value::Seq(s) => s, other => panic!("Ts5mooode1: expected Seq, got {other:?}") };
        assert_eq!(s.len(), 5, "Ts5mooode1: component count");
        let _ = s;
        Ts5mooode1 {
            f0: FromValue::from_value(s[0].as_ref().expect("component f0 of Ts5mooode1 must be present")),
            f1: s[1].as_ref().map(FromValue::from_value),
            f2: s[2].as_ref().map(FromValue::from_value),
            f3: s[3].as_ref().map(FromValue::from_value),
            f4: FromValue::from_value(s[4].as_ref().expect("component f4 of Ts5mooode1 must be present")),
        }
    }
}
impl ToValue for Ts5mooode1 {
    fn to_value(&self) -> Value {
        Value::Seq(vec![
            Some(self.f0.to_value()),
            self.f1.as_ref().map(|x| x.to_value()),
            self.f2.as_ref().map(|x| x.to_value()),
            self.f3.as_ref().map(|x| x.to_value()),
            Some(self.f4.to_value()),
        ])
    }
}
impl FromValue for Ts5mooode2 {
    fn from_value(v: &Value) -> Self {
        let s = match v { Value::Seq(s) => s, other => panic!("Ts5mooode2: expected Seq, got {other:?}") };
        assert_eq!(s.len(), 5, "Ts5mooode2: component count");
        let _ = s;
        Ts5mooode2 {
            f0: FromValue::from_value(s[0].as_ref().expect("component f0 of Ts5mooode2 must be present")),
            f1: s[1].as_ref().map(FromValue::from_value),
            f2: s[2].as_ref().map(FromValue::from_value),
            f3: s[3].as_ref().map(FromValue::from_value),
            f4: FromValue::from_value(s[4].as_ref().expect("component f4 of Ts5mooode2 must be present")),
        }
    }
}
impl ToValue for Ts5mooode2 {
    fn to_value(&self) -> Value {
        Value::Seq(vec![
            Some(self.f0.to_value()),
            self.f1.as_ref().map(|x| x.to_value()),
            self.f2.as_ref().map(|x| x.to_value()),
            self.f3.as_ref().map(|x| x.to_value()),
            Some(self.f4.to_value()),
        ])
    }
}
impl FromValue for Ts5mooode3 {
    fn from_value(v: &Value) -> Self {
        let s = match v { Value::Seq(s) => s, other => panic!("Ts5mooode3: expected Seq, got {other:?}") };
        assert_eq!(s.len(), 5, "Ts5mooode3: component count");
        let _ = s;
        Ts5mooode3 {
            f0: FromValue::from_value(s[0].as_ref().expect("component f0 of Ts5mooode3 must be present")),
            f1: s[1].as_ref().map(FromValue::from_value),
            f2: s[2].as_ref().map(FromValue::from_value),
            f3: s[3].as_ref().map(FromValue::from_value),
            f4: FromValue::from_value(s[4].as_ref().expect("component f4 of Ts5mooode3 must be present")),
        }
    }
}
impl ToValue for Ts5mooode3 {
    fn to_value(&self) -> Value {
        Value::Seq(vec![
            Some(self.f0.to_value()),
            self.f1.as_ref().map(|x| x.to_value()),
            self.f2.as_ref().map(|x| x.to_value()),
            self.f3.as_ref().map(|x| x.to_value()),
            Some(self.f4.to_value()),
        ])
    }
}
impl FromValue for Ts5mooode4 {
    fn from_value(v: &Value) -> Self {
        let s = match v { Value::Seq(s) => s, other => panic!("Ts5mooode4: expected Seq, got {other:?}") };
        assert_eq!(s.len(), 5, "Ts5mooode4: component count");
        let _ = s;
        Ts5mooode4 {
            f0: FromValue::from_value(s[0].as_ref().expect("component f0 of Ts5mooode4 must be present")),
            f1: s[1].as_ref().map(FromValue::from_value),
            f2: s[2].as_ref().map(FromValue::from_value),
            f3: s[3].as_ref().map(FromValue::from_value),
            f4: FromValue::from_value(s[4].as_ref().expect("component f4 of Ts5mooode4 must be present")),
        }
    }
}
impl ToValue for Ts5mooode4 {
    fn to_value(&self) -> Value {
        Value::Seq(vec![
            Some(self.f0.to_value()),
            self.f1.as_ref().map(|x| x.to_value()),
            self.f2.as_ref().map(|x| x.to_value()),
            self.f3.as_ref().map(|x| x.to_value()),
            Some(self.f4.to_value()),
        ])
    }
}
impl FromValue for Ts5mooode5 {
    fn from_value(v: &Value) -> Self {
        let s = match v { Value::Seq(s) => s, other => panic!("Ts5mooode5: expected Seq, got {other:?}") };
        assert_eq!(s.len(), 5, "Ts5mooode5: component count");
        let _ = s;
        Ts5mooode5 {
            f0: FromValue::from_value(s[0].as_ref().expect("component f0 of Ts5mooode5 must be present")),
            f1: s[1].as_ref().map(FromValue::from_value),
            f2: s[2].as_ref().map(FromValue::from_value),
            f3: s[3].as_ref().map(FromValue::from_value),
            f4: FromValue::from_value(s[4].as_ref().expect("component f4 of Ts5mooode5 must be present")),
        }
    }
}
impl ToValue for Ts5mooode5 {
    fn to_value(&self) -> Value {
        Value::Seq(vec![
            Some(self.f0.to_value()),
            self.f1.as_ref().map(|x| x.to_value()),
            self.f2.as_ref().map(|x| x.to_value()),
            self.f3.as_ref().map(|x| x.to_value()),
            Some(self.f4.to_value()),
        ])
    }
}
impl FromValue for Ts5oooodn {
    fn from_value(v: &Value) -> Self {
        let s = match v { Value::Seq(s) => s, other => panic!("Ts5oooodn: expected Seq, got {other:?}") };
        assert_eq!(s.len(), 5, "Ts5oooodn: component count");
        let _ = s;
        Ts5oooodn {
            f0: s[0].as_ref().map(FromValue::from_value),
            f1: s[1].as_ref().map(FromValue::from_value),
            f2: s[2].as_ref().map(FromValue::from_value),
            f3: s[3].as_ref().map(FromValue::from_value),
            f4: FromValue::from_value(s[4].as_ref().expect("component f4 of Ts5oooodn must be present")),
        }
    }
}
impl ToValue for Ts5oooodn {
    fn to_value(&self) -> Value {
        Value::Seq(vec![
            self.f0.as_ref().map(|x| x.to_value()),
            self.f1.as_ref().map(|x| x.to_value()),
            self.f2.as_ref().map(|x| x.to_value()),
            self.f3.as_ref().map(|x| x.to_value()),
            Some(self.f4.to_value()),
        ])
    }
}
impl FromValue for Ts5oooode0 {
    fn from_value(v: &Value) -> Self {
        let s = match v { Value::Seq(s) => s, other => panic!("Ts5oooode0: expected Seq, got {other:?}") };
        assert_eq!(s.len(), 5, "Ts5oooode0: component count");
        let _ = s;
        Ts5oooode0 {
            f0: s[0].as_ref().map(FromValue::from_value),
            f1: s[1].as_ref().map(FromValue::from_value),
            f2: s[2].as_ref().map(FromValue::from_value),
            f3: s[3].as_ref().map(FromValue::from_value),
            f4: FromValue::from_value(s[4].as_ref().expect("component f4 of Ts5oooode0 must be present")),
        }
    }
}
impl ToValue for Ts5oooode0 {
    fn to_value(&self) -> Value {
        Value::Seq(vec![
            self.f0.as_ref().map(|x| x.to_value()),
            self.f1.as_ref().map(|x| x.to_value()),
            self.f2.as_ref().map(|x| x.to_value()),
            self.f3.as_ref().map(|x| x.to_value()),
            Some(self.f4.to_value()),
        ])
    }
}
impl FromValue for Ts5oooode1 {
    fn from_value(v: &Value) -> Self {
        let s = match v { Value::Seq(s) => s, other => panic!("Ts5oooode1: expected Seq, got {other:?}") };
        assert_eq!(s.len(), 5, "Ts5oooode1: component count");
        let _ = s;
        Ts5oooode1 {
            f0: s[0].as_ref().map(FromValue::from_value),
            f1: s[1].as_ref().map(FromValue::from_value),
            f2: s[2].as_ref().map(FromValue::from_value),
            f3: s[3].as_ref().map(FromValue::from_value),
            f4: FromValue::from_value(s[4].as_ref().expect("component f4 of Ts5oooode1 must be present")),
        }
    }
}
impl ToValue for Ts5oooode1 {
    fn to_value(&self) -> Value {
        Value::Seq(vec![
            self.f0.as_ref().map(|x| x.to_value()),
            self.f1.as_ref().map(|x| x.to_value()),
            self.f2.as_ref().map(|x| x.to_value()),
            self.f3.as_ref().map(|x| x.to_value()),
            Some(self.f4.to_value()),
        ])
    }
}
impl FromValue for Ts5oooode2 {
    fn from_value(v: &Value) -> Self {
        let s = match v { Value::Seq(s) => s, other => panic!("Ts5oooode2: expected Seq, got {other:?}") };
        assert_eq!(s.len(), 5, "Ts5oooode2: component count");
        let _ = s;
        Ts5oooode2 {
            f0: s[0].as_ref().map(FromValue::from_value),
            f1: s[1].as_ref().map(FromValue::from_value),
            f2: s[2].as_ref().map(FromValue::from_value),
            f3: s[3].as_ref().map(FromValue::from_value),
            f4: FromValue::from_value(s[4].as_ref().expect("component f4 of Ts5oooode2 must be present")),
        }
    }
}
impl ToValue for Ts5oooode2 {
    fn to_value(&self) -> Value {
        Value::Seq(vec![
            self.f0.as_ref().map(|x| x.to_value()),
            self.f1.as_ref().map(|x| x.to_value()),
            self.f2.as_ref().map(|x| x.to_value()),
            self.f3.as_ref().map(|x| x.to_value()),
            Some(self.f4.to_value()),
        ])
    }
}
impl FromValue for Ts5oooode3 {
    fn from_value(v: &Value) -> Self {
        let s = match v { Value::Seq(s) => s, other => panic!("Ts5oooode3: expected Seq, got {other:?}") };
        assert_eq!(s.len(), 5, "Ts5oooode3: component count");
        let _ = s;
        Ts5oooode3 {
            f0: s[0].as_ref().map(FromValue::from_value),
            f1: s[1].as_ref().map(FromValue::from_value),
            f2: s[2].as_ref().map(FromValue::from_value),
            f3: s[3].as_ref().map(FromValue::from_value),
            f4: FromValue::from_value(s[4].as_ref().expect("component f4 of Ts5oooode3 must be present")),
        }
    }
}
impl ToValue for Ts5oooode3 {
    fn to_value(&self) -> Value {
        Value::Seq(vec![
            self.f0.as_ref().map(|x| x.to_value()),
            self.f1.as_ref().map(|x| x.to_value()),
            self.f2.as_ref().map(|x| x.to_value()),
            self.f3.as_ref().map(|x| x.to_value()),
            Some(self.f4.to_value()),
        ])
    }
}
impl FromValue for Ts5oooode4 {
    fn from_value(v: &Value) -> Self {
        let s = match v { Value::Seq(s) => s, other => panic!("Ts5oooode4: expected Seq, got {other:?}") };
        assert_eq!(s.len(), 5, "Ts5oooode4: component count");
        let _ = s;
        Ts5oooode4 {
            f0: s[0].as_ref().map(FromValue::from_value),
            f1: s[1].as_ref().map(FromValue::from_value),
            f2: s[2].as_ref().map(FromValue::from_value),
            f3: s[3].as_ref().map(FromValue::from_value),
            f4: FromValue::from_value(s[4].as_ref().expect("component f4 of Ts5oooode4 must be present")),
        }
    }
}
impl ToValue for Ts5oooode4 {
    fn to_value(&self) -> Value {
        Value::Seq(vec![
            self.f0.as_ref().map(|x| x.to_value()),
            self.f1.as_ref().map(|x| x.to_value()),
            self.f2.as_ref().map(|x| x.to_value()),
            self.f3.as_ref().map(|x| x.to_value()),
            Some(self.f4.to_value()),
        ])
    }
}
impl FromValue for Ts5oooode5 {
    fn from_value(v: &Value) -> Self {
        let s = match v { Value::Seq(s) => s, other => panic!("Ts5oooode5: expected Seq, got {other:?}") };
        assert_eq!(s.len(), 5, "Ts5oooode5: component count");
        let _ = s;
        Ts5oooode5 {
            f0: s[0].as_ref().map(FromValue::from_value),
            f1: s[1].as_ref().map(FromValue::from_value),
            f2: s[2].as_ref().map(FromValue::from_value),
            f3: s[3].as_ref().map(FromValue::from_value),
            f4: FromValue::from_value(s[4].as_ref().expect("component f4 of Ts5oooode5 must be present")),
        }
    }
}
impl ToValue for Ts5oooode5 {
    fn to_value(&self) -> Value {
        Value::Seq(vec![
            self.f0.as_ref().map(|x| x.to_value()),
            self.f1.as_ref().map(|x| x.to_value()),
            self.f2.as_ref().map(|x| x.to_value()),
            self.f3.as_ref().map(|x| x.to_value()),
            Some(self.f4.to_value()),
        ])
    }
}
impl FromValue for Ts5dooodn {
    fn from_value(v: &Value) -> Self {
        let s = match v { Value::Seq(s) => s, other => panic!("Ts5dooodn: expected Seq, got {other:?}") };
        assert_eq!(s.len(), 5, "Ts5dooodn: component count");
        let _ = s;
        Ts5dooodn {
            f0: FromValue::from_value(s[0].as_ref().expect("component f0 of Ts5dooodn must be present")),
            f1: s[1].as_ref().map(FromValue::from_value),
            f2: s[2].as_ref().map(FromValue::from_value),
            f3: s[3].as_ref().map(FromValue::from_value),
            f4: FromValue::from_value(s[4].as_ref().expect("component f4 of Ts5dooodn must be present")),
        }
    }
}
impl ToValue for Ts5dooodn {
    fn to_value(&self) -> Value {
        Value::Seq(vec![
            Some(self.f0.to_value()),
            self.f1.as_ref().map(|x| x.to_value()),
            self.f2.as_ref().map(|x| x.to_value()),
            self.f3.as_ref().map(|x| x.to_value()),
            Some(self.f4.to_value()),
        ])
    }
}
impl FromValue for Ts5dooode0 {
    fn from_value(v: &Value) -> Self {
        let s = match v { Value::Seq(s) => s, other => panic!("Ts5dooode0: expected Seq, got {other:?}") };
        assert_eq!(s.len(), 5, "Ts5dooode0: component count");
        let _ = s;
        Ts5dooode0 {
            f0: FromValue::from_value(s[0].as_ref().expect("component f0 of Ts5dooode0 must be present")),
            f1: s[1].as_ref().map(FromValue::from_value),
            f2: s[2].as_ref().map(FromValue::from_value),
            f3: s[3].as_ref().map(FromValue::from_value),
            f4: FromValue::from_value(s[4].as_ref().expect("component f4 of Ts5dooode0 must be present")),
        }
    }
}
impl ToValue for Ts5dooode0 {
    fn to_value(&self) -> Value {
        Value::Seq(vec![
            Some(self.f0.to_value()),
            self.f1.as_ref().map(|x| x.to_value()),
            self.f2.as_ref().map(|x| x.to_value()),
            self.f3.as_ref().map(|x| x.to_value()),
            Some(self.f4.to_value()),
        ])
    }
}
impl FromValue for Ts5dooode1 {
    fn from_value(v: &Value) -> Self {
        let s = match v { Value::Seq(s) => s, other => panic!("Ts5dooode1: expected Seq, got {other:?}") };
        assert_eq!(s.len(), 5, "Ts5dooode1: component count");
        let _ = s;
        Ts5dooode1 {
            f0: FromValue::from_value(s[0].as_ref().expect("component f0 of Ts5dooode1 must be present")),
            f1: s[1].as_ref().map(FromValue::from_value),
            f2: s[2].as_ref().map(FromValue::from_value),
            f3: s[3].as_ref().map(FromValue::from_value),
            f4: FromValue::from_value(s[4].as_ref().expect("component f4 of Ts5dooode1 must be present")),
        }
    }
}
impl ToValue for Ts5dooode1 {
    fn to_value(&self) -> Value {
        Value::Seq(vec![
            Some(self.f0.to_value()),
            self.f1.as_ref().map(|x| x.to_value()),
            self.f2.as_ref().map(|x| x.to_value()),
            self.f3.as_ref().map(|x| x.to_value()),
            Some(self.f4.to_value()),
        ])
    }
}
impl FromValue for Ts5dooode2 {
    fn from_value(v: &Value) -> Self {
        let s = match v { Value::Seq(s) => s, other => panic!("Ts5dooode2: expected Seq, got {other:?}") };
        assert_eq!(s.len(), 5, "Ts5dooode2: component count");
        let _ = s;
        Ts5dooode2 {
            f0: FromValue::from_value(s[0].as_ref().expect("component f0 of Ts5dooode2 must be present")),
            f1: s[1].as_ref().map(FromValue::from_value),
            f2: s[2].as_ref().map(FromValue::from_value),
            f3: s[3].as_ref().map(FromValue::from_value),
            f4: FromValue::from_value(s[4].as_ref().expect("component f4 of Ts5dooode2 must be present")),
        }
    }
}
impl ToValue for Ts5dooode2 {
    fn to_value(&self) -> Value {
        Value::Seq(vec![
            Some(self.f0.to_value()),
            self.f1.as_ref().map(|x| x.to_value()),
            self.f2.as_ref().map(|x| x.to_value()),
            self.f3.as_ref().map(|x| x.to_value()),
            Some(self.f4.to_value()),
        ])
    }
}
impl FromValue for Ts5dooode3 {
    fn from_value(v: &Value) -> Self {
        let s = match v { Value::Seq(s) => s, other => panic!("Ts5dooode3: expected Seq, got {other:?}") };
        assert_eq!(s.len(), 5, "Ts5dooode3: component count");
        let _ = s;
        Ts5dooode3 {
            f0: FromValue::from_value(s[0].as_ref().expect("component f0 of Ts5dooode3 must be present")),
            f1: s[1].as_ref().map(FromValue::from_value),
            f2: s[2].as_ref().map(FromValue::from_value),
            f3: s[3].as_ref().map(FromValue::from_value),
            f4: FromValue::from_value(s[4].as_ref().expect("component f4 of Ts5dooode3 must be present")),
        }
    }
}
impl ToValue for Ts5dooode3 {
    fn to_value(&self) -> Value {
        Value::Seq(vec![
            Some(self.f0.to_value()),
            self.f1.as_ref().map(|x| x.to_value()),
            self.f2.as_ref().map(|x| x.to_value()),
            self.f3.as_ref().map(|x| x.to_value()),
            Some(self.f4.to_value()),
        ])
    }
}
impl FromValue for Ts5dooode4 {
    fn from_value(v: &Value) -> Self {
        let s = match v { Value::Seq(s) => s, other => panic!("Ts5dooode4: expected Seq, got {other:?}") };
        assert_eq!(s.len(), 5, "Ts5dooode4: component count");
        let _ = s;
        Ts5dooode4 {
            f0: FromValue::from_value(s[0].as_ref().expect("component f0 of Ts5dooode4 must be present")),
            f1: s[1].as_ref().map(FromValue::from_value),
            f2: s[2].as_ref().map(FromValue::from_value),
            f3: s[3].as_ref().map(FromValue::from_value),
            f4: FromValue::from_value(s[4].as_ref().expect("component f4 of Ts5dooode4 must be present")),
        }
    }
}
impl ToValue for Ts5dooode4 {
    fn to_value(&self) -> Value {
        Value::Seq(vec![
            Some(self.f0.to_value()),
            self.f1.as_ref().map(|x| x.to_value()),
            self.f2.as_ref().map(|x| x.to_value()),
            self.f3.as_ref().map(|x| x.to_value()),
            Some(self.f4.to_value()),
        ])
    }
}
impl FromValue for Ts5dooode5 {
    fn from_value(v: &Value) -> Self {
        let s = match v { Value::Seq(s) => s, other => panic!("Ts5dooode5: expected Seq, got {other:?}") };
        assert_eq!(s.len(), 5, "Ts5dooode5: component count");
        let _ = s;
        Ts5dooode5 {
            f0: FromValue::from_value(s[0].as_ref().expect("component f0 of Ts5dooode5 must be present")),
            f1: s[1].as_ref().map(FromValue::from_value),
            f2: s[2].as_ref().map(FromValue::from_value),
            f3: s[3].as_ref().map(FromValue::from_value),
            f4: FromValue::from_value(s[4].as_ref().expect("component f4 of Ts5dooode5 must be present")),
        }
    }
}
impl ToValue for Ts5dooode5 {
    fn to_value(&self) -> Value {
        Value::Seq(vec![
            Some(self.f0.to_value()),
            self.f1.as_ref().map(|x| x.to_value()),
            self.f2.as_ref().map(|x| x.to_value()),
            self.f3.as_ref().map(|x| x.to_value()),
            Some(self.f4.to_value()),
        ])
    }
}
impl FromValue for Ts5mdoodn {
    fn from_value(v: &Value) -> Self {
        let s = match v { Value::Seq(s) => s, other => panic!("Ts5mdoodn: expected Seq, got {other:?}") };
        assert_eq!(s.len(), 5, "Ts5mdoodn: component count");
        let _ = s;
        Ts5mdoodn {
            f0: FromValue::from_value(s[0].as_ref().expect("component f0 of Ts5mdoodn must be present")),
            f1: FromValue::from_value(s[1].as_ref().expect("component f1 of Ts5mdoodn must be present")),
            f2: s[2].as_ref().map(FromValue::from_value),
            f3: s[3].as_ref().map(FromValue::from_value),
            f4: FromValue::from_value(s[4].as_ref().expect("component f4 of Ts5mdoodn must be present")),
        }
    }
}
impl ToValue for Ts5mdoodn {
    fn to_value(&self) -> Value {
        Value::Seq(vec![
            Some(self.f0.to_value()),
            Some(self.f1.to_value()),
            self.f2.as_ref().map(|x| x.to_value()),
            self.f3.as_ref().map(|x| x.to_value()),
            Some(self.f4.to_value()),
        ])
    }
}
impl FromValue for Ts5mdoode0 {
    fn from_value(v: &Value) -> Self {
        let s = match v { Value::Seq(s) => s, other => panic!("Ts5mdoode0: expected Seq, got {other:?}") };
        assert_eq!(s.len(), 5, "Ts5mdoode0: component count");
        let _ = s;
        Ts5mdoode0 {
            f0: FromValue::from_value(s[0].as_ref().expect("component f0 of Ts5mdoode0 must be present")),
            f1: FromValue::from_value(s[1].as_ref().expect("component f1 of Ts5mdoode0 must be present")),
            f2: s[2].as_ref().map(FromValue::from_value),
            f3: s[3].as_ref().map(FromValue::from_value),
            f4: FromValue::from_value(s[4].as_ref().expect("component f4 of Ts5mdoode0 must be present")),
        }
    }
}
impl ToValue for Ts5mdoode0 {
    fn to_value(&self) -> Value {
        Value::Seq(vec![
            Some(self.f0.to_value()),
            Some(self.f1.to_value()),
            self.f2.as_ref().map(|x| x.to_value()),
            self.f3.as_ref().map(|x| x.to_value()),
            Some(self.f4.to_value()),
        ])
    }
}
impl FromValue for Ts5mdoode1 {
    fn from_value(v: &Value) -> Self {
        let s = match v { Value::Seq(s) => s, other => panic!("Ts5mdoode1: expected Seq, got {other:?}") };
        assert_eq!(s.len(), 5, "Ts5mdoode1: component count");
        let _ = s;
        Ts5mdoode1 {
            f0: FromValue::from_value(s[0].as_ref().expect("component f0 of Ts5mdoode1 must be present")),
            f1: FromValue::from_value(s[1].as_ref().expect("component f1 of Ts5mdoode1 must be present")),
            f2: s[2].as_ref().map(FromValue::from_value),
            f3: s[3].as_ref().map(FromValue::from_value),
            f4: FromValue::from_value(s[4].as_ref().expect("component f4 of Ts5mdoode1 must be present")),
        }
    }
}
impl ToValue for Ts5mdoode1 {
    fn to_value(&self) -> Value {
        Value::Seq(vec![
            Some(self.f0.to_value()),
            Some(self.f1.to_value()),
            self.f2.as_ref().map(|x| x.to_value()),
            self.f3.as_ref().map(|x| x.to_value()),
            Some(self.f4.to_value()),
        ])
    }
}
impl FromValue for Ts5mdoode2 {
    fn from_value(v: &Value) -> Self {
        let s = match v { Value::Seq(s) => s, other => panic!("Ts5mdoode2: expected Seq, got {other:?}") };
        assert_eq!(s.len(), 5, "Ts5mdoode2: component count");
        let _ = s;
        Ts5mdoode2 {
            f0: FromValue::from_value(s[0].as_ref().expect("component f0 of Ts5mdoode2 must be present")),
            f1: FromValue::from_value(s[1].as_ref().expect("component f1 of Ts5mdoode2 must be present")),
            f2: s[2].as_ref().map(FromValue::from_value),
            f3: s[3].as_ref().map(FromValue::from_value),
            f4: FromValue::from_value(s[4].as_ref().expect("component f4 of Ts5mdoode2 must be present")),
        }
    }
}
impl ToValue for Ts5mdoode2 {
    fn to_value(&self) -> Value {
        Value::Seq(vec![
            Some(self.f0.to_value()),
            Some(self.f1.to_value()),
            self.f2.as_ref().map(|x| x.to_value()),
            self.f3.as_ref().map(|x| x.to_value()),
            Some(self.f4.to_value()),
        ])
    }
}
impl FromValue for Ts5mdoode3 {
    fn from_value(v: &Value) -> Self {
        let s = match v { Value::Seq(s) => s, other => panic!("Ts5mdoode3: expected Seq, got {other:?}") };
        assert_eq!(s.len(), 5, "Ts5mdoode3: component count");
        let _ = s;
        Ts5mdoode3 {
            f0: FromValue::from_value(s[0].as_ref().expect("component f0 of Ts5mdoode3 must be present")),
            f1: FromValue::from_value(s[1].as_ref().expect("component f1 of Ts5mdoode3 must be present")),
            f2: s[2].as_ref().map(FromValue::from_value),
            f3: s[3].as_ref().map(FromValue::from_value),
            f4: FromValue::from_value(s[4].as_ref().expect("component f4 of Ts5mdoode3 must be present")),
        }
    }
}
impl ToValue for Ts5mdoode3 {
    fn to_value(&self) -> Value {
        Value::Seq(vec![
            Some(self.f0.to_value()),
            Some(self.f1.to_value()),
            self.f2.as_ref().map(|x| x.to_value()),
            self.f3.as_ref().map(|x| x.to_value()),
            Some(self.f4.to_value()),
        ])
    }
}
impl FromValue for Ts5mdoode4 {
    fn from_value(v: &Value) -> Self {
        let s = match v { Value::Seq(s) => s, other => panic!("Ts5mdoode4: expected Seq, got {other:?}") };
        assert_eq!(s.len(), 5, "Ts5mdoode4: component count");
        let _ = s;
        Ts5mdoode4 {
            f0: FromValue::from_value(s[0].as_ref().expect("component f0 of Ts5mdoode4 must be present")),
            f1: FromValue::from_value(s[1].as_ref().expect("component f1 of Ts5mdoode4 must be present")),
            f2: s[2].as_ref().map(FromValue::from_value),
            f3: s[3].as_ref().map(FromValue::from_value),
            f4: FromValue::from_value(s[4].as_ref().expect("component f4 of Ts5mdoode4 must be present")),
        }
    }
}
impl ToValue for Ts5mdoode4 {
    fn to_value(&self) -> Value {
        Value::Seq(vec![
            Some(self.f0.to_value()),
            Some(self.f1.to_value()),
            self.f2.as_ref().map(|x| x.to_value()),
            self.f3.as_ref().map(|x| x.to_value()),
            Some(self.f4.to_value()),
        ])
    }
}
impl FromValue for Ts5mdoode5 {
    fn from_value(v: &Value) -> Self {
        let s = match v { Value::Seq(s) => s, other => panic!("Ts5mdoode5: expected Seq, got {other:?}") };
        assert_eq!(s.len(), 5, "Ts5mdoode5: component count");
        let _ = s;
        Ts5mdoode5 {
            f0: FromValue::from_value(s[0].as_ref().expect("component f0 of Ts5mdoode5 must be present")),
            f1: FromValue::from_value(s[1].as_ref().expect("component f1 of Ts5mdoode5 must be present")),
            f2: s[2].as_ref().map(FromValue::from_value),
            f3: s[3].as_ref().map(FromValue::from_value),
            f4: FromValue::from_value(s[4].as_ref().expect("component f4 of Ts5mdoode5 must be present")),
        }
    }
}
impl ToValue for Ts5mdoode5 {
    fn to_value(&self) -> Value {
        Value::Seq(vec![
            Some(self.f0.to_value()),
            Some(self.f1.to_value()),
            self.f2.as_ref().map(|x| x.to_value()),
            self.f3.as_ref().map(|x| x.to_value()),
            Some(self.f4.to_value()),
        ])
    }
}
impl FromValue for Ts5odoodn {
    fn from_value(v: &Value) -> Self {
        let s = match v { Value::Seq(s) => s, other => panic!("Ts5odoodn: expected Seq, got {other:?}") };
        assert_eq!(s.len(), 5, "Ts5odoodn: component count");
        let _ = s;
        Ts5odoodn {
            f0: s[0].as_ref().map(FromValue::from_value),
            f1: FromValue::from_value(s[1].as_ref().expect("component f1 of Ts5odoodn must be present")),
            f2: s[2].as_ref().map(FromValue::from_value),
            f3: s[3].as_ref().map(FromValue::from_value),
            f4: FromValue::from_value(s[4].as_ref().expect("component f4 of Ts5odoodn must be present")),
        }
    }
}
impl ToValue for Ts5odoodn {
    fn to_value(&self) -> Value {
        Value::Seq(vec![
            self.f0.as_ref().map(|x| x.to_value()),
            Some(self.f1.to_value()),
            self.f2.as_ref().map(|x| x.to_value()),
            self.f3.as_ref().map(|x| x.to_value()),
            Some(self.f4.to_value()),
        ])
    }
}
impl FromValue for Ts5odoode0 {
    fn from_value(v: &Value) -> Self {
        let s = match v { Value::Seq(s) => s, other => panic!("Ts5odoode0: expected Seq, got {other:?}") };
        assert_eq!(s.len(), 5, "Ts5odoode0: component count");
        let _ = s;
        Ts5odoode0 {
            f0: s[0].as_ref().map(FromValue::from_value),
            f1: FromValue::from_value(s[1].as_ref().expect("component f1 of Ts5odoode0 must be present")),
            f2: s[2].as_ref().map(FromValue::from_value),
            f3: s[3].as_ref().map(FromValue::from_value),
            f4: FromValue::from_value(s[4].as_ref().expect("component f4 of Ts5odoode0 must be present")),
        }
    }
}
impl ToValue for Ts5odoode0 {
    fn to_value(&self) -> Value {
        Value::Seq(vec![
            self.f0.as_ref().map(|x| x.to_value()),
            Some(self.f1.to_value()),
            self.f2.as_ref().map(|x| x.to_value()),
            self.f3.as_ref().map(|x| x.to_value()),
            Some(self.f4.to_value()),
        ])
    }
}
impl FromValue for Ts5odoode1 {
    fn from_value(v: &Value) -> Self {
        let s = match v { Value::Seq(s) => s, other => panic!("Ts5odoode1: expected Seq, got {other:?}") };
        assert_eq!(s.len(), 5, "Ts5odoode1: component count");
        let _ = s;
        Ts5odoode1 {
            f0: s[0].as_ref().map(FromValue::from_value),
            f1: FromValue::from_value(s[1].as_ref().expect("component f1 of Ts5odoode1 must be present")),
            f2: s[2].as_ref().map(FromValue::from_value),
            f3: s[3].as_ref().map(FromValue::from_value),
            f4: FromValue::from_value(s[4].as_ref().expect("component f4 of Ts5odoode1 must be present")),
        }
    }
}
impl ToValue for Ts5odoode1 {
    fn to_value(&self) -> Value {
        Value::Seq(vec![
            self.f0.as_ref().map(|x| x.to_value()),
            Some(self.f1.to_value()),
            self.f2.as_ref().map(|x| x.to_value()),
            self.f3.as_ref().map(|x| x.to_value()),
            Some(self.f4.to_value()),
        ])
    }
}
impl FromValue for Ts5odoode2 {
    fn from_value(v: &Value) -> Self {
        let s = match v { Value::Seq(s) => s, other => panic!("Ts5odoode2: expected Seq, got {other:?}") };
        assert_eq!(s.len(), 5, "Ts5odoode2: component count");
        let _ = s;
        Ts5odoode2 {
            f0: s[0].as_ref().map(FromValue::from_value),
            f1: FromValue::from_value(s[1].as_ref().expect("component f1 of Ts5odoode2 must be present")),
            f2: s[2].as_ref().map(FromValue::from_value),
            f3: s[3].as_ref().map(FromValue::from_value),
            f4: FromValue::from_value(s[4].as_ref().expect("component f4 of Ts5odoode2 must be present")),
        }
    }
}
impl ToValue for Ts5odoode2 {
    fn to_value(&self) -> Value {
        Value::Seq(vec![
            self.f0.as_ref().map(|x| x.to_value()),
            Some(self.f1.to_value()),
            self.f2.as_ref().map(|x| x.to_value()),
            self.f3.as_ref().map(|x| x.to_value()),
            Some(self.f4.to_value()),
        ])
    }
}
impl FromValue for Ts5odoode3 {
    fn from_value(v: &Value) -> Self {
        let s = match v { Value::Seq(s) => s, other => panic!("Ts5odoode3: expected Seq, got {other:?}") };
        assert_eq!(s.len(), 5, "Ts5odoode3: component count");
        let _ = s;
        Ts5odoode3 {
            f0: s[0].as_ref().map(FromValue::from_value),
            f1: FromValue::from_value(s[1].as_ref().expect("component f1 of Ts5odoode3 must be present")),
            f2: s[2].as_ref().map(FromValue::from_value),
            f3: s[3].as_ref().map(FromValue::from_value),
            f4: FromValue::from_value(s[4].as_ref().expect("component f4 of Ts5odoode3 must be present")),
        }
    }
}
impl ToValue for Ts5odoode3 {
    fn to_value(&self) -> Value {
        Value::Seq(vec![
            self.f0.as_ref().map(|x| x.to_value()),
            Some(self.f1.to_value()),
            self.f2.as_ref().map(|x| x.to_value()),
            self.f3.as_ref().map(|x| x.to_value()),
            Some(self.f4.to_value()),
        ])
    }
}

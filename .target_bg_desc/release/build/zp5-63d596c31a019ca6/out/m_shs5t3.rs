use asn1rs::prelude::*;

#[asn(sequence, extensible_after(f1))]

#[derive(Default, Debug, Clone, PartialEq, Hash)]
pub struct Ts5mddome2 {
    #[asn(integer(0..7))] pub f0: u8,
    #[asn(default(integer(0..7), 5))] pub f1: u8,
    #[asn(default(integer(0..7), 5))] pub f2: u8,
    #[asn(optional(integer(0..7)))] pub f3: Option<u8>,
    #[asn(optional(integer(0..7)))] pub f4: Option<u8>,
}

impl Ts5mddome2 {
    pub const fn f0_min() -> u8 {
        0
    }

    pub const fn f0_max() -> u8 {
        7
    }

    pub const fn f1_min() -> u8 {
        0
    }

    pub const fn f1_max() -> u8 {
        7
    }

    pub const fn f2_min() -> u8 {
        0
    }

    pub const fn f2_max() -> u8 {
        7
    }

    pub const fn f3_min() -> u8 {
        0
    }

    pub const fn f3_max() -> u8 {
        7
    }

    pub const fn f4_min() -> u8 {
        0
    }

    pub const fn f4_max() -> u8 {
        7
    }
}

#[asn(sequence, extensible_after(f2))]

#[derive(Default, Debug, Clone, PartialEq, Hash)]
pub struct Ts5mddome3 {
    #[asn(integer(0..7))] pub f0: u8,
    #[asn(default(integer(0..7), 5))] pub f1: u8,
    #[asn(default(integer(0..7), 5))] pub f2: u8,
    #[asn(optional(integer(0..7)))] pub f3: Option<u8>,
    #[asn(optional(integer(0..7)))] pub f4: Option<u8>,
}

impl Ts5mddome3 {
    pub const fn f0_min() -> u8 {
        0
    }

    pub const fn f0_max() -> u8 {
        7
    }

    pub const fn f1_min() -> u8 {
        0
    }

    pub const fn f1_max() -> u8 {
        7
    }

    pub const fn f2_min() -> u8 {
        0
    }

    pub const fn f2_max() -> u8 {
        7
    }

    pub const fn f3_min() -> u8 {
        0
    }

    pub const fn f3_max() -> u8 {
        7
    }

    pub const fn f4_min() -> u8 {
        0
    }

    pub const fn f4_max() -> u8 {
        7
    }
}

#[asn(sequence, extensible_after(f3))]

#[derive(Default, Debug, Clone, PartialEq, Hash)]
pub struct Ts5mddome4 {
    #[asn(integer(0..7))] pub f0: u8,
    #[asn(default(integer(0..7), 5))] pub f1: u8,
    #[asn(default(integer(0..7), 5))] pub f2: u8,
    #[asn(optional(integer(0..7)))] pub f3: Option<u8>,
    #[asn(optional(integer(0..7)))] pub f4: Option<u8>,
}

impl Ts5mddome4 {
    pub const fn f0_min() -> u8 {
        0
    }

    pub const fn f0_max() -> u8 {
        7
    }

    pub const fn f1_min() -> u8 {
        0
    }

    pub const fn f1_max() -> u8 {
        7
    }

    pub const fn f2_min() -> u8 {
        0
    }

    pub const fn f2_max() -> u8 {
        7
    }

    pub const fn f3_min() -> u8 {
        0
    }

    pub const fn f3_max() -> u8 {
        7
    }

    pub const fn f4_min() -> u8 {
        0
    }

    pub const fn f4_max() -> u8 {
        7
    }
}

#[asn(sequence, extensible_after(f4))]

#[derive(Default, Debug, Clone, PartialEq, Hash)]
pub struct Ts5mddome5 {
    #[asn(integer(0..7))] pub f0: u8,
    #[asn(default(integer(0..7), 5))] pub f1: u8,
    #[asn(default(integer(0..7), 5))] pub f2: u8,
    #[asn(optional(integer(0..7)))] pub f3: Option<u8>,
    #[asn(integer(0..7))] pub f4: u8,
}

impl Ts5mddome5 {
    pub const fn f0_min() -> u8 {
        0
    }

    pub const fn f0_max() -> u8 {
        7
    }

    pub const fn f1_min() -> u8 {
        0
    }

    pub const fn f1_max() -> u8 {
        7
    }

    pub const fn f2_min() -> u8 {
        0
    }

    pub const fn f2_max() -> u8 {
        7
    }

    pub const fn f3_min() -> u8 {
        0
    }

    pub const fn f3_max() -> u8 {
        7
    }

    pub const fn f4_min() -> u8 {
        0
    }

    pub const fn f4_max() -> u8 {
        7
    }
}

#[asn(sequence)]

#[derive(Default, Debug, Clone, PartialEq, Hash)]
pub struct Ts5oddomn {
    #[asn(optional(integer(0..7)))] pub f0: Option<u8>,
    #[asn(default(integer(0..7), 5))] pub f1: u8,
    #[asn(default(integer(0..7), 5))] pub f2: u8,
    #[asn(optional(integer(0..7)))] pub f3: Option<u8>,
    #[asn(integer(0..7))] pub f4: u8,
}

impl Ts5oddomn {
    pub const fn f0_min() -> u8 {
        0
    }

    pub const fn f0_max() -> u8 {
        7
    }

    pub const fn f1_min() -> u8 {
        0
    }

    pub const fn f1_max() -> u8 {
        7
    }

    pub const fn f2_min() -> u8 {
        0
    }

    pub const fn f2_max() -> u8 {
        7
    }

    pub const fn f3_min() -> u8 {
        0
    }

    pub const fn f3_max() -> u8 {
        7
    }

    pub const fn f4_min() -> u8 {
        0
    }

    pub const fn f4_max() -> u8 {
        7
    }
}

#[asn(sequence, extensible_after(f0))]

#[derive(Default, Debug, Clone, PartialEq, Hash)]
pub struct Ts5oddome0 {
    #[asn(optional(integer(0..7)))] pub f0: Option<u8>,
    #[asn(default(integer(0..7), 5))] pub f1: u8,
    #[asn(default(integer(0..7), 5))] pub f2: u8,
    #[asn(optional(integer(0..7)))] pub f3: Option<u8>,
    #[asn(optional(integer(0..7)))] pub f4: Option<u8>,
}

impl Ts5oddome0 {
    pub const fn f0_min() -> u8 {
        0
    }

    pub const fn f0_max() -> u8 {
        7
    }

    pub const fn f1_min() -> u8 {
        0
    }

    pub const fn f1_max() -> u8 {
        7
    }

    pub const fn f2_min() -> u8 {
        0
    }

    pub const fn f2_max() -> u8 {
        7
    }

    pub const fn f3_min() -> u8 {
        0
    }

    pub const fn f3_max() -> u8 {
        7
    }

    pub const fn f4_min() -> u8 {
        0
    }

    pub const fn f4_max() -> u8 {
        7
    }
}

#[asn(sequence, extensible_after(f0))]

#[derive(Default, Debug, Clone, PartialEq, Hash)]
pub struct Ts5oddome1 {
    #[asn(optional(integer(0..7)))] pub f0: Option<u8>,
    #[asn(default(integer(0..7), 5))] pub f1: u8,
    #[asn(default(integer(0..7), 5))] pub f2: u8,
    #[asn(optional(integer(0..7)))] pub f3: Option<u8>,
    #[asn(optional(integer(0..7)))] pub f4: Option<u8>,
}

impl Ts5oddome1 {
    pub const fn f0_min() -> u8 {
        0
    }

    pub const fn f0_max() -> u8 {
        7
    }

    pub const fn f1_min() -> u8 {
        0
    }

    pub const fn f1_max() -> u8 {
        7
    }

    pub const fn f2_min() -> u8 {
        0
    }

    pub const fn f2_max() -> u8 {
        7
    }

    pub const fn f3_min() -> u8 {
        0
    }

    pub const fn f3_max() -> u8 {
        7
    }

    pub const fn f4_min() -> u8 {
        0
    }

    pub const fn f4_max() -> u8 {
        7
    }
}

#[asn(sequence, extensible_after(f1))]

#[derive(Default, Debug, Clone, PartialEq, Hash)]
pub struct Ts5oddome2 {
    #[asn(optional(integer(0..7)))] pub f0: Option<u8>,
    #[asn(default(integer(0..7), 5))] pub f1: u8,
    #[asn(default(integer(0..7), 5))] pub f2: u8,
    #[asn(optional(integer(0..7)))] pub f3: Option<u8>,
    #[asn(optional(integer(0..7)))] pub f4: Option<u8>,
}

impl Ts5oddome2 {
    pub const fn f0_min() -> u8 {
        0
    }

    pub const fn f0_max() -> u8 {
        7
    }

    pub const fn f1_min() -> u8 {
        0
    }

    pub const fn f1_max() -> u8 {
        7
    }

    pub const fn f2_min() -> u8 {
        0
    }

    pub const fn f2_max() -> u8 {
        7
    }

    pub const fn f3_min() -> u8 {
        0
    }

    pub const fn f3_max() -> u8 {
        7
    }

    pub const fn f4_min() -> u8 {
        0
    }

    pub const fn f4_max() -> u8 {
        7
    }
}

#[asn(sequence, extensible_after(f2))]

#[derive(Default, Debug, Clone, PartialEq, Hash)]
pub struct Ts5oddome3 {
    #[asn(optional(integer(0..7)))] pub f0: Option<u8>,
    #[asn(default(integer(0..7), 5))] pub f1: u8,
    #[asn(default(integer(0..7), 5))] pub f2: u8,
    #[asn(optional(integer(0..7)))] pub f3: Option<u8>,
    #[asn(optional(integer(0..7)))] pub f4: Option<u8>,
}

impl Ts5oddome3 {
    pub const fn f0_min() -> u8 {
        0
    }

    pub const fn f0_max() -> u8 {
        7
    }

    pub const fn f1_min() -> u8 {
        0
    }

    pub const fn f1_max() -> u8 {
        7
    }

    pub const fn f2_min() -> u8 {
        0
    }

    pub const fn f2_max() -> u8 {
        7
    }

    pub const fn f3_min() -> u8 {
        0
    }

    pub const fn f3_max() -> u8 {
        7
    }

    pub const fn f4_min() -> u8 {
        0
    }

    pub const fn f4_max() -> u8 {
        7
    }
}

#[asn(sequence, extensible_after(f3))]

#[derive(Default, Debug, Clone, PartialEq, Hash)]
pub struct Ts5oddome4 {
    #[asn(optional(integer(0..7)))] pub f0: Option<u8>,
    #[asn(default(integer(0..7), 5))] pub f1: u8,
    #[asn(default(integer(0..7), 5))] pub f2: u8,
    #[asn(optional(integer(0..7)))] pub f3: Option<u8>,
    #[asn(optional(integer(0..7)))] pub f4: Option<u8>,
}

impl Ts5oddome4 {
    pub const fn f0_min() -> u8 {
        0
    }

    pub const fn f0_max() -> u8 {
        7
    }

    pub const fn f1_min() -> u8 {
        0
    }

    pub const fn f1_max() -> u8 {
        7
    }

    pub const fn f2_min() -> u8 {
        0
    }

    pub const fn f2_max() -> u8 {
        7
    }

    pub const fn f3_min() -> u8 {
        0
    }

    pub const fn f3_max() -> u8 {
        7
    }

    pub const fn f4_min() -> u8 {
        0
    }

    pub const fn f4_max() -> u8 {
        7
    }
}

#[asn(sequence, extensible_after(f4))]

#[derive(Default, Debug, Clone, PartialEq, Hash)]
pub struct Ts5oddome5 {
    #[asn(optional(integer(0..7)))] pub f0: Option<u8>,
    #[asn(default(integer(0..7), 5))] pub f1: u8,
    #[asn(default(integer(0..7), 5))] pub f2: u8,
    #[asn(optional(integer(0..7)))] pub f3: Option<u8>,
    #[asn(integer(0..7))] pub f4: u8,
}

impl Ts5oddome5 {
    pub const fn f0_min() -> u8 {
        0
    }

    pub const fn f0_max() -> u8 {
        7
    }

    pub const fn f1_min() -> u8 {
        0
    }

    pub const fn f1_max() -> u8 {
        7
    }

    pub const fn f2_min() -> u8 {
        0
    }

    pub const fn f2_max() -> u8 {
        7
    }

    pub const fn f3_min() -> u8 {
        0
    }

    pub const fn f3_max() -> u8 {
        7
    }

    pub const fn f4_min() -> u8 {
        0
    }

    pub const fn f4_max() -> u8 {
        7
    }
}

#[asn(sequence)]

#[derive(Default, Debug, Clone, PartialEq, Hash)]
pub struct Ts5dddomn {
    #[asn(default(integer(0..7), 5))] pub f0: u8,
    #[asn(default(integer(0..7), 5))] pub f1: u8,
    #[asn(default(integer(0..7), 5))] pub f2: u8,
    #[asn(optional(integer(0..7)))] pub f3: Option<u8>,
    #[asn(integer(0..7))] pub f4: u8,
}

impl Ts5dddomn {
    pub const fn f0_min() -> u8 {
        0
    }

    pub const fn f0_max() -> u8 {
        7
    }

    pub const fn f1_min() -> u8 {
        0
    }

    pub const fn f1_max() -> u8 {
        7
    }

    pub const fn f2_min() -> u8 {
        0
    }

    pub const fn f2_max() -> u8 {
        7
    }

    pub const fn f3_min() -> u8 {
        0
    }

    pub const fn f3_max() -> u8 {
        7
    }

    pub const fn f4_min() -> u8 {
        0
    }

    pub const fn f4_max() -> u8 {
        7
    }
}

#[asn(sequence, extensible_after(f0))]

#[derive(Default, Debug, Clone, PartialEq, Hash)]
pub struct Ts5dddome0 {
    #[asn(default(integer(0..7), 5))] pub f0: u8,
    #[asn(default(integer(0..7), 5))] pub f1: u8,
    #[asn(default(integer(0..7), 5))] pub f2: u8,
    #[asn(optional(integer(0..7)))] pub f3: Option<u8>,
    #[asn(optional(integer(0..7)))] pub f4: Option<u8>,
}

impl Ts5dddome0 {
    pub const fn f0_min() -> u8 {
        0
    }

    pub const fn f0_max() -> u8 {
        7
    }

    pub const fn f1_min() -> u8 {
        0
    }

    pub const fn f1_max() -> u8 {
        7
    }

    pub const fn f2_min() -> u8 {
        0
    }

    pub const fn f2_max() -> u8 {
        7
    }

    pub const fn f3_min() -> u8 {
        0
    }

    pub const fn f3_max() -> u8 {
        7
    }

    pub const fn f4_min() -> u8 {
        0
    }

    pub const fn f4_max() -> u8 {
        7
    }
}

#[asn(sequence, extensible_after(f0))]

#[derive(Default, Debug, Clone, PartialEq, Hash)]
pub struct Ts5dddome1 {
    #[asn(default(integer(0..7), 5))] pub f0: u8,
    #[asn(default(integer(0..7), 5))] pub f1: u8,
    #[asn(default(integer(0..7), 5))] pub f2: u8,
    #[asn(optional(integer(0..7)))] pub f3: Option<u8>,
    #[asn(optional(integer(0..7)))] pub f4: Option<u8>,
}

impl Ts5dddome1 {
    pub const fn f0_min() -> u8 {
        0
    }

    pub const fn f0_max() -> u8 {
        7
    }

    pub const fn f1_min() -> u8 {
        0
    }

    pub const fn f1_max() -> u8 {
        7
    }

    pub const fn f2_min() -> u8 {
        0
    }

    pub const fn f2_max() -> u8 {
        7
    }

    pub const fn f3_min() -> u8 {
        0
    }

    pub const fn f3_max() -> u8 {
        7
    }

    pub const fn f4_min() -> u8 {
        0
    }

    pub const fn f4_max() -> u8 {
        7
    }
}

#[asn(sequence, extensible_after(f1))]

#[derive(Default, Debug, Clone, PartialEq, Hash)]
pub struct Ts5dddome2 {
    #[asn(default(integer(0..7), 5))] pub f0: u8,
    #[asn(default(integer(0..7), 5))] pub f1: u8,
    #[asn(default(integer(0..7), 5))] pub f2: u8,
    #[asn(optional(integer(0..7)))] pub f3: Option<u8>,
    #[asn(optional(integer(0..7)))] pub f4: Option<u8>,
}

impl Ts5dddome2 {
    pub const fn f0_min() -> u8 {
        0
    }

    pub const fn f0_max() -> u8 {
        7
    }

    pub const fn f1_min() -> u8 {
        0
    }

    pub const fn f1_max() -> u8 {
        7
    }

    pub const fn f2_min() -> u8 {
        0
    }

    pub const fn f2_max() -> u8 {
        7
    }

    pub const fn f3_min() -> u8 {
        0
    }

    pub const fn f3_max() -> u8 {
        7
    }

    pub const fn f4_min() -> u8 {
        0
    }

    pub const fn f4_max() -> u8 {
        7
    }
}

#[asn(sequence, extensible_after(f2))]

#[derive(Default, Debug, Clone, PartialEq, Hash)]
pub struct Ts5dddome3 {
    #[asn(default(integer(0..7), 5))] pub f0: u8,
    #[asn(default(integer(0..7), 5))] pub f1: u8,
    #[asn(default(integer(0..7), 5))] pub f2: u8,
    #[asn(optional(integer(0..7)))] pub f3: Option<u8>,
    #[asn(optional(integer(0..7)))] pub f4: Option<u8>,
}

impl Ts5dddome3 {
    pub const fn f0_min() -> u8 {
        0
    }

    pub const fn f0_max() -> u8 {
        7
    }

    pub const fn f1_min() -> u8 {
        0
    }

    pub const fn f1_max() -> u8 {
        7
    }

    pub const fn f2_min() -> u8 {
        0
    }

    pub const fn f2_max() -> u8 {
        7
    }

    pub const fn f3_min() -> u8 {
        0
    }

    pub const fn f3_max() -> u8 {
        7
    }

    pub const fn f4_min() -> u8 {
        0
    }

    pub const fn f4_max() -> u8 {
        7
    }
}

#[asn(sequence, extensible_after(f3))]

#[derive(Default, Debug, Clone, PartialEq, Hash)]
pub struct Ts5dddome4 {
    #[asn(default(integer(0..7), 5))] pub f0: u8,
    #[asn(default(integer(0..7), 5))] pub f1: u8,
    #[asn(default(integer(0..7), 5))] pub f2: u8,
    #[asn(optional(integer(0..7)))] pub f3: Option<u8>,
    #[asn(optional(integer(0..7)))] pub f4: Option<u8>,
}

impl Ts5dddome4 {
    pub const fn f0_min() -> u8 {
        0
    }

    pub const fn f0_max() -> u8 {
        7
    }

    pub const fn f1_min() -> u8 {
        0
    }

    pub const fn f1_max() -> u8 {
        7
    }

    pub const fn f2_min() -> u8 {
        0
    }

    pub const fn f2_max() -> u8 {
        7
    }

    pub const fn f3_min() -> u8 {
        0
    }

    pub const fn f3_max() -> u8 {
        7
    }

    pub const fn f4_min() -> u8 {
        0
    }

    pub const fn f4_max() -> u8 {
        7
    }
}

#[asn(sequence, extensible_after(f4))]

#[derive(Default, Debug, Clone, PartialEq, Hash)]
pub struct Ts5dddome5 {
    #[asn(default(integer(0..7), 5))] pub f0: u8,
    #[asn(default(integer(0..7), 5))] pub f1: u8,
    #[asn(default(integer(0..7), 5))] pub f2: u8,
    #[asn(optional(integer(0..7)))] pub f3: Option<u8>,
    #[asn(integer(0..7))] pub f4: u8,
}

impl Ts5dddome5 {
    pub const fn f0_min() -> u8 {
        0
    }

    pub const fn f0_max() -> u8 {
        7
    }

    pub const fn f1_min() -> u8 {
        0
    }

    pub const fn f1_max() -> u8 {
        7
    }

    pub const fn f2_min() -> u8 {
        0
    }

    pub const fn f2_max() -> u8 {
        7
    }

    pub const fn f3_min() -> u8 {
        0
    }

    pub const fn f3_max() -> u8 {
        7
    }

    pub const fn f4_min() -> u8 {
        0
    }

    pub const fn f4_max() -> u8 {
        7
    }
}

#[asn(sequence)]

#[derive(Default, Debug, Clone, PartialEq, Hash)]
pub struct Ts5mmmdmn {
    #[asn(integer(0..7))] pub f0: u8,
    #[asn(integer(0..7))] pub f1: u8,
    #[asn(integer(0..7))] pub f2: u8,
    #[asn(default(integer(0..7), 5))] pub f3: u8,
    #[asn(integer(0..7))] pub f4: u8,
}

impl Ts5mmmdmn {
    pub const fn f0_min() -> u8 {
        0
    }

    pub const fn f0_max() -> u8 {
        7
    }

    pub const fn f1_min() -> u8 {
        0
    }

    pub const fn f1_max() -> u8 {
        7
    }

    pub const fn f2_min() -> u8 {
        0
    }

    pub const fn f2_max() -> u8 {
        7
    }

    pub const fn f3_min() -> u8 {
        0
    }

    pub const fn f3_max() -> u8 {
        7
    }

    pub const fn f4_min() -> u8 {
        0
    }

    pub const fn f4_max() -> u8 {
        7
    }
}

#[asn(sequence, extensible_after(f0))]

#[derive(Default, Debug, Clone, PartialEq, Hash)]
pub struct Ts5mmmdme0 {
    #[asn(integer(0..7))] pub f0: u8,
    #[asn(optional(integer(0..7)))] pub f1: Option<u8>,
    #[asn(optional(integer(0..7)))] pub f2: Option<u8>,
    #[asn(default(integer(0..7), 5))] pub f3: u8,
    #[asn(optional(integer(0..7)))] pub f4: Option<u8>,
}

impl Ts5mmmdme0 {
    pub const fn f0_min() -> u8 {
        0
    }

    pub const fn f0_max() -> u8 {
        7
    }

    pub const fn f1_min() -> u8 {
        0
    }

    pub const fn f1_max() -> u8 {
        7
    }

    pub const fn f2_min() -> u8 {
        0
    }

    pub const fn f2_max() -> u8 {
        7
    }

    pub const fn f3_min() -> u8 {
        0
    }

    pub const fn f3_max() -> u8 {
        7
    }

    pub const fn f4_min() -> u8 {
        0
    }

    pub const fn f4_max() -> u8 {
        7
    }
}

#[asn(sequence, extensible_after(f0))]

#[derive(Default, Debug, Clone, PartialEq, Hash)]
pub struct Ts5mmmdme1 {
    #[asn(integer(0..7))] pub f0: u8,
    #[asn(optional(integer(0..7)))] pub f1: Option<u8>,
    #[asn(optional(integer(0..7)))] pub f2: Option<u8>,
    #[asn(default(integer(0..7), 5))] pub f3: u8,
    #[asn(optional(integer(0..7)))] pub f4: Option<u8>,
}

impl Ts5mmmdme1 {
    pub const fn f0_min() -> u8 {
        0
    }

    pub const fn f0_max() -> u8 {
        7
    }

    pub const fn f1_min() -> u8 {
        0
    }

    pub const fn f1_max() -> u8 {
        7
    }

    pub const fn f2_min() -> u8 {
        0
    }

    pub const fn f2_max() -> u8 {
        7
    }

    pub const fn f3_min() -> u8 {
        0
    }

    pub const fn f3_max() -> u8 {
        7
    }

    pub const fn f4_min() -> u8 {
        0
    }

    pub const fn f4_max() -> u8 {
        7
    }
}

#[asn(sequence, extensible_after(f1))]

#[derive(Default, Debug, Clone, PartialEq, Hash)]
pub struct Ts5mmmdme2 {
    #[asn(integer(0..7))] pub f0: u8,
    #[asn(integer(0..7))] pub f1: u8,
    #[asn(optional(integer(0..7)))] pub f2: Option<u8>,
    #[asn(default(integer(0..7), 5))] pub f3: u8,
    #[asn(optional(integer(0..7)))] pub f4: Option<u8>,
}

impl Ts5mmmdme2 {
    pub const fn f0_min() -> u8 {
        0
    }

    pub const fn f0_max() -> u8 {
        7
    }

    pub const fn f1_min() -> u8 {
        0
    }

    pub const fn f1_max() -> u8 {
        7
    }

    pub const fn f2_min() -> u8 {
        0
    }

    pub const fn f2_max() -> u8 {
        7
    }

    pub const fn f3_min() -> u8 {
        0
    }

    pub const fn f3_max() -> u8 {
        7
    }

    pub const fn f4_min() -> u8 {
        0
    }

    pub const fn f4_max() -> u8 {
        7
    }
}

#[asn(sequence, extensible_after(f2))]

#[derive(Default, Debug, Clone, PartialEq, Hash)]
pub struct Ts5mmmdme3 {
    #[asn(integer(0..7))] pub f0: u8,
    #[asn(integer(0..7))] pub f1: u8,
    #[asn(integer(0..7))] pub f2: u8,
    #[asn(default(integer(0..7), 5))] pub f3: u8,
    #[asn(optional(integer(0..7)))] pub f4: Option<u8>,
}

impl Ts5mmmdme3 {
    pub const fn f0_min() -> u8 {
        0
    }

    pub const fn f0_max() -> u8 {
        7
    }

    pub const fn f1_min() -> u8 {
        0
    }

    pub const fn f1_max() -> u8 {
        7
    }

    pub const fn f2_min() -> u8 {
        0
    }

    pub const fn f2_max() -> u8 {
        7
    }

    pub const fn f3_min() -> u8 {
        0
    }

    pub const fn f3_max() -> u8 {
        7
    }

    pub const fn f4_min() -> u8 {
        0
    }

    pub const fn f4_max() -> u8 {
        7
    }
}

#[asn(sequence, extensible_after(f3))]

#[derive(Default, Debug, Clone, PartialEq, Hash)]
pub struct Ts5mmmdme4 {
    #[asn(integer(0..7))] pub f0: u8,
    #[asn(integer(0..7))] pub f1: u8,
    #[asn(integer(0..7))] pub f2: u8,
    #[asn(default(integer(0..7), 5))] pub f3: u8,
    #[asn(optional(integer(0..7)))] pub f4: Option<u8>,
}

impl Ts5mmmdme4 {
    pub const fn f0_min() -> u8 {
        0
    }

    pub const fn f0_max() -> u8 {
        7
    }

    pub const fn f1_min() -> u8 {
        0
    }

    pub const fn f1_max() -> u8 {
        7
    }

    pub const fn f2_min() -> u8 {
        0
    }

    pub const fn f2_max() -> u8 {
        7
    }

    pub const fn f3_min() -> u8 {
        0
    }

    pub const fn f3_max() -> u8 {
        7
    }

    pub const fn f4_min() -> u8 {
        0
    }

    pub const fn f4_max() -> u8 {
        7
    }
}

#[asn(sequence, extensible_after(f4))]

#[derive(Default, Debug, Clone, PartialEq, Hash)]
pub struct Ts5mmmdme5 {
    #[asn(integer(0..7))] pub f0: u8,
    #[asn(integer(0..7))] pub f1: u8,
    #[asn(integer(0..7))] pub f2: u8,
    #[asn(default(integer(0..7), 5))] pub f3: u8,
    #[asn(integer(0..7))] pub f4: u8,
}

impl Ts5mmmdme5 {
    pub const fn f0_min() -> u8 {
        0
    }

    pub const fn f0_max() -> u8 {
        7
    }

    pub const fn f1_min() -> u8 {
        0
    }

    pub const fn f1_max() -> u8 {
        7
    }

    pub const fn f2_min() -> u8 {
        0
    }

    pub const fn f2_max() -> u8 {
        7
    }

    pub const fn f3_min() -> u8 {
        0
    }

    pub const fn f3_max() -> u8 {
        7
    }

    pub const fn f4_min() -> u8 {
        0
    }

    pub const fn f4_max() -> u8 {
        7
    }
}

#[asn(sequence)]

#[derive(Default, Debug, Clone, PartialEq, Hash)]
pub struct Ts5ommdmn {
    #[asn(optional(integer(0..7)))] pub f0: Option<u8>,
    #[asn(integer(0..7))] pub f1: u8,
    #[asn(integer(0..7))] pub f2: u8,
    #[asn(default(integer(0..7), 5))] pub f3: u8,
    #[asn(integer(0..7))] pub f4: u8,
}

impl Ts5ommdmn {
    pub const fn f0_min() -> u8 {
        0
    }

    pub const fn f0_max() -> u8 {
        7
    }

    pub const fn f1_min() -> u8 {
        0
    }

    pub const fn f1_max() -> u8 {
        7
    }

    pub const fn f2_min() -> u8 {
        0
    }

    pub const fn f2_max() -> u8 {
        7
    }

    pub const fn f3_min() -> u8 {
        0
    }

    pub const fn f3_max() -> u8 {
        7
    }

    pub const fn f4_min() -> u8 {
        0
    }

    pub const fn f4_max() -> u8 {
        7
    }
}

#[asn(sequence, extensible_after(f0))]

#[derive(Default, Debug, Clone, PartialEq, Hash)]
pub struct Ts5ommdme0 {
    #[asn(optional(integer(0..7)))] pub f0: Option<u8>,
    #[asn(optional(integer(0..7)))] pub f1: Option<u8>,
    #[asn(optional(integer(0..7)))] pub f2: Option<u8>,
    #[asn(default(integer(0..7), 5))] pub f3: u8,
    #[asn(optional(integer(0..7)))] pub f4: Option<u8>,
}

impl Ts5ommdme0 {
    pub const fn f0_min() -> u8 {
        0
    }

    pub const fn f0_max() -> u8 {
        7
    }

    pub const fn f1_min() -> u8 {
        0
    }

    pub const fn f1_max() -> u8 {
        7
    }

    pub const fn f2_min() -> u8 {
        0
    }

    pub const fn f2_max() -> u8 {
        7
    }

    pub const fn f3_min() -> u8 {
        0
    }

    pub const fn f3_max() -> u8 {
        7
    }

    pub const fn f4_min() -> u8 {
        0
    }

    pub const fn f4_max() -> u8 {
        7
    }
}

#[asn(sequence, extensible_after(f0))]

#[derive(Default, Debug, Clone, PartialEq, Hash)]
pub struct Ts5ommdme1 {
    #[asn(optional(integer(0..7)))] pub f0: Option<u8>,
    #[asn(optional(integer(0..7)))] pub f1: Option<u8>,
    #[asn(optional(integer(0..7)))] pub f2: Option<u8>,
    #[asn(default(integer(0..7), 5))] pub f3: u8,
    #[asn(optional(integer(0..7)))] pub f4: Option<u8>,
}

impl Ts5ommdme1 {
    pub const fn f0_min() -> u8 {
        0
    }

    pub const fn f0_max() -> u8 {
        7
    }

    pub const fn f1_min() -> u8 {
        0
    }

    pub const fn f1_max() -> u8 {
        7
    }

    pub const fn f2_min() -> u8 {
        0
    }

    pub const fn f2_max() -> u8 {
        7
    }

    pub const fn f3_min() -> u8 {
        0
    }

    pub const fn f3_max() -> u8 {
        7
    }

    pub const fn f4_min() -> u8 {
        0
    }

    pub const fn f4_max() -> u8 {
        7
    }
}

#[asn(sequence, extensible_after(f1))]

#[derive(Default, Debug, Clone, PartialEq, Hash)]
pub struct Ts5ommdme2 {
    #[asn(optional(integer(0..7)))] pub f0: Option<u8>,
    #[asn(integer(0..7))] pub f1: u8,
    #[asn(optional(integer(0..7)))] pub f2: Option<u8>,
    #[asn(default(integer(0..7), 5))] pub f3: u8,
    #[asn(optional(integer(0..7)))] pub f4: Option<u8>,
}

impl Ts5ommdme2 {
    pub const fn f0_min() -> u8 {
        0
    }

    pub const fn f0_max() -> u8 {
        7
    }

    pub const fn f1_min() -> u8 {
        0
    }

    pub const fn f1_max() -> u8 {
        7
    }

    pub const fn f2_min() -> u8 {
        0
    }

    pub const fn f2_max() -> u8 {
        7
    }

    pub const fn f3_min() -> u8 {
        0
    }

    pub const fn f3_max() -> u8 {
        7
    }

    pub const fn f4_min() -> u8 {
        0
    }

    pub const fn f4_max() -> u8 {
        7
    }
}

#[asn(sequence, extensible_after(f2))]

#[derive(Default, Debug, Clone, PartialEq, Hash)]
pub struct Ts5ommdme3 {
    #[asn(optional(integer(0..7)))] pub f0: Option<u8>,
    #[asn(integer(0..7))] pub f1: u8,
    #[asn(integer(0..7))] pub f2: u8,
    #[asn(default(integer(0..7), 5))] pub f3: u8,
    #[asn(optional(integer(0..7)))] pub f4: Option<u8>,
}

impl Ts5ommdme3 {
    pub const fn f0_min() -> u8 {
        0
    }

    pub const fn f0_max() -> u8 {
        7
    }

    pub const fn f1_min() -> u8 {
        0
    }

    pub const fn f1_max() -> u8 {
        7
    }

    pub const fn f2_min() -> u8 {
        0
    }

    pub const fn f2_max() -> u8 {
        7
    }

    pub const fn f3_min() -> u8 {
        0
    }

    pub const fn f3_max() -> u8 {
        7
    }

    pub const fn f4_min() -> u8 {
        0
    }

    pub const fn f4_max() -> u8 {
        7
    }
}

#[asn(sequence, extensible_after(f3))]

#[derive(Default, Debug, Clone, PartialEq, Hash)]
pub struct Ts5ommdme4 {
    #[asn(optional(integer(0..7)))] pub f0: Option<u8>,
    #[asn(integer(0..7))] pub f1: u8,
    #[asn(integer(0..7))] pub f2: u8,
    #[asn(default(integer(0..7), 5))] pub f3: u8,
    #[asn(optional(integer(0..7)))] pub f4: Option<u8>,
}

impl Ts5ommdme4 {
    pub const fn f0_min() -> u8 {
        0
    }

    pub const fn f0_max() -> u8 {
        7
    }

    pub const fn f1_min() -> u8 {
        0
    }

    pub const fn f1_max() -> u8 {
        7
    }

    pub const fn f2_min() -> u8 {
        0
    }

    pub const fn f2_max() -> u8 {
        7
    }

    pub const fn f3_min() -> u8 {
        0
    }

    pub const fn f3_max() -> u8 {
        7
    }

    pub const fn f4_min() -> u8 {
        0
    }

    pub const fn f4_max() -> u8 {
        7
    }
}

#[asn(sequence, extensible_after(f4))]

#[derive(Default, Debug, Clone, PartialEq, Hash)]
pub struct Ts5ommdme5 {
    #[asn(optional(integer(0..7)))] pub f0: Option<u8>,
    #[asn(integer(0..7))] pub f1: u8,
    #[asn(integer(0..7))] pub f2: u8,
    #[asn(default(integer(0..7), 5))] pub f3: u8,
    #[asn(integer(0..7))] pub f4: u8,
}

impl Ts5ommdme5 {
    pub const fn f0_min() -> u8 {
        0
    }

    pub const fn f0_max() -> u8 {
        7
    }

    pub const fn f1_min() -> u8 {
        0
    }

    pub const fn f1_max() -> u8 {
        7
    }

    pub const fn f2_min() -> u8 {
        0
    }

    pub const fn f2_max() -> u8 {
        7
    }

    pub const fn f3_min() -> u8 {
        0
    }

    pub const fn f3_max() -> u8 {
        7
    }

    pub const fn f4_min() -> u8 {
        0
    }

    pub const fn f4_max() -> u8 {
        7
    }
}

#[asn(sequence)]

#[derive(Default, Debug, Clone, PartialEq, Hash)]
pub struct Ts5dmmdmn {
    #[asn(default(integer(0..7), 5))] pub f0: u8,
    #[asn(integer(0..7))] pub f1: u8,
    #[asn(integer(0..7))] pub f2: u8,
    #[asn(default(integer(0..7), 5))] pub f3: u8,
    #[asn(integer(0..7))] pub f4: u8,
}

impl Ts5dmmdmn {
    pub const fn f0_min() -> u8 {
        0
    }

    pub const fn f0_max() -> u8 {
        7
    }

    pub const fn f1_min() -> u8 {
        0
    }

    pub const fn f1_max() -> u8 {
        7
    }

    pub const fn f2_min() -> u8 {
        0
    }

    pub const fn f2_max() -> u8 {
        7
    }

    pub const fn f3_min() -> u8 {
        0
    }

    pub const fn f3_max() -> u8 {
        7
    }

    pub const fn f4_min() -> u8 {
        0
    }

    pub const fn f4_max() -> u8 {
        7
    }
}

#[asn(sequence, extensible_after(f0))]

#[derive(Default, Debug, Clone, PartialEq, Hash)]
pub struct Ts5dmmdme0 {
    #[asn(default(integer(0..7), 5))] pub f0: u8,
    #[asn(optional(integer(0..7)))] pub f1: Option<u8>,
    #[asn(optional(integer(0..7)))] pub f2: Option<u8>,
    #[asn(default(integer(0..7), 5))] pub f3: u8,
    #[asn(optional(integer(0..7)))] pub f4: Option<u8>,
}

impl Ts5dmmdme0 {
    pub const fn f0_min() -> u8 {
        0
    }

    pub const fn f0_max() -> u8 {
        7
    }

    pub const fn f1_min() -> u8 {
        0
    }

    pub const fn f1_max() -> u8 {
        7
    }

    pub const fn f2_min() -> u8 {
        0
    }

    pub const fn f2_max() -> u8 {
        7
    }

    pub const fn f3_min() -> u8 {
        0
    }

    pub const fn f3_max() -> u8 {
        7
    }

    pub const fn f4_min() -> u8 {
        0
    }

    pub const fn f4_max() -> u8 {
        7
    }
}

#[asn(sequence, extensible_after(f0))]

#[derive(Default, Debug, Clone, PartialEq, Hash)]
pub struct Ts5dmmdme1 {
    #[asn(default(integer(0..7), 5))] pub f0: u8,
    #[asn(optional(integer(0..7)))] pub f1: Option<u8>,
    #[asn(optional(integer(0..7)))] pub f2: Option<u8>,
    #[asn(default(integer(0..7), 5))] pub f3: u8,
    #[asn(optional(integer(0..7)))] pub f4: Option<u8>,
}

impl Ts5dmmdme1 {
    pub const fn f0_min() -> u8 {
        0
    }

    pub const fn f0_max() -> u8 {
        7
    }

    pub const fn f1_min() -> u8 {
        0
    }

    pub const fn f1_max() -> u8 {
        7
    }

    pub const fn f2_min() -> u8 {
        0
    }

    pub const fn f2_max() -> u8 {
        7
    }

    pub const fn f3_min() -> u8 {
        0
    }

    pub const fn f3_max() -> u8 {
        7
    }

    pub const fn f4_min() -> u8 {
        0
    }

    pub const fn f4_max() -> u8 {
        7
    }
}

#[asn(sequence, extensible_after(f1))]

#[derive(Default, Debug, Clone, PartialEq, Hash)]
pub struct Ts5dmmdme2 {
    #[asn(default(integer(0..7), 5))] pub f0: u8,
    #[asn(integer(0..7))] pub f1: u8,
    #[asn(optional(integer(0..7)))] pub f2: Option<u8>,
    #[asn(default(integer(0..7), 5))] pub f3: u8,
    #[asn(optional(integer(0..7)))] pub f4: Option<u8>,
}

impl Ts5dmmdme2 {
    pub const fn f0_min() -> u8 {
        0
    }

    pub const fn f0_max() -> u8 {
        7
    }

    pub const fn f1_min() -> u8 {
        0
    }

    pub const fn f1_max() -> u8 {
        7
    }

    pub const fn f2_min() -> u8 {
        0
    }

    pub const fn f2_max() -> u8 {
        7
    }

    pub const fn f3_min() -> u8 {
        0
    }

    pub const fn f3_max() -> u8 {
        7
    }

    pub const fn f4_min() -> u8 {
        0
    }

    pub const fn f4_max() -> u8 {
        7
    }
}

#[asn(sequence, extensible_after(f2))]

#[derive(Default, Debug, Clone, PartialEq, Hash)]
pub struct Ts5dmmdme3 {
    #[asn(default(integer(0..7), 5))] pub f0: u8,
    #[asn(integer(0..7))] pub f1: u8,
    #[asn(integer(0..7))] pub f2: u8,
    #[asn(default(integer(0..7), 5))] pub f3: u8,
    #[asn(optional(integer(0..7)))] pub f4: Option<u8>,
}

impl Ts5dmmdme3 {
    pub const fn f0_min() -> u8 {
        0
    }

    pub const fn f0_max() -> u8 {
        7
    }

    pub const fn f1_min() -> u8 {
        0
    }

    pub const fn f1_max() -> u8 {
        7
    }

    pub const fn f2_min() -> u8 {
        0
    }

    pub const fn f2_max() -> u8 {
        7
    }

    pub const fn f3_min() -> u8 {
        0
    }

    pub const fn f3_max() -> u8 {
        7
    }

    pub const fn f4_min() -> u8 {
        0
    }

    pub const fn f4_max() -> u8 {
        7
    }
}

#[asn(sequence, extensible_after(f3))]

#[derive(Default, Debug, Clone, PartialEq, Hash)]
pub struct Ts5dmmdme4 {
    #[asn(default(integer(0..7), 5))] pub f0: u8,
    #[asn(integer(0..7))] pub f1: u8,
    #[asn(integer(0..7))] pub f2: u8,
    #[asn(default(integer(0..7), 5))] pub f3: u8,
    #[asn(optional(integer(0..7)))] pub f4: Option<u8>,
}

impl Ts5dmmdme4 {
    pub const fn f0_min() -> u8 {
        0
    }

    pub const fn f0_max() -> u8 {
        7
    }

    pub const fn f1_min() -> u8 {
        0
    }

    pub const fn f1_max() -> u8 {
        7
    }

    pub const fn f2_min() -> u8 {
        0
    }

    pub const fn f2_max() -> u8 {
        7
    }

    pub const fn f3_min() -> u8 {
        0
    }

    pub const fn f3_max() -> u8 {
        7
    }

    pub const fn f4_min() -> u8 {
        0
    }

    pub const fn f4_max() -> u8 {
        7
    }
}

#[asn(sequence, extensible_after(f4))]

#[derive(Default, Debug, Clone, PartialEq, Hash)]
pub struct Ts5dmmdme5 {
    #[asn(default(integer(0..7), 5))] pub f0: u8,
    #[asn(integer(0..7))] pub f1: u8,
    #[asn(integer(0..7))] pub f2: u8,
    #[asn(default(integer(0..7), 5))] pub f3: u8,
    #[asn(integer(0..7))] pub f4: u8,
}

impl Ts5dmmdme5 {
    pub const fn f0_min() -> u8 {
        0
    }

    pub const fn f0_max() -> u8 {
        7
    }

    pub const fn f1_min() -> u8 {
        0
    }

    pub const fn f1_max() -> u8 {
        7
    }

    pub const fn f2_min() -> u8 {
        0
    }

    pub const fn f2_max() -> u8 {
        7
    }

    pub const fn f3_min() -> u8 {
        0
    }

    pub const fn f3_max() -> u8 {
        7
    }

    pub const fn f4_min() -> u8 {
        0
    }

    pub const fn f4_max() -> u8 {
        7
    }
}

#[asn(sequence)]

#[derive(Default, Debug, Clone, PartialEq, Hash)]
pub struct Ts5momdmn {
    #[asn(integer(0..7))] pub f0: u8,
    #[asn(optional(integer(0..7)))] pub f1: Option<u8>,
    #[asn(integer(0..7))] pub f2: u8,
    #[asn(default(integer(0..7), 5))] pub f3: u8,
    #[asn(integer(0..7))] pub f4: u8,
}

impl Ts5momdmn {
    pub const fn f0_min() -> u8 {
        0
    }

    pub const fn f0_max() -> u8 {
        7
    }

    pub const fn f1_min() -> u8 {
        0
    }

    pub const fn f1_max() -> u8 {
        7
    }

    pub const fn f2_min() -> u8 {
        0
    }

    pub const fn f2_max() -> u8 {
        7
    }

    pub const fn f3_min() -> u8 {
        0
    }

    pub const fn f3_max() -> u8 {
        7
    }

    pub const fn f4_min() -> u8 {
        0
    }

    pub const fn f4_max() -> u8 {
        7
    }
}

#[asn(sequence, extensible_after(f0))]

#[derive(Default, Debug, Clone, PartialEq, Hash)]
pub struct Ts5momdme0 {
    #[asn(integer(0..7))] pub f0: u8,
    #[asn(optional(integer(0..7)))] pub f1: Option<u8>,
    #[asn(optional(integer(0..7)))] pub f2: Option<u8>,
    #[asn(default(integer(0..7), 5))] pub f3: u8,
    #[asn(optional(integer(0..7)))] pub f4: Option<u8>,
}

impl Ts5momdme0 {
    pub const fn f0_min() -> u8 {
        0
    }

    pub const fn f0_max() -> u8 {
        7
    }

    pub const fn f1_min() -> u8 {
        0
    }

    pub const fn f1_max() -> u8 {
        7
    }

    pub const fn f2_min() -> u8 {
        0
    }

    pub const fn f2_max() -> u8 {
        7
    }

    pub const fn f3_min() -> u8 {
        0
    }

    pub const fn f3_max() -> u8 {
        7
    }

    pub const fn f4_min() -> u8 {
        0
    }

    pub const fn f4_max() -> u8 {
        7
    }
}

#[asn(sequence, extensible_after(f0))]

#[derive(Default, Debug, Clone, PartialEq, Hash)]
pub struct Ts5momdme1 {
    #[asn(integer(0..7))] pub f0: u8,
    #[asn(optional(integer(0..7)))] pub f1: Option<u8>,
    #[asn(optional(integer(0..7)))] pub f2: Option<u8>,
    #[asn(default(integer(0..7), 5))] pub f3: u8,
    #[asn(optional(integer(0..7)))] pub f4: Option<u8>,
}

impl Ts5momdme1 {
    pub const fn f0_min() -> u8 {
        0
    }

    pub const fn f0_max() -> u8 {
        7
    }

    pub const fn f1_min() -> u8 {
        0
    }

    pub const fn f1_max() -> u8 {
        7
    }

    pub const fn f2_min() -> u8 {
        0
    }

    pub const fn f2_max() -> u8 {
        7
    }

    pub const fn f3_min() -> u8 {
        0
    }

    pub const fn f3_max() -> u8 {
        7
    }

    pub const fn f4_min() -> u8 {
        0
    }

    pub const fn f4_max() -> u8 {
        7
    }
}

#[asn(sequence, extensible_after(f1))]

#[derive(Default, Debug, Clone, PartialEq, Hash)]
pub struct Ts5momdme2 {
    #[asn(integer(0..7))] pub f0: u8,
    #[asn(optional(integer(0..7)))] pub f1: Option<u8>,
    #[asn(optional(integer(0..7)))] pub f2: Option<u8>,
    #[asn(default(integer(0..7), 5))] pub f3: u8,
    #[asn(optional(integer(0..7)))] pub f4: Option<u8>,
}

impl Ts5momdme2 {
    pub const fn f0_min() -> u8 {
        0
    }

    pub const fn f0_max() -> u8 {
        7
    }

    pub const fn f1_min() -> u8 {
        0
    }

    pub const fn f1_max() -> u8 {
        7
    }

    pub const fn f2_min() -> u8 {
        0
    }

    pub const fn f2_max() -> u8 {
        7
    }

    pub const fn f3_min() -> u8 {
        0
    }

    pub const fn f3_max() -> u8 {
        7
    }

    pub const fn f4_min() -> u8 {
        0
    }

    pub const fn f4_max() -> u8 {
        7
    }
}

#[asn(sequence, extensible_after(f2))]

#[derive(Default, Debug, Clone, PartialEq, Hash)]
pub struct Ts5momdme3 {
    #[asn(integer(0..7))] pub f0: u8,
    #[asn(optional(integer(0..7)))] pub f1: Option<u8>,
    #[asn(integer(0..7))] pub f2: u8,
    #[asn(default(integer(0..7), 5))] pub f3: u8,
    #[asn(optional(integer(0..7)))] pub f4: Option<u8>,
}

impl Ts5momdme3 {
    pub const fn f0_min() -> u8 {
        0
    }

    pub const fn f0_max() -> u8 {
        7
    }

    pub const fn f1_min() -> u8 {
        0
    }

    pub const fn f1_max() -> u8 {
        7
    }

    pub const fn f2_min() -> u8 {
        0
    }

    pub const fn f2_max() -> u8 {
        7
    }

    pub const fn f3_min() -> u8 {
        0
    }

    pub const fn f3_max() -> u8 {
        7
    }

    pub const fn f4_min() -> u8 {
        0
    }

    pub const fn f4_max() -> u8 {
        7
    }
}

#[asn(sequence, extensible_after(f3))]

#[derive(Default, Debug, Clone, PartialEq, Hash)]
pub struct Ts5momdme4 {
    #[asn(integer(0..7))] pub f0: u8,
    #[asn(optional(integer(0..7)))] pub f1: Option<u8>,
    #[asn(integer(0..7))] pub f2: u8,
    #[asn(default(integer(0..7), 5))] pub f3: u8,
    #[asn(optional(integer(0..7)))] pub f4: Option<u8>,
}

impl Ts5momdme4 {
    pub const fn f0_min() -> u8 {
        0
    }

    pub const fn f0_max() -> u8 {
        7
    }

    pub const fn f1_min() -> u8 {
        0
    }

    pub const fn f1_max() -> u8 {
        7
    }

    pub const fn f2_min() -> u8 {
        0
    }

    pub const fn f2_max() -> u8 {
        7
    }

    pub const fn f3_min() -> u8 {
        0
    }

    pub const fn f3_max() -> u8 {
        7
    }

    pub const fn f4_min() -> u8 {
        0
    }

    pub const fn f4_max() -> u8 {
        7
    }
}

#[asn(sequence, extensible_after(f4))]

#[derive(Default, Debug, Clone, PartialEq, Hash)]
pub struct Ts5momdme5 {
    #[asn(integer(0..7))] pub f0: u8,
    #[asn(optional(integer(0..7)))] pub f1: Option<u8>,
    #[asn(integer(0..7))] pub f2: u8,
    #[asn(default(integer(0..7), 5))] pub f3: u8,
    #[asn(integer(0..7))] pub f4: u8,
}

impl Ts5momdme5 {
    pub const fn f0_min() -> u8 {
        0
    }

    pub const fn f0_max() -> u8 {
        7
    }

    pub const fn f1_min() -> u8 {
        0
    }

    pub const fn f1_max() -> u8 {
        7
    }

    pub const fn f2_min() -> u8 {
        0
    }

    pub const fn f2_max() -> u8 {
        7
    }

    pub const fn f3_min() -> u8 {
        0
    }

    pub const fn f3_max() -> u8 {
        7
    }

    pub const fn f4_min() -> u8 {
        0
    }

    pub const fn f4_max() -> u8 {
        7
    }
}

#[asn(sequence)]

#[derive(Default, Debug, Clone, PartialEq, Hash)]
pub struct Ts5oomdmn {
    #[asn(optional(integer(0..7)))] pub f0: Option<u8>,
    #[asn(optional(integer(0..7)))] pub f1: Option<u8>,
    #[asn(integer(0..7))] pub f2: u8,
    #[asn(default(integer(0..7), 5))] pub f3: u8,
    #[asn(integer(0..7))] pub f4: u8,
}

impl Ts5oomdmn {
    pub const fn f0_min() -> u8 {
        0
    }

    pub const fn f0_max() -> u8 {
        7
    }

    pub const fn f1_min() -> u8 {
        0
    }

    pub const fn f1_max() -> u8 {
        7
    }

    pub const fn f2_min() -> u8 {
        0
    }

    pub const fn f2_max() -> u8 {
        7
    }

    pub const fn f3_min() -> u8 {
        0
    }

    pub const fn f3_max() -> u8 {
        7
    }

    pub const fn f4_min() -> u8 {
        0
    }

    pub const fn f4_max() -> u8 {
        7
    }
}

#[asn(sequence, extensible_after(f0))]

#[derive(Default, Debug, Clone, PartialEq, Hash)]
pub struct Ts5oomdme0 {
    #[asn(optional(integer(0..7)))] pub f0: Option<u8>,
    #[asn(optional(integer(0..7)))] pub f1: Option<u8>,
    #[asn(optional(integer(0..7)))] pub f2: Option<u8>,
    #[asn(default(integer(0..7), 5))] pub f3: u8,
    #[asn(optional(integer(0..7)))] pub f4: Option<u8>,
}

impl Ts5oomdme0 {
    pub const fn f0_min() -> u8 {
        0
    }

    pub const fn f0_max() -> u8 {
        7
    }

    pub const fn f1_min() -> u8 {
        0
    }

    pub const fn f1_max() -> u8 {
        7
    }

    pub const fn f2_min() -> u8 {
        0
    }

    pub const fn f2_max() -> u8 {
        7
    }

    pub const fn f3_min() -> u8 {
        0
    }

    pub const fn f3_max() -> u8 {
        7
    }

    pub const fn f4_min() -> u8 {
        0
    }

    pub const fn f4_max() -> u8 {
        7
    }
}

#[asn(sequence, extensible_after(f0))]

#[derive(Default, Debug, Clone, PartialEq, Hash)]
pub struct Ts5oomdme1 {
    #[asn(optional(integer(0..7)))] pub f0: Option<u8>,
    #[asn(optional(integer(0..7)))] pub f1: Option<u8>,
    #[asn(optional(integer(0..7)))] pub f2: Option<u8>,
    #[asn(default(integer(0..7), 5))] pub f3: u8,
    #[asn(optional(integer(0..7)))] pub f4: Option<u8>,
}

impl Ts5oomdme1 {
    pub const fn f0_min() -> u8 {
        0
    }

    pub const fn f0_max() -> u8 {
        7
    }

    pub const fn f1_min() -> u8 {
        0
    }

    pub const fn f1_max() -> u8 {
        7
    }

    pub const fn f2_min() -> u8 {
        0
    }

    pub const fn f2_max() -> u8 {
        7
    }

    pub const fn f3_min() -> u8 {
        0
    }

    pub const fn f3_max() -> u8 {
        7
    }

    pub const fn f4_min() -> u8 {
        0
    }

    pub const fn f4_max() -> u8 {
        7
    }
}

#[asn(sequence, extensible_after(f1))]

#[derive(Default, Debug, Clone, PartialEq, Hash)]
pub struct Ts5oomdme2 {
    #[asn(optional(integer(0..7)))] pub f0: Option<u8>,
    #[asn(optional(integer(0..7)))] pub f1: Option<u8>,
    #[asn(optional(integer(0..7)))] pub f2: Option<u8>,
    #[asn(default(integer(0..7), 5))] pub f3: u8,
    #[asn(optional(integer(0..7)))] pub f4: Option<u8>,
}

impl Ts5oomdme2 {
    pub const fn f0_min() -> u8 {
        0
    }

    pub const fn f0_max() -> u8 {
        7
    }

    pub const fn f1_min() -> u8 {
        0
    }

    pub const fn f1_max() -> u8 {
        7
    }

    pub const fn f2_min() -> u8 {
        0
    }

    pub const fn f2_max() -> u8 {
        7
    }

    pub const fn f3_min() -> u8 {
        0
    }

    pub const fn f3_max() -> u8 {
        7
    }

    pub const fn f4_min() -> u8 {
        0
    }

    pub const fn f4_max() -> u8 {
        7
    }
}

#[asn(sequence, extensible_after(f2))]

#[derive(Default, Debug, Clone, PartialEq, Hash)]
pub struct Ts5oomdme3 {
    #[asn(optional(integer(0..7)))] pub f0: Option<u8>,
    #[asn(optional(integer(0..7)))] pub f1: Option<u8>,
    #[asn(integer(0..7))] pub f2: u8,
    #[asn(default(integer(0..7), 5))] pub f3: u8,
    #[asn(optional(integer(0..7)))] pub f4: Option<u8>,
}

impl Ts5oomdme3 {
    pub const fn f0_min() -> u8 {
        0
    }

    pub const fn f0_max() -> u8 {
        7
    }

    pub const fn f1_min() -> u8 {
        0
    }

    pub const fn f1_max() -> u8 {
        7
    }

    pub const fn f2_min() -> u8 {
        0
    }

    pub const fn f2_max() -> u8 {
        7
    }

    pub const fn f3_min() -> u8 {
        0
    }

    pub const fn f3_max() -> u8 {
        7
    }

    pub const fn f4_min() -> u8 {
        0
    }

    pub const fn f4_max() -> u8 {
        7
    }
}

#[asn(sequence, extensible_after(f3))]

#[derive(Default, Debug, Clone, PartialEq, Hash)]
pub struct Ts5oomdme4 {
    #[asn(optional(integer(0..7)))] pub f0: Option<u8>,
    #[asn(optional(integer(0..7)))] pub f1: Option<u8>,
    #[asn(integer(0..7))] pub f2: u8,
    #[asn(default(integer(0..7), 5))] pub f3: u8,
    #[asn(optional(integer(0..7)))] pub f4: Option<u8>,
}

impl Ts5oomdme4 {
    pub const fn f0_min() -> u8 {
        0
    }

    pub const fn f0_max() -> u8 {
        7
    }

    pub const fn f1_min() -> u8 {
        0
    }

    pub const fn f1_max() -> u8 {
        7
    }

    pub const fn f2_min() -> u8 {
        0
    }

    pub const fn f2_max() -> u8 {
        7
    }

    pub const fn f3_min() -> u8 {
        0
    }

    pub const fn f3_max() -> u8 {
        7
    }

    pub const fn f4_min() -> u8 {
        0
    }

    pub const fn f4_max() -> u8 {
        7
    }
}

#[asn(sequence, extensible_after(f4))]

#[derive(Default, Debug, Clone, PartialEq, Hash)]
pub struct Ts5oomdme5 {
    #[asn(optional(integer(0..7)))] pub f0: Option<u8>,
    #[asn(optional(integer(0..7)))] pub f1: Option<u8>,
    #[asn(integer(0..7))] pub f2: u8,
    #[asn(default(integer(0..7), 5))] pub f3: u8,
    #[asn(integer(0..7))] pub f4: u8,
}

impl Ts5oomdme5 {
    pub const fn f0_min() -> u8 {
        0
    }

    pub const fn f0_max() -> u8 {
        7
    }

    pub const fn f1_min() -> u8 {
        0
    }

    pub const fn f1_max() -> u8 {
        7
    }

    pub const fn f2_min() -> u8 {
        0
    }

    pub const fn f2_max() -> u8 {
        7
    }

    pub const fn f3_min() -> u8 {
        0
    }

    pub const fn f3_max() -> u8 {
        7
    }

    pub const fn f4_min() -> u8 {
        0
    }

    pub const fn f4_max() -> u8 {
        7
    }
}

#[asn(sequence)]

#[derive(Default, Debug, Clone, PartialEq, Hash)]
pub struct Ts5domdmn {
    #[asn(default(integer(0..7), 5))] pub f0: u8,
    #[asn(optional(integer(0..7)))] pub f1: Option<u8>,
    #[asn(integer(0..7))] pub f2: u8,
    #[asn(default(integer(0..7), 5))] pub f3: u8,
    #[asn(integer(0..7))] pub f4: u8,
}

impl Ts5domdmn {
    pub const fn f0_min() -> u8 {
        0
    }

    pub const fn f0_max() -> u8 {
        7
    }

    pub const fn f1_min() -> u8 {
        0
    }

    pub const fn f1_max() -> u8 {
        7
    }

    pub const fn f2_min() -> u8 {
        0
    }

    pub const fn f2_max() -> u8 {
        7
    }

    pub const fn f3_min() -> u8 {
        0
    }

    pub const fn f3_max() -> u8 {
        7
    }

    pub const fn f4_min() -> u8 {
        0
    }

    pub const fn f4_max() -> u8 {
        7
    }
}

#[asn(sequence, extensible_after(f0))]

#[derive(Default, Debug, Clone, PartialEq, Hash)]
pub struct Ts5domdme0 {
    #[asn(default(integer(0..7), 5))] pub f0: u8,
    #[asn(optional(integer(0..7)))] pub f1: Option<u8>,
    #[asn(optional(integer(0..7)))] pub f2: Option<u8>,
    #[asn(default(integer(0..7), 5))] pub f3: u8,
    #[asn(optional(integer(0..7)))] pub f4: Option<u8>,
}

impl Ts5domdme0 {
    pub const fn f0_min() -> u8 {
        0
    }

    pub const fn f0_max() -> u8 {
        7
    }

    pub const fn f1_min() -> u8 {
        0
    }

    pub const fn f1_max() -> u8 {
        7
    }

    pub const fn f2_min() -> u8 {
        0
    }

    pub const fn f2_max() -> u8 {
        7
    }

    pub const fn f3_min() -> u8 {
        0
    }

    pub const fn f3_max() -> u8 {
        7
    }

    pub const fn f4_min() -> u8 {
        0
    }

    pub const fn f4_max() -> u8 {
        7
    }
}

#[asn(sequence, extensible_after(f0))]

#[derive(Default, Debug, Clone, PartialEq, Hash)]
pub struct Ts5domdme1 {
    #[asn(default(integer(0..7), 5))] pub f0: u8,
    #[asn(optional(integer(0..7)))] pub f1: Option<u8>,
    #[asn(optional(integer(0..7)))] pub f2: Option<u8>,
    #[asn(default(integer(0..7), 5))] pub f3: u8,
    #[asn(optional(integer(0..7)))] pub f4: Option<u8>,
}

impl Ts5domdme1 {
    pub const fn f0_min() -> u8 {
        0
    }

    pub const fn f0_max() -> u8 {
        7
    }

    pub const fn f1_min() -> u8 {
        0
    }

    pub const fn f1_max() -> u8 {
        7
    }

    pub const fn f2_min() -> u8 {
        0
    }

    pub const fn f2_max() -> u8 {
        7
    }

    pub const fn f3_min() -> u8 {
        0
    }

    pub const fn f3_max() -> u8 {
        7
    }

    pub const fn f4_min() -> u8 {
        0
    }

    pub const fn f4_max() -> u8 {
        7
    }
}

#[asn(sequence, extensible_after(f1))]

#[derive(Default, Debug, Clone, PartialEq, Hash)]
pub struct Ts5domdme2 {
    #[asn(default(integer(0..7), 5))] pub f0: u8,
    #[asn(optional(integer(0..7)))] pub f1: Option<u8>,
    #[asn(optional(integer(0..7)))] pub f2: Option<u8>,
    #[asn(default(integer(0..7), 5))] pub f3: u8,
    #[asn(optional(integer(0..7)))] pub f4: Option<u8>,
}

impl Ts5domdme2 {
    pub const fn f0_min() -> u8 {
        0
    }

    pub const fn f0_max() -> u8 {
        7
    }

    pub const fn f1_min() -> u8 {
        0
    }

    pub const fn f1_max() -> u8 {
        7
    }

    pub const fn f2_min() -> u8 {
        0
    }

    pub const fn f2_max() -> u8 {
        7
    }

    pub const fn f3_min() -> u8 {
        0
    }

    pub const fn f3_max() -> u8 {
        7
    }

    pub const fn f4_min() -> u8 {
        0
    }

    pub const fn f4_max() -> u8 {
        7
    }
}

#[asn(sequence, extensible_after(f2))]

#[derive(Default, Debug, Clone, PartialEq, Hash)]
pub struct Ts5domdme3 {
    #[asn(default(integer(0..7), 5))] pub f0: u8,
    #[asn(optional(integer(0..7)))] pub f1: Option<u8>,
    #[asn(integer(0..7))] pub f2: u8,
    #[asn(default(integer(0..7), 5))] pub f3: u8,
    #[asn(optional(integer(0..7)))] pub f4: Option<u8>,
}

impl Ts5domdme3 {
    pub const fn f0_min() -> u8 {
        0
    }

    pub const fn f0_max() -> u8 {
        7
    }

    pub const fn f1_min() -> u8 {
        0
    }

    pub const fn f1_max() -> u8 {
        7
    }

    pub const fn f2_min() -> u8 {
        0
    }

    pub const fn f2_max() -> u8 {
        7
    }

    pub const fn f3_min() -> u8 {
        0
    }

    pub const fn f3_max() -> u8 {
        7
    }

    pub const fn f4_min() -> u8 {
        0
    }

    pub const fn f4_max() -> u8 {
        7
    }
}

#[asn(sequence, extensible_after(f3))]

#[derive(Default, Debug, Clone, PartialEq, Hash)]
pub struct Ts5domdme4 {
    #[asn(default(integer(0..7), 5))] pub f0: u8,
    #[asn(optional(integer(0..7)))] pub f1: Option<u8>,
    #[asn(integer(0..7))] pub f2: u8,
    #[asn(default(integer(0..7), 5))] pub f3: u8,
    #[asn(optional(integer(0..7)))] pub f4: Option<u8>,
}

impl Ts5domdme4 {
    pub const fn f0_min() -> u8 {
        0
    }

    pub const fn f0_max() -> u8 {
        7
    }

    pub const fn f1_min() -> u8 {
        0
    }

    pub const fn f1_max() -> u8 {
        7
    }

    pub const fn f2_min() -> u8 {
        0
    }

    pub const fn f2_max() -> u8 {
        7
    }

    pub const fn f3_min() -> u8 {
        0
    }

    pub const fn f3_max() -> u8 {
        7
    }

    pub const fn f4_min() -> u8 {
        0
    }

    pub const fn f4_max() -> u8 {
        7
    }
}

#[asn(sequence, extensible_after(f4))]

#[derive(Default, Debug, Clone, PartialEq, Hash)]
pub struct Ts5domdme5 {
    #[asn(default(integer(0..7), 5))] pub f0: u8,
    #[asn(optional(integer(0..7)))] pub f1: Option<u8>,
    #[asn(integer(0..7))] pub f2: u8,
    #[asn(default(integer(0..7), 5))] pub f3: u8,
    #[asn(integer(0..7))] pub f4: u8,
}

impl Ts5domdme5 {
    pub const fn f0_min() -> u8 {
        0
    }

    pub const fn f0_max() -> u8 {
        7
    }

    pub const fn f1_min() -> u8 {
        0
    }

    pub const fn f1_max() -> u8 {
        7
    }

    pub const fn f2_min() -> u8 {
        0
    }

    pub const fn f2_max() -> u8 {
        7
    }

    pub const fn f3_min() -> u8 {
        0
    }

    pub const fn f3_max() -> u8 {
        7
    }

    pub const fn f4_min() -> u8 {
        0
    }

    pub const fn f4_max() -> u8 {
        7
    }
}

#[asn(sequence)]

#[derive(Default, Debug, Clone, PartialEq, Hash)]
pub struct Ts5mdmdmn {
    #[asn(integer(0..7))] pub f0: u8,
    #[asn(default(integer(0..7), 5))] pub f1: u8,
    #[asn(integer(0..7))] pub f2: u8,
    #[asn(default(integer(0..7), 5))] pub f3: u8,
    #[asn(integer(0..7))] pub f4: u8,
}

impl Ts5mdmdmn {
    pub const fn f0_min() -> u8 {
        0
    }

    pub const fn f0_max() -> u8 {
        7
    }

    pub const fn f1_min() -> u8 {
        0
    }

    pub const fn f1_max() -> u8 {
        7
    }

    pub const fn f2_min() -> u8 {
        0
    }

    pub const fn f2_max() -> u8 {
        7
    }

    pub const fn f3_min() -> u8 {
        0
    }

    pub const fn f3_max() -> u8 {
        7
    }

    pub const fn f4_min() -> u8 {
        0
    }

    pub const fn f4_max() -> u8 {
        7
    }
}

#[asn(sequence, extensible_after(f0))]

#[derive(Default, Debug, Clone, PartialEq, Hash)]
pub struct Ts5mdmdme0 {
    #[asn(integer(0..7))] pub f0: u8,
    #[asn(default(integer(0..7), 5))] pub f1: u8,
    #[asn(optional(integer(0..7)))] pub f2: Option<u8>,
    #[asn(default(integer(0..7), 5))] pub f3: u8,
    #[asn(optional(integer(0..7)))] pub f4: Option<u8>,
}

impl Ts5mdmdme0 {
    pub const fn f0_min() -> u8 {
        0
    }

    pub const fn f0_max() -> u8 {
        7
    }

    pub const fn f1_min() -> u8 {
        0
    }

    pub const fn f1_max() -> u8 {
        7
    }

    pub const fn f2_min() -> u8 {
        0
    }

    pub const fn f2_max() -> u8 {
        7
    }

    pub const fn f3_min() -> u8 {
        0
    }

    pub const fn f3_max() -> u8 {
        7
    }

    pub const fn f4_min() -> u8 {
        0
    }

    pub const fn f4_max() -> u8 {
        7
    }
}

#[asn(sequence, extensible_after(f0))]

#[derive(Default, Debug, Clone, PartialEq, Hash)]
pub struct Ts5mdmdme1 {
    #[asn(integer(0..7))] pub f0: u8,
    #[asn(default(integer(0..7), 5))] pub f1: u8,
    #[asn(optional(integer(0..7)))] pub f2: Option<u8>,
    #[asn(default(integer(0..7), 5))] pub f3: u8,
    #[asn(optional(integer(0..7)))] pub f4: Option<u8>,
}

impl Ts5mdmdme1 {
    pub const fn f0_min() -> u8 {
        0
    }

    pub const fn f0_max() -> u8 {
        7
    }

    pub const fn f1_min() -> u8 {
        0
    }

    pub const fn f1_max() -> u8 {
        7
    }

    pub const fn f2_min() -> u8 {
        0
    }

    pub const fn f2_max() -> u8 {
        7
    }

    pub const fn f3_min() -> u8 {
        0
    }

    pub const fn f3_max() -> u8 {
        7
    }

    pub const fn f4_min() -> u8 {
        0
    }

    pub const fn f4_max() -> u8 {
        7
    }
}

#[asn(sequence, extensible_after(f1))]

#[derive(Default, Debug, Clone, PartialEq, Hash)]
pub struct Ts5mdmdme2 {
    #[asn(integer(0..7))] pub f0: u8,
    #[asn(default(integer(0..7), 5))] pub f1: u8,
    #[asn(optional(integer(0..7)))] pub f2: Option<u8>,
    #[asn(default(integer(0..7), 5))] pub f3: u8,
    #[asn(optional(integer(0..7)))] pub f4: Option<u8>,
}

impl Ts5mdmdme2 {
    pub const fn f0_min() -> u8 {
        0
    }

    pub const fn f0_max() -> u8 {
        7
    }

    pub const fn f1_min() -> u8 {
        0
    }

    pub const fn f1_max() -> u8 {
        7
    }

    pub const fn f2_min() -> u8 {
        0
    }

    pub const fn f2_max() -> u8 {
        7
    }

    pub const fn f3_min() -> u8 {
        0
    }

    pub const fn f3_max() -> u8 {
        7
    }

    pub const fn f4_min() -> u8 {
        0
    }

    pub const fn f4_max() -> u8 {
        7
    }
}

#[asn(sequence, extensible_after(f2))]

#[derive(Default, Debug, Clone, PartialEq, Hash)]
pub struct Ts5mdmdme3 {
    #[asn(integer(0..7))] pub f0: u8,
    #[asn(default(integer(0..7), 5))] pub f1: u8,
    #[asn(integer(0..7))] pub f2: u8,
    #[asn(default(integer(0..7), 5))] pub f3: u8,
    #[asn(optional(integer(0..7)))] pub f4: Option<u8>,
}

impl Ts5mdmdme3 {
    pub const fn f0_min() -> u8 {
        0
    }

    pub const fn f0_max() -> u8 {
        7
    }

    pub const fn f1_min() -> u8 {
        0
    }

    pub const fn f1_max() -> u8 {
        7
    }

    pub const fn f2_min() -> u8 {
        0
    }

    pub const fn f2_max() -> u8 {
        7
    }

    pub const fn f3_min() -> u8 {
        0
    }

    pub const fn f3_max() -> u8 {
        7
    }

    pub const fn f4_min() -> u8 {
        0
    }

    pub const fn f4_max() -> u8 {
        7
    }
}

#[asn(sequence, extensible_after(f3))]

#[derive(Default, Debug, Clone, PartialEq, Hash)]
pub struct Ts5mdmdme4 {
    #[asn(integer(0..7))] pub f0: u8,
    #[asn(default(integer(0..7), 5))] pub f1: u8,
    #[asn(integer(0..7))] pub f2: u8,
    #[asn(default(integer(0..7), 5))] pub f3: u8,
    #[asn(optional(integer(0..7)))] pub f4: Option<u8>,
}

impl Ts5mdmdme4 {
    pub const fn f0_min() -> u8 {
        0
    }

    pub const fn f0_max() -> u8 {
        7
    }

    pub const fn f1_min() -> u8 {
        0
    }

    pub const fn f1_max() -> u8 {
        7
    }

    pub const fn f2_min() -> u8 {
        0
    }

    pub const fn f2_max() -> u8 {
        7
    }

    pub const fn f3_min() -> u8 {
        0
    }

    pub const fn f3_max() -> u8 {
        7
    }

    pub const fn f4_min() -> u8 {
        0
    }

    pub const fn f4_max() -> u8 {
        7
    }
}

#[asn(sequence, extensible_after(f4))]

#[derive(Default, Debug, Clone, PartialEq, Hash)]
pub struct Ts5mdmdme5 {
    #[asn(integer(0..7))] pub f0: u8,
    #[asn(default(integer(0..7), 5))] pub f1: u8,
    #[asn(integer(0..7))] pub f2: u8,
    #[asn(default(integer(0..7), 5))] pub f3: u8,
    #[asn(integer(0..7))] pub f4: u8,
}

impl Ts5mdmdme5 {
    pub const fn f0_min() -> u8 {
        0
    }

    pub const fn f0_max() -> u8 {
        7
    }

    pub const fn f1_min() -> u8 {
        0
    }

    pub const fn f1_max() -> u8 {
        7
    }

    pub const fn f2_min() -> u8 {
        0
    }

    pub const fn f2_max() -> u8 {
        7
    }

    pub const fn f3_min() -> u8 {
        0
    }

    pub const fn f3_max() -> u8 {
        7
    }

    pub const fn f4_min() -> u8 {
        0
    }

    pub const fn f4_max() -> u8 {
        7
    }
}

#[asn(sequence)]

#[derive(Default, Debug, Clone, PartialEq, Hash)]
pub struct Ts5odmdmn {
    #[asn(optional(integer(0..7)))] pub f0: Option<u8>,
    #[asn(default(integer(0..7), 5))] pub f1: u8,
    #[asn(integer(0..7))] pub f2: u8,
    #[asn(default(integer(0..7), 5))] pub f3: u8,
    #[asn(integer(0..7))] pub f4: u8,
}

impl Ts5odmdmn {
    pub const fn f0_min() -> u8 {
        0
    }

    pub const fn f0_max() -> u8 {
        7
    }

    pub const fn f1_min() -> u8 {
        0
    }

    pub const fn f1_max() -> u8 {
        7
    }

    pub const fn f2_min() -> u8 {
        0
    }

    pub const fn f2_max() -> u8 {
        7
    }

    pub const fn f3_min() -> u8 {
        0
    }

    pub const fn f3_max() -> u8 {
        7
    }

    pub const fn f4_min() -> u8 {
        0
    }

    pub const fn f4_max() -> u8 {
        7
    }
}

#[asn(sequence, extensible_after(f0))]

#[derive(Default, Debug, Clone, PartialEq, Hash)]
pub struct Ts5odmdme0 {
    #[asn(optional(integer(0..7)))] pub f0: Option<u8>,
    #[asn(default(integer(0..7), 5))] pub f1: u8,
    #[asn(optional(integer(0..7)))] pub f2: Option<u8>,
    #[asn(default(integer(0..7), 5))] pub f3: u8,
    #[asn(optional(integer(0..7)))] pub f4: Option<u8>,
}

impl Ts5odmdme0 {
    pub const fn f0_min() -> u8 {
        0
    }

    pub const fn f0_max() -> u8 {
        7
    }

    pub const fn f1_min() -> u8 {
        0
    }

    pub const fn f1_max() -> u8 {
        7
    }

    pub const fn f2_min() -> u8 {
        0
    }

    pub const fn f2_max() -> u8 {
        7
    }

    pub const fn f3_min() -> u8 {
        0
    }

    pub const fn f3_max() -> u8 {
        7
    }

    pub const fn f4_min() -> u8 {
        0
    }

    pub const fn f4_max() -> u8 {
        7
    }
}

#[asn(sequence, extensible_after(f0))]

#[derive(Default, Debug, Clone, PartialEq, Hash)]
pub struct Ts5odmdme1 {
    #[asn(optional(integer(0..7)))] pub f0: Option<u8>,
    #[asn(default(integer(0..7), 5))] pub f1: u8,
    #[asn(optional(integer(0..7)))] pub f2: Option<u8>,
    #[asn(default(integer(0..7), 5))] pub f3: u8,
    #[asn(optional(integer(0..7)))] pub f4: Option<u8>,
}

impl Ts5odmdme1 {
    pub const fn f0_min() -> u8 {
        0
    }

    pub const fn f0_max() -> u8 {
        7
    }

    pub const fn f1_min() -> u8 {
        0
    }

    pub const fn f1_max() -> u8 {
        7
    }

    pub const fn f2_min() -> u8 {
        0
    }

    pub const fn f2_max() -> u8 {
        7
    }

    pub const fn f3_min() -> u8 {
        0
    }

    pub const fn f3_max() -> u8 {
        7
    }

    pub const fn f4_min() -> u8 {
        0
    }

    pub const fn f4_max() -> u8 {
        7
    }
}

#[asn(sequence, extensible_after(f1))]

#[derive(Default, Debug, Clone, PartialEq, Hash)]
pub struct Ts5odmdme2 {
    #[asn(optional(integer(0..7)))] pub f0: Option<u8>,
    #[asn(default(integer(0..7), 5))] pub f1: u8,
    #[asn(optional(integer(0..7)))] pub f2: Option<u8>,
    #[asn(default(integer(0..7), 5))] pub f3: u8,
    #[asn(optional(integer(0..7)))] pub f4: Option<u8>,
}

impl Ts5odmdme2 {
    pub const fn f0_min() -> u8 {
        0
    }

    pub const fn f0_max() -> u8 {
        7
    }

    pub const fn f1_min() -> u8 {
        0
    }

    pub const fn f1_max() -> u8 {
        7
    }

    pub const fn f2_min() -> u8 {
        0
    }

    pub const fn f2_max() -> u8 {
        7
    }

    pub const fn f3_min() -> u8 {
        0
    }

    pub const fn f3_max() -> u8 {
        7
    }

    pub const fn f4_min() -> u8 {
        0
    }

    pub const fn f4_max() -> u8 {
        7
    }
}

#[asn(sequence, extensible_after(f2))]

#[derive(Default, Debug, Clone, PartialEq, Hash)]
pub struct Ts5odmdme3 {
    #[asn(optional(integer(0..7)))] pub f0: Option<u8>,
    #[asn(default(integer(0..7), 5))] pub f1: u8,
    #[asn(integer(0..7))] pub f2: u8,
    #[asn(default(integer(0..7), 5))] pub f3: u8,
    #[asn(optional(integer(0..7)))] pub f4: Option<u8>,
}

impl Ts5odmdme3 {
    pub const fn f0_min() -> u8 {
        0
    }

    pub const fn f0_max() -> u8 {
        7
    }

    pub const fn f1_min() -> u8 {
        0
    }

    pub const fn f1_max() -> u8 {
        7
    }

    pub const fn f2_min() -> u8 {
        0
    }

    pub const fn f2_max() -> u8 {
        7
    }

    pub const fn f3_min() -> u8 {
        0
    }

    pub const fn f3_max() -> u8 {
        7
    }

    pub const fn f4_min() -> u8 {
        0
    }

    pub const fn f4_max() -> u8 {
        7
    }
}

#[asn(sequence, extensible_after(f3))]

#[derive(Default, Debug, Clone, PartialEq, Hash)]
pub struct Ts5odmdme4 {
    #[asn(optional(integer(0..7)))] pub f0: Option<u8>,
    #[asn(default(integer(0..7), 5))] pub f1: u8,
    #[asn(integer(0..7))] pub f2: u8,
    #[asn(default(integer(0..7), 5))] pub f3: u8,
    #[asn(optional(integer(0..7)))] pub f4: Option<u8>,
}

impl Ts5odmdme4 {
    pub const fn f0_min() -> u8 {
        0
    }

    pub const fn f0_max() -> u8 {
        7
    }

    pub const fn f1_min() -> u8 {
        0
    }

    pub const fn f1_max() -> u8 {
        7
    }

    pub const fn f2_min() -> u8 {
        0
    }

    pub const fn f2_max() -> u8 {
        7
    }

    pub const fn f3_min() -> u8 {
        0
    }

    pub const fn f3_max() -> u8 {
        7
    }

    pub const fn f4_min() -> u8 {
        0
    }

    pub const fn f4_max() -> u8 {
        7
    }
}

#[asn(sequence, extensible_after(f4))]

#[derive(Default, Debug, Clone, PartialEq, Hash)]
pub struct Ts5odmdme5 {
    #[asn(optional(integer(0..7)))] pub f0: Option<u8>,
    #[asn(default(integer(0..7), 5))] pub f1: u8,
    #[asn(integer(0..7))] pub f2: u8,
    #[asn(default(integer(0..7), 5))] pub f3: u8,
    #[asn(integer(0..7))] pub f4: u8,
}

impl Ts5odmdme5 {
    pub const fn f0_min() -> u8 {
        0
    }

    pub const fn f0_max() -> u8 {
        7
    }

    pub const fn f1_min() -> u8 {
        0
    }

    pub const fn f1_max() -> u8 {
        7
    }

    pub const fn f2_min() -> u8 {
        0
    }

    pub const fn f2_max() -> u8 {
        7
    }

    pub const fn f3_min() -> u8 {
        0
    }

    pub const fn f3_max() -> u8 {
        7
    }

    pub const fn f4_min() -> u8 {
        0
    }

    pub const fn f4_max() -> u8 {
        7
    }
}

#[asn(sequence)]

#[derive(Default, Debug, Clone, PartialEq, Hash)]
pub struct Ts5ddmdmn {
    #[asn(default(integer(0..7), 5))] pub f0: u8,
    #[asn(default(integer(0..7), 5))] pub f1: u8,
    #[asn(integer(0..7))] pub f2: u8,
    #[asn(default(integer(0..7), 5))] pub f3: u8,
    #[asn(integer(0..7))] pub f4: u8,
}

impl Ts5ddmdmn {
    pub const fn f0_min() -> u8 {
        0
    }

    pub const fn f0_max() -> u8 {
        7
    }

    pub const fn f1_min() -> u8 {
        0
    }

    pub const fn f1_max() -> u8 {
        7
    }

    pub const fn f2_min() -> u8 {
        0
    }

    pub const fn f2_max() -> u8 {
        7
    }

    pub const fn f3_min() -> u8 {
        0
    }

    pub const fn f3_max() -> u8 {
        7
    }

    pub const fn f4_min() -> u8 {
        0
    }

    pub const fn f4_max() -> u8 {
        7
    }
}

#[asn(sequence, extensible_after(f0))]

#[derive(Default, Debug, Clone, PartialEq, Hash)]
pub struct Ts5ddmdme0 {
    #[asn(default(integer(0..7), 5))] pub f0: u8,
    #[asn(default(integer(0..7), 5))] pub f1: u8,
    #[asn(optional(integer(0..7)))] pub f2: Option<u8>,
    #[asn(default(integer(0..7), 5))] pub f3: u8,
    #[asn(optional(integer(0..7)))] pub f4: Option<u8>,
}

impl Ts5ddmdme0 {
    pub const fn f0_min() -> u8 {
        0
    }

    pub const fn f0_max() -> u8 {
        7
    }

    pub const fn f1_min() -> u8 {
        0
    }

    pub const fn f1_max() -> u8 {
        7
    }

    pub const fn f2_min() -> u8 {
        0
    }

    pub const fn f2_max() -> u8 {
        7
    }

    pub const fn f3_min() -> u8 {
        0
    }

    pub const fn f3_max() -> u8 {
        7
    }

    pub const fn f4_min() -> u8 {
        0
    }

    pub const fn f4_max() -> u8 {
        7
    }
}

#[asn(sequence, extensible_after(f0))]

#[derive(Default, Debug, Clone, PartialEq, Hash)]
pub struct Ts5ddmdme1 {
    #[asn(default(integer(0..7), 5))] pub f0: u8,
    #[asn(default(integer(0..7), 5))] pub f1: u8,
    #[asn(optional(integer(0..7)))] pub f2: Option<u8>,
    #[asn(default(integer(0..7), 5))] pub f3: u8,
    #[asn(optional(integer(0..7)))] pub f4: Option<u8>,
}

impl Ts5ddmdme1 {
    pub const fn f0_min() -> u8 {
        0
    }

    pub const fn f0_max() -> u8 {
        7
    }

    pub const fn f1_min() -> u8 {
        0
    }

    pub const fn f1_max() -> u8 {
        7
    }

    pub const fn f2_min() -> u8 {
        0
    }

    pub const fn f2_max() -> u8 {
        7
    }

    pub const fn f3_min() -> u8 {
        0
    }

    pub const fn f3_max() -> u8 {
        7
    }

    pub const fn f4_min() -> u8 {
        0
    }

    pub const fn f4_max() -> u8 {
        7
    }
}

#[asn(sequence, extensible_after(f1))]

#[derive(Default, Debug, Clone, PartialEq, Hash)]
pub struct Ts5ddmdme2 {
    #[asn(default(integer(0..7), 5))] pub f0: u8,
    #[asn(default(integer(0..7), 5))] pub f1: u8,
    #[asn(optional(integer(0..7)))] pub f2: Option<u8>,
    #[asn(default(integer(0..7), 5))] pub f3: u8,
    #[asn(optional(integer(0..7)))] pub f4: Option<u8>,
}

impl Ts5ddmdme2 {
    pub const fn f0_min() -> u8 {
        0
    }

    pub const fn f0_max() -> u8 {
        7
    }

    pub const fn f1_min() -> u8 {
        0
    }

    pub const fn f1_max() -> u8 {
        7
    }

    pub const fn f2_min() -> u8 {
        0
    }

    pub const fn f2_max() -> u8 {
        7
    }

    pub const fn f3_min() -> u8 {
        0
    }

    pub const fn f3_max() -> u8 {
        7
    }

    pub const fn f4_min() -> u8 {
        0
    }

    pub const fn f4_max() -> u8 {
        7
    }
}

#[asn(sequence, extensible_after(f2))]

#[derive(Default, Debug, Clone, PartialEq, Hash)]
pub struct Ts5ddmdme3 {
    #[asn(default(integer(0..7), 5))] pub f0: u8,
    #[asn(default(integer(0..7), 5))] pub f1: u8,
    #[asn(integer(0..7))] pub f2: u8,
    #[asn(default(integer(0..7), 5))] pub f3: u8,
    #[asn(optional(integer(0..7)))] pub f4: Option<u8>,
}

impl Ts5ddmdme3 {
    pub const fn f0_min() -> u8 {
        0
    }

    pub const fn f0_max() -> u8 {
        7
    }

    pub const fn f1_min() -> u8 {
        0
    }

    pub const fn f1_max() -> u8 {
        7
    }

    pub const fn f2_min() -> u8 {
        0
    }

    pub const fn f2_max() -> u8 {
        7
    }

    pub const fn f3_min() -> u8 {
        0
    }

    pub const fn f3_max() -> u8 {
        7
    }

    pub const fn f4_min() -> u8 {
        0
    }

    pub const fn f4_max() -> u8 {
        7
    }
}

#[asn(sequence, extensible_after(f3))]

#[derive(Default, Debug, Clone, PartialEq, Hash)]
pub struct Ts5ddmdme4 {
    #[asn(default(integer(0..7), 5))] pub f0: u8,
    #[asn(default(integer(0..7), 5))] pub f1: u8,
    #[asn(integer(0..7))] pub f2: u8,
    #[asn(default(integer(0..7), 5))] pub f3: u8,
    #[asn(optional(integer(0..7)))] pub f4: Option<u8>,
}

impl Ts5ddmdme4 {
    pub const fn f0_min() -> u8 {
        0
    }

    pub const fn f0_max() -> u8 {
        7
    }

    pub const fn f1_min() -> u8 {
        0
    }

    pub const fn f1_max() -> u8 {
        7
    }

    pub const fn f2_min() -> u8 {
        0
    }

    pub const fn f2_max() -> u8 {
        7
    }

    pub const fn f3_min() -> u8 {
        0
    }

    pub const fn f3_max() -> u8 {
        7
    }

    pub const fn f4_min() -> u8 {
        0
    }

    pub const fn f4_max() -> u8 {
        7
    }
}

#[asn(sequence, extensible_after(f4))]

#[derive(Default, Debug, Clone, PartialEq, Hash)]
pub struct Ts5ddmdme5 {
    #[asn(default(integer(0..7), 5))] pub f0: u8,
    #[asn(default(integer(0..7), 5))] pub f1: u8,
    #[asn(integer(0..7))] pub f2: u8,
    #[asn(default(integer(0..7), 5))] pub f3: u8,
    #[asn(integer(0..7))] pub f4: u8,
}

impl Ts5ddmdme5 {
    pub const fn f0_min() -> u8 {
        0
    }

    pub const fn f0_max() -> u8 {
        7
    }

    pub const fn f1_min() -> u8 {
        0
    }

    pub const fn f1_max() -> u8 {
        7
    }

    pub const fn f2_min() -> u8 {
        0
    }

    pub const fn f2_max() -> u8 {
        7
    }

    pub const fn f3_min() -> u8 {
        0
    }

    pub const fn f3_max() -> u8 {
        7
    }

    pub const fn f4_min() -> u8 {
        0
    }

    pub const fn f4_max() -> u8 {
        7
    }
}

#[asn(sequence)]

#[derive(Default, Debug, Clone, PartialEq, Hash)]
pub struct Ts5mmodmn {
    #[asn(integer(0..7))] pub f0: u8,
    #[asn(integer(0..7))] pub f1: u8,
    #[asn(optional(integer(0..7)))] pub f2: Option<u8>,
    #[asn(default(integer(0..7), 5))] pub f3: u8,
    #[asn(integer(0..7))] pub f4: u8,
}

impl Ts5mmodmn {
    pub const fn f0_min() -> u8 {
        0
    }

    pub const fn f0_max() -> u8 {
        7
    }

    pub const fn f1_min() -> u8 {
        0
    }

    pub const fn f1_max() -> u8 {
        7
    }

    pub const fn f2_min() -> u8 {
        0
    }

    pub const fn f2_max() -> u8 {
        7
    }

    pub const fn f3_min() -> u8 {
        0
    }

    pub const fn f3_max() -> u8 {
        7
    }

    pub const fn f4_min() -> u8 {
        0
    }

    pub const fn f4_max() -> u8 {
        7
    }
}

#[asn(sequence, extensible_after(f0))]

#[derive(Default, Debug, Clone, PartialEq, Hash)]
pub struct Ts5mmodme0 {
    #[asn(integer(0..7))] pub f0: u8,
    #[asn(optional(integer(0..7)))] pub f1: Option<u8>,
    #[asn(optional(integer(0..7)))] pub f2: Option<u8>,
    #[asn(default(integer(0..7), 5))] pub f3: u8,
    #[asn(optional(integer(0..7)))] pub f4: Option<u8>,
}

impl Ts5mmodme0 {
    pub const fn f0_min() -> u8 {
        0
    }

    pub const fn f0_max() -> u8 {
        7
    }

    pub const fn f1_min() -> u8 {
        0
    }

    pub const fn f1_max() -> u8 {
        7
    }

    pub const fn f2_min() -> u8 {
        0
    }

    pub const fn f2_max() -> u8 {
        7
    }

    pub const fn f3_min() -> u8 {
        0
    }

    pub const fn f3_max() -> u8 {
        7
    }

    pub const fn f4_min() -> u8 {
        0
    }

    pub const fn f4_max() -> u8 {
        7
    }
}

#[asn(sequence, extensible_after(f0))]

#[derive(Default, Debug, Clone, PartialEq, Hash)]
pub struct Ts5mmodme1 {
    #[asn(integer(0..7))] pub f0: u8,
    #[asn(optional(integer(0..7)))] pub f1: Option<u8>,
    #[asn(optional(integer(0..7)))] pub f2: Option<u8>,
    #[asn(default(integer(0..7), 5))] pub f3: u8,
    #[asn(optional(integer(0..7)))] pub f4: Option<u8>,
}

impl Ts5mmodme1 {
    pub const fn f0_min() -> u8 {
        0
    }

    pub const fn f0_max() -> u8 {
        7
    }

    pub const fn f1_min() -> u8 {
        0
    }

    pub const fn f1_max() -> u8 {
        7
    }

    pub const fn f2_min() -> u8 {
        0
    }

    pub const fn f2_max() -> u8 {
        7
    }

    pub const fn f3_min() -> u8 {
        0
    }

    pub const fn f3_max() -> u8 {
        7
    }

    pub const fn f4_min() -> u8 {
        0
    }

    pub const fn f4_max() -> u8 {
        7
    }
}

#[asn(sequence, extensible_after(f1))]

#[derive(Default, Debug, Clone, PartialEq, Hash)]
pub struct Ts5mmodme2 {
    #[asn(integer(0..7))] pub f0: u8,
    #[asn(integer(0..7))] pub f1: u8,
    #[asn(optional(integer(0..7)))] pub f2: Option<u8>,
    #[asn(default(integer(0..7), 5))] pub f3: u8,
    #[asn(optional(integer(0..7)))] pub f4: Option<u8>,
}

impl Ts5mmodme2 {
    pub const fn f0_min() -> u8 {
        0
    }

    pub const fn f0_max() -> u8 {
        7
    }

    pub const fn f1_min() -> u8 {
        0
    }

    pub const fn f1_max() -> u8 {
        7
    }

    pub const fn f2_min() -> u8 {
        0
    }

    pub const fn f2_max() -> u8 {
        7
    }

    pub const fn f3_min() -> u8 {
        0
    }

    pub const fn f3_max() -> u8 {
        7
    }

    pub const fn f4_min() -> u8 {
        0
    }

    pub const fn f4_max() -> u8 {
        7
    }
}

#[asn(sequence, extensible_after(f2))]

#[derive(Default, Debug, Clone, PartialEq, Hash)]
pub struct Ts5mmodme3 {
    #[asn(integer(0..7))] pub f0: u8,
    #[asn(integer(0..7))] pub f1: u8,
    #[asn(optional(integer(0..7)))] pub f2: Option<u8>,
    #[asn(default(integer(0..7), 5))] pub f3: u8,
    #[asn(optional(integer(0..7)))] pub f4: Option<u8>,
}

impl Ts5mmodme3 {
    pub const fn f0_min() -> u8 {
        0
    }

    pub const fn f0_max() -> u8 {
        7
    }

    pub const fn f1_min() -> u8 {
        0
    }

    pub const fn f1_max() -> u8 {
        7
    }

    pub const fn f2_min() -> u8 {
        0
    }

    pub const fn f2_max() -> u8 {
        7
    }

    pub const fn f3_min() -> u8 {
        0
    }

    pub const fn f3_max() -> u8 {
        7
    }

    pub const fn f4_min() -> u8 {
        0
    }

    pub const fn f4_max() -> u8 {
        7
    }
}

#[asn(sequence, extensible_after(f3))]

#[derive(Default, Debug, Clone, PartialEq, Hash)]
pub struct Ts5mmodme4 {
    #[asn(integer(0..7))] pub f0: u8,
    #[asn(integer(0..7))] pub f1: u8,
    #[asn(optional(integer(0..7)))] pub f2: Option<u8>,
    #[asn(default(integer(0..7), 5))] pub f3: u8,
    #[asn(optional(integer(0..7)))] pub f4: Option<u8>,
}

impl Ts5mmodme4 {
    pub const fn f0_min() -> u8 {
        0
    }

    pub const fn f0_max() -> u8 {
        7
    }

    pub const fn f1_min() -> u8 {
        0
    }

    pub const fn f1_max() -> u8 {
        7
    }

    pub const fn f2_min() -> u8 {
        0
    }

    pub const fn f2_max() -> u8 {
        7
    }

    pub const fn f3_min() -> u8 {
        0
    }

    pub const fn f3_max() -> u8 {
        7
    }

    pub const fn f4_min() -> u8 {
        0
    }

    pub const fn f4_max() -> u8 {
        7
    }
}

#[asn(sequence, extensible_after(f4))]

#[derive(Default, Debug, Clone, PartialEq, Hash)]
pub struct Ts5mmodme5 {
    #[asn(integer(0..7))] pub f0: u8,
    #[asn(integer(0..7))] pub f1: u8,
    #[asn(optional(integer(0..7)))] pub f2: Option<u8>,
    #[asn(default(integer(0..7), 5))] pub f3: u8,
    #[asn(integer(0..7))] pub f4: u8,
}

impl Ts5mmodme5 {
    pub const fn f0_min() -> u8 {
        0
    }

    pub const fn f0_max() -> u8 {
        7
    }

    pub const fn f1_min() -> u8 {
        0
    }

    pub const fn f1_max() -> u8 {
        7
    }

    pub const fn f2_min() -> u8 {
        0
    }

    pub const fn f2_max() -> u8 {
        7
    }

    pub const fn f3_min() -> u8 {
        0
    }

    pub const fn f3_max() -> u8 {
        7
    }

    pub const fn f4_min() -> u8 {
        0
    }

    pub const fn f4_max() -> u8 {
        7
    }
}

#[asn(sequence)]

#[derive(Default, Debug, Clone, PartialEq, Hash)]
pub struct Ts5omodmn {
    #[asn(optional(integer(0..7)))] pub f0: Option<u8>,
    #[asn(integer(0..7))] pub f1: u8,
    #[asn(optional(integer(0..7)))] pub f2: Option<u8>,
    #[asn(default(integer(0..7), 5))] pub f3: u8,
    #[asn(integer(0..7))] pub f4: u8,
}

impl Ts5omodmn {
    pub const fn f0_min() -> u8 {
        0
    }

    pub const fn f0_max() -> u8 {
        7
    }

    pub const fn f1_min() -> u8 {
        0
    }

    pub const fn f1_max() -> u8 {
        7
    }

    pub const fn f2_min() -> u8 {
        0
    }

    pub const fn f2_max() -> u8 {
        7
    }

    pub const fn f3_min() -> u8 {
        0
    }

    pub const fn f3_max() -> u8 {
        7
    }

    pub const fn f4_min() -> u8 {
        0
    }

    pub const fn f4_max() -> u8 {
        7
    }
}

#[asn(sequence, extensible_after(f0))]

#[derive(Default, Debug, Clone, PartialEq, Hash)]
pub struct Ts5omodme0 {
    #[asn(optional(integer(0..7)))] pub f0: Option<u8>,
    #[asn(optional(integer(0..7)))] pub f1: Option<u8>,
    #[asn(optional(integer(0..7)))] pub f2: Option<u8>,
    #[asn(default(integer(0..7), 5))] pub f3: u8,
    #[asn(optional(integer(0..7)))] pub f4: Option<u8>,
}

impl Ts5omodme0 {
    pub const fn f0_min() -> u8 {
        0
    }

    pub const fn f0_max() -> u8 {
        7
    }

    pub const fn f1_min() -> u8 {
        0
    }

    pub const fn f1_max() -> u8 {
        7
    }

    pub const fn f2_min() -> u8 {
        0
    }

    pub const fn f2_max() -> u8 {
        7
    }

    pub const fn f3_min() -> u8 {
        0
    }

    pub const fn f3_max() -> u8 {
        7
    }

    pub const fn f4_min() -> u8 {
        0
    }

    pub const fn f4_max() -> u8 {
        7
    }
}

#[asn(sequence, extensible_after(f0))]

#[derive(Default, Debug, Clone, PartialEq, Hash)]
pub struct Ts5omodme1 {
    #[asn(optional(integer(0..7)))] pub f0: Option<u8>,
    #[asn(optional(integer(0..7)))] pub f1: Option<u8>,
    #[asn(optional(integer(0..7)))] pub f2: Option<u8>,
    #[asn(default(integer(0..7), 5))] pub f3: u8,
    #[asn(optional(integer(0..7)))] pub f4: Option<u8>,
}

impl Ts5omodme1 {
    pub const fn f0_min() -> u8 {
        0
    }

    pub const fn f0_max() -> u8 {
        7
    }

    pub const fn f1_min() -> u8 {
        0
    }

    pub const fn f1_max() -> u8 {
        7
    }

    pub const fn f2_min() -> u8 {
        0
    }

    pub const fn f2_max() -> u8 {
        7
    }

    pub const fn f3_min() -> u8 {
        0
    }

    pub const fn f3_max() -> u8 {
        7
    }

    pub const fn f4_min() -> u8 {
        0
    }

    pub const fn f4_max() -> u8 {
        7
    }
}

#[asn(sequence, extensible_after(f1))]

#[derive(Default, Debug, Clone, PartialEq, Hash)]
pub struct Ts5omodme2 {
    #[asn(optional(integer(0..7)))] pub f0: Option<u8>,
    #[asn(integer(0..7))] pub f1: u8,
    #[asn(optional(integer(0..7)))] pub f2: Option<u8>,
    #[asn(default(integer(0..7), 5))] pub f3: u8,
    #[asn(optional(integer(0..7)))] pub f4: Option<u8>,
}

impl Ts5omodme2 {
    pub const fn f0_min() -> u8 {
        0
    }

    pub const fn f0_max() -> u8 {
        7
    }

    pub const fn f1_min() -> u8 {
        0
    }

    pub const fn f1_max() -> u8 {
        7
    }

    pub const fn f2_min() -> u8 {
        0
    }

    pub const fn f2_max() -> u8 {
        7
    }

    pub const fn f3_min() -> u8 {
        0
    }

    pub const fn f3_max() -> u8 {
        7
    }

    pub const fn f4_min() -> u8 {
        0
    }

    pub const fn f4_max() -> u8 {
        7
    }
}

#[asn(sequence, extensible_after(f2))]

#[derive(Default, Debug, Clone, PartialEq, Hash)]
pub struct Ts5omodme3 {
    #[asn(optional(integer(0..7)))] pub f0: Option<u8>,
    #[asn(integer(0..7))] pub f1: u8,
    #[asn(optional(integer(0..7)))] pub f2: Option<u8>,
    #[asn(default(integer(0..7), 5))] pub f3: u8,
    #[asn(optional(integer(0..7)))] pub f4: Option<u8>,
}

impl Ts5omodme3 {
    pub const fn f0_min() -> u8 {
        0
    }

    pub const fn f0_max() -> u8 {
        7
    }

    pub const fn f1_min() -> u8 {
        0
    }

    pub const fn f1_max() -> u8 {
        7
    }

    pub const fn f2_min() -> u8 {
        0
    }

    pub const fn f2_max() -> u8 {
        7
    }

    pub const fn f3_min() -> u8 {
        0
    }

    pub const fn f3_max() -> u8 {
        7
    }

    pub const fn f4_min() -> u8 {
        0
    }

    pub const fn f4_max() -> u8 {
        7
    }
}

#[asn(sequence, extensible_after(f3))]

#[derive(Default, Debug, Clone, PartialEq, Hash)]
pub struct Ts5omodme4 {
    #[asn(optional(integer(0..7)))] pub f0: Option<u8>,
    #[asn(integer(0..7))] pub f1: u8,
    #[asn(optional(integer(0..7)))] pub f2: Option<u8>,
    #[asn(default(integer(0..7), 5))] pub f3: u8,
    #[asn(optional(integer(0..7)))] pub f4: Option<u8>,
}

impl Ts5omodme4 {
    pub const fn f0_min() -> u8 {
        0
    }

    pub const fn f0_max() -> u8 {
        7
    }

    pub const fn f1_min() -> u8 {
        0
    }

    pub const fn f1_max() -> u8 {
        7
    }

    pub const fn f2_min() -> u8 {
        0
    }

    pub const fn f2_max() -> u8 {
        7
    }

    pub const fn f3_min() -> u8 {
        0
    }

    pub const fn f3_max() -> u8 {
        7
    }

    pub const fn f4_min() -> u8 {
        0
    }

    pub const fn f4_max() -> u8 {
        7
    }
}

#[asn(sequence, extensible_after(f4))]

#[derive(Default, Debug, Clone, PartialEq, Hash)]
pub struct Ts5omodme5 {
    #[asn(optional(integer(0..7)))] pub f0: Option<u8>,
    #[asn(integer(0..7))] pub f1: u8,
    #[asn(optional(integer(0..7)))] pub f2: Option<u8>,
    #[asn(default(integer(0..7), 5))] pub f3: u8,
    #[asn(integer(0..7))] pub f4: u8,
}

impl Ts5omodme5 {
    pub const fn f0_min() -> u8 {
        0
    }

    pub const fn f0_max() -> u8 {
        7
    }

    pub const fn f1_min() -> u8 {
        0
    }

    pub const fn f1_max() -> u8 {
        7
    }

    pub const fn f2_min() -> u8 {
        0
    }

    pub const fn f2_max() -> u8 {
        7
    }

    pub const fn f3_min() -> u8 {
        0
    }

    pub const fn f3_max() -> u8 {
        7
    }

    pub const fn f4_min() -> u8 {
        0
    }

    pub const fn f4_max() -> u8 {
        7
    }
}

#[asn(sequence)]

#[derive(Default, Debug, Clone, PartialEq, Hash)]
pub struct Ts5dmodmn {
    #[asn(default(integer(0..7), 5))] pub f0: u8,
    #[asn(integer(0..7))] pub f1: u8,
    #[asn(optional(integer(0..7)))] pub f2: Option<u8>,
    #[asn(default(integer(0..7), 5))] pub f3: u8,
    #[asn(integer(0..7))] pub f4: u8,
}

impl Ts5dmodmn {
    pub const fn f0_min() -> u8 {
        0
    }

    pub const fn f0_max() -> u8 {
        7
    }

    pub const fn f1_min() -> u8 {
        0
    }

    pub const fn f1_max() -> u8 {
        7
    }

    pub const fn f2_min() -> u8 {
        0
    }

    pub const fn f2_max() -> u8 {
        7
    }

    pub const fn f3_min() -> u8 {
        0
    }

    pub const fn f3_max() -> u8 {
        7
    }

    pub const fn f4_min() -> u8 {
        0
    }

    pub const fn f4_max() -> u8 {
        7
    }
}

#[asn(sequence, extensible_after(f0))]

#[derive(Default, Debug, Clone, PartialEq, Hash)]
pub struct Ts5dmodme0 {
    #[asn(default(integer(0..7), 5))] pub f0: u8,
    #[asn(optional(integer(0..7)))] pub f1: Option<u8>,
    #[asn(optional(integer(0..7)))] pub f2: Option<u8>,
    #[asn(default(integer(0..7), 5))] pub f3: u8,
    #[asn(optional(integer(0..7)))] pub f4: Option<u8>,
}

impl Ts5dmodme0 {
    pub const fn f0_min() -> u8 {
        0
    }

    pub const fn f0_max() -> u8 {
        7
    }

    pub const fn f1_min() -> u8 {
        0
    }

    pub const fn f1_max() -> u8 {
        7
    }

    pub const fn f2_min() -> u8 {
        0
    }

    pub const fn f2_max() -> u8 {
        7
    }

    pub const fn f3_min() -> u8 {
        0
    }

    pub const fn f3_max() -> u8 {
        7
    }

    pub const fn f4_min() -> u8 {
        0
    }

    pub const fn f4_max() -> u8 {
        7
    }
}

#[asn(sequence, extensible_after(f0))]

#[derive(Default, Debug, Clone, PartialEq, Hash)]
pub struct Ts5dmodme1 {
    #[asn(default(integer(0..7), 5))] pub f0: u8,
    #[asn(optional(integer(0..7)))] pub f1: Option<u8>,
    #[asn(optional(integer(0..7)))] pub f2: Option<u8>,
    #[asn(default(integer(0..7), 5))] pub f3: u8,
    #[asn(optional(integer(0..7)))] pub f4: Option<u8>,
}

impl Ts5dmodme1 {
    pub const fn f0_min() -> u8 {
        0
    }

    pub const fn f0_max() -> u8 {
        7
    }

    pub const fn f1_min() -> u8 {
        0
    }

    pub const fn f1_max() -> u8 {
        7
    }

    pub const fn f2_min() -> u8 {
        0
    }

    pub const fn f2_max() -> u8 {
        7
    }

    pub const fn f3_min() -> u8 {
        0
    }

    pub const fn f3_max() -> u8 {
        7
    }

    pub const fn f4_min() -> u8 {
        0
    }

    pub const fn f4_max() -> u8 {
        7
    }
}

#[asn(sequence, extensible_after(f1))]

#[derive(Default, Debug, Clone, PartialEq, Hash)]
pub struct Ts5dmodme2 {
    #[asn(default(integer(0..7), 5))] pub f0: u8,
    #[asn(integer(0..7))] pub f1: u8,
    #[asn(optional(integer(0..7)))] pub f2: Option<u8>,
    #[asn(default(integer(0..7), 5))] pub f3: u8,
    #[asn(optional(integer(0..7)))] pub f4: Option<u8>,
}

impl Ts5dmodme2 {
    pub const fn f0_min() -> u8 {
        0
    }

    pub const fn f0_max() -> u8 {
        7
    }

    pub const fn f1_min() -> u8 {
        0
    }

    pub const fn f1_max() -> u8 {
        7
    }

    pub const fn f2_min() -> u8 {
        0
    }

    pub const fn f2_max() -> u8 {
        7
    }

    pub const fn f3_min() -> u8 {
        0
    }

    pub const fn f3_max() -> u8 {
        7
    }

    pub const fn f4_min() -> u8 {
        0
    }

    pub const fn f4_max() -> u8 {
        7
    }
}

#[asn(sequence, extensible_after(f2))]

#[derive(Default, Debug, Clone, PartialEq, Hash)]
pub struct Ts5dmodme3 {
    #[asn(default(integer(0..7), 5))] pub f0: u8,
    #[asn(integer(0..7))] pub f1: u8,
    #[asn(optional(integer(0..7)))] pub f2: Option<u8>,
    #[asn(default(integer(0..7), 5))] pub f3: u8,
    #[asn(optional(integer(0..7)))] pub f4: Option<u8>,
}

impl Ts5dmodme3 {
    pub const fn f0_min() -> u8 {
        0
    }

    pub const fn f0_max() -> u8 {
        7
    }

    pub const fn f1_min() -> u8 {
        0
    }

    pub const fn f1_max() -> u8 {
        7
    }

    pub const fn f2_min() -> u8 {
        0
    }

    pub const fn f2_max() -> u8 {
        7
    }

    pub const fn f3_min() -> u8 {
        0
    }

    pub const fn f3_max() -> u8 {
        7
    }

    pub const fn f4_min() -> u8 {
        0
    }

    pub const fn f4_max() -> u8 {
        7
    }
}

#[asn(sequence, extensible_after(f3))]

#[derive(Default, Debug, Clone, PartialEq, Hash)]
pub struct Ts5dmodme4 {
    #[asn(default(integer(0..7), 5))] pub f0: u8,
    #[asn(integer(0..7))] pub f1: u8,
    #[asn(optional(integer(0..7)))] pub f2: Option<u8>,
    #[asn(default(integer(0..7), 5))] pub f3: u8,
    #[asn(optional(integer(0..7)))] pub f4: Option<u8>,
}

impl Ts5dmodme4 {
    pub const fn f0_min() -> u8 {
        0
    }

    pub const fn f0_max() -> u8 {
        7
    }

    pub const fn f1_min() -> u8 {
        0
    }

    pub const fn f1_max() -> u8 {
        7
    }

    pub const fn f2_min() -> u8 {
        0
    }

    pub const fn f2_max() -> u8 {
        7
    }

    pub const fn f3_min() -> u8 {
        0
    }

    pub const fn f3_max() -> u8 {
        7
    }

    pub const fn f4_min() -> u8 {
        0
    }

    pub const fn f4_max() -> u8 {
        7
    }
}

#[asn(sequence, extensible_after(f4))]

#[derive(Default, Debug, Clone, PartialEq, Hash)]
pub struct Ts5dmodme5 {
    #[asn(default(integer(0..7), 5))] pub f0: u8,
    #[asn(integer(0..7))] pub f1: u8,
    #[asn(optional(integer(0..7)))] pub f2: Option<u8>,
    #[asn(default(integer(0..7), 5))] pub f3: u8,
    #[asn(integer(0..7))] pub f4: u8,
}

impl Ts5dmodme5 {
    pub const fn f0_min() -> u8 {
        0
    }

    pub const fn f0_max() -> u8 {
        7
    }

    pub const fn f1_min() -> u8 {
        0
    }

    pub const fn f1_max() -> u8 {
        7
    }

    pub const fn f2_min() -> u8 {
        0
    }

    pub const fn f2_max() -> u8 {
        7
    }

    pub const fn f3_min() -> u8 {
        0
    }

    pub const fn f3_max() -> u8 {
        7
    }

    pub const fn f4_min() -> u8 {
        0
    }

    pub const fn f4_max() -> u8 {
        7
    }
}

#[asn(sequence)]

#[derive(Default, Debug, Clone, PartialEq, Hash)]
pub struct Ts5moodmn {
    #[asn(integer(0..7))] pub f0: u8,
    #[asn(optional(integer(0..7)))] pub f1: Option<u8>,
    #[asn(optional(integer(0..7)))] pub f2: Option<u8>,
    #[asn(default(integer(0..7), 5))] pub f3: u8,
    #[asn(integer(0..7))] pub f4: u8,
}

impl Ts5moodmn {
    pub const fn f0_min() -> u8 {
        0
    }

    pub const fn f0_max() -> u8 {
        7
    }

    pub const fn f1_min() -> u8 {
        0
    }

    pub const fn f1_max() -> u8 {
        7
    }

    pub const fn f2_min() -> u8 {
        0
    }

    pub const fn f2_max() -> u8 {
        7
    }

    pub const fn f3_min() -> u8 {
        0
    }

    pub const fn f3_max() -> u8 {
        7
    }

    pub const fn f4_min() -> u8 {
        0
    }

    pub const fn f4_max() -> u8 {
        7
    }
}

#[asn(sequence, extensible_after(f0))]

#[derive(Default, Debug, Clone, PartialEq, Hash)]
pub struct Ts5moodme0 {
    #[asn(integer(0..7))] pub f0: u8,
    #[asn(optional(integer(0..7)))] pub f1: Option<u8>,
    #[asn(optional(integer(0..7)))] pub f2: Option<u8>,
    #[asn(default(integer(0..7), 5))] pub f3: u8,
    #[asn(optional(integer(0..7)))] pub f4: Option<u8>,
}

impl Ts5moodme0 {
    pub const fn f0_min() -> u8 {
        0
    }

    pub const fn f0_max() -> u8 {
        7
    }

    pub const fn f1_min() -> u8 {
        0
    }

    pub const fn f1_max() -> u8 {
        7
    }

    pub const fn f2_min() -> u8 {
        0
    }

    pub const fn f2_max() -> u8 {
        7
    }

    pub const fn f3_min() -> u8 {
        0
    }

    pub const fn f3_max() -> u8 {
        7
    }

    pub const fn f4_min() -> u8 {
        0
    }

    pub const fn f4_max() -> u8 {
        7
    }
}

#[asn(sequence, extensible_after(f0))]

#[derive(Default, Debug, Clone, PartialEq, Hash)]
pub struct Ts5moodme1 {
    #[asn(integer(0..7))] pub f0: u8,
    #[asn(optional(integer(0..7)))] pub f1: Option<u8>,
    #[asn(optional(integer(0..7)))] pub f2: Option<u8>,
    #[asn(default(integer(0..7), 5))] pub f3: u8,
    #[asn(optional(integer(0..7)))] pub f4: Option<u8>,
}

impl Ts5moodme1 {
    pub const fn f0_min() -> u8 {
        0
    }

    pub const fn f0_max() -> u8 {
        7
    }

    pub const fn f1_min() -> u8 {
        0
    }

    pub const fn f1_max() -> u8 {
        7
    }

    pub const fn f2_min() -> u8 {
        0
    }

    pub const fn f2_max() -> u8 {
        7
    }

    pub const fn f3_min() -> u8 {
        0
    }

    pub const fn f3_max() -> u8 {
        7
    }

    pub const fn f4_min() -> u8 {
        0
    }

    pub const fn f4_max() -> u8 {
        7
    }
}

#[asn(sequence, extensible_after(f1))]

#[derive(Default, Debug, Clone, PartialEq, Hash)]
pub struct Ts5moodme2 {
    #[asn(integer(0..7))] pub f0: u8,
    #[asn(optional(integer(0..7)))] pub f1: Option<u8>,
    #[asn(optional(integer(0..7)))] pub f2: Option<u8>,
    #[asn(default(integer(0..7), 5))] pub f3: u8,
    #[asn(optional(integer(0..7)))] pub f4: Option<u8>,
}

impl Ts5moodme2 {
    pub const fn f0_min() -> u8 {
        0
    }

    pub const fn f0_max() -> u8 {
        7
    }

    pub const fn f1_min() -> u8 {
        0
    }

    pub const fn f1_max() -> u8 {
        7
    }

    pub const fn f2_min() -> u8 {
        0
    }

    pub const fn f2_max() -> u8 {
        7
    }

    pub const fn f3_min() -> u8 {
        0
    }

    pub const fn f3_max() -> u8 {
        7
    }

    pub const fn f4_min() -> u8 {
        0
    }

    pub const fn f4_max() -> u8 {
        7
    }
}

#[asn(sequence, extensible_after(f2))]

#[derive(Default, Debug, Clone, PartialEq, Hash)]
pub struct Ts5moodme3 {
    #[asn(integer(0..7))] pub f0: u8,
    #[asn(optional(integer(0..7)))] pub f1: Option<u8>,
    #[asn(optional(integer(0..7)))] pub f2: Option<u8>,
    #[asn(default(integer(0..7), 5))] pub f3: u8,
    #[asn(optional(integer(0..7)))] pub f4: Option<u8>,
}

impl Ts5moodme3 {
    pub const fn f0_min() -> u8 {
        0
    }

    pub const fn f0_max() -> u8 {
        7
    }

    pub const fn f1_min() -> u8 {
        0
    }

    pub const fn f1_max() -> u8 {
        7
    }

    pub const fn f2_min() -> u8 {
        0
    }

    pub const fn f2_max() -> u8 {
        7
    }

    pub const fn f3_min() -> u8 {
        0
    }

    pub const fn f3_max() -> u8 {
        7
    }

    pub const fn f4_min() -> u8 {
        0
    }

    pub const fn f4_max() -> u8 {
        7
    }
}

#[asn(sequence, extensible_after(f3))]

#[derive(Default, Debug, Clone, PartialEq, Hash)]
pub struct Ts5moodme4 {
    #[asn(integer(0..7))] pub f0: u8,
    #[asn(optional(integer(0..7)))] pub f1: Option<u8>,
    #[asn(optional(integer(0..7)))] pub f2: Option<u8>,
    #[asn(default(integer(0..7), 5))] pub f3: u8,
    #[asn(optional(integer(0..7)))] pub f4: Option<u8>,
}

impl Ts5moodme4 {
    pub const fn f0_min() -> u8 {
        0
    }

    pub const fn f0_max() -> u8 {
        7
    }

    pub const fn f1_min() -> u8 {
        0
    }

    pub const fn f1_max() -> u8 {
        7
    }

    pub const fn f2_min() -> u8 {
        0
    }

    pub const fn f2_max() -> u8 {
        7
    }

    pub const fn f3_min() -> u8 {
        0
    }

    pub const fn f3_max() -> u8 {
        7
    }

    pub const fn f4_min() -> u8 {
        0
    }

    pub const fn f4_max() -> u8 {
        7
    }
}

#[asn(sequence, extensible_after(f4))]

#[derive(Default, Debug, Clone, PartialEq, Hash)]
pub struct Ts5moodme5 {
    #[asn(integer(0..7))] pub f0: u8,
    #[asn(optional(integer(0..7)))] pub f1: Option<u8>,
    #[asn(optional(integer(0..7)))] pub f2: Option<u8>,
    #[asn(default(integer(0..7), 5))] pub f3: u8,
    #[asn(integer(0..7))] pub f4: u8,
}

impl Ts5moodme5 {
    pub const fn f0_min() -> u8 {
        0
    }

    pub const fn f0_max() -> u8 {
        7
    }

    pub const fn f1_min() -> u8 {
        0
    }

    pub const fn f1_max() -> u8 {
        7
    }

    pub const fn f2_min() -> u8 {
        0
    }

    pub const fn f2_max() -> u8 {
        7
    }

    pub const fn f3_min() -> u8 {
        0
    }

    pub const fn f3_max() -> u8 {
        7
    }

    pub const fn f4_min() -> u8 {
        0
    }

    pub const fn f4_max() -> u8 {
        7
    }
}

#[asn(sequence)]

#[derive(Default, Debug, Clone, PartialEq, Hash)]
pub struct Ts5ooodmn {
    #[asn(optional(integer(0..7)))] pub f0: Option<u8>,
    #[asn(optional(integer(0..7)))] pub f1: Option<u8>,
    #[asn(optional(integer(0..7)))] pub f2: Option<u8>,
    #[asn(default(integer(0..7), 5))] pub f3: u8,
    #[asn(integer(0..7))] pub f4: u8,
}

impl Ts5ooodmn {
    pub const fn f0_min() -> u8 {
        0
    }

    pub const fn f0_max() -> u8 {
        7
    }

    pub const fn f1_min() -> u8 {
        0
    }

    pub const fn f1_max() -> u8 {
        7
    }

    pub const fn f2_min() -> u8 {
        0
    }

    pub const fn f2_max() -> u8 {
        7
    }

    pub const fn f3_min() -> u8 {
        0
    }

    pub const fn f3_max() -> u8 {
        7
    }

    pub const fn f4_min() -> u8 {
        0
    }

    pub const fn f4_max() -> u8 {
        7
    }
}

#[asn(sequence, extensible_after(f0))]

#[derive(Default, Debug, Clone, PartialEq, Hash)]
pub struct Ts5ooodme0 {
    #[asn(optional(integer(0..7)))] pub f0: Option<u8>,
    #[asn(optional(integer(0..7)))] pub f1: Option<u8>,
    #[asn(optional(integer(0..7)))] pub f2: Option<u8>,
    #[asn(default(integer(0..7), 5))] pub f3: u8,
    #[asn(optional(integer(0..7)))] pub f4: Option<u8>,
}

impl Ts5ooodme0 {
    pub const fn f0_min() -> u8 {
        0
    }

    pub const fn f0_max() -> u8 {
        7
    }

    pub const fn f1_min() -> u8 {
        0
    }

    pub const fn f1_max() -> u8 {
        7
    }

    pub const fn f2_min() -> u8 {
        0
    }

    pub const fn f2_max() -> u8 {
        7
    }

    pub const fn f3_min() -> u8 {
        0
    }

    pub const fn f3_max() -> u8 {
        7
    }

    pub const fn f4_min() -> u8 {
        0
    }

    pub const fn f4_max() -> u8 {
        7
    }
}

#[asn(sequence, extensible_after(f0))]

#[derive(Default, Debug, Clone, PartialEq, Hash)]
pub struct Ts5ooodme1 {
    #[asn(optional(integer(0..7)))] pub f0: Option<u8>,
    #[asn(optional(integer(0..7)))] pub f1: Option<u8>,
    #[asn(optional(integer(0..7)))] pub f2: Option<u8>,
    #[asn(default(integer(0..7), 5))] pub f3: u8,
    #[asn(optional(integer(0..7)))] pub f4: Option<u8>,
}

impl Ts5ooodme1 {
    pub const fn f0_min() -> u8 {
        0
    }

    pub const fn f0_max() -> u8 {
        7
    }

    pub const fn f1_min() -> u8 {
        0
    }

    pub const fn f1_max() -> u8 {
        7
    }

    pub const fn f2_min() -> u8 {
        0
    }

    pub const fn f2_max() -> u8 {
        7
    }

    pub const fn f3_min() -> u8 {
        0
    }

    pub const fn f3_max() -> u8 {
        7
    }

    pub const fn f4_min() -> u8 {
        0
    }

    pub const fn f4_max() -> u8 {
        7
    }
}

#[asn(sequence, extensible_after(f1))]

#[derive(Default, Debug, Clone, PartialEq, Hash)]
pub struct Ts5ooodme2 {
    #[asn(optional(integer(0..7)))] pub f0: Option<u8>,
    #[asn(optional(integer(0..7)))] pub f1: Option<u8>,
    #[asn(optional(integer(0..7)))] pub f2: Option<u8>,
    #[asn(default(integer(0..7), 5))] pub f3: u8,
    #[asn(optional(integer(0..7)))] pub f4: Option<u8>,
}

impl Ts5ooodme2 {
    pub const fn f0_min() -> u8 {
        0
    }

    pub const fn f0_max() -> u8 {
        7
    }

    pub const fn f1_min() -> u8 {
        0
    }

    pub const fn f1_max() -> u8 {
        7
    }

    pub const fn f2_min() -> u8 {
        0
    }

    pub const fn f2_max() -> u8 {
        7
    }

    pub const fn f3_min() -> u8 {
        0
    }

    pub const fn f3_max() -> u8 {
        7
    }

    pub const fn f4_min() -> u8 {
        0
    }

    pub const fn f4_max() -> u8 {
        7
    }
}

#[asn(sequence, extensible_after(f2))]

#[derive(Default, Debug, Clone, PartialEq, Hash)]
pub struct Ts5ooodme3 {
    #[asn(optional(integer(0..7)))] pub f0: Option<u8>,
    #[asn(optional(integer(0..7)))] pub f1: Option<u8>,
    #[asn(optional(integer(0..7)))] pub f2: Option<u8>,
    #[asn(default(integer(0..7), 5))] pub f3: u8,
    #[asn(optional(integer(0..7)))] pub f4: Option<u8>,
}

impl Ts5ooodme3 {
    pub const fn f0_min() -> u8 {
        0
    }

    pub const fn f0_max() -> u8 {
        7
    }

    pub const fn f1_min() -> u8 {
        0
    }

    pub const fn f1_max() -> u8 {
        7
    }

    pub const fn f2_min() -> u8 {
        0
    }

    pub const fn f2_max() -> u8 {
        7
    }

    pub const fn f3_min() -> u8 {
        0
    }

    pub const fn f3_max() -> u8 {
        7
    }

    pub const fn f4_min() -> u8 {
        0
    }

    pub const fn f4_max() -> u8 {
        7
    }
}

#[asn(sequence, extensible_after(f3))]

#[derive(Default, Debug, Clone, PartialEq, Hash)]
pub struct Ts5ooodme4 {
    #[asn(optional(integer(0..7)))] pub f0: Option<u8>,
    #[asn(optional(integer(0..7)))] pub f1: Option<u8>,
    #[asn(optional(integer(0..7)))] pub f2: Option<u8>,
    #[asn(default(integer(0..7), 5))] pub f3: u8,
    #[asn(optional(integer(0..7)))] pub f4: Option<u8>,
}

impl Ts5ooodme4 {
    pub const fn f0_min() -> u8 {
        0
    }

    pub const fn f0_max() -> u8 {
        7
    }

    pub const fn f1_min() -> u8 {
        0
    }

    pub const fn f1_max() -> u8 {
        7
    }

    pub const fn f2_min() -> u8 {
        0
    }

    pub const fn f2_max() -> u8 {
        7
    }

    pub const fn f3_min() -> u8 {
        0
    }

    pub const fn f3_max() -> u8 {
        7
    }

    pub const fn f4_min() -> u8 {
        0
    }

    pub const fn f4_max() -> u8 {
        7
    }
}

#[asn(sequence, extensible_after(f4))]

#[derive(Default, Debug, Clone, PartialEq, Hash)]
pub struct Ts5ooodme5 {
    #[asn(optional(integer(0..7)))] pub f0: Option<u8>,
    #[asn(optional(integer(0..7)))] pub f1: Option<u8>,
    #[asn(optional(integer(0..7)))] pub f2: Option<u8>,
    #[asn(default(integer(0..7), 5))] pub f3: u8,
    #[asn(integer(0..7))] pub f4: u8,
}

impl Ts5ooodme5 {
    pub const fn f0_min() -> u8 {
        0
    }

    pub const fn f0_max() -> u8 {
        7
    }

    pub const fn f1_min() -> u8 {
        0
    }

    pub const fn f1_max() -> u8 {
        7
    }

    pub const fn f2_min() -> u8 {
        0
    }

    pub const fn f2_max() -> u8 {
        7
    }

    pub const fn f3_min() -> u8 {
        0
    }

    pub const fn f3_max() -> u8 {
        7
    }

    pub const fn f4_min() -> u8 {
        0
    }

    pub const fn f4_max() -> u8 {
        7
    }
}

#[asn(sequence)]

#[derive(Default, Debug, Clone, PartialEq, Hash)]
pub struct Ts5doodmn {
    #[asn(default(integer(0..7), 5))] pub f0: u8,
    #[asn(optional(integer(0..7)))] pub f1: Option<u8>,
    #[asn(optional(integer(0..7)))] pub f2: Option<u8>,
    #[asn(default(integer(0..7), 5))] pub f3: u8,
    #[asn(integer(0..7))] pub f4: u8,
}

impl Ts5doodmn {
    pub const fn f0_min() -> u8 {
        0
    }

    pub const fn f0_max() -> u8 {
        7
    }

    pub const fn f1_min() -> u8 {
        0
    }

    pub const fn f1_max() -> u8 {
        7
    }

    pub const fn f2_min() -> u8 {
        0
    }

    pub const fn f2_max() -> u8 {
        7
    }

    pub const fn f3_min() -> u8 {
        0
    }

    pub const fn f3_max() -> u8 {
        7
    }

    pub const fn f4_min() -> u8 {
        0
    }

    pub const fn f4_max() -> u8 {
        7
    }
}

#[asn(sequence, extensible_after(f0))]

#[derive(Default, Debug, Clone, PartialEq, Hash)]
pub struct Ts5doodme0 {
    #[asn(default(integer(0..7), 5))] pub f0: u8,
    #[asn(optional(integer(0..7)))] pub f1: Option<u8>,
    #[asn(optional(integer(0..7)))] pub f2: Option<u8>,
    #[asn(default(integer(0..7), 5))] pub f3: u8,
    #[asn(optional(integer(0..7)))] pub f4: Option<u8>,
}

impl Ts5doodme0 {
    pub const fn f0_min() -> u8 {
        0
    }

    pub const fn f0_max() -> u8 {
        7
    }

    pub const fn f1_min() -> u8 {
        0
    }

    pub const fn f1_max() -> u8 {
        7
    }

    pub const fn f2_min() -> u8 {
        0
    }

    pub const fn f2_max() -> u8 {
        7
    }

    pub const fn f3_min() -> u8 {
        0
    }

    pub const fn f3_max() -> u8 {
        7
    }

    pub const fn f4_min() -> u8 {
        0
    }

    pub const fn f4_max() -> u8 {
        7
    }
}

#[asn(sequence, extensible_after(f0))]

#[derive(Default, Debug, Clone, PartialEq, Hash)]
pub struct Ts5doodme1 {
    #[asn(default(integer(0..7), 5))] pub f0: u8,
    #[asn(optional(integer(0..7)))] pub f1: Option<u8>,
    #[asn(optional(integer(0..7)))] pub f2: Option<u8>,
    #[asn(default(integer(0..7), 5))] pub f3: u8,
    #[asn(optional(integer(0..7)))] pub f4: Option<u8>,
}

impl Ts5doodme1 {
    pub const fn f0_min() -> u8 {
        0
    }

    pub const fn f0_max() -> u8 {
        7
    }

    pub const fn f1_min() -> u8 {
        0
    }

    pub const fn f1_max() -> u8 {
        7
    }

    pub const fn f2_min() -> u8 {
        0
    }

    pub const fn f2_max() -> u8 {
        7
    }

    pub const fn f3_min() -> u8 {
        0
    }

    pub const fn f3_max() -> u8 {
        7
    }

    pub const fn f4_min() -> u8 {
        0
    }

    pub const fn f4_max() -> u8 {
        7
    }
}

#[asn(sequence, extensible_after(f1))]

#[derive(Default, Debug, Clone, PartialEq, Hash)]
pub struct Ts5doodme2 {
    #[asn(default(integer(0..7), 5))] pub f0: u8,
    #[asn(optional(integer(0..7)))] pub f1: Option<u8>,
    #[asn(optional(integer(0..7)))] pub f2: Option<u8>,
    #[asn(default(integer(0..7), 5))] pub f3: u8,
    #[asn(optional(integer(0..7)))] pub f4: Option<u8>,
}

impl Ts5doodme2 {
    pub const fn f0_min() -> u8 {
        0
    }

    pub const fn f0_max() -> u8 {
        7
    }

    pub const fn f1_min() -> u8 {
        0
    }

    pub const fn f1_max() -> u8 {
        7
    }

    pub const fn f2_min() -> u8 {
        0
    }

    pub const fn f2_max() -> u8 {
        7
    }

    pub const fn f3_min() -> u8 {
        0
    }

    pub const fn f3_max() -> u8 {
        7
    }

    pub const fn f4_min() -> u8 {
        0
    }

    pub const fn f4_max() -> u8 {
        7
    }
}
// ---- harness conversions (generated by the zoo build script from the items above) ----
impl FromValue for Ts5mddome2 {
    fn from_value(v: &Value) -> Self {
        let s = match v { Value::Seq(s) => s, other => panic!("Ts5mddome2: expected Seq, got {other:?}") };
        assert_eq!(s.len(), 5, "Ts5mddome2: component count");
        let _ = s;
        Ts5mddome2 {
            f0: FromValue::from_value(s[0].as_ref().expect("component f0 of Ts5mddome2 must be present")),
            f1: FromValue::from_value(s[1].as_ref().expect("component f1 of Ts5mddome2 must be present")),
            f2: FromValue::from_value(s[2].as_ref().expect("component f2 of Ts5mddome2 must be present")),
            f3: s[3].as_ref().map(FromValue::from_value),
            f4: s[4].as_ref().map(FromValue::from_value),
        }
    }
}
impl ToValue for Ts5mddome2 {
    fn to_value(&self) -> Value {
        Value::Seq(vec![
            Some(self.f0.to_value()),
            Some(self.f1.to_value()),
            Some(self.f2.to_value()),
            self.f3.as_ref().map(|x| x.to_value()),
            self.f4.as_ref().map(|x| x.to_value()),
        ])
    }
}
impl FromValue for Ts5mddome3 {
    fn from_value(v: &Value) -> Self {
        let s = match v { Value::Seq(s) => s, other => panic!("Ts5mddome3: expected Seq, got {other:?}") };
        assert_eq!(s.len(), 5, "Ts5mddome3: component count");
        let _ = s;
        Ts5mddome3 {
            f0: FromValue::from_value(s[0].as_ref().expect("component f0 of Ts5mddome3 must be present")),
            f1: FromValue::from_value(s[1].as_ref().expect("component f1 of Ts5mddome3 must be present")),
            f2: FromValue::from_value(s[2].as_ref().expect("component f2 of Ts5mddome3 must be present")),
            f3: s[3].as_ref().map(FromValue::from_value),
            f4: s[4].as_ref().map(FromValue::from_value),
        }
    }
}
impl ToValue for Ts5mddome3 {
    fn to_value(&self) -> Value {
        Value::Seq(vec![
            Some(self.f0.to_value()),
            Some(self.f1.to_value()),
            Some(self.f2.to_value()),
            self.f3.as_ref().map(|x| x.to_value()),
            self.f4.as_ref().map(|x| x.to_value()),
        ])
    }
}
impl FromValue for Ts5mddome4 {
    fn from_value(v: &Value) -> Self {
        let s = match v { Value::Seq(s) => s, other => panic!("Ts5mddome4: expected Seq, got {other:?}") };
        assert_eq!(s.len(), 5, "Ts5mddome4: component count");
        let _ = s;
        Ts5mddome4 {
            f0: FromValue::from_value(s[0].as_ref().expect("component f0 of Ts5mddome4 must be present")),
            f1: FromValue::from_value(s[1].as_ref().expect("component f1 of Ts5mddome4 must be present")),
            f2: FromValue::from_value(s[2].as_ref().expect("component f2 of Ts5mddome4 must be present")),
            f3: s[3].as_ref().map(FromValue::from_value),
            f4: s[4].as_ref().map(FromValue::from_value),
        }
    }
}
impl ToValue for Ts5mddome4 {
    fn to_value(&self) -> Value {
        Value::Seq(vec![
            Some(self.f0.to_value()),
            Some(self.f1.to_value()),
            Some(self.f2.to_value()),
            self.f3.as_ref().map(|x| x.to_value()),
            self.f4.as_ref().map(|x| x.to_value()),
        ])
    }
}
impl FromValue for Ts5mddome5 {
    fn from_value(v: &Value) -> Self {
        let s = match v { Value::Seq(s) => s, other => panic!("Ts5mddome5: expected Seq, got {other:?}") };
        assert_eq!(s.len(), 5, "Ts5mddome5: component count");
        let _ = s;
        Ts5mddome5 {
            f0: FromValue::from_value(s[0].as_ref().expect("component f0 of Ts5mddome5 must be present")),
            f1: FromValue::from_value(s[1].as_ref().expect("component f1 of Ts5mddome5 must be present")),
            f2: FromValue::from_value(s[2].as_ref().expect("component f2 of Ts5mddome5 must be present")),
            f3: s[3].as_ref().map(FromValue::from_value),
            f4: FromValue::from_value(s[4].as_ref().expect("component f4 of Ts5mddome5 must be present")),
        }
    }
}
impl ToValue for Ts5mddome5 {
    fn to_value(&self) -> Value {
        Value::Seq(vec![
            Some(self.f0.to_value()),
            Some(self.f1.to_value()),
            Some(self.f2.to_value()),
            self.f3.as_ref().map(|x| x.to_value()),
            Some(self.f4.to_value()),
        ])
    }
}
impl FromValue for Ts5oddomn {
    fn from_value(v: &Value) -> Self {
        let s = match v { Value::Seq(s) => s, other => panic!("Ts5oddomn: expected Seq, got {other:?}") };
        assert_eq!(s.len(), 5, "Ts5oddomn: component count");
        let _ = s;
        Ts5oddomn {
            f0: s[0].as_ref().map(FromValue::from_value),
            f1: FromValue::from_value(s[1].as_ref().expect("component f1 of Ts5oddomn must be present")),
            f2: FromValue::from_value(s[2].as_ref().expect("component f2 of Ts5oddomn must be present")),
            f3: s[3].as_ref().map(FromValue::from_value),
            f4: FromValue::from_value(s[4].as_ref().expect("component f4 of Ts5oddomn must be present")),
        }
    }
}
impl ToValue for Ts5oddomn {
    fn to_value(&self) -> Value {
        Value::Seq(vec![
            self.f0.as_ref().map(|x| x.to_value()),
            Some(self.f1.to_value()),
            Some(self.f2.to_value()),
            self.f3.as_ref().map(|x| x.to_value()),
            Some(self.f4.to_value()),
        ])
    }
}
impl FromValue for Ts5oddome0 {
    fn from_value(v: &Value) -> Self {
        let s = match v { Value::Seq(s) => s, other => panic!("Ts5oddome0: expected Seq, got {other:?}") };
        assert_eq!(s.len(), 5, "Ts5oddome0: component count");
        let _ = s;
        Ts5oddome0 {
            f0: s[0].as_ref().map(FromValue::from_value),
            f1: FromValue::from_value(s[1].as_ref().expect("component f1 of Ts5oddome0 must be present")),
            f2: FromValue::from_value(s[2].as_ref().expect("component f2 of Ts5oddome0 must be present")),
            f3: s[3].as_ref().map(FromValue::from_value),
            f4: s[4].as_ref().map(FromValue::from_value),
        }
    }
}
impl ToValue for Ts5oddome0 {
    fn to_value(&self) -> Value {
        Value::Seq(vec![
            self.f0.as_ref().map(|x| x.to_value()),
            Some(self.f1.to_value()),
            Some(self.f2.to_value()),
            self.f3.as_ref().map(|x| x.to_value()),
            self.f4.as_ref().map(|x| x.to_value()),
        ])
    }
}
impl FromValue for Ts5oddome1 {
    fn from_value(v: &Value) -> Self {
        let s = match v { Value::Seq(s) => s, other => panic!("Ts5oddome1: expected Seq, got {other:?}") };
        assert_eq!(s.len(), 5, "Ts5oddome1: component count");
        let _ = s;
        Ts5oddome1 {
            f0: s[0].as_ref().map(FromValue::from_value),
            f1: FromValue::from_value(s[1].as_ref().expect("component f1 of Ts5oddome1 must be present")),
            f2: FromValue::from_value(s[2].as_ref().expect("component f2 of Ts5oddome1 must be present")),
            f3: s[3].as_ref().map(FromValue::from_value),
            f4: s[4].as_ref().map(FromValue::from_value),
        }
    }
}
impl ToValue for Ts5oddome1 {
    fn to_value(&self) -> Value {
        Value::Seq(vec![
            self.f0.as_ref().map(|x| x.to_value()),
            Some(self.f1.to_value()),
            Some(self.f2.to_value()),
            self.f3.as_ref().map(|x| x.to_value()),
            self.f4.as_ref().map(|x| x.to_value()),
        ])
    }
}
impl FromValue for Ts5oddome2 {
    fn from_value(v: &Value) -> Self {
        let s = match v { Value::Seq(s) => s, other => panic!("Ts5oddome2: expected Seq, got {other:?}") };
        assert_eq!(s.len(), 5, "Ts5oddome2: component count");
        let _ = s;
        Ts5oddome2 {
            f0: s[0].as_ref().map(FromValue::from_value),
            f1: FromValue::from_value(s[1].as_ref().expect("component f1 of Ts5oddome2 must be present")),
            f2: FromValue::from_value(s[2].as_ref().expect("component f2 of Ts5oddome2 must be present")),
            f3: s[3].as_ref().map(FromValue::from_value),
            f4: s[4].as_ref().map(FromValue::from_value),
        }
    }
}
impl ToValue for Ts5oddome2 {
    fn to_value(&self) -> Value {
        Value::Seq(vec![
            self.f0.as_ref().map(|x| x.to_value()),
            Some(self.f1.to_value()),
            Some(self.f2.to_value()),
            self.f3.as_ref().map(|x| x.to_value()),
            self.f4.as_ref().map(|x| x.to_value()),
        ])
    }
}
impl FromValue for Ts5oddome3 {
    fn from_value(v: &Value) -> Self {
        let s = match v { Value::Seq(s) => s, other => panic!("Ts5oddome3: expected Seq, got {other:?}") };
        assert_eq!(s.len(), 5, "Ts5oddome3: component count");
        let _ = s;
        Ts5oddome3 {
            f0: s[0].as_ref().map(FromValue::from_value),
            f1: FromValue::from_value(s[1].as_ref().expect("component f1 of Ts5oddome3 must be present")),
            f2: FromValue::from_value(s[2].as_ref().expect("component f2 of Ts5oddome3 must be present")),
            f3: s[3].as_ref().map(FromValue::from_value),
            f4: s[4].as_ref().map(FromValue::from_value),
        }
    }
}
impl ToValue for Ts5oddome3 {
    fn to_value(&self) -> Value {
        Value::Seq(vec![
            self.f0.as_ref().map(|x| x.to_value()),
            Some(self.f1.to_value()),
            Some(self.f2.to_value()),
            self.f3.as_ref().map(|x| x.to_value()),
            self.f4.as_ref().map(|x| x.to_value()),
        ])
    }
}
impl FromValue for Ts5oddome4 {
    fn from_value(v: &Value) -> Self {
        let s = match v { Value::Seq(s) => s, other => panic!("Ts5oddome4: expected Seq, got {other:?}") };
        assert_eq!(s.len(), 5, "Ts5oddome4: component count");
        let _ = s;
        Ts5oddome4 {
            f0: s[0].as_ref().map(FromValue::from_value),
            f1: FromValue::from_value(s[1].as_ref().expect("component f1 of Ts5oddome4 must be present")),
            f2: FromValue::from_value(s[2].as_ref().expect("component f2 of Ts5oddome4 must be present")),
            f3: s[3].as_ref().map(FromValue::from_value),
            f4: s[4].as_ref().map(FromValue::from_value),
        }
    }
}
impl ToValue for Ts5oddome4 {
    fn to_value(&self) -> Value {
        Value::Seq(vec![
            self.f0.as_ref().map(|x| x.to_value()),
            Some(self.f1.to_value()),
            Some(self.f2.to_value()),
            self.f3.as_ref().map(|x| x.to_value()),
            self.f4.as_ref().map(|x| x.to_value()),
        ])
    }
}
impl FromValue for Ts5oddome5 {
    fn from_value(v: &Value) -> Self {
        let s = match v { Value::Seq(s) => s, other => panic!("Ts5oddome5: expected Seq, got {other:?}") };
        assert_eq!(s.len(), 5, "Ts5oddome5: component count");
        let _ = s;
        Ts5oddome5 {
            f0: s[0].as_ref().map(FromValue::from_value),
            f1: FromValue::from_value(s[1].as_ref().expect("component f1 of Ts5oddome5 must be present")),
            f2: FromValue::from_value(s[2].as_ref().expect("component f2 of Ts5oddome5 must be present")),
            f3: s[3].as_ref().map(FromValue::from_value),
            f4: FromValue::from_value(s[4].as_ref().expect("component f4 of Ts5oddome5 must be present")),
        }
    }
}
impl ToValue for Ts5oddome5 {
    fn to_value(&self) -> Value {
        Value::Seq(vec![
            self.f0.as_ref().map(|x| x.to_value()),
            Some(self.f1.to_value()),
            Some(self.f2.to_value()),
            self.f3.as_ref().map(|x| x.to_value()),
            Some(self.f4.to_value()),
        ])
    }
}
impl FromValue for Ts5dddomn {
    fn from_value(v: &Value) -> Self {
        let s = match v { Value::Seq(s) => s, other => panic!("Ts5dddomn: expected Seq, got {other:?}") };
        assert_eq!(s.len(), 5, "Ts5dddomn: component count");
        let _ = s;
        Ts5dddomn {
            f0: FromValue::from_value(s[0].as_ref().expect("component f0 of Ts5dddomn must be present")),
            f1: FromValue::from_value(s[1].as_ref().expect("component f1 of Ts5dddomn must be present")),
            f2: FromValue::from_value(s[2].as_ref().expect("component f2 of Ts5dddomn must be present")),
            f3: s[3].as_ref().map(FromValue::from_value),
            f4: FromValue::from_value(s[4].as_ref().expect("component f4 of Ts5dddomn must be present")),
        }
    }
}
impl ToValue for Ts5dddomn {
    fn to_value(&self) -> Value {
        Value::Seq(vec![
            Some(self.f0.to_value()),
            Some(self.f1.to_value()),
            Some(self.f2.to_value()),
            self.f3.as_ref().map(|x| x.to_value()),
            Some(self.f4.to_value()),
        ])
    }
}
impl FromValue for Ts5dddome0 {
    fn from_value(v: &Value) -> Self {
        let s = match v { Value::Seq(s) => s, other => panic!("Ts5dddome0: expected Seq, got {other:?}") };
        assert_eq!(s.len(), 5, "Ts5dddome0: component count");
        let _ = s;
        Ts5dddome0 {
            f0: FromValue::from_value(s[0].as_ref().expect("component f0 of Ts5dddome0 must be present")),
            f1: FromValue::from_value(s[1].as_ref().expect("component f1 of Ts5dddome0 must be present")),
            f2: FromValue::from_value(s[2].as_ref().expect("component f2 of Ts5dddome0 must be present")),
            f3: s[3].as_ref().map(FromValue::from_value),
            f4: s[4].as_ref().map(FromValue::from_value),
        }
    }
}
impl ToValue for Ts5dddome0 {
    fn to_value(&self) -> Value {
        Value::Seq(vec![
            Some(self.f0.to_value()),
            Some(self.f1.to_value()),
            Some(self.f2.to_value()),
            self.f3.as_ref().map(|x| x.to_value()),
            self.f4.as_ref().map(|x| x.to_value()),
        ])
    }
}
impl FromValue for Ts5dddome1 {
    fn from_value(v: &Value) -> Self {
        let s = match v { Value::Seq(s) => s, other => panic!("Ts5dddome1: expected Seq, got {other:?}") };
        assert_eq!(s.len(), 5, "Ts5dddome1: component count");
        let _ = s;
        Ts5dddome1 {
            f0: FromValue::from_value(s[0].as_ref().expect("component f0 of Ts5dddome1 must be present")),
            f1: FromValue::from_value(s[1].as_ref().expect("component f1 of Ts5dddome1 must be present")),
            f2: FromValue::from_value(s[2].as_ref().expect("component f2 of Ts5dddome1 must be present")),
            f3: s[3].as_ref().map(FromValue::from_value),
            f4: s[4].as_ref().map(FromValue::from_value),
        }
    }
}
impl ToValue for Ts5dddome1 {
    fn to_value(&self) -> Value {
        Value::Seq(vec![
            Some(self.f0.to_value()),
            Some(self.f1.to_value()),
            Some(self.f2.to_value()),
            self.f3.as_ref().map(|x| x.to_value()),
            self.f4.as_ref().map(|x| x.to_value()),
        ])
    }
}
impl FromValue for Ts5dddome2 {
    fn from_value(v: &Value) -> Self {
        let s = match v { Value::Seq(s) => s, other => panic!("Ts5dddome2: expected Seq, got {other:?}") };
        assert_eq!(s.len(), 5, "Ts5dddome2: component count");
        let _ = s;
        Ts5dddome2 {
            f0: FromValue::from_value(s[0].as_ref().expect("component f0 of Ts5dddome2 must be present")),
            f1: FromValue::from_value(s[1].as_ref().expect("component f1 of Ts5dddome2 must be present")),
            f2: FromValue::from_value(s[2].as_ref().expect("component f2 of Ts5dddome2 must be present")),
            f3: s[3].as_ref().map(FromValue::from_value),
            f4: s[4].as_ref().map(FromValue::from_value),
        }
    }
}
impl ToValue for Ts5dddome2 {
    fn to_value(&self) -> Value {
        Value::Seq(vec![
            Some(self.f0.to_value()),
            Some(self.f1.to_value()),
            Some(self.f2.to_value()),
            self.f3.as_ref().map(|x| x.to_value()),
            self.f4.as_ref().map(|x| x.to_value()),
        ])
    }
}
impl FromValue for Ts5dddome3 {
    fn from_value(v: &Value) -> Self {
        let s = match v { Value::Seq(s) => s, other => panic!("Ts5dddome3: expected Seq, got {other:?}") };
        assert_eq!(s.len(), 5, "Ts5dddome3: component count");
        let _ = s;
        Ts5dddome3 {
            f0: FromValue::from_value(s[0].as_ref().expect("component f0 of Ts5dddome3 must be present")),
            f1: FromValue::from_value(s[1].as_ref().expect("component f1 of Ts5dddome3 must be present")),
            f2: FromValue::from_value(s[2].as_ref().expect("component f2 of Ts5dddome3 must be present")),
            f3: s[3].as_ref().map(FromValue::from_value),
            f4: s[4].as_ref().map(FromValue::from_value),
        }
    }
}
impl ToValue for Ts5dddome3 {
    fn to_value(&self) -> Value {
        Value::Seq(vec![
            Some(self.f0.to_value()),
            Some(self.f1.to_value()),
            Some(self.f2.to_value()),
            self.f3.as_ref().map(|x| x.to_value()),
            self.f4.as_ref().map(|x| x.to_value()),
        ])
    }
}
impl FromValue for Ts5dddome4 {
    fn from_value(v: &Value) -> Self {
        let s = match v { Value::Seq(s) => s, other => panic!("Ts5dddome4: expected Seq, got {other:?}") };
        assert_eq!(s.len(), 5, "Ts5dddome4: component count");
        let _ = s;
        Ts5dddome4 {
            f0: FromValue::from_value(s[0].as_ref().expect("component f0 of Ts5dddome4 must be present")),
            f1: FromValue::from_value(s[1].as_ref().expect("component f1 of Ts5dddome4 must be present")),
            f2: FromValue::from_value(s[2].as_ref().expect("component f2 of Ts5dddome4 must be present")),
            f3: s[3].as_ref().map(FromValue::from_value),
            f4: s[4].as_ref().map(FromValue::from_value),
        }
    }
}
impl ToValue for Ts5dddome4 {
    fn to_value(&self) -> Value {
        Value::Seq(vec![
            Some(self.f0.to_value()),
            Some(self.f1.to_value()),
            Some(self.f2.to_value()),
            self.f3.as_ref().map(|x| x.to_value()),
            self.f4.as_ref().map(|x| x.to_value()),
        ])
    }
}
impl FromValue for Ts5dddome5 {
    fn from_value(v: &Value) -> Self {
        let s = match v { Value::Seq(s) => s, other => panic!("Ts5dddome5: expected Seq, got {other:?}") };
        assert_eq!(s.len(), 5, "Ts5dddome5: component count");
        let _ = s;
        Ts5dddome5 {
            f0: FromValue::from_value(s[0].as_ref().expect("component f0 of Ts5dddome5 must be present")),
            f1: FromValue::from_value(s[1].as_ref().expect("component f1 of Ts5dddome5 must be present")),
            f2: FromValue::from_value(s[2].as_ref().expect("component f2 of Ts5dddome5 must be present")),
            f3: s[3].as_ref().map(FromValue::from_value),
            f4: FromValue::from_value(s[4].as_ref().expect("component f4 of Ts5dddome5 must be present")),
        }
    }
}
impl ToValue for Ts5dddome5 {
    fn to_value(&self) -> Value {
        Value::Seq(vec![
            Some(self.f0.to_value()),
            Some(self.f1.to_value()),
            Some(self.f2.to_value()),
            self.f3.as_ref().map(|x| x.to_value()),
            Some(self.f4.to_value()),
        ])
    }
}
impl FromValue for Ts5mmmdmn {
    fn from_value(v: &Value) -> Self {
        let s = match v { Value::Seq(s) => s, other => panic!("Ts5mmmdmn: expected Seq, got {other:?}") };
        assert_eq!(s.len(), 5, "Ts5mmmdmn: component count");
        let _ = s;
        Ts5mmmdmn {
            f0: FromValue::from_value(s[0].as_ref().expect("component f0 of Ts5mmmdmn must be present")),
            f1: FromValue::from_value(s[1].as_ref().expect("component f1 of Ts5mmmdmn must be present")),
            f2: FromValue::from_value(s[2].as_ref().expect("component f2 of Ts5mmmdmn must be present")),
            f3: FromValue::from_value(s[3].as_ref().expect("component f3 of Ts5mmmdmn must be present")),
            f4: FromValue::from_value(s[4].as_ref().expect("component f4 of Ts5mmmdmn must be present")),
        }
    }
}
impl ToValue for Ts5mmmdmn {
    fn to_value(&self) -> Value {
        Value::Seq(vec![
            Some(self.f0.to_value()),
            Some(self.f1.to_value()),
            Some(self.f2.to_value()),
            Some(self.f3.to_value()),
            Some(self.f4.to_value()),
        ])
    }
}
impl FromValue for Ts5mmmdme0 {
    fn from_value(v: &Value) -> Self {
        let s = match v { Value::Seq(s) => s, other => panic!("Ts5mmmdme0: expected Seq, got {other:?}") };
        assert_eq!(s.len(), 5, "Ts5mmmdme0: component count");
        let _ = s;
        Ts5mmmdme0 {
            f0: FromValue::from_value(s[0].as_ref().expect("component f0 of Ts5mmmdme0 must be present")),
            f1: s[1].as_ref().map(FromValue::from_value),
            f2: s[2].as_ref().map(FromValue::from_value),
            f3: FromValue::from_value(s[3].as_ref().expect("component f3 of Ts5mmmdme0 must be present")),
            f4: s[4].as_ref().map(FromValue::from_value),
        }
    }
}
impl ToValue for Ts5mmmdme0 {
    fn to_value(&self) -> Value {
        Value::Seq(vec![
            Some(self.f0.to_value()),
            self.f1.as_ref().map(|x| x.to_value()),
            self.f2.as_ref().map(|x| x.to_value()),
            Some(self.f3.to_value()),
            self.f4.as_ref().map(|x| x.to_value()),
        ])
    }
}
impl FromValue for Ts5mmmdme1 {
    fn from_value(v: &Value) -> Self {
        let s = match v { Value::Seq(s) => s, other => panic!("Ts5mmmdme1: expected Seq, got {other:?}") };
        assert_eq!(s.len(), 5, "Ts5mmmdme1: component count");
        let _ = s;
        Ts5mmmdme1 {
            f0: FromValue::from_value(s[0].as_ref().expect("component f0 of Ts5mmmdme1 must be present")),
            f1: s[1].as_ref().map(FromValue::from_value),
            f2: s[2].as_ref().map(FromValue::from_value),
            f3: FromValue::from_value(s[3].as_ref().expect("component f3 of Ts5mmmdme1 must be present")),
            f4: s[4].as_ref().map(FromValue::from_value),
        }
    }
}
impl ToValue for Ts5mmmdme1 {
    fn to_value(&self) -> Value {
        Value::Seq(vec![
            Some(self.f0.to_value()),
            self.f1.as_ref().map(|x| x.to_value()),
            self.f2.as_ref().map(|x| x.to_value()),
            Some(self.f3.to_value()),
            self.f4.as_ref().map(|x| x.to_value()),
        ])
    }
}
impl FromValue for Ts5mmmdme2 {
    fn from_value(v: &Value) -> Self {
        let s = match v { Value::Seq(s) => s, other => panic!("Ts5mmmdme2: expected Seq, got {other:?}") };
        assert_eq!(s.len(), 5, "Ts5mmmdme2: component count");
        let _ = s;
        Ts5mmmdme2 {
            f0: FromValue::from_value(s[0].as_ref().expect("component f0 of Ts5mmmdme2 must be present")),
            f1: FromValue::from_value(s[1].as_ref().expect("component f1 of Ts5mmmdme2 must be present")),
            f2: s[2].as_ref().map(FromValue::from_value),
            f3: FromValue::from_value(s[3].as_ref().expect("component f3 of Ts5mmmdme2 must be present")),
            f4: s[4].as_ref().map(FromValue::from_value),
        }
    }
}
impl ToValue for Ts5mmmdme2 {
    fn to_value(&self) -> Value {
        Value::Seq(vec![
            Some(self.f0.to_value()),
            Some(self.f1.to_value()),
            self.f2.as_ref().map(|x| x.to_value()),
            Some(self.f3.to_value()),
            self.f4.as_ref().map(|x| x.to_value()),
        ])
    }
}
impl FromValue for Ts5mmmdme3 {
    fn from_value(v: &Value) -> Self {
        let s = match v { Value::Seq(s) => s, other => panic!("Ts5mmmdme3: expected Seq, got {other:?}") };
        assert_eq!(s.len(), 5, "Ts5mmmdme3: component count");
        let _ = s;
        Ts5mmmdme3 {
            f0: FromValue::from_value(s[0].as_ref().expect("component f0 of Ts5mmmdme3 must be present")),
            f1: FromValue::from_value(s[1].as_ref().expect("component f1 of Ts5mmmdme3 must be present")),
            f2: FromValue::from_value(s[2].as_ref().expect("component f2 of Ts5mmmdme3 must be present")),
            f3: FromValue::from_value(s[3].as_ref().expect("component f3 of Ts5mmmdme3 must be present")),
            f4: s[4].as_ref().map(FromValue::from_value),
        }
    }
}
impl ToValue for Ts5mmmdme3 {
    fn to_value(&self) -> Value {
        Value::Seq(vec![
            Some(self.f0.to_value()),
            Some(self.f1.to_value()),
            Some(self.f2.to_value()),
            Some(self.f3.to_value()),
            self.f4.as_ref().map(|x| x.to_value()),
        ])
    }
}
impl FromValue for Ts5mmmdme4 {
    fn from_value(v: &Value) -> Self {
        let s = match v { Value::Seq(s) => s, other => panic!("Ts5mmmdme4: expected Seq, got {other:?}") };
        assert_eq!(s.len(), 5, "Ts5mmmdme4: component count");
        let _ = s;
        Ts5mmmdme4 {
            f0: FromValue::from_value(s[0].as_ref().expect("component f0 of Ts5mmmdme4 must be present")),
            f1: FromValue::from_value(s[1].as_ref().expect("component f1 of Ts5mmmdme4 must be present")),
            f2: FromValue::from_value(s[2].as_ref().expect("component f2 of Ts5mmmdme4 must be present")),
            f3: FromValue::from_value(s[3].as_ref().expect("component f3 of Ts5mmmdme4 must be present")),
            f4: s[4].as_ref().map(FromValue::from_value),
        }
    }
}
impl ToValue for Ts5mmmdme4 {
    fn to_value(&self) -> Value {
        Value::Seq(vec![
            Some(self.f0.to_value()),
            Some(self.f1.to_value()),
            Some(self.f2.to_value()),
            Some(self.f3.to_value()),
            self.f4.as_ref().map(|x| x.to_value()),
        ])
    }
}
impl FromValue for Ts5mmmdme5 {
    fn from_value(v: &Value) -> Self {
        let s = match v { Value::Seq(s) => s, other => panic!("Ts5mmmdme5: expected Seq, got {other:?}") };
        assert_eq!(s.len(), 5, "Ts5mmmdme5: component count");
        let _ = s;
        Ts5mmmdme5 {
            f0: FromValue::from_value(s[0].as_ref().expect("component f0 of Ts5mmmdme5 must be present")),
            f1: FromValue::from_value(s[1].as_ref().expect("component f1 of Ts5mmmdme5 must be present")),
            f2: FromValue::from_value(s[2].as_ref().expect("component f2 of Ts5mmmdme5 must be present")),
            f3: FromValue::from_value(s[3].as_ref().expect("component f3 of Ts5mmmdme5 must be present")),
            f4: FromValue::from_value(s[4].as_ref().expect("component f4 of Ts5mmmdme5 must be present")),
        }
    }
}
impl ToValue for Ts5mmmdme5 {
    fn to_value(&self) -> Value {
        Value::Seq(vec![
            Some(self.f0.to_value()),
            Some(self.f1.to_value()),
            Some(self.f2.to_value()),
            Some(self.f3.to_value()),
            Some(self.f4.to_value()),
        ])
    }
}
impl FromValue for Ts5ommdmn {
    fn from_value(v: &Value) -> Self {
        let s = match v { Value::Seq(s) => s, other => panic!("Ts5ommdmn: expected Seq, got {other:?}") };
        assert_eq!(s.len(), 5, "Ts5ommdmn: component count");
        let _ = s;
        Ts5ommdmn {
            f0: s[0].as_ref().map(FromValue::from_value),
            f1: FromValue::from_value(s[1].as_ref().expect("component f1 of Ts5ommdmn must be present")),
            f2: FromValue::from_value(s[2].as_ref().expect("component f2 of Ts5ommdmn must be present")),
            f3: FromValue::from_value(s[3].as_ref().expect("component f3 of Ts5ommdmn must be present")),
            f4: FromValue::from_value(s[4].as_ref().expect("component f4 of Ts5ommdmn must be present")),
        }
    }
}
impl ToValue for Ts5ommdmn {
    fn to_value(&self) -> Value {
        Value::Seq(vec![
            self.f0.as_ref().map(|x| x.to_value()),
            Some(self.f1.to_value()),
            Some(self.f2.to_value()),
            Some(self.f3.to_value()),
            Some(self.f4.to_value()),
        ])
    }
}
impl FromValue for Ts5ommdme0 {
    fn from_value(v: &Value) -> Self {
        let s = match v { Value::Seq(s) => s, other => panic!("Ts5ommdme0: expected Seq, got {other:?}") };
        assert_eq!(s.len(), 5, "Ts5ommdme0: component count");
        let _ = s;
        Ts5ommdme0 {
            f0: s[0].as_ref().map(FromValue::from_value),
            f1: s[1].as_ref().map(FromValue::from_value),
            f2: s[2].as_ref().map(FromValue::from_value),
            f3: FromValue::from_value(s[3].as_ref().expect("component f3 of Ts5ommdme0 must be present")),
            f4: s[4].as_ref().map(FromValue::from_value),
        }
    }
}
impl ToValue for Ts5ommdme0 {
    fn to_value(&self) -> Value {
        Value::Seq(vec![
            self.f0.as_ref().map(|x| x.to_value()),
            self.f1.as_ref().map(|x| x.to_value()),
            self.f2.as_ref().map(|x| x.to_value()),
            Some(self.f3.to_value()),
            self.f4.as_ref().map(|x| x.to_value()),
        ])
    }
}
impl FromValue for Ts5ommdme1 {
    fn from_value(v: &Value) -> Self {
        let s = match v { Value::Seq(s) => s, other => panic!("Ts5ommdme1: expected Seq, got {other:?}") };
        assert_eq!(s.len(), 5, "Ts5ommdme1: component count");
        let _ = s;
        Ts5ommdme1 {
            f0: s[0].as_ref().map(FromValue::from_value),
            f1: s[1].as_ref().map(FromValue::from_value),
            f2: s[2].as_ref().map(FromValue::from_value),
            f3: FromValue::from_value(s[3].as_ref().expect("component f3 of Ts5ommdme1 must be present")),
            f4: s[4].as_ref().map(FromValue::from_value),
        }
    }
}
impl ToValue for Ts5ommdme1 {
    fn to_value(&self) -> Value {
        Value::Seq(vec![
            self.f0.as_ref().map(|x| x.to_value()),
            self.f1.as_ref().map(|x| x.to_value()),
            self.f2.as_ref().map(|x| x.to_value()),
            Some(self.f3.to_value()),
            self.f4.as_ref().map(|x| x.to_value()),
        ])
    }
}
impl FromValue for Ts5ommdme2 {
    fn from_value(v: &Value) -> Self {
        let s = match v { Value::Seq(s) => s, other => panic!("Ts5ommdme2: expected Seq, got {other:?}") };
        assert_eq!(s.len(), 5, "Ts5ommdme2: component count");
        let _ = s;
        Ts5ommdme2 {
            f0: s[0].as_ref().map(FromValue::from_value),
            f1: FromValue::from_value(s[1].as_ref().expect("component f1 of Ts5ommdme2 must be present")),
            f2: s[2].as_ref().map(FromValue::from_value),
            f3: FromValue::from_value(s[3].as_ref().expect("component f3 of Ts5ommdme2 must be present")),
            f4: s[4].as_ref().map(FromValue::from_value),
        }
    }
}
impl ToValue for Ts5ommdme2 {
    fn to_value(&self) -> Value {
        Value::Seq(vec![
            self.f0.as_ref().map(|x| x.to_value()),
            Some(self.f1.to_value()),
            self.f2.as_ref().map(|x| x.to_value()),
            Some(self.f3.to_value()),
            self.f4.as_ref().map(|x| x.to_value()),
        ])
    }
}
impl FromValue for Ts5ommdme3 {
    fn from_value(v: &Value) -> Self {
        let s = match v { Value::Seq(s) => s, other => panic!("Ts5ommdme3: expected Seq, got {other:?}") };
        assert_eq!(s.len(), 5, "Ts5ommdme3: component count");
        let _ = s;
        Ts5ommdme3 {
            f0: s[0].as_ref().map(FromValue::from_value),
            f1: FromValue::from_value(s[1].as_ref().expect("component f1 of Ts5ommdme3 must be present")),
            f2: FromValue::from_value(s[2].as_ref().expect("component f2 of Ts5ommdme3 must be present")),
            f3: FromValue::from_value(s[3].as_ref().expect("component f3 of Ts5ommdme3 must be present")),
            f4: s[4].as_ref().map(FromValue::from_value),
        }
    }
}
impl ToValue for Ts5ommdme3 {
    fn to_value(&self) -> Value {
        Value::Seq(vec![
            self.f0.as_ref().map(|x| x.to_value()),
            Some(self.f1.to_value()),
            Some(self.f2.to_value()),
            Some(self.f3.to_value()),
            self.f4.as_ref().map(|x| x.to_value()),
        ])
    }
}
impl FromValue for Ts5ommdme4 {
    fn from_value(v: &Value) -> Self {
        let s = match v { Value::Seq(s) => s, other => panic!("Ts5ommdme4: expected Seq, got {other:?}") };
        assert_eq!(s.len(), 5, "Ts5ommdme4: component count");
        let _ = s;
        Ts5ommdme4 {
            f0: s[0].as_ref().map(FromValue::from_value),
            f1: FromValue::from_value(s[1].as_ref().expect("component f1 of Ts5ommdme4 must be present")),
            f2: FromValue::from_value(s[2].as_ref().expect("component f2 of Ts5ommdme4 must be present")),
            f3: FromValue::from_value(s[3].as_ref().expect("component f3 of Ts5ommdme4 must be present")),
            f4: s[4].as_ref().map(FromValue::from_value),
        }
    }
}
impl ToValue for Ts5ommdme4 {
    fn to_value(&self) -> Value {
        Value::Seq(vec![
            self.f0.as_ref().map(|x| x.to_value()),
            Some(self.f1.to_value()),
            Some(self.f2.to_value()),
            Some(self.f3.to_value()),
            self.f4.as_ref().map(|x| x.to_value()),
        ])
    }
}
impl FromValue for Ts5ommdme5 {
    fn from_value(v: &Value) -> Self {
        let s = match v { Value::Seq(s) => s, other => panic!("Ts5ommdme5: expected Seq, got {other:?}") };
        assert_eq!(s.len(), 5, "Ts5ommdme5: component count");
        let _ = s;
        Ts5ommdme5 {
            f0: s[0].as_ref().map(FromValue::from_value),
            f1: FromValue::from_value(s[1].as_ref().expect("component f1 of Ts5ommdme5 must be present")),
            f2: FromValue::from_value(s[2].as_ref().expect("component f2 of Ts5ommdme5 must be present")),
            f3: FromValue::from_value(s[3].as_ref().expect("component f3 of Ts5ommdme5 must be present")),
            f4: FromValue::from_value(s[4].as_ref().expect("component f4 of Ts5ommdme5 must be present")),
        }
    }
}
impl ToValue for Ts5ommdme5 {
    fn to_value(&self) -> Value {
        Value::Seq(vec![
            self.f0.as_ref().map(|x| x.to_value()),
            Some(self.f1.to_value()),
            Some(self.f2.to_value()),
            Some(self.f3.to_value()),
            Some(self.f4.to_value()),
        ])
    }
}
impl FromValue for Ts5dmmdmn {
    fn from_value(v: &Value) -> Self {
        let s = match v { Value::Seq(s) => s, other => panic!("Ts5dmmdmn: expected Seq, got {other:?}") };
        assert_eq!(s.len(), 5, "Ts5dmmdmn: component count");
        let _ = s;
        Ts5dmmdmn {
            f0: FromValue::from_value(s[0].as_ref().expect("component f0 of Ts5dmmdmn must be present")),
            f1: FromValue::from_value(s[1].as_ref().expect("component f1 of Ts5dmmdmn must be present")),
            f2: FromValue::from_value(s[2].as_ref().expect("component f2 of Ts5dmmdmn must be present")),
            f3: FromValue::from_value(s[3].as_ref().expect("component f3 of Ts5dmmdmn must be present")),
            f4: FromValue::from_value(s[4].as_ref().expect("component f4 of Ts5dmmdmn must be present")),
        }
    }
}
impl ToValue for Ts5dmmdmn {
    fn to_value(&self) -> Value {
        Value::Seq(vec![
            Some(self.f0.to_value()),
            Some(self.f1.to_value()),
            Some(self.f2.to_value()),
            Some(self.f3.to_value()),
            Some(self.f4.to_value()),
        ])
    }
}
impl FromValue for Ts5dmmdme0 {
    fn from_value(v: &Value) -> Self {
        let s = match v { Value::Seq(s) => s, other => panic!("Ts5dmmdme0: expected Seq, got {other:?}") };
        assert_eq!(s.len(), 5, "Ts5dmmdme0: component count");
        let _ = s;
        Ts5dmmdme0 {
            f0: FromValue::from_value(s[0].as_ref().expect("component f0 of Ts5dmmdme0 must be present")),
            f1: s[1].as_ref().map(FromValue::from_value),
            f2: s[2].as_ref().map(FromValue::from_value),
            f3: FromValue::from_value(s[3].as_ref().expect("component f3 of Ts5dmmdme0 must be present")),
            f4: s[4].as_ref().map(FromValue::from_value),
        }
    }
}
impl ToValue for Ts5dmmdme0 {
    fn to_value(&self) -> Value {
        Value::Seq(vec![
            Some(self.f0.to_value()),
            self.f1.as_ref().map(|x| x.to_value()),
            self.f2.as_ref().map(|x| x.to_value()),
            Some(self.f3.to_value()),
            self.f4.as_ref().map(|x| x.to_value()),
        ])
    }
}
impl FromValue for Ts5dmmdme1 {
    fn from_value(v: &Value) -> Self {
        let s = match v { Value::Seq(s) => s, other => panic!("Ts5dmmdme1: expected Seq, got {other:?}") };
        assert_eq!(s.len(), 5, "Ts5dmmdme1: component count");
        let _ = s;
        Ts5dmmdme1 {
            f0: FromValue::from_value(s[0].as_ref().expect("component f0 of Ts5dmmdme1 must be present")),
            f1: s[1].as_ref().map(FromValue::from_value),
            f2: s[2].as_ref().map(FromValue::from_value),
            f3: FromValue::from_value(s[3].as_ref().expect("component f3 of Ts5dmmdme1 must be present")),
            f4: s[4].as_ref().map(FromValue::from_value),
        }
    }
}
impl ToValue for Ts5dmmdme1 {
    fn to_value(&self) -> Value {
        Value::Seq(vec![
            Some(self.f0.to_value()),
            self.f1.as_ref().map(|x| x.to_value()),
            self.f2.as_ref().map(|x| x.to_value()),
            Some(self.f3.to_value()),
            self.f4.as_ref().map(|x| x.to_value()),
        ])
    }
}
impl FromValue for Ts5dmmdme2 {
    fn from_value(v: &Value) -> Self {
        let s = match v { Value::Seq(s) => s, other => panic!("Ts5dmmdme2: expected Seq, got {other:?}") };
        assert_eq!(s.len(), 5, "Ts5dmmdme2: component count");
        let _ = s;
        Ts5dmmdme2 {
            f0: FromValue::from_value(s[0].as_ref().expect("component f0 of Ts5dmmdme2 must be present")),
            f1: FromValue::from_value(s[1].as_ref().expect("component f1 of Ts5dmmdme2 must be present")),
            f2: s[2].as_ref().map(FromValue::from_value),
            f3: FromValue::from_value(s[3].as_ref().expect("component f3 of Ts5dmmdme2 must be present")),
            f4: s[4].as_ref().map(FromValue::from_value),
        }
    }
}
impl ToValue for Ts5dmmdme2 {
    fn to_value(&self) -> Value {
        Value::Seq(vec![
            Some(self.f0.to_value()),
            Some(self.f1.to_value()),
            self.f2.as_ref().map(|x| x.to_value()),
            Some(self.f3.to_value()),
            self.f4.as_ref().map(|x| x.to_value()),
        ])
    }
}
impl FromValue for Ts5dmmdme3 {
    fn from_value(v: &Value) -> Self {
        let s = match v { Value::Seq(s) => s, other => panic!("Ts5dmmdme3: expected Seq, got {other:?}") };
        assert_eq!(s.len(), 5, "Ts5dmmdme3: component count");
        let _ = s;
        Ts5dmmdme3 {
            f0: FromValue::from_value(s[0].as_ref().expect("component f0 of Ts5dmmdme3 must be present")),
            f1: FromValue::from_value(s[1].as_ref().expect("component f1 of Ts5dmmdme3 must be present")),
            f2: FromValue::from_value(s[2].as_ref().expect("component f2 of Ts5dmmdme3 must be present")),
            f3: FromValue::from_value(s[3].as_ref().expect("component f3 of Ts5dmmdme3 must be present")),
            f4: s[4].as_ref().map(FromValue::from_value),
        }
    }
}
impl ToValue for Ts5dmmdme3 {
    fn to_value(&self) -> Value {
        Value::Seq(vec![
            Some(self.f0.to_value()),
            Some(self.f1.to_value()),
            Some(self.f2.to_value()),
            Some(self.f3.to_value()),
            self.f4.as_ref().map(|x| x.to_value()),
        ])
    }
}
impl FromValue for Ts5dmmdme4 {
    fn from_value(v: &Value) -> Self {
        let s = match v { Value::Seq(s) => s, other => panic!("Ts5dmmdme4: expected Seq, got {other:?}") };
        assert_eq!(s.len(), 5, "Ts5dmmdme4: component count");
        let _ = s;
        Ts5dmmdme4 {
            f0: FromValue::from_value(s[0].as_ref().expect("component f0 of Ts5dmmdme4 must be present")),
            f1: FromValue::from_value(s[1].as_ref().expect("component f1 of Ts5dmmdme4 must be present")),
            f2: FromValue::from_value(s[2].as_ref().expect("component f2 of Ts5dmmdme4 must be present")),
            f3: FromValue::from_value(s[3].as_ref().expect("component f3 of Ts5dmmdme4 must be present")),
            f4: s[4].as_ref().map(FromValue::from_value),
        }
    }
}
impl ToValue for Ts5dmmdme4 {
    fn to_value(&self) -> Value {
        Value::Seq(vec![
            Some(self.f0.to_value()),
            Some(self.f1.to_value()),
            Some(self.f2.to_value()),
            Some(self.f3.to_value()),
            self.f4.as_ref().map(|x| x.to_value()),
        ])
    }
}
impl FromValue for Ts5dmmdme5 {
    fn from_value(v: &Value) -> Self {
        let s = match v { Value::Seq(s) => s, other => panic!("Ts5dmmdme5: expected Seq, got {other:?}") };
        assert_eq!(s.len(), 5, "Ts5dmmdme5: component count");
        let _ = s;
        Ts5dmmdme5 {
            f0: FromValue::from_value(s[0].as_ref().expect("component f0 of Ts5dmmdme5 must be present")),
            f1: FromValue::from_value(s[1].as_ref().expect("component f1 of Ts5dmmdme5 must be present")),
            f2: FromValue::from_value(s[2].as_ref().expect("component f2 of Ts5dmmdme5 must be present")),
            f3: FromValue::from_value(s[3].as_ref().expect("component f3 of Ts5dmmdme5 must be present")),
            f4: FromValue::from_value(s[4].as_ref().expect("component f4 of Ts5dmmdme5 must be present")),
        }
    }
}
impl ToValue for Ts5dmmdme5 {
    fn to_value(&self) -> Value {
        Value::Seq(vec![
            Some(self.f0.to_value()),
            Some(self.f1.to_value()),
            Some(self.f2.to_value()),
            Some(self.f3.to_value()),
            Some(self.f4.to_value()),
        ])
    }
}
impl FromValue for Ts5momdmn {
    fn from_value(v: &Value) -> Self {
        let s = match v { Value::Seq(s) => s, other => panic!("Ts5momdmn: expected Seq, got {other:?}") };
        assert_eq!(s.len(), 5, "Ts5momdmn: component count");
        let _ = s;
        Ts5momdmn {
            f0: FromValue::from_value(s[0].as_ref().expect("component f0 of Ts5momdmn must be present")),
            f1: s[1].as_ref().map(FromValue::from_value),
            f2: FromValue::from_value(s[2].as_ref().expect("component f2 of Ts5momdmn must be present")),
            f3: FromValue::from_value(s[3].as_ref().expect("component f3 of Ts5momdmn must be present")),
            f4: FromValue::from_value(s[4].as_ref().expect("component f4 of Ts5momdmn must be present")),
        }
    }
}
impl ToValue for Ts5momdmn {
    fn to_value(&self) -> Value {
        Value::Seq(vec![
            Some(self.f0.to_value()),
            self.f1.as_ref().map(|x| x.to_value()),
            Some(self.f2.to_value()),
            Some(self.f3.to_value()),
            Some(self.f4.to_value()),
        ])
    }
}
impl FromValue for Ts5momdme0 {
    fn from_value(v: &Value) -> Self {
        let s = match v { Value::Seq(s) => s, other => panic!("Ts5momdme0: expected Seq, got {other:?}") };
        assert_eq!(s.len(), 5, "Ts5momdme0: component count");
        let _ = s;
        Ts5momdme0 {
            f0: FromValue::from_value(s[0].as_ref().expect("component f0 of Ts5momdme0 must be present")),
            f1: s[1].as_ref().map(FromValue::from_value),
            f2: s[2].as_ref().map(FromValue::from_value),
            f3: FromValue::from_value(s[3].as_ref().expect("component f3 of Ts5momdme0 must be present")),
            f4: s[4].as_ref().map(FromValue::from_value),
        }
    }
}
impl ToValue for Ts5momdme0 {
    fn to_value(&self) -> Value {
        Value::Seq(vec![
            Some(self.f0.to_value()),
            self.f1.as_ref().map(|x| x.to_value()),
            self.f2.as_ref().map(|x| x.to_value()),
            Some(self.f3.to_value()),
            self.f4.as_ref().map(|x| x.to_value()),
        ])
    }
}
impl FromValue for Ts5momdme1 {
    fn from_value(v: &Value) -> Self {
        let s = match v { Value::Seq(s) => s, other => panic!("Ts5momdme1: expected Seq, got {other:?}") };
        assert_eq!(s.len(), 5, "Ts5momdme1: component count");
        let _ = s;
        Ts5momdme1 {
            f0: FromValue::from_value(s[0].as_ref().expect("component f0 of Ts5momdme1 must be present")),
            f1: s[1].as_ref().map(FromValue::from_value),
            f2: s[2].as_ref().map(FromValue::from_value),
            f3: FromValue::from_value(s[3].as_ref().expect("component f3 of Ts5momdme1 must be present")),
            f4: s[4].as_ref().map(FromValue::from_value),
        }
    }
}
impl ToValue for Ts5momdme1 {
    fn to_value(&self) -> Value {
        Value::Seq(vec![
            Some(self.f0.to_value()),
            self.f1.as_ref().map(|x| x.to_value()),
            self.f2.as_ref().map(|x| x.to_value()),
            Some(self.f3.to_value()),
            self.f4.as_ref().map(|x| x.to_value()),
        ])
    }
}
impl FromValue for Ts5momdme2 {
    fn from_value(v: &Value) -> Self {
        let s = match v { Value::Seq(s) => s, other => panic!("Ts5momdme2: expected Seq, got {other:?}") };
        assert_eq!(s.len(), 5, "Ts5momdme2: component count");
        let _ = s;
        Ts5momdme2 {
            f0: FromValue::from_value(s[0].as_ref().expect("component f0 of Ts5momdme2 must be present")),
            f1: s[1].as_ref().map(FromValue::from_value),
            f2: s[2].as_ref().map(FromValue::from_value),
            f3: FromValue::from_value(s[3].as_ref().expect("component f3 of Ts5momdme2 must be present")),
            f4: s[4].as_ref().map(FromValue::from_value),
        }
    }
}
impl ToValue for Ts5momdme2 {
    fn to_value(&self) -> Value {
        Value::Seq(vec![
            Some(self.f0.to_value()),
            self.f1.as_ref().map(|x| x.to_value()),
            self.f2.as_ref().map(|x| x.to_value()),
            Some(self.f3.to_value()),
            self.f4.as_ref().map(|x| x.to_value()),
        ])
    }
}
impl FromValue for Ts5momdme3 {
    fn from_value(v: &Value) -> Self {
        let s = match v { Value::Seq(s) => s, other => panic!("Ts5momdme3: expected Seq, got {other:?}") };
        assert_eq!(s.len(), 5, "Ts5momdme3: component count");
        let _ = s;
        Ts5momdme3 {
            f0: FromValue::from_value(s[0].as_ref().expect("component f0 of Ts5momdme3 must be present")),
            f1: s[1].as_ref().map(FromValue::from_value),
            f2: FromValue::from_value(s[2].as_ref().expect("component f2 of Ts5momdme3 must be present")),
            f3: FromValue::from_value(s[3].as_ref().expect("component f3 of Ts5momdme3 must be present")),
            f4: s[4].as_ref().map(FromValue::from_value),
        }
    }
}
impl ToValue for Ts5momdme3 {
    fn to_value(&self) -> Value {
        Value::Seq(vec![
            Some(self.f0.to_value()),
            self.f1.as_ref().map(|x| x.to_value()),
            Some(self.f2.to_value()),
            Some(self.f3.to_value()),
            self.f4.as_ref().map(|x| x.to_value()),
        ])
    }
}
impl FromValue for Ts5momdme4 {
    fn from_value(v: &Value) -> Self {
        let s = match v { Value::Seq(s) => s, other => panic!("Ts5momdme4: expected Seq, got {other:?}") };
        assert_eq!(s.len(), 5, "Ts5momdme4: component count");
        let _ = s;
        Ts5momdme4 {
            f0: FromValue::from_value(s[0].as_ref().expect("component f0 of Ts5momdme4 must be present")),
            f1: s[1].as_ref().map(FromValue::from_value),
            f2: FromValue::from_value(s[2].as_ref().expect("component f2 of Ts5momdme4 must be present")),
            f3: FromValue::from_value(s[3].as_ref().expect("component f3 of Ts5momdme4 must be present")),
            f4: s[4].as_ref().map(FromValue::from_value),
        }
    }
}
impl ToValue for Ts5momdme4 {
    fn to_value(&self) -> Value {
        Value::Seq(vec![
            Some(self.f0.to_value()),
            self.f1.as_ref().map(|x| x.to_value()),
            Some(self.f2.to_value()),
            Some(self.f3.to_value()),
            self.f4.as_ref().map(|x| x.to_value()),
        ])
    }
}
impl FromValue for Ts5momdme5 {
    fn from_value(v: &Value) -> Self {
        let s = match v { Value::Seq(s) => s, other => panic!("Ts5momdme5: expected Seq, got {other:?}") };
        assert_eq!(s.len(), 5, "Ts5momdme5: component count");
        let _ = s;
        Ts5momdme5 {
            f0: FromValue::from_value(s[0].as_ref().expect("component f0 of Ts5momdme5 must be present")),
            f1: s[1].as_ref().map(FromValue::from_value),
            f2: FromValue::from_value(s[2].as_ref().expect("component f2 of Ts5momdme5 must be present")),
            f3: FromValue::from_value(s[3].as_ref().expect("component f3 of Ts5momdme5 must be present")),
            f4: FromValue::from_value(s[4].as_ref().expect("component f4 of Ts5momdme5 must be present")),
        }
    }
}
impl ToValue for Ts5momdme5 {
    fn to_value(&self) -> Value {
        Value::Seq(vec![
            Some(self.f0.to_value()),
            self.f1.as_ref().map(|x| x.to_value()),
            Some(self.f2.to_value()),
            Some(self.f3.to_value()),
            Some(self.f4.to_value()),
        ])
    }
}
impl FromValue for Ts5oomdmn {
    fn from_value(v: &Value) -> Self {
        let s = match v { Value::Seq(s) => s, other => panic!("Ts5oomdmn: expected Seq, got {other:?}") };
        assert_eq!(s.len(), 5, "Ts5oomdmn: component count");
        let _ = s;
        Ts5oomdmn {
            f0: s[0].as_ref().map(FromValue::from_value),
            f1: s[1].as_ref().map(FromValue::from_value),
            f2: FromValue::from_value(s[2].as_ref().expect("component f2 of Ts5oomdmn must be present")),
            f3: FromValue::from_value(s[3].as_ref().expect("component f3 of Ts5oomdmn must be present")),
            f4: FromValue::from_value(s[4].as_ref().expect("component f4 of Ts5oomdmn must be present")),
        }
    }
}
impl ToValue for Ts5oomdmn {
    fn to_value(&self) -> Value {
        Value::Seq(vec![
            self.f0.as_ref().map(|x| x.to_value()),
            self.f1.as_ref().map(|x| x.to_value()),
            Some(self.f2.to_value()),
            Some(self.f3.to_value()),
            Some(self.f4.to_value()),
        ])
    }
}
impl FromValue for Ts5oomdme0 {
    fn from_value(v: &Value) -> Self {
        let s = match v { Value::Seq(s) => s, other => panic!("Ts5oomdme0: expected Seq, got {other:?}") };
        assert_eq!(s.len(), 5, "Ts5oomdme0: component count");
        let _ = s;
        Ts5oomdme0 {
            f0: s[0].as_ref().map(FromValue::from_value),
            f1: s[1].as_ref().map(FromValue::from_value),
            f2: s[2].as_ref().map(FromValue::from_value),
            f3: FromValue::from_value(s[3].as_ref().expect("component f3 of Ts5oomdme0 must be present")),
            f4: s[4].as_ref().map(FromValue::from_value),
        }
    }
}
impl ToValue for Ts5oomdme0 {
    fn to_value(&self) -> Value {
        Value::Seq(vec![
            self.f0.as_ref().map(|x| x.to_value()),
            self.f1.as_ref().map(|x| x.to_value()),
            self.f2.as_ref().map(|x| x.to_value()),
            Some(self.f3.to_value()),
            self.f4.as_ref().map(|x| x.to_value()),
        ])
    }
}
impl FromValue for Ts5oomdme1 {
    fn from_value(v: &Value) -> Self {
        let s = match v { Value::Seq(s) => s, other => panic!("Ts5oomdme1: expected Seq, got {other:?}") };
        assert_eq!(s.len(), 5, "Ts5oomdme1: component count");
        let _ = s;
        Ts5oomdme1 {
            f0: s[0].as_ref().map(FromValue::from_value),
            f1: s[1].as_ref().map(FromValue::from_value),
            f2: s[2].as_ref().map(FromValue::from_value),
            f3: FromValue::from_value(s[3].as_ref().expect("component f3 of Ts5oomdme1 must be present")),
            f4: s[4].as_ref().map(FromValue::from_value),
        }
    }
}
impl ToValue for Ts5oomdme1 {
    fn to_value(&self) -> Value {
        Value::Seq(vec![
            self.f0.as_ref().map(|x| x.to_value()),
            self.f1.as_ref().map(|x| x.to_value()),
            self.f2.as_ref().map(|x| x.to_value()),
            Some(self.f3.to_value()),
            self.f4.as_ref().map(|x| x.to_value()),
        ])
    }
}
impl FromValue for Ts5oomdme2 {
    fn from_value(v: &Value) -> Self {
        let s = match v { Value::Seq(s) => s, other => panic!("Ts5oomdme2: expected Seq, got {other:?}") };
        assert_eq!(s.len(), 5, "Ts5oomdme2: component count");
        let _ = s;
        Ts5oomdme2 {
            f0: s[0].as_ref().map(FromValue::from_value),
            f1: s[1].as_ref().map(FromValue::from_value),
            f2: s[2].as_ref().map(FromValue::from_value),
            f3: FromValue::from_value(s[3].as_ref().expect("component f3 of Ts5oomdme2 must be present")),
            f4: s[4].as_ref().map(FromValue::from_value),
        }
    }
}
impl ToValue for Ts5oomdme2 {
    fn to_value(&self) -> Value {
        Value::Seq(vec![
            self.f0.as_ref().map(|x| x.to_value()),
            self.f1.as_ref().map(|x| x.to_value()),
            self.f2.as_ref().map(|x| x.to_value()),
            Some(self.f3.to_value()),
            self.f4.as_ref().map(|x| x.to_value()),
        ])
    }
}
impl FromValue for Ts5oomdme3 {
    fn from_value(v: &Value) -> Self {
        let s = match v { Value::Seq(s) => s, other => panic!("Ts5oomdme3: expected Seq, got {other:?}") };
        assert_eq!(s.len(), 5, "Ts5oomdme3: component count");
        let _ = s;
        Ts5oomdme3 {
            f0: s[0].as_ref().map(FromValue::from_value),
            f1: s[1].as_ref().map(FromValue::from_value),
            f2: FromValue::from_value(s[2].as_ref().expect("component f2 of Ts5oomdme3 must be present")),
            f3: FromValue::from_value(s[3].as_ref().expect("component f3 of Ts5oomdme3 must be present")),
            f4: s[4].as_ref().map(FromValue::from_value),
        }
    }
}
impl ToValue for Ts5oomdme3 {
    fn to_value(&self) -> Value {
        Value::Seq(vec![
            self.f0.as_ref().map(|x| x.to_value()),
            self.f1.as_ref().map(|x| x.to_value()),
            Some(self.f2.to_value()),
            Some(self.f3.to_value()),
            self.f4.as_ref().map(|x| x.to_value()),
        ])
    }
}
impl FromValue for Ts5oomdme4 {
    fn from_value(v: &Value) -> Self {
        let s = match v { Value::Seq(s) => s, other => panic!("Ts5oomdme4: expected Seq, got {other:?}") };
        assert_eq!(s.len(), 5, "Ts5oomdme4: component count");
        let _ = s;
        Ts5oomdme4 {
            f0: s[0].as_ref().map(FromValue::from_value),
            f1: s[1].as_ref().map(FromValue::from_value),
            f2: FromValue::from_value(s[2].as_ref().expect("component f2 of Ts5oomdme4 must be present")),
            f3: FromValue::from_value(s[3].as_ref().expect("component f3 of Ts5oomdme4 must be present")),
            f4: s[4].as_ref().map(FromValue::from_value),
        }
    }
}
impl ToValue for Ts5oomdme4 {
    fn to_value(&self) -> Value {
        Value::Seq(vec![
            self.f0.as_ref().map(|x| x.to_value()),
            self.f1.as_ref().map(|x| x.to_value()),
            Some(self.f2.to_value()),
            Some(self.f3.to_value()),
            self.f4.as_ref().map(|x| x.to_value()),
        ])
    }
}
impl FromValue for Ts5oomdme5 {
    fn from_value(v: &Value) -> Self {
        let s = match v { Value::Seq(s) => s, other => panic!("Ts5oomdme5: expected Seq, got {other:?}") };
        assert_eq!(s.len(), 5, "Ts5oomdme5: component count");
        let _ = s;
        Ts5oomdme5 {
            f0: s[0].as_ref().map(FromValue::from_value),
            f1: s[1].as_ref().map(FromValue::from_value),
            f2: FromValue::from_value(s[2].as_ref().expect("component f2 of Ts5oomdme5 must be present")),
            f3: FromValue::from_value(s[3].as_ref().expect("component f3 of Ts5oomdme5 must be present")),
            f4: FromValue::from_value(s[4].as_ref().expect("component f4 of Ts5oomdme5 must be present")),
        }
    }
}
impl ToValue for Ts5oomdme5 {
    fn to_value(&self) -> Value {
        Value::Seq(vec![
            self.f0.as_ref().map(|x| x.to_value()),
            self.f1.as_ref().map(|x| x.to_value()),
            Some(self.f2.to_value()),
            Some(self.f3.to_value()),
            Some(self.f4.to_value()),
        ])
    }
}
impl FromValue for Ts5domdmn {
    fn from_value(v: &Value) -> Self {
        let s = match v { Value::Seq(s) => s, other => panic!("Ts5domdmn: expected Seq, got {other:?}") };
        assert_eq!(s.len(), 5, "Ts5domdmn: component count");
        let _ = s;
        Ts5domdmn {
            f0: FromValue::from_value(s[0].as_ref().expect("component f0 of Ts5domdmn must be present")),
            f1: s[1].as_ref().map(FromValue::from_value),
            f2: FromValue::from_value(s[2].as_ref().expect("component f2 of Ts5domdmn must be present")),
            f3: FromValue::from_value(s[3].as_ref().expect("component f3 of Ts5domdmn must be present")),
            f4: FromValue::from_value(s[4].as_ref().expect("component f4 of Ts5domdmn must be present")),
        }
    }
}
impl ToValue for Ts5domdmn {
    fn to_value(&self) -> Value {
        Value::Seq(vec![
            Some(self.f0.to_value()),
            self.f1.as_ref().map(|x| x.to_value()),
            Some(self.f2.to_value()),
            Some(self.f3.to_value()),
            Some(self.f4.to_value()),
        ])
    }
}
impl FromValue for Ts5domdme0 {
    fn from_value(v: &Value) -> Self {
        let s = match v { Value::Seq(s) => s, other => panic!("Ts5domdme0: expected Seq, got {other:?}") };
        assert_eq!(s.len(), 5, "Ts5domdme0: component count");
        let _ = s;
        Ts5domdme0 {
            f0: FromValue::from_value(s[0].as_ref().expect("component f0 of Ts5domdme0 must be present")),
            f1: s[1].as_ref().map(FromValue::from_value),
            f2: s[2].as_ref().map(FromValue::from_value),
            f3: FromValue::from_value(s[3].as_ref().expect("component f3 of Ts5domdme0 must be present")),
            f4: s[4].as_ref().map(FromValue::from_value),
        }
    }
}
impl ToValue for Ts5domdme0 {
    fn to_value(&self) -> Value {
        Value::Seq(vec![
            Some(self.f0.to_value()),
            self.f1.as_ref().map(|x| x.to_value()),
            self.f2.as_ref().map(|x| x.to_value()),
            Some(self.f3.to_value()),
            self.f4.as_ref().map(|x| x.to_value()),
        ])
    }
}
impl FromValue for Ts5domdme1 {
    fn from_value(v: &Value) -> Self {
        let s = match v { Value::Seq(s) => s, other => panic!("Ts5domdme1: expected Seq, got {other:?}") };
        assert_eq!(s.len(), 5, "Ts5domdme1: component count");
        let _ = s;
        Ts5domdme1 {
            f0: FromValue::from_value(s[0].as_ref().expect("component f0 of Ts5domdme1 must be present")),
            f1: s[1].as_ref().map(FromValue::from_value),
            f2: s[2].as_ref().map(FromValue::from_value),
            f3: FromValue::from_value(s[3].as_ref().expect("component f3 of Ts5domdme1 must be present")),
            f4: s[4].as_ref().map(FromValue::from_value),
        }
    }
}
impl ToValue for Ts5domdme1 {
    fn to_value(&self) -> Value {
        Value::Seq(vec![
            Some(self.f0.to_value()),
            self.f1.as_ref().map(|x| x.to_value()),
            self.f2.as_ref().map(|x| x.to_value()),
            Some(self.f3.to_value()),
            self.f4.as_ref().map(|x| x.to_value()),
        ])
    }
}
impl FromValue for Ts5domdme2 {
    fn from_value(v: &Value) -> Self {
        let s = match v { Value::Seq(s) => s, other => panic!("Ts5domdme2: expected Seq, got {other:?}") };
        assert_eq!(s.len(), 5, "Ts5domdme2: component count");
        let _ = s;
        Ts5domdme2 {
            f0: FromValue::from_value(s[0].as_ref().expect("component f0 of Ts5domdme2 must be present")),
            f1: s[1].as_ref().map(FromValue::from_value),
            f2: s[2].as_ref().map(FromValue::from_value),
            f3: FromValue::from_value(s[3].as_ref().expect("component f3 of Ts5domdme2 must be present")),
            f4: s[4].as_ref().map(FromValue::from_value),
        }
    }
}
impl ToValue for Ts5domdme2 {
    fn to_value(&self) -> Value {
        Value::Seq(vec![
            Some(self.f0.to_value()),
            self.f1.as_ref().map(|x| x.to_value()),
            self.f2.as_ref().map(|x| x.to_value()),
            Some(self.f3.to_value()),
            self.f4.as_ref().map(|x| x.to_value()),
        ])
    }
}
impl FromValue for Ts5domdme3 {
    fn from_value(v: &Value) -> Self {
        let s = match v { Value::Seq(s) => s, other => panic!("Ts5domdme3: expected Seq, got {other:?}") };
        assert_eq!(s.len(), 5, "Ts5domdme3: component count");
        let _ = s;
        Ts5domdme3 {
            f0: FromValue::from_value(s[0].as_ref().expect("component f0 of Ts5domdme3 must be present")),
            f1: s[1].as_ref().map(FromValue::from_value),
            f2: FromValue::from_value(s[2].as_ref().expect("component f2 of Ts5domdme3 must be present")),
            f3: FromValue::from_value(s[3].as_ref().expect("component f3 of Ts5domdme3 must be present")),
            f4: s[4].as_ref().map(FromValue::from_value),
        }
    }
}
impl ToValue for Ts5domdme3 {
    fn to_value(&self) -> Value {
        Value::Seq(vec![
            Some(self.f0.to_value()),
            self.f1.as_ref().map(|x| x.to_value()),
            Some(self.f2.to_value()),
            Some(self.f3.to_value()),
            self.f4.as_ref().map(|x| x.to_value()),
        ])
    }
}
impl FromValue for Ts5domdme4 {
    fn from_value(v: &Value) -> Self {
        let s = match v { Value::Seq(s) => s, other => panic!("Ts5domdme4: expected Seq, got {other:?}") };
        assert_eq!(s.len(), 5, "Ts5domdme4: component count");
        let _ = s;
        Ts5domdme4 {
            f0: FromValue::from_value(s[0].as_ref().expect("component f0 of Ts5domdme4 must be present")),
            f1: s[1].as_ref().map(FromValue::from_value),
            f2: FromValue::from_value(s[2].as_ref().expect("component f2 of Ts5domdme4 must be present")),
            f3: FromValue::from_value(s[3].as_ref().expect("component f3 of Ts5domdme4 must be present")),
            f4: s[4].as_ref().map(FromValue::from_value),
        }
    }
}
impl ToValue for Ts5domdme4 {
    fn to_value(&self) -> Value {
        Value::Seq(vec![
            Some(self.f0.to_value()),
            self.f1.as_ref().map(|x| x.to_value()),
            Some(self.f2.to_value()),
            Some(self.f3.to_value()),
            self.f4.as_ref().map(|x| x.to_value()),
        ])
    }
}
impl FromValue for Ts5domdme5 {
    fn from_value(v: &Value) -> Self {
        let s = match v { Value::Seq(s) => s, other => panic!("Ts5domdme5: expected Seq, got {other:?}") };
        assert_eq!(s.len(), 5, "Ts5domdme5: component count");
        let _ = s;
        Ts5domdme5 {
            f0: FromValue::from_value(s[0].as_ref().expect("component f0 of Ts5domdme5 must be present")),
            f1: s[1].as_ref().map(FromValue::from_value),
            f2: FromValue::from_value(s[2].as_ref().expect("component f2 of Ts5domdme5 must be present")),
            f3: FromValue::from_value(s[3].as_ref().expect("component f3 of Ts5domdme5 must be present")),
            f4: FromValue::from_value(s[4].as_ref().expect("component f4 of Ts5domdme5 must be present")),
        }
    }
}
impl ToValue for Ts5domdme5 {
    fn to_value(&self) -> Value {
        Value::Seq(vec![
            Some(self.f0.to_value()),
            self.f1.as_ref().map(|x| x.to_value()),
            Some(self.f2.to_value()),
            Some(self.f3.to_value()),
            Some(self.f4.to_value()),
        ])
    }
}
impl FromValue for Ts5mdmdmn {
    fn from_value(v: &Value) -> Self {
        let s = match v { Value::Seq(s) => s, other => panic!("Ts5mdmdmn: expected Seq, got {other:?}") };
        assert_eq!(s.len(), 5, "Ts5mdmdmn: component count");
        let _ = s;
        Ts5mdmdmn {
            f0: FromValue::from_value(s[0].as_ref().expect("component f0 of Ts5mdmdmn must be present")),
            f1: FromValue::from_value(s[1].as_ref().expect("component f1 of Ts5mdmdmn must be present")),
            f2: FromValue::from_value(s[2].as_ref().expect("component f2 of Ts5mdmdmn must be present")),
            f3: FromValue::from_value(s[3].as_ref().expect("component f3 of Ts5mdmdmn must be present")),
            f4: FromValue::from_value(s[4].as_ref().expect("component f4 of Ts5mdmdmn must be present")),
        }
    }
}
impl ToValue for Ts5mdmdmn {
    fn to_value(&self) -> Value {
        Value::Seq(vec![
            Some(self.f0.to_value()),
            Some(self.f1.to_value()),
            Some(self.f2.to_value()),
            Some(self.f3.to_value()),
            Some(self.f4.to_value()),
        ])
    }
}
impl FromValue for Ts5mdmdme0 {
    fn from_value(v: &Value) -> Self {
        let s = match v { Value::Seq(s) => s, other => panic!("Ts5mdmdme0: expected Seq, got {other:?}") };
        assert_eq!(s.len(), 5, "Ts5mdmdme0: component count");
        let _ = s;
        Ts5mdmdme0 {
            f0: FromValue::from_value(s[0].as_ref().expect("component f0 of Ts5mdmdme0 must be present")),
            f1: FromValue::from_value(s[1].as_ref().expect("component f1 of Ts5mdmdme0 must be present")),
            f2: s[2].as_ref().map(FromValue::from_value),
            f3: FromValue::from_value(s[3].as_ref().expect("component f3 of Ts5mdmdme0 must be present")),
            f4: s[4].as_ref().map(FromValue::from_value),
        }
    }
}
impl ToValue for Ts5mdmdme0 {
    fn to_value(&self) -> Value {
        Value::Seq(vec![
            Some(self.f0.to_value()),
            Some(self.f1.to_value()),
            self.f2.as_ref().map(|x| x.to_value()),
            Some(self.f3.to_value()),
            self.f4.as_ref().map(|x| x.to_value()),
        ])
    }
}
impl FromValue for Ts5mdmdme1 {
    fn from_value(v: &Value) -> Self {
        let s = match v { Value::Seq(s) => s, other => panic!("Ts5mdmdme1: expected Seq, got {other:?}") };
        assert_eq!(s.len(), 5, "Ts5mdmdme1: component count");
        let _ = s;
        Ts5mdmdme1 {
            f0: FromValue::from_value(s[0].as_ref().expect("component f0 of Ts5mdmdme1 must be present")),
            f1: FromValue::from_value(s[1].as_ref().expect("component f1 of Ts5mdmdme1 must be present")),
            f2: s[2].as_ref().map(FromValue::from_value),
            f3: FromValue::from_value(s[3].as_ref().expect("component f3 of Ts5mdmdme1 must be present")),
            f4: s[4].as_ref().map(FromValue::from_value),
        }
    }
}
impl ToValue for Ts5mdmdme1 {
    fn to_value(&self) -> Value {
        Value::Seq(vec![
            Some(self.f0.to_value()),
            Some(self.f1.to_value()),
            self.f2.as_ref().map(|x| x.to_value()),
            Some(self.f3.to_value()),
            self.f4.as_ref().map(|x| x.to_value()),
        ])
    }
}
impl FromValue for Ts5mdmdme2 {
    fn from_value(v: &Value) -> Self {
        let s = match v { Value::Seq(s) => s, other => panic!("Ts5mdmdme2: expected Seq, got {other:?}") };
        assert_eq!(s.len(), 5, "Ts5mdmdme2: component count");
        let _ = s;
        Ts5mdmdme2 {
            f0: FromValue::from_value(s[0].as_ref().expect("component f0 of Ts5mdmdme2 must be present")),
            f1: FromValue::from_value(s[1].as_ref().expect("component f1 of Ts5mdmdme2 must be present")),
            f2: s[2].as_ref().map(FromValue::from_value),
            f3: FromValue::from_value(s[3].as_ref().expect("component f3 of Ts5mdmdme2 must be present")),
            f4: s[4].as_ref().map(FromValue::from_value),
        }
    }
}
impl ToValue for Ts5mdmdme2 {
    fn to_value(&self) -> Value {
        Value::Seq(vec![
            Some(self.f0.to_value()),
            Some(self.f1.to_value()),
            self.f2.as_ref().map(|x| x.to_value()),
            Some(self.f3.to_value()),
            self.f4.as_ref().map(|x| x.to_value()),
        ])
    }
}
impl FromValue for Ts5mdmdme3 {
    fn from_value(v: &Value) -> Self {
        let s = match v { Value::Seq(s) => s, other => panic!("Ts5mdmdme3: expected Seq, got {other:?}") };
        assert_eq!(s.len(), 5, "Ts5mdmdme3: component count");
        let _ = s;
        Ts5mdmdme3 {
            f0: FromValue::from_value(s[0].as_ref().expect("component f0 of Ts5mdmdme3 must be present")),
            f1: FromValue::from_value(s[1].as_ref().expect("component f1 of Ts5mdmdme3 must be present")),
            f2: FromValue::from_value(s[2].as_ref().expect("component f2 of Ts5mdmdme3 must be present")),
            f3: FromValue::from_value(s[3].as_ref().expect("component f3 of Ts5mdmdme3 must be present")),
            f4: s[4].as_ref().map(FromValue::from_value),
        }
    }
}
impl ToValue for Ts5mdmdme3 {
    fn to_value(&self) -> Value {
        Value::Seq(vec![
            Some(self.f0.to_value()),
            Some(self.f1.to_value()),
            Some(self.f2.to_value()),
            Some(self.f3.to_value()),
            self.f4.as_ref().map(|x| x.to_value()),
        ])
    }
}
impl FromValue for Ts5mdmdme4 {
    fn from_value(v: &Value) -> Self {
        let s = match v { Value::Seq(s) => s, other => panic!("Ts5mdmdme4: expected Seq, got {other:?}") };
        assert_eq!(s.len(), 5, "Ts5mdmdme4: component count");
        let _ = s;
        Ts5mdmdme4 {
            f0: FromValue::from_value(s[0].as_ref().expect("component f0 of Ts5mdmdme4 must be present")),
            f1: FromValue::from_value(s[1].as_ref().expect("component f1 of Ts5mdmdme4 must be present")),
            f2: FromValue::from_value(s[2].as_ref().expect("component f2 of Ts5mdmdme4 must be present")),
            f3: FromValue::from_value(s[3].as_ref().expect("component f3 of Ts5mdmdme4 must be present")),
            f4: s[4].as_ref().map(FromValue::from_value),
        }
    }
}
impl ToValue for Ts5mdmdme4 {
    fn to_value(&self) -> Value {
        Value::Seq(vec![
            Some(self.f0.to_value()),
            Some(self.f1.to_value()),
            Some(self.f2.to_value()),
            Some(self.f3.to_value()),
            self.f4.as_ref().map(|x| x.to_value()),
        ])
    }
}
impl FromValue for Ts5mdmdme5 {
    fn from_value(v: &Value) -> Self {
        let s = match v { Value::Seq(s) => s, other => panic!("Ts5mdmdme5: expected Seq, got {other:?}") };
        assert_eq!(s.len(), 5, "Ts5mdmdme5: component count");
        let _ = s;
        Ts5mdmdme5 {
            f0: FromValue::from_value(s[0].as_ref().expect("component f0 of Ts5mdmdme5 must be present")),
            f1: FromValue::from_value(s[1].as_ref().expect("component f1 of Ts5mdmdme5 must be present")),
            f2: FromValue::from_value(s[2].as_ref().expect("component f2 of Ts5mdmdme5 must be present")),
            f3: FromValue::from_value(s[3].as_ref().expect("component f3 of Ts5mdmdme5 must be present")),
            f4: FromValue::from_value(s[4].as_ref().expect("component f4 of Ts5mdmdme5 must be present")),
        }
    }
}
impl ToValue for Ts5mdmdme5 {
    fn to_value(&self) -> Value {
        Value::Seq(vec![
            Some(self.f0.to_value()),
            Some(self.f1.to_value()),
            Some(self.f2.to_value()),
            Some(self.f3.to_value()),
            Some(self.f4.to_value()),
        ])
    }
}
impl FromValue for Ts5odmdmn {
    fn from_value(v: &Value) -> Self {
        let s = match v { Value::Seq(s) => s, other => panic!("Ts5odmdmn: expected Seq, got {other:?}") };
        assert_eq!(s.len(), 5, "Ts5odmdmn: component count");
        let _ = s;
        Ts5odmdmn {
            f0: s[0].as_ref().map(FromValue::from_value),
            f1: FromValue::from_value(s[1].as_ref().expect("component f1 of Ts5odmdmn must be present")),
            f2: FromValue::from_value(s[2].as_ref().expect("component f2 of Ts5odmdmn must be present")),
            f3: FromValue::from_value(s[3].as_ref().expect("component f3 of Ts5odmdmn must be present")),
            f4: FromValue::from_value(s[4].as_ref().expect("component f4 of Ts5odmdmn must be present")),
        }
    }
}
impl ToValue for Ts5odmdmn {
    fn to_value(&self) -> Value {
        Value::Seq(vec![
            self.f0.as_ref().map(|x| x.to_value()),
            Some(self.f1.to_value()),
            Some(self.f2.to_value()),
            Some(self.f3.to_value()),
            Some(self.f4.to_value()),
        ])
    }
}
impl FromValue for Ts5odmdme0 {
    fn from_value(v: &Value) -> Self {
        let s = match v { Value::Seq(s) => s, other => panic!("Ts5odmdme0: expected Seq, got {other:?}") };
        assert_eq!(s.len(), 5, "Ts5odmdme0: component count");
        let _ = s;
        Ts5odmdme0 {
            f0: s[0].as_ref().map(FromValue::from_value),
            f1: FromValue::from_value(s[1].as_ref().expect("component f1 of Ts5odmdme0 must be present")),
            f2: s[2].as_ref().map(FromValue::from_value),
            f3: FromValue::from_value(s[3].as_ref().expect("component f3 of Ts5odmdme0 must be present")),
            f4: s[4].as_ref().map(FromValue::from_value),
        }
    }
}
impl ToValue for Ts5odmdme0 {
    fn to_value(&self) -> Value {
        Value::Seq(vec![
            self.f0.as_ref().map(|x| x.to_value()),
            Some(self.f1.to_value()),
            self.f2.as_ref().map(|x| x.to_value()),
            Some(self.f3.to_value()),
            self.f4.as_ref().map(|x| x.to_value()),
        ])
    }
}
impl FromValue for Ts5odmdme1 {
    fn from_value(v: &Value) -> Self {
        let s = match v { Value::Seq(s) => s, other => panic!("Ts5odmdme1: expected Seq, got {other:?}") };
        assert_eq!(s.len(), 5, "Ts5odmdme1: component count");
        let _ = s;
        Ts5odmdme1 {
            f0: s[0].as_ref().map(FromValue::from_value),
            f1: FromValue::from_value(s[1].as_ref().expect("component f1 of Ts5odmdme1 must be present")),
            f2: s[2].as_ref().map(FromValue::from_value),
            f3: FromValue::from_value(s[3].as_ref().expect("component f3 of Ts5odmdme1 must be present")),
            f4: s[4].as_ref().map(FromValue::from_value),
        }
    }
}
impl ToValue for Ts5odmdme1 {
    fn to_value(&self) -> Value {
        Value::Seq(vec![
            self.f0.as_ref().map(|x| x.to_value()),
            Some(self.f1.to_value()),
            self.f2.as_ref().map(|x| x.to_value()),
            Some(self.f3.to_value()),
            self.f4.as_ref().map(|x| x.to_value()),
        ])
    }
}
impl FromValue for Ts5odmdme2 {
    fn from_value(v: &Value) -> Self {
        let s = match v { Value::Seq(s) => s, other => panic!("Ts5odmdme2: expected Seq, got {other:?}") };
        assert_eq!(s.len(), 5, "Ts5odmdme2: component count");
        let _ = s;
        Ts5odmdme2 {
            f0: s[0].as_ref().map(FromValue::from_value),
            f1: FromValue::from_value(s[1].as_ref().expect("component f1 of Ts5odmdme2 must be present")),
            f2: s[2].as_ref().map(FromValue::from_value),
            f3: FromValue::from_value(s[3].as_ref().expect("component f3 of Ts5odmdme2 must be present")),
            f4: s[4].as_ref().map(FromValue::from_value),
        }
    }
}
impl ToValue for Ts5odmdme2 {
    fn to_value(&self) -> Value {
        Value::Seq(vec![
            self.f0.as_ref().map(|x| x.to_value()),
            Some(self.f1.to_value()),
            self.f2.as_ref().map(|x| x.to_value()),
            Some(self.f3.to_value()),
            self.f4.as_ref().map(|x| x.to_value()),
        ])
    }
}
impl FromValue for Ts5odmdme3 {
    fn from_value(v: &Value) -> Self {
        let s = match v { Value::Seq(s) => s, other => panic!("Ts5odmdme3: expected Seq, got {other:?}") };
        assert_eq!(s.len(), 5, "Ts5odmdme3: component count");
        let _ = s;
        Ts5odmdme3 {
            f0: s[0].as_ref().map(FromValue::from_value),
            f1: FromValue::from_value(s[1].as_ref().expect("component f1 of Ts5odmdme3 must be present")),
            f2: FromValue::from_value(s[2].as_ref().expect("component f2 of Ts5odmdme3 must be present")),
            f3: FromValue::from_value(s[3].as_ref().expect("component f3 of Ts5odmdme3 must be present")),
            f4: s[4].as_ref().map(FromValue::from_value),
        }
    }
}
impl ToValue for Ts5odmdme3 {
    fn to_value(&self) -> Value {
        Value::Seq(vec![
            self.f0.as_ref().map(|x| x.to_value()),
            Some(self.f1.to_value()),
            Some(self.f2.to_value()),
            Some(self.f3.to_value()),
            self.f4.as_ref().map(|x| x.to_value()),
        ])
    }
}
impl FromValue for Ts5odmdme4 {
    fn from_value(v: &Value) -> Self {
        let s = match v { Value::Seq(s) => s, other => panic!("Ts5odmdme4: expected Seq, got {other:?}") };
        assert_eq!(s.len(), 5, "Ts5odmdme4: component count");
        let _ = s;
        Ts5odmdme4 {
            f0: s[0].as_ref().map(FromValue::from_value),
            f1: FromValue::from_value(s[1].as_ref().expect("component f1 of Ts5odmdme4 must be present")),
            f2: FromValue::from_value(s[2].as_ref().expect("component f2 of Ts5odmdme4 must be present")),
            f3: FromValue::from_value(s[3].as_ref().expect("component f3 of Ts5odmdme4 must be present")),
            f4: s[4].as_ref().map(FromValue::from_value),
        }
    }
}
impl ToValue for Ts5odmdme4 {
    fn to_value(&self) -> Value {
        Value::Seq(vec![
            self.f0.as_ref().map(|x| x.to_value()),
            Some(self.f1.to_value()),
            Some(self.f2.to_value()),
            Some(self.f3.to_value()),
            self.f4.as_ref().map(|x| x.to_value()),
        ])
    }
}
impl FromValue for Ts5odmdme5 {
    fn from_value(v: &Value) -> Self {
        let s = match v { Value::Seq(s) => s, other => panic!("Ts5odmdme5: expected Seq, got {other:?}") };
        assert_eq!(s.len(), 5, "Ts5odmdme5: component count");
        let _ = s;
        Ts5odmdme5 {
            f0: s[0].as_ref().map(FromValue::from_value),
            f1: FromValue::from_value(s[1].as_ref().expect("component f1 of Ts5odmdme5 must be present")),
            f2: FromValue::from_value(s[2].as_ref().expect("component f2 of Ts5odmdme5 must be present")),
            f3: FromValue::from_value(s[3].as_ref().expect("component f3 of Ts5odmdme5 must be present")),
            f4: FromValue::from_value(s[4].as_ref().expect("component f4 of Ts5odmdme5 must be present")),
        }
    }
}
impl ToValue for Ts5odmdme5 {
    fn to_value(&self) -> Value {
        Value::Seq(vec![
            self.f0.as_ref().map(|x| x.to_value()),
            Some(self.f1.to_value()),
            Some(self.f2.to_value()),
            Some(self.f3.to_value()),
            Some(self.f4.to_value()),
        ])
    }
}
impl FromValue for Ts5ddmdmn {
    fn from_value(v: &Value) -> Self {
        let s = match v { Value::Seq(s) => s, other => panic!("Ts5ddmdmn: expected Seq, got {other:?}") };
        assert_eq!(s.len(), 5, "Ts5ddmdmn: component count");
        let _ = s;
        Ts5ddmdmn {
            f0: FromValue::from_value(s[0].as_ref().expect("component f0 of Ts5ddmdmn must be present")),
            f1: FromValue::from_value(s[1].as_ref().expect("component f1 of Ts5ddmdmn must be present")),
            f2: FromValue::from_value(s[2].as_ref().expect("component f2 of Ts5ddmdmn must be present")),
            f3: FromValue::from_value(s[3].as_ref().expect("component f3 of Ts5ddmdmn must be present")),
            f4: FromValue::from_value(s[4].as_ref().expect("component f4 of Ts5ddmdmn must be present")),
        }
    }
}
impl ToValue for Ts5ddmdmn {
    fn to_value(&self) -> Value {
        Value::Seq(vec![
            Some(self.f0.to_value()),
            Some(self.f1.to_value()),
            Some(self.f2.to_value()),
            Some(self.f3.to_value()),
            Some(self.f4.to_value()),
        ])
    }
}
impl FromValue for Ts5ddmdme0 {
    fn from_value(v: &Value) -> Self {
        let s = match v { Value::Seq(s) => s, other => panic!("Ts5ddmdme0: expected Seq, got {other:?}") };
        assert_eq!(s.len(), 5, "Ts5ddmdme0: component count");
        let _ = s;
        Ts5ddmdme0 {
            f0: FromValue::from_value(s[0].as_ref().expect("component f0 of Ts5ddmdme0 must be present")),
            f1: FromValue::from_value(s[1].as_ref().expect("component f1 of Ts5ddmdme0 must be present")),
            f2: s[2].as_ref().map(FromValue::from_value),
            f3: FromValue::from_value(s[3].as_ref().expect("component f3 of Ts5ddmdme0 must be present")),
            f4: s[4].as_ref().map(FromValue::from_value),
        }
    }
}
impl ToValue for Ts5ddmdme0 {
    fn to_value(&self) -> Value {
        Value::Seq(vec![
            Some(self.f0.to_value()),
            Some(self.f1.to_value()),
            self.f2.as_ref().map(|x| x.to_value()),
            Some(self.f3.to_value()),
            self.f4.as_ref().map(|x| x.to_value()),
        ])
    }
}
impl FromValue for Ts5ddmdme1 {
    fn from_value(v: &Value) -> Self {
        let s = match v { Value::Seq(s) => s, other => panic!("Ts5ddmdme1: expected Seq, got {other:?}") };
        assert_eq!(s.len(), 5, "Ts5ddmdme1: component count");
        let _ = s;
        Ts5ddmdme1 {
            f0: FromValue::from_value(s[0].as_ref().expect("component f0 of Ts5ddmdme1 must be present")),
            f1: FromValue::from_value(s[1].as_ref().expect("component f1 of Ts5ddmdme1 must be present")),
            f2: s[2].as_ref().map(FromValue::from_value),
            f3: FromValue::from_value(s[3].as_ref().expect("component f3 of Ts5ddmdme1 must be present")),
            f4: s[4].as_ref().map(FromValue::from_value),
        }
    }
}
impl ToValue for Ts5ddmdme1 {
    fn to_value(&self) -> Value {
        Value::Seq(vec![
            Some(self.f0.to_value()),
            Some(self.f1.to_value()),
            self.f2.as_ref().map(|x| x.to_value()),
            Some(self.f3.to_value()),
            self.f4.as_ref().map(|x| x.to_value()),
        ])
    }
}
impl FromValue for Ts5ddmdme2 {
    fn from_value(v: &Value) -> Self {
        let s = match v { Value::Seq(s) => s, other => panic!("Ts5ddmdme2: expected Seq, got {other:?}") };
        assert_eq!(s.len(), 5, "Ts5ddmdme2: component count");
        let _ = s;
        Ts5ddmdme2 {
            f0: FromValue::from_value(s[0].as_ref().expect("component f0 of Ts5ddmdme2 must be present")),
            f1: FromValue::from_value(s[1].as_ref().expect("component f1 of Ts5ddmdme2 must be present")),
            f2: s[2].as_ref().map(FromValue::from_value),
            f3: FromValue::from_value(s[3].as_ref().expect("component f3 of Ts5ddmdme2 must be present")),
            f4: s[4].as_ref().map(FromValue::from_value),
        }
    }
}
impl ToValue for Ts5ddmdme2 {
    fn to_value(&self) -> Value {
        Value::Seq(vec![
            Some(self.f0.to_value()),
            Some(self.f1.to_value()),
            self.f2.as_ref().map(|x| x.to_value()),
            Some(self.f3.to_value()),
            self.f4.as_ref().map(|x| x.to_value()),
        ])
    }
}
impl FromValue for Ts5ddmdme3 {
    fn from_value(v: &Value) -> Self {
        let s = match v { Value::Seq(s) => s, other => panic!("Ts5ddmdme3: expected Seq, got {other:?}") };
        assert_eq!(s.len(), 5, "Ts5ddmdme3: component count");
        let _ = s;
        Ts5ddmdme3 {
            f0: FromValue::from_value(s[0].as_ref().expect("component f0 of Ts5ddmdme3 must be present")),
            f1: FromValue::from_value(s[1].as_ref().expect("component f1 of Ts5ddmdme3 must be present")),
            f2: FromValue::from_value(s[2].as_ref().expect("component f2 of Ts5ddmdme3 must be present")),
            f3: FromValue::from_value(s[3].as_ref().expect("component f3 of Ts5ddmdme3 must be present")),
            f4: s[4].as_ref().map(FromValue::from_value),
        }
    }
}
impl ToValue for Ts5ddmdme3 {
    fn to_value(&self) -> Value {
        Value::Seq(vec![
            Some(self.f0.to_value()),
            Some(self.f1.to_value()),
            Some(self.f2.to_value()),
            Some(self.f3.to_value()),
            self.f4.as_ref().map(|x| x.to_value()),
        ])
    }
}
impl FromValue for Ts5ddmdme4 {
    fn from_value(v: &Value) -> Self {
        let s = match v { Value::Seq(s) => s, other => panic!("Ts5ddmdme4: expected Seq, got {other:?}") };
        assert_eq!(s.len(), 5, "Ts5ddmdme4: component count");
        let _ = s;
        Ts5ddmdme4 {
            f0: FromValue::from_value(s[0].as_ref().expect("component f0 of Ts5ddmdme4 must be present")),
            f1: FromValue::from_value(s[1].as_ref().expect("component f1 of Ts5ddmdme4 must be present")),
            f2: FromValue::from_value(s[2].as_ref().expect("component f2 of Ts5ddmdme4 must be present")),
            f3: FromValue::from_value(s[3].as_ref().expect("component f3 of Ts5ddmdme4 must be present")),
            f4: s[4].as_ref().map(FromValue::from_value),
        }
    }
}
impl ToValue for Ts5ddmdme4 {
    fn to_value(&self) -> Value {
        Value::Seq(vec![
            Some(self.f0.to_value()),
            Some(self.f1.to_value()),
            Some(self.f2.to_value()),
            Some(self.f3.to_value()),
            self.f4.as_ref().map(|x| x.to_value()),
        ])
    }
}
impl FromValue for Ts5ddmdme5 {
    fn from_value(v: &Value) -> Self {
        let s = match v { Value::Seq(s) => s, other => panic!("Ts5ddmdme5: expected Seq, got {other:?}") };
        assert_eq!(s.len(), 5, "Ts5ddmdme5: component count");
        let _ = s;
        Ts5ddmdme5 {
            f0: FromValue::from_value(s[0].as_ref().expect("component f0 of Ts5ddmdme5 must be present")),
            f1: FromValue::from_value(s[1].as_ref().expect("component f1 of Ts5ddmdme5 must be present")),
            f2: FromValue::from_value(s[2].as_ref().expect("component f2 of Ts5ddmdme5 must be present")),
            f3: FromValue::from_value(s[3].as_ref().expect("component f3 of Ts5ddmdme5 must be present")),
            f4: FromValue::from_value(s[4].as_ref().expect("component f4 of Ts5ddmdme5 must be present")),
        }
    }
}
impl ToValue for Ts5ddmdme5 {
    fn to_value(&self) -> Value {
        Value::Seq(vec![
            Some(self.f0.to_value()),
            Some(self.f1.to_value()),
            Some(self.f2.to_value()),
            Some(self.f3.to_value()),
            Some(self.f4.to_value()),
        ])
    }
}
impl FromValue for Ts5mmodmn {
    fn from_value(v: &Value) -> Self {
        let s = match v { Value::Seq(s) => s, other => panic!("Ts5mmodmn: expected Seq, got {other:?}") };
        assert_eq!(s.len(), 5, "Ts5mmodmn: component count");
        let _ = s;
        Ts5mmodmn {
            f0: FromValue::from_value(s[0].as_ref().expect("component f0 of Ts5mmodmn must be present")),
            f1: FromValue::from_value(s[1].as_ref().expect("component f1 of Ts5mmodmn must be present")),
            f2: s[2].as_ref().map(FromValue::from_value),
            f3: FromValue::from_value(s[3].as_ref().expect("component f3 of Ts5mmodmn must be present")),
            f4: FromValue::from_value(s[4].as_ref().expect("component f4 of Ts5mmodmn must be present")),
        }
    }
}
impl ToValue for Ts5mmodmn {
    fn to_value(&self) -> Value {
        Value::Seq(vec![
            Some(self.f0.to_value()),
            Some(self.f1.to_value()),
            self.f2.as_ref().map(|x| x.to_value()),
            Some(self.f3.to_value()),
            Some(self.f4.to_value()),
        ])
    }
}
impl FromValue for Ts5mmodme0 {
    fn from_value(v: &Value) -> Self {
        let s = match v { Value::Seq(s) => s, other => panic!("Ts5mmodme0: expected Seq, got {other:?}") };
        assert_eq!(s.len(), 5, "Ts5mmodme0: component count");
        let _ = s;
        Ts5mmodme0 {
            f0: FromValue::from_value(s[0].as_ref().expect("component f0 of Ts5mmodme0 must be present")),
            f1: s[1].as_ref().map(FromValue::from_value),
            f2: s[2].as_ref().map(FromValue::from_value),
            f3: FromValue::from_value(s[3].as_ref().expect("component f3 of Ts5mmodme0 must be present")),
            f4: s[4].as_ref().map(FromValue::from_value),
        }
    }
}
impl ToValue for Ts5mmodme0 {
    fn to_value(&self) -> Value {
        Value::Seq(vec![
            Some(self.f0.to_value()),
            self.f1.as_ref().map(|x| x.to_value()),
            self.f2.as_ref().map(|x| x.to_value()),
            Some(self.f3.to_value()),
            self.f4.as_ref().map(|x| x.to_value()),
        ])
    }
}
impl FromValue for Ts5mmodme1 {
    fn from_value(v: &Value) -> Self {
        let s = match v { Value::Seq(s) => s, other => panic!("Ts5mmodme1: expected Seq, got {other:?}") };
        assert_eq!(s.len(), 5, "Ts5mmodme1: component count");
        let _ = s;
        Ts5mmodme1 {
            f0: FromValue::from_value(s[0].as_ref().expect("component f0 of Ts5mmodme1 must be present")),
            f1: s[1].as_ref().map(FromValue::from_value),
            f2: s[2].as_ref().map(FromValue::from_value),
            f3: FromValue::from_value(s[3].as_ref().expect("component f3 of Ts5mmodme1 must be present")),
            f4: s[4].as_ref().map(FromValue::from_value),
        }
    }
}
impl ToValue for Ts5mmodme1 {
    fn to_value(&self) -> Value {
        Value::Seq(vec![
            Some(self.f0.to_value()),
            self.f1.as_ref().map(|x| x.to_value()),
            self.f2.as_ref().map(|x| x.to_value()),
            Some(self.f3.to_value()),
            self.f4.as_ref().map(|x| x.to_value()),
        ])
    }
}
impl FromValue for Ts5mmodme2 {
    fn from_value(v: &Value) -> Self {
        let s = match v { Value::Seq(s) => s, other => panic!("Ts5mmodme2: expected Seq, got {other:?}") };
        assert_eq!(s.len(), 5, "Ts5mmodme2: component count");
        let _ = s;
        Ts5mmodme2 {
            f0: FromValue::from_value(s[0].as_ref().expect("component f0 of Ts5mmodme2 must be present")),
            f1: FromValue::from_value(s[1].as_ref().expect("component f1 of Ts5mmodme2 must be present")),
            f2: s[2].as_ref().map(FromValue::from_value),
            f3: FromValue::from_value(s[3].as_ref().expect("component f3 of Ts5mmodme2 must be present")),
            f4: s[4].as_ref().map(FromValue::from_value),
        }
    }
}
impl ToValue for Ts5mmodme2 {
    fn to_value(&self) -> Value {
        Value::Seq(vec![
            Some(self.f0.to_value()),
            Some(self.f1.to_value()),
            self.f2.as_ref().map(|x| x.to_value()),
            Some(self.f3.to_value()),
            self.f4.as_ref().map(|x| x.to_value()),
        ])
    }
}
impl FromValue for Ts5mmodme3 {
    fn from_value(v: &Value) -> Self {
        let s = match v { Value::Seq(s) => s, other => panic!("Ts5mmodme3: expected Seq, got {other:?}") };
        assert_eq!(s.len(), 5, "Ts5mmodme3: component count");
        let _ = s;
        Ts5mmodme3 {
            f0: FromValue::from_value(s[0].as_ref().expect("component f0 of Ts5mmodme3 must be present")),
            f1: FromValue::from_value(s[1].as_ref().expect("component f1 of Ts5mmodme3 must be present")),
            f2: s[2].as_ref().map(FromValue::from_value),
            f3: FromValue::from_value(s[3].as_ref().expect("component f3 of Ts5mmodme3 must be present")),
            f4: s[4].as_ref().map(FromValue::from_value),
        }
    }
}
impl ToValue for Ts5mmodme3 {
    fn to_value(&self) -> Value {
        Value::Seq(vec![
            Some(self.f0.to_value()),
            Some(self.f1.to_value()),
            self.f2.as_ref().map(|x| x.to_value()),
            Some(self.f3.to_value()),
            self.f4.as_ref().map(|x| x.to_value()),
        ])
    }
}
impl FromValue for Ts5mmodme4 {
    fn from_value(v: &Value) -> Self {
        let s = match v { Value::Seq(s) => s, other => panic!("Ts5mmodme4: expected Seq, got {other:?}") };
        assert_eq!(s.len(), 5, "Ts5mmodme4: component count");
        let _ = s;
        Ts5mmodme4 {
            f0: FromValue::from_value(s[0].as_ref().expect("component f0 of Ts5mmodme4 must be present")),
            f1: FromValue::from_value(s[1].as_ref().expect("component f1 of Ts5mmodme4 must be present")),
            f2: s[2].as_ref().map(FromValue::from_value),
            f3: FromValue::from_value(s[3].as_ref().expect("component f3 of Ts5mmodme4 must be present")),
            f4: s[4].as_ref().map(FromValue::from_value),
        }
    }
}
impl ToValue for Ts5mmodme4 {
    fn to_value(&self) -> Value {
        Value::Seq(vec![
            Some(self.f0.to_value()),
            Some(self.f1.to_value()),
            self.f2.as_ref().map(|x| x.to_value()),
            Some(self.f3.to_value()),
            self.f4.as_ref().map(|x| x.to_value()),
        ])
    }
}
impl FromValue for Ts5mmodme5 {
    fn from_value(v: &Value) -> Self {
        let s = match v { Value::Seq(s) => s, other => panic!("Ts5mmodme5: expected Seq, got {other:?}") };
        assert_eq!(s.len(), 5, "Ts5mmodme5: component count");
        let _ = s;
        Ts5mmodme5 {
            f0: FromValue::from_value(s[0].as_ref().expect("component f0 of Ts5mmodme5 must be present")),
            f1: FromValue::from_value(s[1].as_ref().expect("component f1 of Ts5mmodme5 must be present")),
            f2: s[2].as_ref().map(FromValue::from_value),
            f3: FromValue::from_value(s[3].as_ref().expect("component f3 of Ts5mmodme5 must be present")),
            f4: FromValue::from_value(s[4].as_ref().expect("component f4 of Ts5mmodme5 must be present")),
        }
    }
}
impl ToValue for Ts5mmodme5 {
    fn to_value(&self) -> Value {
        Value::Seq(vec![
            Some(self.f0.to_value()),
            Some(self.f1.to_value()),
            self.f2.as_ref().map(|x| x.to_value()),
            Some(self.f3.to_value()),
            Some(self.f4.to_value()),
        ])
    }
}
impl FromValue for Ts5omodmn {
    fn from_value(v: &Value) -> Self {
        let s = match v { Value::Seq(s) => s, other => panic!("Ts5omodmn: expected Seq, got {other:?}") };
        assert_eq!(s.len(), 5, "Ts5omodmn: component count");
        let _ = s;
        Ts5omodmn {
            f0: s[0].as_ref().map(FromValue::from_value),
            f1: FromValue::from_value(s[1].as_ref().expect("component f1 of Ts5omodmn must be present")),
            f2: s[2].as_ref().map(FromValue::from_value),
            f3: FromValue::from_value(s[3].as_ref().expect("component f3 of Ts5omodmn must be present")),
            f4: FromValue::from_value(s[4].as_ref().expect("component f4 of Ts5omodmn must be present")),
        }
    }
}
impl ToValue for Ts5omodmn {
    fn to_value(&self) -> Value {
        Value::Seq(vec![
            self.f0.as_ref().map(|x| x.to_value()),
            Some(self.f1.to_value()),
            self.f2.as_ref().map(|x| x.to_value()),
            Some(self.f3.to_value()),
            Some(self.f4.to_value()),
        ])
    }
}
impl FromValue for Ts5omodme0 {
    fn from_value(v: &Value) -> Self {
        let s = match v { Value::Seq(s) => s, other => panic!("Ts5omodme0: expected Seq, got {other:?}") };
        assert_eq!(s.len(), 5, "Ts5omodme0: component count");
        let _ = s;
        Ts5omodme0 {
            f0: s[0].as_ref().map(FromValue::from_value),
            f1: s[1].as_ref().map(FromValue::from_value),
            f2: s[2].as_ref().map(FromValue::from_value),
            f3: FromValue::from_value(s[3].as_ref().expect("component f3 of Ts5omodme0 must be present")),
            f4: s[4].as_ref().map(FromValue::from_value),
        }
    }
}
impl ToValue for Ts5omodme0 {
    fn to_value(&self) -> Value {
        Value::Seq(vec![
            self.f0.as_ref().map(|x| x.to_value()),
            self.f1.as_ref().map(|x| x.to_value()),
            self.f2.as_ref().map(|x| x.to_value()),
            Some(self.f3.to_value()),
            self.f4.as_ref().map(|x| x.to_value()),
        ])
    }
}
impl FromValue for Ts5omodme1 {
    fn from_value(v: &Value) -> Self {
        let s = match v { Value::Seq(s) => s, other => panic!("Ts5omodme1: expected Seq, got {other:?}") };
        assert_eq!(s.len(), 5, "Ts5omodme1: component count");
        let _ = s;
        Ts5omodme1 {
            f0: s[0].as_ref().map(FromValue::from_value),
            f1: s[1].as_ref().map(FromValue::from_value),
            f2: s[2].as_ref().map(FromValue::from_value),
            f3: FromValue::from_value(s[3].as_ref().expect("component f3 of Ts5omodme1 must be present")),
            f4: s[4].as_ref().map(FromValue::from_value),
        }
    }
}
impl ToValue for Ts5omodme1 {
    fn to_value(&self) -> Value {
        Value::Seq(vec![
            self.f0.as_ref().map(|x| x.to_value()),
            self.f1.as_ref().map(|x| x.to_value()),
            self.f2.as_ref().map(|x| x.to_value()),
            Some(self.f3.to_value()),
            self.f4.as_ref().map(|x| x.to_value()),
        ])
    }
}
impl FromValue for Ts5omodme2 {
    fn from_value(v: &Value) -> Self {
        let s = match v { Value::Seq(s) => s, other => panic!("Ts5omodme2: expected Seq, got {other:?}") };
        assert_eq!(s.len(), 5, "Ts5omodme2: component count");
        let _ = s;
        Ts5omodme2 {
            f0: s[0].as_ref().map(FromValue::from_value),
            f1: FromValue::from_value(s[1].as_ref().expect("component f1 of Ts5omodme2 must be present")),
            f2: s[2].as_ref().map(FromValue::from_value),
            f3: FromValue::from_value(s[3].as_ref().expect("component f3 of Ts5omodme2 must be present")),
            f4: s[4].as_ref().map(FromValue::from_value),
        }
    }
}
impl ToValue for Ts5omodme2 {
    fn to_value(&self) -> Value {
        Value::Seq(vec![
            self.f0.as_ref().map(|x| x.to_value()),
            Some(self.f1.to_value()),
            self.f2.as_ref().map(|x| x.to_value()),
            Some(self.f3.to_value()),
            self.f4.as_ref().map(|x| x.to_value()),
        ])
    }
}
impl FromValue for Ts5omodme3 {
    fn from_value(v: &Value) -> Self {
        let s = match v { Value::Seq(s) => s, other => panic!("Ts5omodme3: expected Seq, got {other:?}") };
        assert_eq!(s.len(), 5, "Ts5omodme3: component count");
        let _ = s;
        Ts5omodme3 {
            f0: s[0].as_ref().map(FromValue::from_value),
            f1: FromValue::from_value(s[1].as_ref().expect("component f1 of Ts5omodme3 must be present")),
            f2: s[2].as_ref().map(FromValue::from_value),
            f3: FromValue::from_value(s[3].as_ref().expect("component f3 of Ts5omodme3 must be present")),
            f4: s[4].as_ref().map(FromValue::from_value),
        }
    }
}
impl ToValue for Ts5omodme3 {
    fn to_value(&self) -> Value {
        Value::Seq(vec![
            self.f0.as_ref().map(|x| x.to_value()),
            Some(self.f1.to_value()),
            self.f2.as_ref().map(|x| x.to_value()),
            Some(self.f3.to_value()),
            self.f4.as_ref().map(|x| x.to_value()),
        ])
    }
}
impl FromValue for Ts5omodme4 {
    fn from_value(v: &Value) -> Self {
        let s = match v { Value::Seq(s) => s, other => panic!("Ts5omodme4: expected Seq, got {other:?}") };
        assert_eq!(s.len(), 5, "Ts5omodme4: component count");
        let _ = s;
        Ts5omodme4 {
            f0: s[0].as_ref().map(FromValue::from_value),
            f1: FromValue::from_value(s[1].as_ref().expect("component f1 of Ts5omodme4 must be present")),
            f2: s[2].as_ref().map(FromValue::from_value),
            f3: FromValue::from_value(s[3].as_ref().expect("component f3 of Ts5omodme4 must be present")),
            f4: s[4].as_ref().map(FromValue::from_value),
        }
    }
}
impl ToValue for Ts5omodme4 {
    fn to_value(&self) -> Value {
        Value::Seq(vec![
            self.f0.as_ref().map(|x| x.to_value()),
            Some(self.f1.to_value()),
            self.f2.as_ref().map(|x| x.to_value()),
            Some(self.f3.to_value()),
            self.f4.as_ref().map(|x| x.to_value()),
        ])
    }
}
impl FromValue for Ts5omodme5 {
    fn from_value(v: &Value) -> Self {
        let s = match v { Value::Seq(s) => s, other => panic!("Ts5omodme5: expected Seq, got {other:?}") };
        assert_eq!(s.len(), 5, "Ts5omodme5: component count");
        let _ = s;
        Ts5omodme5 {
            f0: s[0].as_ref().map(FromValue::from_value),
            f1: FromValue::from_value(s[1].as_ref().expect("component f1 of Ts5omodme5 must be present")),
            f2: s[2].as_ref().map(FromValue::from_value),
            f3: FromValue::from_value(s[3].as_ref().expect("component f3 of Ts5omodme5 must be present")),
            f4: FromValue::from_value(s[4].as_ref().expect("component f4 of Ts5omodme5 must be present")),
        }
    }
}
impl ToValue for Ts5omodme5 {
    fn to_value(&self) -> Value {
        Value::Seq(vec![
            self.f0.as_ref().map(|x| x.to_value()),
            Some(self.f1.to_value()),
            self.f2.as_ref().map(|x| x.to_value()),
            Some(self.f3.to_value()),
            Some(self.f4.to_value()),
        ])
    }
}
impl FromValue for Ts5dmodmn {
    fn from_value(v: &Value) -> Self {
        let s = match v { Value::Seq(s) => s, other => panic!("Ts5dmodmn: expected Seq, got {other:?}") };
        assert_eq!(s.len(), 5, "Ts5dmodmn: component count");
        let _ = s;
        Ts5dmodmn {
            f0: FromValue::from_value(s[0].as_ref().expect("component f0 of Ts5dmodmn must be present")),
            f1: FromValue::from_value(s[1].as_ref().expect("component f1 of Ts5dmodmn must be present")),
            f2: s[2].as_ref().map(FromValue::from_value),
            f3: FromValue::from_value(s[3].as_ref().expect("component f3 of Ts5dmodmn must be present")),
            f4: FromValue::from_value(s[4].as_ref().expect("component f4 of Ts5dmodmn must be present")),
        }
    }
}
impl ToValue for Ts5dmodmn {
    fn to_value(&self) -> Value {
        Value::Seq(vec![
            Some(self.f0.to_value()),
            Some(self.f1.to_value()),
            self.f2.as_ref().map(|x| x.to_value()),
            Some(self.f3.to_value()),
            Some(self.f4.to_value()),
        ])
    }
}
impl FromValue for Ts5dmodme0 {
    fn from_value(v: &Value) -> Self {
        let s = match v { Value::Seq(s) => s, other => panic!("Ts5dmodme0: expected Seq, got {other:?}") };
        assert_eq!(s.len(), 5, "Ts5dmodme0: component count");
        let _ = s;
        Ts5dmodme0 {
            f0: FromValue::from_value(s[0].as_ref().expect("component f0 of Ts5dmodme0 must be present")),
            f1: s[1].as_ref().map(FromValue::from_value),
            f2: s[2].as_ref().map(FromValue::from_value),
            f3: FromValue::from_value(s[3].as_ref().expect("component f3 of Ts5dmodme0 must be present")),
            f4: s[4].as_ref().map(FromValue::from_value),
        }
    }
}
impl ToValue for Ts5dmodme0 {
    fn to_value(&self) -> Value {
        Value::Seq(vec![
            Some(self.f0.to_value()),
            self.f1.as_ref().map(|x| x.to_value()),
            self.f2.as_ref().map(|x| x.to_value()),
            Some(self.f3.to_value()),
            self.f4.as_ref().map(|x| x.to_value()),
        ])
    }
}
impl FromValue for Ts5dmodme1 {
    fn from_value(v: &Value) -> Self {
        let s = match v { Value::Seq(s) => s, other => panic!("Ts5dmodme1: expected Seq, got {other:?}") };
        assert_eq!(s.len(), 5, "Ts5dmodme1: component count");
        let _ = s;
        Ts5dmodme1 {
            f0: FromValue::from_value(s[0].as_ref().expect("component f0 of Ts5dmodme1 must be present")),
            f1: s[1].as_ref().map(FromValue::from_value),
            f2: s[2].as_ref().map(FromValue::from_value),
            f3: FromValue::from_value(s[3].as_ref().expect("component f3 of Ts5dmodme1 must be present")),
            f4: s[4].as_ref().map(FromValue::from_value),
        }
    }
}
impl ToValue for Ts5dmodme1 {
    fn to_value(&self) -> Value {
        Value::Seq(vec![
            Some(self.f0.to_value()),
            self.f1.as_ref().map(|x| x.to_value()),
            self.f2.as_ref().map(|x| x.to_value()),
            Some(self.f3.to_value()),
            self.f4.as_ref().map(|x| x.to_value()),
        ])
    }
}
impl FromValue for Ts5dmodme2 {
    fn from_value(v: &Value) -> Self {
        let s = match v { Value::Seq(s) => s, other => panic!("Ts5dmodme2: expected Seq, got {other:?}") };
        assert_eq!(s.len(), 5, "Ts5dmodme2: component count");
        let _ = s;
        Ts5dmodme2 {
            f0: FromValue::from_value(s[0].as_ref().expect("component f0 of Ts5dmodme2 must be present")),
            f1: FromValue::from_value(s[1].as_ref().expect("component f1 of Ts5dmodme2 must be present")),
            f2: s[2].as_ref().map(FromValue::from_value),
            f3: FromValue::from_value(s[3].as_ref().expect("component f3 of Ts5dmodme2 must be present")),
            f4: s[4].as_ref().map(FromValue::from_value),
        }
    }
}
impl ToValue for Ts5dmodme2 {
    fn to_value(&self) -> Value {
        Value::Seq(vec![
            Some(self.f0.to_value()),
            Some(self.f1.to_value()),
            self.f2.as_ref().map(|x| x.to_value()),
            Some(self.f3.to_value()),
            self.f4.as_ref().map(|x| x.to_value()),
        ])
    }
}
impl FromValue for Ts5dmodme3 {
    fn from_value(v: &Value) -> Self {
        let s = match v { Value::Seq(s) => s, other => panic!("Ts5dmodme3: expected Seq, got {other:?}") };
        assert_eq!(s.len(), 5, "Ts5dmodme3: component count");
        let _ = s;
        Ts5dmodme3 {
            f0: FromValue::from_value(s[0].as_ref().expect("component f0 of Ts5dmodme3 must be present")),
            f1: FromValue::from_value(s[1].as_ref().expect("component f1 of Ts5dmodme3 must be present")),
            f2: s[2].as_ref().map(FromValue::from_value),
            f3: FromValue::from_value(s[3].as_ref().expect("component f3 of Ts5dmodme3 must be present")),
            f4: s[4].as_ref().map(FromValue::from_value),
        }
    }
}
impl ToValue for Ts5dmodme3 {
    fn to_value(&self) -> Value {
        Value::Seq(vec![
            Some(self.f0.to_value()),
            Some(self.f1.to_value()),
            self.f2.as_ref().map(|x| x.to_value()),
            Some(self.f3.to_value()),
            self.f4.as_ref().map(|x| x.to_value()),
        ])
    }
}
impl FromValue for Ts5dmodme4 {
    fn from_value(v: &Value) -> Self {
        let s = match v { Value::Seq(s) => s, other => panic!("Ts5dmodme4: expected Seq, got {other:?}") };
        assert_eq!(s.len(), 5, "Ts5dmodme4: component count");
        let _ = s;
        Ts5dmodme4 {
            f0: FromValue::from_value(s[0].as_ref().expect("component f0 of Ts5dmodme4 must be present")),
            f1: FromValue::from_value(s[1].as_ref().expect("component f1 of Ts5dmodme4 must be present")),
            f2: s[2].as_ref().map(FromValue::from_value),
            f3: FromValue::from_value(s[3].as_ref().expect("component f3 of Ts5dmodme4 must be present")),
            f4: s[4].as_ref().map(FromValue::from_value),
        }
    }
}
impl ToValue for Ts5dmodme4 {
    fn to_value(&self) -> Value {
        Value::Seq(vec![
            Some(self.f0.to_value()),
            Some(self.f1.to_value()),
            self.f2.as_ref().map(|x| x.to_value()),
            Some(self.f3.to_value()),
            self.f4.as_ref().map(|x| x.to_value()),
        ])
    }
}
impl FromValue for Ts5dmodme5 {
    fn from_value(v: &Value) -> Self {
        let s = match v { Value::Seq(s) => s, other => panic!("Ts5dmodme5: expected Seq, got {other:?}") };
        assert_eq!(s.len(), 5, "Ts5dmodme5: component count");
        let _ = s;
        Ts5dmodme5 {
            f0: FromValue::from_value(s[0].as_ref().expect("component f0 of Ts5dmodme5 must be present")),
            f1: FromValue::from_value(s[1].as_ref().expect("component f1 of Ts5dmodme5 must be present")),
            f2: s[2].as_ref().map(FromValue::from_value),
            f3: FromValue::from_value(s[3].as_ref().expect("component f3 of Ts5dmodme5 must be present")),
            f4: FromValue::from_value(s[4].as_ref().expect("component f4 of Ts5dmodme5 must be present")),
        }
    }
}
impl ToValue for Ts5dmodme5 {
    fn to_value(&self) -> Value {
        Value::Seq(vec![
            Some(self.f0.to_value()),
            Some(self.f1.to_value()),
            self.f2.as_ref().map(|x| x.to_value()),
            Some(self.f3.to_value()),
            Some(self.f4.to_value()),
        ])
    }
}
impl FromValue for Ts5moodmn {
    fn from_value(v: &Value) -> Self {
        let s = match v { Value::Seq(s) => s, other => panic!("Ts5moodmn: expected Seq, got {other:?}") };
        assert_eq!(s.len(), 5, "Ts5moodmn: component count");
        let _ = s;
        Ts5moodmn {
            f0: FromValue::from_value(s[0].as_ref().expect("component f0 of Ts5moodmn must be present")),
            f1: s[1].as_ref().map(FromValue::from_value),
            f2: s[2].as_ref().map(FromValue::from_value),
            f3: FromValue::from_value(s[3].as_ref().expect("component f3 of Ts5moodmn must be present")),
            f4: FromValue::from_value(s[4].as_ref().expect("component f4 of Ts5moodmn must be present")),
        }
    }
}
impl ToValue for Ts5moodmn {
    fn to_value(&self) -> Value {
        Value::Seq(vec![
            Some(self.f0.to_value()),
            self.f1.as_ref().map(|x| x.to_value()),
            self.f2.as_ref().map(|x| x.to_value()),
            Some(self.f3.to_value()),
            Some(self.f4.to_value()),
        ])
    }
}
impl FromValue for Ts5moodme0 {
    fn from_value(v: &Value) -> Self {
        let s = match v { Value::Seq(s) => s, other => panic!("Ts5moodme0: expected Seq, got {other:?}") };
        assert_eq!(s.len(), 5, "Ts5moodme0: component count");
        let _ = s;
        Ts5moodme0 {
            f0: FromValue::from_value(s[0].as_ref().expect("component f0 of Ts5moodme0 must be present")),
            f1: s[1].as_ref().map(FromValue::from_value),
            f2: s[2].as_ref().map(FromValue::from_value),
            f3: FromValue::from_value(s[3].as_ref().expect("component f3 of Ts5moodme0 must be present")),
            f4: s[4].as_ref().map(FromValue::from_value),
        }
    }
}
impl ToValue for Ts5moodme0 {
    fn to_value(&self) -> Value {
        Value::Seq(vec![
            Some(self.f0.to_value()),
            self.f1.as_ref().map(|x| x.to_value()),
            self.f2.as_ref().map(|x| x.to_value()),
            Some(self.f3.to_value()),
            self.f4.as_ref().map(|x| x.to_value()),
        ])
    }
}
impl FromValue for Ts5moodme1 {
    fn from_value(v: &Value) -> Self {
        let s = match v { Value::Seq(s) => s, other => panic!("Ts5moodme1: expected Seq, got {other:?}") };
        assert_eq!(s.len(), 5, "Ts5moodme1: component count");
        let _ = s;
        Ts5moodme1 {
            f0: FromValue::from_value(s[0].as_ref().expect("component f0 of Ts5moodme1 must be present")),
            f1: s[1].as_ref().map(FromValue::from_value),
            f2: s[2].as_ref().map(FromValue::from_value),
            f3: FromValue::from_value(s[3].as_ref().expect("component f3 of Ts5moodme1 must be present")),
            f4: s[4].as_ref().map(FromValue::from_value),
        }
    }
}
impl ToValue for Ts5moodme1 {
    fn to_value(&self) -> Value {
        Value::Seq(vec![
            Some(self.f0.to_value()),
            self.f1.as_ref().map(|x| x.to_value()),
            self.f2.as_ref().map(|x| x.to_value()),
            Some(self.f3.to_value()),
            self.f4.as_ref().map(|x| x.to_value()),
        ])
    }
}
impl FromValue for Ts5moodme2 {
    fn from_value(v: &Value) -> Self {
        let s = match v { Value::Seq(s) => s, other => panic!("Ts5moodme2: expected Seq, got {other:?}") };
        assert_eq!(s.len(), 5, "Ts5moodme2: component count");
        let _ = s;
        Ts5moodme2 {
            f0: FromValue::from_value(s[0].as_ref().expect("component f0 of Ts5moodme2 must be present")),
            f1: s[1].as_ref().map(FromValue::from_value),
            f2: s[2].as_ref().map(FromValue::from_value),
            f3: FromValue::from_value(s[3].as_ref().expect("component f3 of Ts5moodme2 must be present")),
            f4: s[4].as_ref().map(FromValue::from_value),
        }
    }
}
impl ToValue for Ts5moodme2 {
    fn to_value(&self) -> Value {
        Value::Seq(vec![
            Some(self.f0.to_value()),
            self.f1.as_ref().map(|x| x.to_value()),
            self.f2.as_ref().map(|x| x.to_value()),
            Some(self.f3.to_value()),
            self.f4.as_ref().map(|x| x.to_value()),
        ])
    }
}
impl FromValue for Ts5moodme3 {
    fn from_value(v: &Value) -> Self {
        let s = match v { Value::Seq(s) => s, other => panic!("Ts5moodme3: expected Seq, got {other:?}") };
        assert_eq!(s.len(), 5, "Ts5moodme3: component count");
        let _ = s;
        Ts5moodme3 {
            f0: FromValue::from_value(s[0].as_ref().expect("component f0 of Ts5moodme3 must be present")),
            f1: s[1].as_ref().map(FromValue::from_value),
            f2: s[2].as_ref().map(FromValue::from_value),
            f3: FromValue::from_value(s[3].as_ref().expect("component f3 of Ts5moodme3 must be present")),
            f4: s[4].as_ref().map(FromValue::from_value),
        }
    }
}
impl ToValue for Ts5moodme3 {
    fn to_value(&self) -> Value {
        Value::Seq(vec![
            Some(self.f0.to_value()),
            self.f1.as_ref().map(|x| x.to_value()),
            self.f2.as_ref().map(|x| x.to_value()),
            Some(self.f3.to_value()),
            self.f4.as_ref().map(|x| x.to_value()),
        ])
    }
}
impl FromValue for Ts5moodme4 {
    fn from_value(v: &Value) -> Self {
        let s = match v { Value::Seq(s) => s, other => panic!("Ts5moodme4: expected Seq, got {other:?}") };
        assert_eq!(s.len(), 5, "Ts5moodme4: component count");
        let _ = s;
        Ts5moodme4 {
            f0: FromValue::from_value(s[0].as_ref().expect("component f0 of Ts5moodme4 must be present")),
            f1: s[1].as_ref().map(FromValue::from_value),
            f2: s[2].as_ref().map(FromValue::from_value),
            f3: FromValue::from_value(s[3].as_ref().expect("component f3 of Ts5moodme4 must be present")),
            f4: s[4].as_ref().map(FromValue::from_value),
        }
    }
}
impl ToValue for Ts5moodme4 {
    fn to_value(&self) -> Value {
        Value::Seq(vec![
            Some(self.f0.to_value()),
            self.f1.as_ref().map(|x| x.to_value()),
            self.f2.as_ref().map(|x| x.to_value()),
            Some(self.f3.to_value()),
            self.f4.as_ref().map(|x| x.to_value()),
        ])
    }
}
impl FromValue for Ts5moodme5 {
    fn from_value(v: &Value) -> Self {
        let s = match v { Value::Seq(s) => s, other => panic!("Ts5moodme5: expected Seq, got {other:?}") };
        assert_eq!(s.len(), 5, "Ts5moodme5: component count");
        let _ = s;
        Ts5moodme5 {
            f0: FromValue::from_value(s[0].as_ref().expect("component f0 of Ts5moodme5 must be present")),
            f1: s[1].as_ref().map(FromValue::from_value),
            f2: s[2].as_ref().map(FromValue::from_value),
            f3: FromValue::from_value(s[3].as_ref().expect("component f3 of Ts5moodme5 must be present")),
            f4: FromValue::from_value(s[4].as_ref().expect("component f4 of Ts5moodme5 must be present")),
        }
    }
}
impl ToValue for Ts5moodme5 {
    fn to_value(&self) -> Value {
        Value::Seq(vec![
            Some(self.f0.to_value()),
            self.f1.as_ref().map(|x| x.to_value()),
            self.f2.as_ref().map(|x| x.to_value()),
            Some(self.f3.to_value()),
            Some(self.f4.to_value()),
        ])
    }
}
impl FromValue for Ts5ooodmn {
    fn from_value(v: &Value) -> Self {
        let s = match v { Value::Seq(s) => s, other => panic!("Ts5ooodmn: expected Seq, got {other:?}") };
        assert_eq!(s.len(), 5, "Ts5ooodmn: component count");
        let _ = s;
        Ts5ooodmn {
            f0: s[0].as_ref().map(FromValue::from_value),
            f1: s[1].as_ref().map(FromValue::from_value),
            f2: s[2].as_ref().map(FromValue::from_value),
            f3: FromValue::from_value(s[3].as_ref().expect("component f3 of Ts5ooodmn must be present")),
            f4: FromValue::from_value(s[4].as_ref().expect("component f4 of Ts5ooodmn must be present")),
        }
    }
}
impl ToValue for Ts5ooodmn {
    fn to_value(&self) -> Value {
        Value::Seq(vec![
            self.f0.as_ref().map(|x| x.to_value()),
            self.f1.as_ref().map(|x| x.to_value()),
            self.f2.as_ref().map(|x| x.to_value()),
            Some(self.f3.to_value()),
            Some(self.f4.to_value()),
        ])
    }
}
impl FromValue for Ts5ooodme0 {
    fn from_value(v: &Value) -> Self {
        let s = match v { Value::Seq(s) => s, other => panic!("Ts5ooodme0: expected Seq, got {other:?}") };
        assert_eq!(s.len(), 5, "Ts5ooodme0: component count");
        let _ = s;
        Ts5ooodme0 {
            f0: s[0].as_ref().map(FromValue::from_value),
            f1: s[1].as_ref().map(FromValue::from_value),
            f2: s[2].as_ref().map(FromValue::from_value),
            f3: FromValue::from_value(s[3].as_ref().expect("component f3 of Ts5ooodme0 must be present")),
            f4: s[4].as_ref().map(FromValue::from_value),
        }
    }
}
impl ToValue for Ts5ooodme0 {
    fn to_value(&self) -> Value {
        Value::Seq(vec![
            self.f0.as_ref().map(|x| x.to_value()),
            self.f1.as_ref().map(|x| x.to_value()),
            self.f2.as_ref().map(|x| x.to_value()),
            Some(self.f3.to_value()),
            self.f4.as_ref().map(|x| x.to_value()),
        ])
    }
}
impl FromValue for Ts5ooodme1 {
    fn from_value(v: &Value) -> Self {
        let s = match v { Value::Seq(s) => s, other => panic!("Ts5ooodme1: expected Seq, got {other:?}") };
        assert_eq!(s.len(), 5, "Ts5ooodme1: component count");
        let _ = s;
        Ts5ooodme1 {
            f0: s[0].as_ref().map(FromValue::from_value),
            f1: s[1].as_ref().map(FromValue::from_value),
            f2: s[2].as_ref().map(FromValue::from_value),
            f3: FromValue::from_value(s[3].as_ref().expect("component f3 of Ts5ooodme1 must be present")),
            f4: s[4].as_ref().map(FromValue::from_value),
        }
    }
}
impl ToValue for Ts5ooodme1 {
    fn to_value(&self) -> Value {
        Value::Seq(vec![
            self.f0.as_ref().map(|x| x.to_value()),
            self.f1.as_ref().map(|x| x.to_value()),
            self.f2.as_ref().map(|x| x.to_value()),
            Some(self.f3.to_value()),
            self.f4.as_ref().map(|x| x.to_value()),
        ])
    }
}
impl FromValue for Ts5ooodme2 {
    fn from_value(v: &Value) -> Self {
        let s = match v { Value::Seq(s) => s, other => panic!("Ts5ooodme2: expected Seq, got {other:?}") };
        assert_eq!(s.len(), 5, "Ts5ooodme2: component count");
        let _ = s;
        Ts5ooodme2 {
            f0: s[0].as_ref().map(FromValue::from_value),
            f1: s[1].as_ref().map(FromValue::from_value),
            f2: s[2].as_ref().map(FromValue::from_value),
            f3: FromValue::from_value(s[3].as_ref().expect("component f3 of Ts5ooodme2 must be present")),
            f4: s[4].as_ref().map(FromValue::from_value),
        }
    }
}
impl ToValue for Ts5ooodme2 {
    fn to_value(&self) -> Value {
        Value::Seq(vec![
            self.f0.as_ref().map(|x| x.to_value()),
            self.f1.as_ref().map(|x| x.to_value()),
            self.f2.as_ref().map(|x| x.to_value()),
            Some(self.f3.to_value()),
            self.f4.as_ref().map(|x| x.to_value()),
        ])
    }
}
impl FromValue for Ts5ooodme3 {
    fn from_value(v: &Value) -> Self {
        let s = match v { Value::Seq(s) => s, other => panic!("Ts5ooodme3: expected Seq, got {other:?}") };
        assert_eq!(s.len(), 5, "Ts5ooodme3: component count");
        let _ = s;
        Ts5ooodme3 {
            f0: s[0].as_ref().map(FromValue::from_value),
            f1: s[1].as_ref().map(FromValue::from_value),
            f2: s[2].as_ref().map(FromValue::from_value),
            f3: FromValue::from_value(s[3].as_ref().expect("component f3 of Ts5ooodme3 must be present")),
            f4: s[4].as_ref().map(FromValue::from_value),
        }
    }
}
impl ToValue for Ts5ooodme3 {
    fn to_value(&self) -> Value {
        Value::Seq(vec![
            self.f0.as_ref().map(|x| x.to_value()),
            self.f1.as_ref().map(|x| x.to_value()),
            self.f2.as_ref().map(|x| x.to_value()),
            Some(self.f3.to_value()),
            self.f4.as_ref().map(|x| x.to_value()),
        ])
    }
}
impl FromValue for Ts5ooodme4 {
    fn from_value(v: &Value) -> Self {
        let s = match v { Value::Seq(s) => s, other => panic!("Ts5ooodme4: expected Seq, got {other:?}") };
        assert_eq!(s.len(), 5, "Ts5ooodme4: component count");
        let _ = s;
        Ts5ooodme4 {
            f0: s[0].as_ref().map(FromValue::from_value),
            f1: s[1].as_ref().map(FromValue::from_value),
            f2: s[2].as_ref().map(FromValue::from_value),
            f3: FromValue::from_value(s[3].as_ref().expect("component f3 of Ts5ooodme4 must be present")),
            f4: s[4].as_ref().map(FromValue::from_value),
        }
    }
}
impl ToValue for Ts5ooodme4 {
    fn to_value(&self) -> Value {
        Value::Seq(vec![
            self.f0.as_ref().map(|x| x.to_value()),
            self.f1.as_ref().map(|x| x.to_value()),
            self.f2.as_ref().map(|x| x.to_value()),
            Some(self.f3.to_value()),
            self.f4.as_ref().map(|x| x.to_value()),
        ])
    }
}
impl FromValue for Ts5ooodme5 {
    fn from_value(v: &Value) -> Self {
        let s = match v { Value::Seq(s) => s, other => panic!("Ts5ooodme5: expected Seq, got {other:?}") };
        assert_eq!(s.len(), 5, "Ts5ooodme5: component count");
        let _ = s;
        Ts5ooodme5 {
            f0: s[0].as_ref().map(FromValue::from_value),
            f1: s[1].as_ref().map(FromValue::from_value),
            f2: s[2].as_ref().map(FromValue::from_value),
            f3: FromValue::from_value(s[3].as_ref().expect("component f3 of Ts5ooodme5 must be present")),
            f4: FromValue::from_value(s[4].as_ref().expect("component f4 of Ts5ooodme5 must be present")),
        }
    }
}
impl ToValue for Ts5ooodme5 {
    fn to_value(&self) -> Value {
        Value::Seq(vec![
            self.f0.as_ref().map(|x| x.to_value()),
            self.f1.as_ref().map(|x| x.to_value()),
            self.f2.as_ref().map(|x| x.to_value()),
            Some(self.f3.to_value()),
            Some(self.f4.to_value()),
        ])
    }
}
impl FromValue for Ts5doodmn {
    fn from_value(v: &Value) -> Self {
        let s = match v { Value::Seq(s) => s, other => panic!("Ts5doodmn: expected Seq, got {other:?}") };
        assert_eq!(s.len(), 5, "Ts5doodmn: component count");
        let _ = s;
        Ts5doodmn {
            f0: FromValue::from_value(s[0].as_ref().expect("component f0 of Ts5doodmn must be present")),
            f1: s[1].as_ref().map(FromValue::from_value),
            f2: s[2].as_ref().map(FromValue::from_value),
            f3: FromValue::from_value(s[3].as_ref().expect("component f3 of Ts5doodmn must be present")),
            f4: FromValue::from_value(s[4].as_ref().expect("component f4 of Ts5doodmn must be present")),
        }
    }
}
impl ToValue for Ts5doodmn {
    fn to_value(&self) -> Value {
        Value::Seq(vec![
            Some(self.f0.to_value()),
            self.f1.as_ref().map(|x| x.to_value()),
            self.f2.as_ref().map(|x| x.to_value()),
            Some(self.f3.to_value()),
            Some(self.f4.to_value()),
        ])
    }
}
impl FromValue for Ts5doodme0 {
    fn from_value(v: &Value) -> Self {
        let s = match v { Value::Seq(s) => s, other => panic!("Ts5doodme0: expected Seq, got {other:?}") };
        assert_eq!(s.len(), 5, "Ts5doodme0: component count");
        let _ = s;
        Ts5doodme0 {
            f0: FromValue::from_value(s[0].as_ref().expect("component f0 of Ts5doodme0 must be present")),
            f1: s[1].as_ref().map(FromValue::from_value),
            f2: s[2].as_ref().map(FromValue::from_value),
            f3: FromValue::from_value(s[3].as_ref().expect("component f3 of Ts5doodme0 must be present")),
            f4: s[4].as_ref().map(FromValue::from_value),
        }
    }
}
impl ToValue for Ts5doodme0 {
    fn to_value(&self) -> Value {
        Value::Seq(vec![
            Some(self.f0.to_value()),
            self.f1.as_ref().map(|x| x.to_value()),
            self.f2.as_ref().map(|x| x.to_value()),
            Some(self.f3.to_value()),
            self.f4.as_ref().map(|x| x.to_value()),
        ])
    }
}
impl FromValue for Ts5doodme1 {
    fn from_value(v: &Value) -> Self {
        let s = match v { Value::Seq(s) => s, other => panic!("Ts5doodme1: expected Seq, got {other:?}") };
        assert_eq!(s.len(), 5, "Ts5doodme1: component count");
        let _ = s;
        Ts5doodme1 {
            f0: FromValue::from_value(s[0].as_ref().expect("component f0 of Ts5doodme1 must be present")),
            f1: s[1].as_ref().map(FromValue::from_value),
            f2: s[2].as_ref().map(FromValue::from_value),
            f3: FromValue::from_value(s[3].as_ref().expect("component f3 of Ts5doodme1 must be present")),
            f4: s[4].as_ref().map(FromValue::from_value),
        }
    }
}
impl ToValue for Ts5doodme1 {
    fn to_value(&self) -> Value {
        Value::Seq(vec![
            Some(self.f0.to_value()),
            self.f1.as_ref().map(|x| x.to_value()),
            self.f2.as_ref().map(|x| x.to_value()),
            Some(self.f3.to_value()),
            self.f4.as_ref().map(|x| x.to_value()),
        ])
    }
}
impl FromValue for Ts5doodme2 {
    fn from_value(v: &Value) -> Self {
        let s = match v { Value::Seq(s) => s, other => panic!("Ts5doodme2: expected Seq, got {other:?}") };
        assert_eq!(s.len(), 5, "Ts5doodme2: component count");
        let _ = s;
        Ts5doodme2 {
            f0: FromValue::from_value(s[0].as_ref().expect("component f0 of Ts5doodme2 must be present")),
            f1: s[1].as_ref().map(FromValue::from_value),
            f2: s[2].as_ref().map(FromValue::from_value),
            f3: FromValue::from_value(s[3].as_ref().expect("component f3 of Ts5doodme2 must be present")),
            f4: s[4].as_ref().map(FromValue::from_value),
        }
    }
}
impl ToValue for Ts5doodme2 {
    fn to_value(&self) -> Value {
        Value::Seq(vec![
            Some(self.f0.to_value()),
            self.f1.as_ref().map(|x| x.to_value()),
            self.f2.as_ref().map(|x| x.to_value()),
            Some(self.f3.to_value()),
            self.f4.as_ref().map(|x| x.to_value()),
        ])
    }
}

use asn1rs::prelude::*;

#[asn(transparent)]

#[derive(Default, Debug, Clone, PartialEq, Hash)]
pub struct Tstiany(#[asn(set_of(integer(0..7)))] pub Vec<u8>);

impl Tstiany {
    pub const fn value_min() -> u8 {
        0
    }

    pub const fn value_max() -> u8 {
        7
    }
}

impl Tstiany {
    pub const fn new(value: Vec<u8>) -> Self {
        Self(value)
    }
}

impl ::core::ops::Deref for Tstiany {
    type Target = Vec<u8>;

    fn deref(&self) -> &Vec<u8> {
        &self.0
    }
}

impl ::core::ops::DerefMut for Tstiany {
    fn deref_mut(&mut self) -> &mut Vec<u8> {
        &mut self.0
    }
}

impl ::core::convert::From<Vec<u8>> for Tstiany {
    fn from(value: Vec<u8>) -> Self {
        Self(value)
    }
}

impl ::core::convert::From<Tstiany> for Vec<u8> {
    fn from(value: Tstiany) -> Self {
        value.0
    }
}

#[asn(transparent)]

#[derive(Default, Debug, Clone, PartialEq, Hash)]
pub struct Tstif1(#[asn(set_of(size(1), integer(0..7)))] pub Vec<u8>);

impl Tstif1 {
    pub const fn value_min() -> u8 {
        0
    }

    pub const fn value_max() -> u8 {
        7
    }
}

impl Tstif1 {
    pub const fn new(value: Vec<u8>) -> Self {
        Self(value)
    }
}

impl ::core::ops::Deref for Tstif1 {
    type Target = Vec<u8>;

    fn deref(&self) -> &Vec<u8> {
        &self.0
    }
}

impl ::core::ops::DerefMut for Tstif1 {
    fn deref_mut(&mut self) -> &mut Vec<u8> {
        &mut self.0
    }
}

impl ::core::convert::From<Vec<u8>> for Tstif1 {
    fn from(value: Vec<u8>) -> Self {
        Self(value)
    }
}

impl ::core::convert::From<Tstif1> for Vec<u8> {
    fn from(value: Tstif1) -> Self {
        value.0
    }
}

#[asn(transparent)]

#[derive(Default, Debug, Clone, PartialEq, Hash)]
pub struct Tstif3(#[asn(set_of(size(3), integer(0..7)))] pub Vec<u8>);

impl Tstif3 {
    pub const fn value_min() -> u8 {
        0
    }

    pub const fn value_max() -> u8 {
        7
    }
}

impl Tstif3 {
    pub const fn new(value: Vec<u8>) -> Self {
        Self(value)
    }
}

impl ::core::ops::Deref for Tstif3 {
    type Target = Vec<u8>;

    fn deref(&self) -> &Vec<u8> {
        &self.0
    }
}

impl ::core::ops::DerefMut for Tstif3 {
    fn deref_mut(&mut self) -> &mut Vec<u8> {
        &mut self.0
    }
}

impl ::core::convert::From<Vec<u8>> for Tstif3 {
    fn from(value: Vec<u8>) -> Self {
        Self(value)
    }
}

impl ::core::convert::From<Tstif3> for Vec<u8> {
    fn from(value: Tstif3) -> Self {
        value.0
    }
}

#[asn(transparent)]

#[derive(Default, Debug, Clone, PartialEq, Hash)]
pub struct Tstif65535(#[asn(set_of(size(65535), integer(0..7)))] pub Vec<u8>);

impl Tstif65535 {
    pub const fn value_min() -> u8 {
        0
    }

    pub const fn value_max() -> u8 {
        7
    }
}

impl Tstif65535 {
    pub const fn new(value: Vec<u8>) -> Self {
        Self(value)
    }
}

impl ::core::ops::Deref for Tstif65535 {
    type Target = Vec<u8>;

    fn deref(&self) -> &Vec<u8> {
        &self.0
    }
}

impl ::core::ops::DerefMut for Tstif65535 {
    fn deref_mut(&mut self) -> &mut Vec<u8> {
        &mut self.0
    }
}

impl ::core::convert::From<Vec<u8>> for Tstif65535 {
    fn from(value: Vec<u8>) -> Self {
        Self(value)
    }
}

impl ::core::convert::From<Tstif65535> for Vec<u8> {
    fn from(value: Tstif65535) -> Self {
        value.0
    }
}

#[asn(transparent)]

#[derive(Default, Debug, Clone, PartialEq, Hash)]
pub struct Tstif65536(#[asn(set_of(size(65536), integer(0..7)))] pub Vec<u8>);

impl Tstif65536 {
    pub const fn value_min() -> u8 {
        0
    }

    pub const fn value_max() -> u8 {
        7
    }
}

impl Tstif65536 {
    pub const fn new(value: Vec<u8>) -> Self {
        Self(value)
    }
}

impl ::core::ops::Deref for Tstif65536 {
    type Target = Vec<u8>;

    fn deref(&self) -> &Vec<u8> {
        &self.0
    }
}

impl ::core::ops::DerefMut for Tstif65536 {
    fn deref_mut(&mut self) -> &mut Vec<u8> {
        &mut self.0
    }
}

impl ::core::convert::From<Vec<u8>> for Tstif65536 {
    fn from(value: Vec<u8>) -> Self {
        Self(value)
    }
}

impl ::core::convert::From<Tstif65536> for Vec<u8> {
    fn from(value: Tstif65536) -> Self {
        value.0
    }
}

#[asn(transparent)]

#[derive(Default, Debug, Clone, PartialEq, Hash)]
pub struct Tstir1to4(#[asn(set_of(size(1..4), integer(0..7)))] pub Vec<u8>);

impl Tstir1to4 {
    pub const fn value_min() -> u8 {
        0
    }

    pub const fn value_max() -> u8 {
        7
    }
}

impl Tstir1to4 {
    pub const fn new(value: Vec<u8>) -> Self {
        Self(value)
    }
}

impl ::core::ops::Deref for Tstir1to4 {
    type Target = Vec<u8>;

    fn deref(&self) -> &Vec<u8> {
        &self.0
    }
}

impl ::core::ops::DerefMut for Tstir1to4 {
    fn deref_mut(&mut self) -> &mut Vec<u8> {
        &mut self.0
    }
}

impl ::core::convert::From<Vec<u8>> for Tstir1to4 {
    fn from(value: Vec<u8>) -> Self {
        Self(value)
    }
}

impl ::core::convert::From<Tstir1to4> for Vec<u8> {
    fn from(value: Tstir1to4) -> Self {
        value.0
    }
}

#[asn(transparent)]

#[derive(Default, Debug, Clone, PartialEq, Hash)]
pub struct Tstir4to6(#[asn(set_of(size(4..6), integer(0..7)))] pub Vec<u8>);

impl Tstir4to6 {
    pub const fn value_min() -> u8 {
        0
    }

    pub const fn value_max() -> u8 {
        7
    }
}

impl Tstir4to6 {
    pub const fn new(value: Vec<u8>) -> Self {
        Self(value)
    }
}

impl ::core::ops::Deref for Tstir4to6 {
    type Target = Vec<u8>;

    fn deref(&self) -> &Vec<u8> {
        &self.0
    }
}

impl ::core::ops::DerefMut for Tstir4to6 {
    fn deref_mut(&mut self) -> &mut Vec<u8> {
        &mut self.0
    }
}

impl ::core::convert::From<Vec<u8>> for Tstir4to6 {
    fn from(value: Vec<u8>) -> Self {
        Self(value)
    }
}

impl ::core::convert::From<Tstir4to6> for Vec<u8> {
    fn from(value: Tstir4to6) -> Self {
        value.0
    }
}

#[asn(transparent)]

#[derive(Default, Debug, Clone, PartialEq, Hash)]
pub struct Tstir1to70000(#[asn(set_of(size(1..70000), integer(0..7)))] pub Vec<u8>);

impl Tstir1to70000 {
    pub const fn value_min() -> u8 {
        0
    }

    pub const fn value_max() -> u8 {
        7
    }
}

impl Tstir1to70000 {
    pub const fn new(value: Vec<u8>) -> Self {
        Self(value)
    }
}

impl ::core::ops::Deref for Tstir1to70000 {
    type Target = Vec<u8>;

    fn deref(&self) -> &Vec<u8> {
        &self.0
    }
}

impl ::core::ops::DerefMut for Tstir1to70000 {
    fn deref_mut(&mut self) -> &mut Vec<u8> {
        &mut self.0
    }
}

impl ::core::convert::From<Vec<u8>> for Tstir1to70000 {
    fn from(value: Vec<u8>) -> Self {
        Self(value)
    }
}

impl ::core::convert::From<Tstir1to70000> for Vec<u8> {
    fn from(value: Tstir1to70000) -> Self {
        value.0
    }
}

#[asn(transparent)]

#[derive(Default, Debug, Clone, PartialEq, Hash)]
pub struct Tstir2tomax(#[asn(set_of(size(2..9223372036854775807), integer(0..7)))] pub Vec<u8>);

impl Tstir2tomax {
    pub const fn value_min() -> u8 {
        0
    }

    pub const fn value_max() -> u8 {
        7
    }
}

impl Tstir2tomax {
    pub const fn new(value: Vec<u8>) -> Self {
        Self(value)
    }
}

impl ::core::ops::Deref for Tstir2tomax {
    type Target = Vec<u8>;

    fn deref(&self) -> &Vec<u8> {
        &self.0
    }
}

impl ::core::ops::DerefMut for Tstir2tomax {
    fn deref_mut(&mut self) -> &mut Vec<u8> {
        &mut self.0
    }
}

impl ::core::convert::From<Vec<u8>> for Tstir2tomax {
    fn from(value: Vec<u8>) -> Self {
        Self(value)
    }
}

impl ::core::convert::From<Tstir2tomax> for Vec<u8> {
    fn from(value: Tstir2tomax) -> Self {
        value.0
    }
}

#[asn(transparent)]

#[derive(Default, Debug, Clone, PartialEq, Hash)]
pub struct Tstif3x(#[asn(set_of(size(3,...), integer(0..7)))] pub Vec<u8>);

impl Tstif3x {
    pub const fn value_min() -> u8 {
        0
    }

    pub const fn value_max() -> u8 {
        7
    }
}

impl Tstif3x {
    pub const fn new(value: Vec<u8>) -> Self {
        Self(value)
    }
}

impl ::core::ops::Deref for Tstif3x {
    type Target = Vec<u8>;

    fn deref(&self) -> &Vec<u8> {
        &self.0
    }
}

impl ::core::ops::DerefMut for Tstif3x {
    fn deref_mut(&mut self) -> &mut Vec<u8> {
        &mut self.0
    }
}

impl ::core::convert::From<Vec<u8>> for Tstif3x {
    fn from(value: Vec<u8>) -> Self {
        Self(value)
    }
}

impl ::core::convert::From<Tstif3x> for Vec<u8> {
    fn from(value: Tstif3x) -> Self {
        value.0
    }
}

#[asn(transparent)]

#[derive(Default, Debug, Clone, PartialEq, Hash)]
pub struct Tstir1to4x(#[asn(set_of(size(1..4,...), integer(0..7)))] pub Vec<u8>);

impl Tstir1to4x {
    pub const fn value_min() -> u8 {
        0
    }

    pub const fn value_max() -> u8 {
        7
    }
}

impl Tstir1to4x {
    pub const fn new(value: Vec<u8>) -> Self {
        Self(value)
    }
}

impl ::core::ops::Deref for Tstir1to4x {
    type Target = Vec<u8>;

    fn deref(&self) -> &Vec<u8> {
        &self.0
    }
}

impl ::core::ops::DerefMut for Tstir1to4x {
    fn deref_mut(&mut self) -> &mut Vec<u8> {
        &mut self.0
    }
}

impl ::core::convert::From<Vec<u8>> for Tstir1to4x {
    fn from(value: Vec<u8>) -> Self {
        Self(value)
    }
}

impl ::core::convert::From<Tstir1to4x> for Vec<u8> {
    fn from(value: Tstir1to4x) -> Self {
        value.0
    }
}
// ---- harness conversions (generated by the zoo build script from the items above) ----
impl FromValue for Tstiany { fn from_value(v: &Value) -> Self { Tstiany(FromValue::from_value(v)) } }
impl ToValue for Tstiany { fn to_value(&self) -> Value { self.0.to_value() } }
impl FromValue for Tstif1 { fn from_value(v: &Value) -> Self { Tstif1(FromValue::from_value(v)) } }
impl ToValue for Tstif1 { fn to_value(&self) -> Value { self.0.to_value() } }
impl FromValue for Tstif3 { fn from_value(v: &Value) -> Self { Tstif3(FromValue::from_value(v)) } }
impl ToValue for Tstif3 { fn to_value(&self) -> Value { self.0.to_value() } }
impl FromValue for Tstif65535 { fn from_value(v: &Value) -> Self { Tstif65535(FromValue::from_value(v)) } }
impl ToValue for Tstif65535 { fn to_value(&self) -> Value { self.0.to_value() } }
impl FromValue for Tstif65536 { fn from_value(v: &Value) -> Self { Tstif65536(FromValue::from_value(v)) } }
impl ToValue for Tstif65536 { fn to_value(&self) -> Value { self.0.to_value() } }
impl FromValue for Tstir1to4 { fn from_value(v: &Value) -> Self { Tstir1to4(FromValue::from_value(v)) } }
impl ToValue for Tstir1to4 { fn to_value(&self) -> Value { self.0.to_value() } }
impl FromValue for Tstir4to6 { fn from_value(v: &Value) -> Self { Tstir4to6(FromValue::from_value(v)) } }
impl ToValue for Tstir4to6 { fn to_value(&self) -> Value { self.0.to_value() } }
impl FromValue for Tstir1to70000 { fn from_value(v: &Value) -> Self { Tstir1to70000(FromValue::from_value(v)) } }
impl ToValue for Tstir1to70000 { fn to_value(&self) -> Value { self.0.to_value() } }
impl FromValue for Tstir2tomax { fn from_value(v: &Value) -> Self { Tstir2tomax(FromValue::from_value(v)) } }
impl ToValue for Tstir2tomax { fn to_value(&self) -> Value { self.0.to_value() } }
impl FromValue for Tstif3x { fn from_value(v: &Value) -> Self { Tstif3x(FromValue::from_value(v)) } }
impl ToValue for Tstif3x { fn to_value(&self) -> Value { self.0.to_value() } }
impl FromValue for Tstir1to4x { fn from_value(v: &Value) -> Self { Tstir1to4x(FromValue::from_value(v)) } }
impl ToValue for Tstir1to4x { fn to_value(&self) -> Value { self.0.to_value() } }

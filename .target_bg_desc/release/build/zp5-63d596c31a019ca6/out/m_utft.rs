use asn1rs::prelude::*;

#[asn(transparent)]

#[derive(Default, Debug, Clone, PartialEq, Hash)]
pub struct Tutff0(#[asn(utf8string(size(0)))] pub String);

impl Tutff0 {
}

impl Tutff0 {
    pub const fn new(value: String) -> Self {
        Self(value)
    }
}

impl ::core::ops::Deref for Tutff0 {
    type Target = String;

    fn deref(&self) -> &String {
        &self.0
    }
}

impl ::core::ops::DerefMut for Tutff0 {
    fn deref_mut(&mut self) -> &mut String {
        &mut self.0
    }
}

impl ::core::convert::From<String> for Tutff0 {
    fn from(value: String) -> Self {
        Self(value)
    }
}

impl ::core::convert::From<Tutff0> for String {
    fn from(value: Tutff0) -> Self {
        value.0
    }
}

#[asn(transparent)]

#[derive(Default, Debug, Clone, PartialEq, Hash)]
pub struct Tutff2(#[asn(utf8string(size(2)))] pub String);

impl Tutff2 {
}

impl Tutff2 {
    pub const fn new(value: String) -> Self {
        Self(value)
    }
}

impl ::core::ops::Deref for Tutff2 {
    type Target = String;

    fn deref(&self) -> &String {
        &self.0
    }
}

impl ::core::ops::DerefMut for Tutff2 {
    fn deref_mut(&mut self) -> &mut String {
        &mut self.0
    }
}

impl ::core::convert::From<String> for Tutff2 {
    fn from(value: String) -> Self {
        Self(value)
    }
}

impl ::core::convert::From<Tutff2> for String {
    fn from(value: Tutff2) -> Self {
        value.0
    }
}

#[asn(transparent)]

#[derive(Default, Debug, Clone, PartialEq, Hash)]
pub struct Tutff17(#[asn(utf8string(size(17)))] pub String);

impl Tutff17 {
}

impl Tutff17 {
    pub const fn new(value: String) -> Self {
        Self(value)
    }
}

impl ::core::ops::Deref for Tutff17 {
    type Target = String;

    fn deref(&self) -> &String {
        &self.0
    }
}

impl ::core::ops::DerefMut for Tutff17 {
    fn deref_mut(&mut self) -> &mut String {
        &mut self.0
    }
}

impl ::core::convert::From<String> for Tutff17 {
    fn from(value: String) -> Self {
        Self(value)
    }
}

impl ::core::convert::From<Tutff17> for String {
    fn from(value: Tutff17) -> Self {
        value.0
    }
}

#[asn(transparent)]

#[derive(Default, Debug, Clone, PartialEq, Hash)]
pub struct Tutfr0to1(#[asn(utf8string(size(0..1)))] pub String);

impl Tutfr0to1 {
}

impl Tutfr0to1 {
    pub const fn new(value: String) -> Self {
        Self(value)
    }
}

impl ::core::ops::Deref for Tutfr0to1 {
    type Target = String;

    fn deref(&self) -> &String {
        &self.0
    }
}

impl ::core::ops::DerefMut for Tutfr0to1 {
    fn deref_mut(&mut self) -> &mut String {
        &mut self.0
    }
}

impl ::core::convert::From<String> for Tutfr0to1 {
    fn from(value: String) -> Self {
        Self(value)
    }
}

impl ::core::convert::From<Tutfr0to1> for String {
    fn from(value: Tutfr0to1) -> Self {
        value.0
    }
}

#[asn(transparent)]

#[derive(Default, Debug, Clone, PartialEq, Hash)]
pub struct Tutfr0to255(#[asn(utf8string(size(0..255)))] pub String);

impl Tutfr0to255 {
}

impl Tutfr0to255 {
    pub const fn new(value: String) -> Self {
        Self(value)
    }
}

impl ::core::ops::Deref for Tutfr0to255 {
    type Target = String;

    fn deref(&self) -> &String {
        &self.0
    }
}

impl ::core::ops::DerefMut for Tutfr0to255 {
    fn deref_mut(&mut self) -> &mut String {
        &mut self.0
    }
}

impl ::core::convert::From<String> for Tutfr0to255 {
    fn from(value: String) -> Self {
        Self(value)
    }
}

impl ::core::convert::From<Tutfr0to255> for String {
    fn from(value: Tutfr0to255) -> Self {
        value.0
    }
}

#[asn(transparent)]

#[derive(Default, Debug, Clone, PartialEq, Hash)]
pub struct Tutfr0to256(#[asn(utf8string(size(0..256)))] pub String);

impl Tutfr0to256 {
}

impl Tutfr0to256 {
    pub const fn new(value: String) -> Self {
        Self(value)
    }
}

impl ::core::ops::Deref for Tutfr0to256 {
    type Target = String;

    fn deref(&self) -> &String {
        &self.0
    }
}

impl ::core::ops::DerefMut for Tutfr0to256 {
    fn deref_mut(&mut self) -> &mut String {
        &mut self.0
    }
}

impl ::core::convert::From<String> for Tutfr0to256 {
    fn from(value: String) -> Self {
        Self(value)
    }
}

impl ::core::convert::From<Tutfr0to256> for String {
    fn from(value: Tutfr0to256) -> Self {
        value.0
    }
}

#[asn(transparent)]

#[derive(Default, Debug, Clone, PartialEq, Hash)]
pub struct Tutfr1to65535(#[asn(utf8string(size(1..65535)))] pub String);

impl Tutfr1to65535 {
}

impl Tutfr1to65535 {
    pub const fn new(value: String) -> Self {
        Self(value)
    }
}

impl ::core::ops::Deref for Tutfr1to65535 {
    type Target = String;

    fn deref(&self) -> &String {
        &self.0
    }
}

impl ::core::ops::DerefMut for Tutfr1to65535 {
    fn deref_mut(&mut self) -> &mut String {
        &mut self.0
    }
}

impl ::core::convert::From<String> for Tutfr1to65535 {
    fn from(value: String) -> Self {
        Self(value)
    }
}

impl ::core::convert::From<Tutfr1to65535> for String {
    fn from(value: Tutfr1to65535) -> Self {
        value.0
    }
}

#[asn(transparent)]

#[derive(Default, Debug, Clone, PartialEq, Hash)]
pub struct Tutfr1to65536(#[asn(utf8string(size(1..65536)))] pub String);

impl Tutfr1to65536 {
}

impl Tutfr1to65536 {
    pub const fn new(value: String) -> Self {
        Self(value)
    }
}

impl ::core::ops::Deref for Tutfr1to65536 {
    type Target = String;

    fn deref(&self) -> &String {
        &self.0
    }
}

impl ::core::ops::DerefMut for Tutfr1to65536 {
    fn deref_mut(&mut self) -> &mut String {
        &mut self.0
    }
}

impl ::core::convert::From<String> for Tutfr1to65536 {
    fn from(value: String) -> Self {
        Self(value)
    }
}

impl ::core::convert::From<Tutfr1to65536> for String {
    fn from(value: Tutfr1to65536) -> Self {
        value.0
    }
}

#[asn(transparent)]

#[derive(Default, Debug, Clone, PartialEq, Hash)]
pub struct Tutfr0to65535x(#[asn(utf8string(size(0..65535,...)))] pub String);

impl Tutfr0to65535x {
}

impl Tutfr0to65535x {
    pub const fn new(value: String) -> Self {
        Self(value)
    }
}

impl ::core::ops::Deref for Tutfr0to65535x {
    type Target = String;

    fn deref(&self) -> &String {
        &self.0
    }
}

impl ::core::ops::DerefMut for Tutfr0to65535x {
    fn deref_mut(&mut self) -> &mut String {
        &mut self.0
    }
}

impl ::core::convert::From<String> for Tutfr0to65535x {
    fn from(value: String) -> Self {
        Self(value)
    }
}

impl ::core::convert::From<Tutfr0to65535x> for String {
    fn from(value: Tutfr0to65535x) -> Self {
        value.0
    }
}
// ---- harness conversions (generated by the zoo build script from the items above) ----
impl FromValue for Tutff0 { fn from_value(v: &Value) -> Self { Tutff0(FromValue::from_value(v)) } }
impl ToValue for Tutff0 { fn to_value(&self) -> Value { self.0.to_value() } }
impl FromValue for Tutff2 { fn from_value(v: &Value) -> Self { Tutff2(FromValue::from_value(v)) } }
impl ToValue for Tutff2 { fn to_value(&self) -> Value { self.0.to_value() } }
impl FromValue for Tutff17 { fn from_value(v: &Value) -> Self { Tutff17(FromValue::from_value(v)) } }
impl ToValue for Tutff17 { fn to_value(&self) -> Value { self.0.to_value() } }
impl FromValue for Tutfr0to1 { fn from_value(v: &Value) -> Self { Tutfr0to1(FromValue::from_value(v)) } }
impl ToValue for Tutfr0to1 { fn to_value(&self) -> Value { self.0.to_value() } }
impl FromValue for Tutfr0to255 { fn from_value(v: &Value) -> Self { Tutfr0to255(FromValue::from_value(v)) } }
impl ToValue for Tutfr0to255 { fn to_value(&self) -> Value { self.0.to_value() } }
impl FromValue for Tutfr0to256 { fn from_value(v: &Value) -> Self { Tutfr0to256(FromValue::from_value(v)) } }
impl ToValue for Tutfr0to256 { fn to_value(&self) -> Value { self.0.to_value() } }
impl FromValue for Tutfr1to65535 { fn from_value(v: &Value) -> Self { Tutfr1to65535(FromValue::from_value(v)) } }
impl ToValue for Tutfr1to65535 { fn to_value(&self) -> Value { self.0.to_value() } }
impl FromValue for Tutfr1to65536 { fn from_value(v: &Value) -> Self { Tutfr1to65536(FromValue::from_value(v)) } }
impl ToValue for Tutfr1to65536 { fn to_value(&self) -> Value { self.0.to_value() } }
impl FromValue for Tutfr0to65535x { fn from_value(v: &Value) -> Self { Tutfr0to65535x(FromValue::from_value(v)) } }
impl ToValue for Tutfr0to65535x { fn to_value(&self) -> Value { self.0.to_value() } }

#[allow(unused_imports, dead_code, non_camel_case_types, clippy::all)]
pub mod m_numq {
    use zoo_core::conv::*;
    include!(concat!(env!("OUT_DIR"), "/m_numq.rs"));
}
#[allow(unused_imports, dead_code, non_camel_case_types, clippy::all)]
pub mod m_sobq {
    use zoo_core::conv::*;
    include!(concat!(env!("OUT_DIR"), "/m_sobq.rs"));
}
#[allow(unused_imports, dead_code, non_camel_case_types, clippy::all)]
pub mod m_shtq1 {
    use zoo_core::conv::*;
    include!(concat!(env!("OUT_DIR"), "/m_shtq1.rs"));
}
#[allow(unused_imports, dead_code, non_camel_case_types, clippy::all)]
pub mod m_c05a1 {
    use zoo_core::conv::*;
    include!(concat!(env!("OUT_DIR"), "/m_c05a1.rs"));
}
#[allow(unused_imports, dead_code, non_camel_case_types, clippy::all)]
pub mod m_c05a4 {
    use zoo_core::conv::*;
    include!(concat!(env!("OUT_DIR"), "/m_c05a4.rs"));
}
#[allow(unused_imports, dead_code, non_camel_case_types, clippy::all)]
pub mod m_c05b3 {
    use zoo_core::conv::*;
    include!(concat!(env!("OUT_DIR"), "/m_c05b3.rs"));
}
#[allow(unused_imports, dead_code, non_camel_case_types, clippy::all)]
pub mod m_c05c3 {
    use zoo_core::conv::*;
    include!(concat!(env!("OUT_DIR"), "/m_c05c3.rs"));
}
#[allow(unused_imports, dead_code, non_camel_case_types, clippy::all)]
pub mod m_c05d3 {
    use zoo_core::conv::*;
    include!(concat!(env!("OUT_DIR"), "/m_c05d3.rs"));
}
#[allow(unused_imports, dead_code, non_camel_case_types, clippy::all)]
pub mod m_c05e3 {
    use zoo_core::conv::*;
    include!(concat!(env!("OUT_DIR"), "/m_c05e3.rs"));
}
#[allow(unused_imports, dead_code, non_camel_case_types, clippy::all)]
pub mod m_c05f1 {
    use zoo_core::conv::*;
    include!(concat!(env!("OUT_DIR"), "/m_c05f1.rs"));
}
#[allow(unused_imports, dead_code, non_camel_case_types, clippy::all)]
pub mod m_c05g1 {
    use zoo_core::conv::*;
    include!(concat!(env!("OUT_DIR"), "/m_c05g1.rs"));
}
#[allow(unused_imports, dead_code, non_camel_case_types, clippy::all)]
pub mod m_c05h1 {
    use zoo_core::conv::*;
    include!(concat!(env!("OUT_DIR"), "/m_c05h1.rs"));
}
#[allow(unused_imports, dead_code, non_camel_case_types, clippy::all)]
pub mod m_c05k3 {
    use zoo_core::conv::*;
    include!(concat!(env!("OUT_DIR"), "/m_c05k3.rs"));
}

pub fn registry() -> Vec<Entry> {
    vec![
        Entry { module_index: 8, order: 0, module_id: "numq", def: "Tnumany", ops: &Ops::<m_numq::Tnumany>(PhantomData) },
        Entry { module_index: 8, order: 1, module_id: "numq", def: "Tnumf1", ops: &Ops::<m_numq::Tnumf1>(PhantomData) },
        Entry { module_index: 8, order: 2, module_id: "numq", def: "Tnumf3", ops: &Ops::<m_numq::Tnumf3>(PhantomData) },
        Entry { module_index: 8, order: 3, module_id: "numq", def: "Tnumr1to4", ops: &Ops::<m_numq::Tnumr1to4>(PhantomData) },
        Entry { module_index: 8, order: 4, module_id: "numq", def: "Tnumr4to6", ops: &Ops::<m_numq::Tnumr4to6>(PhantomData) },
        Entry { module_index: 8, order: 5, module_id: "numq", def: "Tnumr1to70000", ops: &Ops::<m_numq::Tnumr1to70000>(PhantomData) },
        Entry { module_index: 8, order: 6, module_id: "numq", def: "Tnumr2tomax", ops: &Ops::<m_numq::Tnumr2tomax>(PhantomData) },
        Entry { module_index: 8, order: 7, module_id: "numq", def: "Tnumf3x", ops: &Ops::<m_numq::Tnumf3x>(PhantomData) },
        Entry { module_index: 8, order: 8, module_id: "numq", def: "Tnumr1to4x", ops: &Ops::<m_numq::Tnumr1to4x>(PhantomData) },
        Entry { module_index: 16, order: 0, module_id: "sobq", def: "Tsobany", ops: &Ops::<m_sobq::Tsobany>(PhantomData) },
        Entry { module_index: 16, order: 1, module_id: "sobq", def: "Tsobf1", ops: &Ops::<m_sobq::Tsobf1>(PhantomData) },
        Entry { module_index: 16, order: 2, module_id: "sobq", def: "Tsobf3", ops: &Ops::<m_sobq::Tsobf3>(PhantomData) },
        Entry { module_index: 16, order: 3, module_id: "sobq", def: "Tsobr1to4", ops: &Ops::<m_sobq::Tsobr1to4>(PhantomData) },
        Entry { module_index: 16, order: 4, module_id: "sobq", def: "Tsobr4to6", ops: &Ops::<m_sobq::Tsobr4to6>(PhantomData) },
        Entry { module_index: 16, order: 5, module_id: "sobq", def: "Tsobr1to70000", ops: &Ops::<m_sobq::Tsobr1to70000>(PhantomData) },
        Entry { module_index: 16, order: 6, module_id: "sobq", def: "Tsobr2tomax", ops: &Ops::<m_sobq::Tsobr2tomax>(PhantomData) },
        Entry { module_index: 16, order: 7, module_id: "sobq", def: "Tsobf3x", ops: &Ops::<m_sobq::Tsobf3x>(PhantomData) },
        Entry { module_index: 16, order: 8, module_id: "sobq", def: "Tsobr1to4x", ops: &Ops::<m_sobq::Tsobr1to4x>(PhantomData) },
        Entry { module_index: 25, order: 0, module_id: "shtq1", def: "Tt3dooe3", ops: &Ops::<m_shtq1::Tt3dooe3>(PhantomData) },
        Entry { module_index: 25, order: 1, module_id: "shtq1", def: "Tt3mdon", ops: &Ops::<m_shtq1::Tt3mdon>(PhantomData) },
        Entry { module_index: 25, order: 2, module_id: "shtq1", def: "Tt3mdoe0", ops: &Ops::<m_shtq1::Tt3mdoe0>(PhantomData) },
        Entry { module_index: 25, order: 3, module_id: "shtq1", def: "Tt3mdoe1", ops: &Ops::<m_shtq1::Tt3mdoe1>(PhantomData) },
        Entry { module_index: 25, order: 4, module_id: "shtq1", def: "Tt3mdoe2", ops: &Ops::<m_shtq1::Tt3mdoe2>(PhantomData) },
        Entry { module_index: 25, order: 5, module_id: "shtq1", def: "Tt3mdoe3", ops: &Ops::<m_shtq1::Tt3mdoe3>(PhantomData) },
        Entry { module_index: 25, order: 6, module_id: "shtq1", def: "Tt3odon", ops: &Ops::<m_shtq1::Tt3odon>(PhantomData) },
        Entry { module_index: 25, order: 7, module_id: "shtq1", def: "Tt3odoe0", ops: &Ops::<m_shtq1::Tt3odoe0>(PhantomData) },
        Entry { module_index: 25, order: 8, module_id: "shtq1", def: "Tt3odoe1", ops: &Ops::<m_shtq1::Tt3odoe1>(PhantomData) },
        Entry { module_index: 25, order: 9, module_id: "shtq1", def: "Tt3odoe2", ops: &Ops::<m_shtq1::Tt3odoe2>(PhantomData) },
        Entry { module_index: 25, order: 10, module_id: "shtq1", def: "Tt3odoe3", ops: &Ops::<m_shtq1::Tt3odoe3>(PhantomData) },
        Entry { module_index: 25, order: 11, module_id: "shtq1", def: "Tt3ddon", ops: &Ops::<m_shtq1::Tt3ddon>(PhantomData) },
        Entry { module_index: 25, order: 12, module_id: "shtq1", def: "Tt3ddoe0", ops: &Ops::<m_shtq1::Tt3ddoe0>(PhantomData) },
        Entry { module_index: 25, order: 13, module_id: "shtq1", def: "Tt3ddoe1", ops: &Ops::<m_shtq1::Tt3ddoe1>(PhantomData) },
        Entry { module_index: 25, order: 14, module_id: "shtq1", def: "Tt3ddoe2", ops: &Ops::<m_shtq1::Tt3ddoe2>(PhantomData) },
        Entry { module_index: 25, order: 15, module_id: "shtq1", def: "Tt3ddoe3", ops: &Ops::<m_shtq1::Tt3ddoe3>(PhantomData) },
        Entry { module_index: 25, order: 16, module_id: "shtq1", def: "Tt3mmdn", ops: &Ops::<m_shtq1::Tt3mmdn>(PhantomData) },
        Entry { module_index: 25, order: 17, module_id: "shtq1", def: "Tt3mmde0", ops: &Ops::<m_shtq1::Tt3mmde0>(PhantomData) },
        Entry { module_index: 25, order: 18, module_id: "shtq1", def: "Tt3mmde1", ops: &Ops::<m_shtq1::Tt3mmde1>(PhantomData) },
        Entry { module_index: 25, order: 19, module_id: "shtq1", def: "Tt3mmde2", ops: &Ops::<m_shtq1::Tt3mmde2>(PhantomData) },
        Entry { module_index: 25, order: 20, module_id: "shtq1", def: "Tt3mmde3", ops: &Ops::<m_shtq1::Tt3mmde3>(PhantomData) },
        Entry { module_index: 25, order: 21, module_id: "shtq1", def: "Tt3omdn", ops: &Ops::<m_shtq1::Tt3omdn>(PhantomData) },
        Entry { module_index: 25, order: 22, module_id: "shtq1", def: "Tt3omde0", ops: &Ops::<m_shtq1::Tt3omde0>(PhantomData) },
        Entry { module_index: 25, order: 23, module_id: "shtq1", def: "Tt3omde1", ops: &Ops::<m_shtq1::Tt3omde1>(PhantomData) },
        Entry { module_index: 25, order: 24, module_id: "shtq1", def: "Tt3omde2", ops: &Ops::<m_shtq1::Tt3omde2>(PhantomData) },
        Entry { module_index: 25, order: 25, module_id: "shtq1", def: "Tt3omde3", ops: &Ops::<m_shtq1::Tt3omde3>(PhantomData) },
        Entry { module_index: 25, order: 26, module_id: "shtq1", def: "Tt3dmdn", ops: &Ops::<m_shtq1::Tt3dmdn>(PhantomData) },
        Entry { module_index: 25, order: 27, module_id: "shtq1", def: "Tt3dmde0", ops: &Ops::<m_shtq1::Tt3dmde0>(PhantomData) },
        Entry { module_index: 25, order: 28, module_id: "shtq1", def: "Tt3dmde1", ops: &Ops::<m_shtq1::Tt3dmde1>(PhantomData) },
        Entry { module_index: 25, order: 29, module_id: "shtq1", def: "Tt3dmde2", ops: &Ops::<m_shtq1::Tt3dmde2>(PhantomData) },
        Entry { module_index: 25, order: 30, module_id: "shtq1", def: "Tt3dmde3", ops: &Ops::<m_shtq1::Tt3dmde3>(PhantomData) },
        Entry { module_index: 25, order: 31, module_id: "shtq1", def: "Tt3modn", ops: &Ops::<m_shtq1::Tt3modn>(PhantomData) },
        Entry { module_index: 25, order: 32, module_id: "shtq1", def: "Tt3mode0", ops: &Ops::<m_shtq1::Tt3mode0>(PhantomData) },
        Entry { module_index: 25, order: 33, module_id: "shtq1", def: "Tt3mode1", ops: &Ops::<m_shtq1::Tt3mode1>(PhantomData) },
        Entry { module_index: 25, order: 34, module_id: "shtq1", def: "Tt3mode2", ops: &Ops::<m_shtq1::Tt3mode2>(PhantomData) },
        Entry { module_index: 25, order: 35, module_id: "shtq1", def: "Tt3mode3", ops: &Ops::<m_shtq1::Tt3mode3>(PhantomData) },
        Entry { module_index: 25, order: 36, module_id: "shtq1", def: "Tt3oodn", ops: &Ops::<m_shtq1::Tt3oodn>(PhantomData) },
        Entry { module_index: 25, order: 37, module_id: "shtq1", def: "Tt3oode0", ops: &Ops::<m_shtq1::Tt3oode0>(PhantomData) },
        Entry { module_index: 25, order: 38, module_id: "shtq1", def: "Tt3oode1", ops: &Ops::<m_shtq1::Tt3oode1>(PhantomData) },
        Entry { module_index: 25, order: 39, module_id: "shtq1", def: "Tt3oode2", ops: &Ops::<m_shtq1::Tt3oode2>(PhantomData) },
        Entry { module_index: 25, order: 40, module_id: "shtq1", def: "Tt3oode3", ops: &Ops::<m_shtq1::Tt3oode3>(PhantomData) },
        Entry { module_index: 25, order: 41, module_id: "shtq1", def: "Tt3dodn", ops: &Ops::<m_shtq1::Tt3dodn>(PhantomData) },
        Entry { module_index: 25, order: 42, module_id: "shtq1", def: "Tt3dode0", ops: &Ops::<m_shtq1::Tt3dode0>(PhantomData) },
        Entry { module_index: 25, order: 43, module_id: "shtq1", def: "Tt3dode1", ops: &Ops::<m_shtq1::Tt3dode1>(PhantomData) },
        Entry { module_index: 25, order: 44, module_id: "shtq1", def: "Tt3dode2", ops: &Ops::<m_shtq1::Tt3dode2>(PhantomData) },
        Entry { module_index: 25, order: 45, module_id: "shtq1", def: "Tt3dode3", ops: &Ops::<m_shtq1::Tt3dode3>(PhantomData) },
        Entry { module_index: 25, order: 46, module_id: "shtq1", def: "Tt3mddn", ops: &Ops::<m_shtq1::Tt3mddn>(PhantomData) },
        Entry { module_index: 25, order: 47, module_id: "shtq1", def: "Tt3mdde0", ops: &Ops::<m_shtq1::Tt3mdde0>(PhantomData) },
        Entry { module_index: 25, order: 48, module_id: "shtq1", def: "Tt3mdde1", ops: &Ops::<m_shtq1::Tt3mdde1>(PhantomData) },
        Entry { module_index: 25, order: 49, module_id: "shtq1", def: "Tt3mdde2", ops: &Ops::<m_shtq1::Tt3mdde2>(PhantomData) },
        Entry { module_index: 25, order: 50, module_id: "shtq1", def: "Tt3mdde3", ops: &Ops::<m_shtq1::Tt3mdde3>(PhantomData) },
        Entry { module_index: 25, order: 51, module_id: "shtq1", def: "Tt3oddn", ops: &Ops::<m_shtq1::Tt3oddn>(PhantomData) },
        Entry { module_index: 25, order: 52, module_id: "shtq1", def: "Tt3odde0", ops: &Ops::<m_shtq1::Tt3odde0>(PhantomData) },
        Entry { module_index: 25, order: 53, module_id: "shtq1", def: "Tt3odde1", ops: &Ops::<m_shtq1::Tt3odde1>(PhantomData) },
        Entry { module_index: 25, order: 54, module_id: "shtq1", def: "Tt3odde2", ops: &Ops::<m_shtq1::Tt3odde2>(PhantomData) },
        Entry { module_index: 25, order: 55, module_id: "shtq1", def: "Tt3odde3", ops: &Ops::<m_shtq1::Tt3odde3>(PhantomData) },
        Entry { module_index: 25, order: 56, module_id: "shtq1", def: "Tt3dddn", ops: &Ops::<m_shtq1::Tt3dddn>(PhantomData) },
        Entry { module_index: 25, order: 57, module_id: "shtq1", def: "Tt3ddde0", ops: &Ops::<m_shtq1::Tt3ddde0>(PhantomData) },
        Entry { module_index: 25, order: 58, module_id: "shtq1", def: "Tt3ddde1", ops: &Ops::<m_shtq1::Tt3ddde1>(PhantomData) },
        Entry { module_index: 25, order: 59, module_id: "shtq1", def: "Tt3ddde2", ops: &Ops::<m_shtq1::Tt3ddde2>(PhantomData) },
        Entry { module_index: 25, order: 60, module_id: "shtq1", def: "Tt3ddde3", ops: &Ops::<m_shtq1::Tt3ddde3>(PhantomData) },
        Entry { module_index: 55, order: 0, module_id: "c05a1", def: "Tsent", ops: &Ops::<m_c05a1::Tsent>(PhantomData) },
        Entry { module_index: 55, order: 1, module_id: "c05a1", def: "Tmsg", ops: &Ops::<m_c05a1::Tmsg>(PhantomData) },
        Entry { module_index: 58, order: 0, module_id: "c05a4", def: "Tsent", ops: &Ops::<m_c05a4::Tsent>(PhantomData) },
        Entry { module_index: 58, order: 1, module_id: "c05a4", def: "Tmsg", ops: &Ops::<m_c05a4::Tmsg>(PhantomData) },
        Entry { module_index: 66, order: 0, module_id: "c05b3", def: "Tsent", ops: &Ops::<m_c05b3::Tsent>(PhantomData) },
        Entry { module_index: 66, order: 1, module_id: "c05b3", def: "Tmsg", ops: &Ops::<m_c05b3::Tmsg>(PhantomData) },
        Entry { module_index: 75, order: 0, module_id: "c05c3", def: "Tsent", ops: &Ops::<m_c05c3::Tsent>(PhantomData) },
        Entry { module_index: 75, order: 1, module_id: "c05c3", def: "Tmsg", ops: &Ops::<m_c05c3::Tmsg>(PhantomData) },
        Entry { module_index: 80, order: 0, module_id: "c05d3", def: "Tsent", ops: &Ops::<m_c05d3::Tsent>(PhantomData) },
        Entry { module_index: 80, order: 1, module_id: "c05d3", def: "Tmsg", ops: &Ops::<m_c05d3::Tmsg>(PhantomData) },
        Entry { module_index: 85, order: 0, module_id: "c05e3", def: "Tsent", ops: &Ops::<m_c05e3::Tsent>(PhantomData) },
        Entry { module_index: 85, order: 1, module_id: "c05e3", def: "Tmsg", ops: &Ops::<m_c05e3::Tmsg>(PhantomData) },
        Entry { module_index: 88, order: 0, module_id: "c05f1", def: "Tsent", ops: &Ops::<m_c05f1::Tsent>(PhantomData) },
        Entry { module_index: 88, order: 1, module_id: "c05f1", def: "Tinner", ops: &Ops::<m_c05f1::Tinner>(PhantomData) },
        Entry { module_index: 88, order: 2, module_id: "c05f1", def: "Tmsg", ops: &Ops::<m_c05f1::Tmsg>(PhantomData) },
        Entry { module_index: 93, order: 0, module_id: "c05g1", def: "Tsent", ops: &Ops::<m_c05g1::Tsent>(PhantomData) },
        Entry { module_index: 93, order: 1, module_id: "c05g1", def: "Tinner", ops: &Ops::<m_c05g1::Tinner>(PhantomData) },
        Entry { module_index: 93, order: 2, module_id: "c05g1", def: "Tmsg", ops: &Ops::<m_c05g1::Tmsg>(PhantomData) },
        Entry { module_index: 97, order: 0, module_id: "c05h1", def: "Tsent", ops: &Ops::<m_c05h1::Tsent>(PhantomData) },
        Entry { module_index: 97, order: 1, module_id: "c05h1", def: "Tinner", ops: &Ops::<m_c05h1::Tinner>(PhantomData) },
        Entry { module_index: 97, order: 2, module_id: "c05h1", def: "Tmsg", ops: &Ops::<m_c05h1::Tmsg>(PhantomData) },
        Entry { module_index: 103, order: 0, module_id: "c05k3", def: "Tsent", ops: &Ops::<m_c05k3::Tsent>(PhantomData) },
        Entry { module_index: 103, order: 1, module_id: "c05k3", def: "Tmsg", ops: &Ops::<m_c05k3::Tmsg>(PhantomData) },
    ]
}
pub const ZOO_TYPES: usize = 102;
pub const ZOO_REJECTED_JSON: &str = "[]";

use asn1rs::prelude::*;

#[asn(transparent, tag(APPLICATION(9)))]

#[derive(Default, Debug, Clone, PartialEq, Hash)]
pub struct Tapp9(#[asn(integer(0..3))] pub u8);

impl Tapp9 {
    pub const fn value_min() -> u8 {
        0
    }

    pub const fn value_max() -> u8 {
        3
    }
}

impl Tapp9 {
    pub const fn new(value: u8) -> Self {
        Self(value)
    }
}

impl ::core::ops::Deref for Tapp9 {
    type Target = u8;

    fn deref(&self) -> &u8 {
        &self.0
    }
}

impl ::core::ops::DerefMut for Tapp9 {
    fn deref_mut(&mut self) -> &mut u8 {
        &mut self.0
    }
}

impl ::core::convert::From<u8> for Tapp9 {
    fn from(value: u8) -> Self {
        Self(value)
    }
}

impl ::core::convert::From<Tapp9> for u8 {
    fn from(value: Tapp9) -> Self {
        value.0
    }
}

#[asn(sequence)]

#[derive(Default, Debug, Clone, PartialEq, Hash)]
pub struct Tsq {
    #[asn(boolean)] pub z: bool,
}

impl Tsq {
}

#[asn(choice)]

#[derive(Debug, Clone, PartialEq, Hash)]
pub enum Tcho {
    #[asn(boolean, tag(4))] M(bool),
    #[asn(integer(0..7), tag(1))] N(u8),
}

impl Tcho {
    pub fn variants() -> [Self; 2] {
        [
        Tcho::M(Default::default()),
        Tcho::N(Default::default()),
        ]
    }

    pub fn value_index(&self) -> usize {
        match self {
            Tcho::M(_) => 0,
            Tcho::N(_) => 1,
        }
    }

    pub const fn n_min() -> u8 {
        0
    }

    pub const fn n_max() -> u8 {
        7
    }
}

impl Default for Tcho {
    fn default() -> Tcho {
        Tcho::M(Default::default())
    }
}

#[asn(set)]

#[derive(Default, Debug, Clone, PartialEq, Hash)]
pub struct Tst {
    #[asn(boolean)] pub z: bool,
}

impl Tst {
}

#[asn(set)]

#[derive(Default, Debug, Clone, PartialEq, Hash)]
pub struct Ttp8p12 {
    #[asn(complex(Tsq, tag(UNIVERSAL(16))))] pub rs: Tsq,
    #[asn(set_of(size(0..2), boolean))] pub st: Vec<bool>,
}

impl Ttp8p12 {
}

#[asn(set)]

#[derive(Default, Debug, Clone, PartialEq, Hash)]
pub struct Ttp9p0 {
    #[asn(optional(complex(Tcho, tag(1))))] pub rc: Option<Tcho>,
    #[asn(integer(0..7), tag(UNIVERSAL(30)))] pub x: u8,
}

impl Ttp9p0 {
    pub const fn x_min() -> u8 {
        0
    }

    pub const fn x_max() -> u8 {
        7
    }
}

#[asn(set)]

#[derive(Default, Debug, Clone, PartialEq, Hash)]
pub struct Ttp9p1 {
    #[asn(optional(complex(Tcho, tag(1))))] pub rc: Option<Tcho>,
    #[asn(optional(integer(0..15)), tag(APPLICATION(1)))] pub a: Option<u8>,
}

impl Ttp9p1 {
    pub const fn a_min() -> u8 {
        0
    }

    pub const fn a_max() -> u8 {
        15
    }
}

#[asn(set)]

#[derive(Default, Debug, Clone, PartialEq, Hash)]
pub struct Ttp9p2 {
    #[asn(optional(complex(Tcho, tag(1))))] pub rc: Option<Tcho>,
    #[asn(integer(0..31), tag(3))] pub c3: u8,
}

impl Ttp9p2 {
    pub const fn c3_min() -> u8 {
        0
    }

    pub const fn c3_max() -> u8 {
        31
    }
}

#[asn(set)]

#[derive(Default, Debug, Clone, PartialEq, Hash)]
pub struct Ttp9p3 {
    #[asn(optional(complex(Tcho, tag(1))))] pub rc: Option<Tcho>,
    #[asn(optional(integer(0..63)), tag(0))] pub c0: Option<u8>,
}

impl Ttp9p3 {
    pub const fn c0_min() -> u8 {
        0
    }

    pub const fn c0_max() -> u8 {
        63
    }
}

#[asn(set)]

#[derive(Default, Debug, Clone, PartialEq, Hash)]
pub struct Ttp9p4 {
    #[asn(optional(complex(Tcho, tag(1))))] pub rc: Option<Tcho>,
    #[asn(integer(0..127), tag(PRIVATE(2)))] pub p: u8,
}

impl Ttp9p4 {
    pub const fn p_min() -> u8 {
        0
    }

    pub const fn p_max() -> u8 {
        127
    }
}

#[asn(set)]

#[derive(Default, Debug, Clone, PartialEq, Hash)]
pub struct Ttp9p5 {
    #[asn(optional(complex(Tcho, tag(1))))] pub rc: Option<Tcho>,
    #[asn(optional(boolean))] pub b: Option<bool>,
}

impl Ttp9p5 {
}

#[asn(set)]

#[derive(Default, Debug, Clone, PartialEq, Hash)]
pub struct Ttp9p6 {
    #[asn(optional(complex(Tcho, tag(1))))] pub rc: Option<Tcho>,
    #[asn(integer(0..255))] pub i: u8,
}

impl Ttp9p6 {
    pub const fn i_min() -> u8 {
        0
    }

    pub const fn i_max() -> u8 {
        255
    }
}

#[asn(set)]

#[derive(Default, Debug, Clone, PartialEq, Hash)]
pub struct Ttp9p7 {
    #[asn(optional(complex(Tcho, tag(1))))] pub rc: Option<Tcho>,
    #[asn(optional(complex(Tapp9, tag(APPLICATION(9)))))] pub ra: Option<Tapp9>,
}

impl Ttp9p7 {
}

#[asn(set)]

#[derive(Default, Debug, Clone, PartialEq, Hash)]
pub struct Ttp9p8 {
    #[asn(optional(complex(Tcho, tag(1))))] pub rc: Option<Tcho>,
    #[asn(complex(Tsq, tag(UNIVERSAL(16))))] pub rs: Tsq,
}

impl Ttp9p8 {
}

#[asn(set)]

#[derive(Default, Debug, Clone, PartialEq, Hash)]
pub struct Ttp9p10 {
    #[asn(optional(complex(Tcho, tag(1))))] pub rc: Option<Tcho>,
    #[asn(complex(Tst, tag(UNIVERSAL(17))))] pub rt: Tst,
}

impl Ttp9p10 {
}

#[asn(set)]

#[derive(Default, Debug, Clone, PartialEq, Hash)]
pub struct Ttp9p11 {
    #[asn(optional(complex(Tcho, tag(1))))] pub rc: Option<Tcho>,
    #[asn(optional(sequence_of(size(0..3), boolean)))] pub so: Option<Vec<bool>>,
}

impl Ttp9p11 {
}

#[asn(set)]

#[derive(Default, Debug, Clone, PartialEq, Hash)]
pub struct Ttp9p12 {
    #[asn(optional(complex(Tcho, tag(1))))] pub rc: Option<Tcho>,
    #[asn(set_of(size(0..2), boolean))] pub st: Vec<bool>,
}

impl Ttp9p12 {
}

#[asn(set)]

#[derive(Default, Debug, Clone, PartialEq, Hash)]
pub struct Ttp10p0 {
    #[asn(complex(Tst, tag(UNIVERSAL(17))))] pub rt: Tst,
    #[asn(integer(0..7), tag(UNIVERSAL(30)))] pub x: u8,
}

impl Ttp10p0 {
    pub const fn x_min() -> u8 {
        0
    }

    pub const fn x_max() -> u8 {
        7
    }
}

#[asn(set)]

#[derive(Default, Debug, Clone, PartialEq, Hash)]
pub struct Ttp10p1 {
    #[asn(complex(Tst, tag(UNIVERSAL(17))))] pub rt: Tst,
    #[asn(optional(integer(0..15)), tag(APPLICATION(1)))] pub a: Option<u8>,
}

impl Ttp10p1 {
    pub const fn a_min() -> u8 {
        0
    }

    pub const fn a_max() -> u8 {
        15
    }
}

#[asn(set)]

#[derive(Default, Debug, Clone, PartialEq, Hash)]
pub struct Ttp10p2 {
    #[asn(complex(Tst, tag(UNIVERSAL(17))))] pub rt: Tst,
    #[asn(integer(0..31), tag(3))] pub c3: u8,
}

impl Ttp10p2 {
    pub const fn c3_min() -> u8 {
        0
    }

    pub const fn c3_max() -> u8 {
        31
    }
}

#[asn(set)]

#[derive(Default, Debug, Clone, PartialEq, Hash)]
pub struct Ttp10p3 {
    #[asn(complex(Tst, tag(UNIVERSAL(17))))] pub rt: Tst,
    #[asn(optional(integer(0..63)), tag(0))] pub c0: Option<u8>,
}

impl Ttp10p3 {
    pub const fn c0_min() -> u8 {
        0
    }

    pub const fn c0_max() -> u8 {
        63
    }
}

#[asn(set)]

#[derive(Default, Debug, Clone, PartialEq, Hash)]
pub struct Ttp10p4 {
    #[asn(complex(Tst, tag(UNIVERSAL(17))))] pub rt: Tst,
    #[asn(integer(0..127), tag(PRIVATE(2)))] pub p: u8,
}

impl Ttp10p4 {
    pub const fn p_min() -> u8 {
        0
    }

    pub const fn p_max() -> u8 {
        127
    }
}

#[asn(set)]

#[derive(Default, Debug, Clone, PartialEq, Hash)]
pub struct Ttp10p5 {
    #[asn(complex(Tst, tag(UNIVERSAL(17))))] pub rt: Tst,
    #[asn(optional(boolean))] pub b: Option<bool>,
}

impl Ttp10p5 {
}

#[asn(set)]

#[derive(Default, Debug, Clone, PartialEq, Hash)]
pub struct Ttp10p6 {
    #[asn(complex(Tst, tag(UNIVERSAL(17))))] pub rt: Tst,
    #[asn(integer(0..255))] pub i: u8,
}

impl Ttp10p6 {
    pub const fn i_min() -> u8 {
        0
    }

    pub const fn i_max() -> u8 {
        255
    }
}

#[asn(set)]

#[derive(Default, Debug, Clone, PartialEq, Hash)]
pub struct Ttp10p7 {
    #[asn(complex(Tst, tag(UNIVERSAL(17))))] pub rt: Tst,
    #[asn(optional(complex(Tapp9, tag(APPLICATION(9)))))] pub ra: Option<Tapp9>,
}

impl Ttp10p7 {
}

#[asn(set)]

#[derive(Default, Debug, Clone, PartialEq, Hash)]
pub struct Ttp10p8 {
    #[asn(complex(Tst, tag(UNIVERSAL(17))))] pub rt: Tst,
    #[asn(complex(Tsq, tag(UNIVERSAL(16))))] pub rs: Tsq,
}

impl Ttp10p8 {
}

#[asn(set)]

#[derive(Default, Debug, Clone, PartialEq, Hash)]
pub struct Ttp10p9 {
    #[asn(complex(Tst, tag(UNIVERSAL(17))))] pub rt: Tst,
    #[asn(optional(complex(Tcho, tag(1))))] pub rc: Option<Tcho>,
}

impl Ttp10p9 {
}

#[asn(set)]

#[derive(Default, Debug, Clone, PartialEq, Hash)]
pub struct Ttp10p11 {
    #[asn(complex(Tst, tag(UNIVERSAL(17))))] pub rt: Tst,
    #[asn(optional(sequence_of(size(0..3), boolean)))] pub so: Option<Vec<bool>>,
}

impl Ttp10p11 {
}

#[asn(set)]

#[derive(Default, Debug, Clone, PartialEq, Hash)]
pub struct Ttp10p12 {
    #[asn(complex(Tst, tag(UNIVERSAL(17))))] pub rt: Tst,
    #[asn(set_of(size(0..2), boolean))] pub st: Vec<bool>,
}

impl Ttp10p12 {
}

#[asn(set)]

#[derive(Default, Debug, Clone, PartialEq, Hash)]
pub struct Ttp11p0 {
    #[asn(optional(sequence_of(size(0..3), boolean)))] pub so: Option<Vec<bool>>,
    #[asn(integer(0..7), tag(UNIVERSAL(30)))] pub x: u8,
}

impl Ttp11p0 {
    pub const fn x_min() -> u8 {
        0
    }

    pub const fn x_max() -> u8 {
        7
    }
}

#[asn(set)]

#[derive(Default, Debug, Clone, PartialEq, Hash)]
pub struct Ttp11p1 {
    #[asn(optional(sequence_of(size(0..3), boolean)))] pub so: Option<Vec<bool>>,
    #[asn(optional(integer(0..15)), tag(APPLICATION(1)))] pub a: Option<u8>,
}

impl Ttp11p1 {
    pub const fn a_min() -> u8 {
        0
    }

    pub const fn a_max() -> u8 {
        15
    }
}

#[asn(set)]

#[derive(Default, Debug, Clone, PartialEq, Hash)]
pub struct Ttp11p2 {
    #[asn(optional(sequence_of(size(0..3), boolean)))] pub so: Option<Vec<bool>>,
    #[asn(integer(0..31), tag(3))] pub c3: u8,
}

impl Ttp11p2 {
    pub const fn c3_min() -> u8 {
        0
    }

    pub const fn c3_max() -> u8 {
        31
    }
}

#[asn(set)]

#[derive(Default, Debug, Clone, PartialEq, Hash)]
pub struct Ttp11p3 {
    #[asn(optional(sequence_of(size(0..3), boolean)))] pub so: Option<Vec<bool>>,
    #[asn(optional(integer(0..63)), tag(0))] pub c0: Option<u8>,
}

impl Ttp11p3 {
    pub const fn c0_min() -> u8 {
        0
    }

    pub const fn c0_max() -> u8 {
        63
    }
}

#[asn(set)]

#[derive(Default, Debug, Clone, PartialEq, Hash)]
pub struct Ttp11p4 {
    #[asn(optional(sequence_of(size(0..3), boolean)))] pub so: Option<Vec<bool>>,
    #[asn(integer(0..127), tag(PRIVATE(2)))] pub p: u8,
}

impl Ttp11p4 {
    pub const fn p_min() -> u8 {
        0
    }

    pub const fn p_max() -> u8 {
        127
    }
}

#[asn(set)]

#[derive(Default, Debug, Clone, PartialEq, Hash)]
pub struct Ttp11p5 {
    #[asn(optional(sequence_of(size(0..3), boolean)))] pub so: Option<Vec<bool>>,
    #[asn(optional(boolean))] pub b: Option<bool>,
}

impl Ttp11p5 {
}

#[asn(set)]

#[derive(Default, Debug, Clone, PartialEq, Hash)]
pub struct Ttp11p6 {
    #[asn(optional(sequence_of(size(0..3), boolean)))] pub so: Option<Vec<bool>>,
    #[asn(integer(0..255))] pub i: u8,
}

impl Ttp11p6 {
    pub const fn i_min() -> u8 {
        0
    }

    pub const fn i_max() -> u8 {
        255
    }
}

#[asn(set)]

#[derive(Default, Debug, Clone, PartialEq, Hash)]
pub struct Ttp11p7 {
    #[asn(optional(sequence_of(size(0..3), boolean)))] pub so: Option<Vec<bool>>,
    #[asn(optional(complex(Tapp9, tag(APPLICATION(9)))))] pub ra: Option<Tapp9>,
}

impl Ttp11p7 {
}

#[asn(set)]

#[derive(Default, Debug, Clone, PartialEq, Hash)]
pub struct Ttp11p8 {
    #[asn(optional(sequence_of(size(0..3), boolean)))] pub so: Option<Vec<bool>>,
    #[asn(complex(Tsq, tag(UNIVERSAL(16))))] pub rs: Tsq,
}

impl Ttp11p8 {
}

#[asn(set)]

#[derive(Default, Debug, Clone, PartialEq, Hash)]
pub struct Ttp11p9 {
    #[asn(optional(sequence_of(size(0..3), boolean)))] pub so: Option<Vec<bool>>,
    #[asn(optional(complex(Tcho, tag(1))))] pub rc: Option<Tcho>,
}

impl Ttp11p9 {
}

#[asn(set)]

#[derive(Default, Debug, Clone, PartialEq, Hash)]
pub struct Ttp11p10 {
    #[asn(optional(sequence_of(size(0..3), boolean)))] pub so: Option<Vec<bool>>,
    #[asn(complex(Tst, tag(UNIVERSAL(17))))] pub rt: Tst,
}

impl Ttp11p10 {
}

#[asn(set)]

#[derive(Default, Debug, Clone, PartialEq, Hash)]
pub struct Ttp11p12 {
    #[asn(optional(sequence_of(size(0..3), boolean)))] pub so: Option<Vec<bool>>,
    #[asn(set_of(size(0..2), boolean))] pub st: Vec<bool>,
}

impl Ttp11p12 {
}

#[asn(set)]

#[derive(Default, Debug, Clone, PartialEq, Hash)]
pub struct Ttp12p0 {
    #[asn(set_of(size(0..2), boolean))] pub st: Vec<bool>,
    #[asn(integer(0..7), tag(UNIVERSAL(30)))] pub x: u8,
}

impl Ttp12p0 {
    pub const fn x_min() -> u8 {
        0
    }

    pub const fn x_max() -> u8 {
        7
    }
}

#[asn(set)]

#[derive(Default, Debug, Clone, PartialEq, Hash)]
pub struct Ttp12p1 {
    #[asn(set_of(size(0..2), boolean))] pub st: Vec<bool>,
    #[asn(optional(integer(0..15)), tag(APPLICATION(1)))] pub a: Option<u8>,
}

impl Ttp12p1 {
    pub const fn a_min() -> u8 {
        0
    }

    pub const fn a_max() -> u8 {
        15
    }
}

#[asn(set)]

#[derive(Default, Debug, Clone, PartialEq, Hash)]
pub struct Ttp12p2 {
    #[asn(set_of(size(0..2), boolean))] pub st: Vec<bool>,
    #[asn(integer(0..31), tag(3))] pub c3: u8,
}

impl Ttp12p2 {
    pub const fn c3_min() -> u8 {
        0
    }

    pub const fn c3_max() -> u8 {
        31
    }
}

#[asn(set)]

#[derive(Default, Debug, Clone, PartialEq, Hash)]
pub struct Ttp12p3 {
    #[asn(set_of(size(0..2), boolean))] pub st: Vec<bool>,
    #[asn(optional(integer(0..63)), tag(0))] pub c0: Option<u8>,
}

impl Ttp12p3 {
    pub const fn c0_min() -> u8 {
        0
    }

    pub const fn c0_max() -> u8 {
        63
    }
}

#[asn(set)]

#[derive(Default, Debug, Clone, PartialEq, Hash)]
pub struct Ttp12p4 {
    #[asn(set_of(size(0..2), boolean))] pub st: Vec<bool>,
    #[asn(integer(0..127), tag(PRIVATE(2)))] pub p: u8,
}

impl Ttp12p4 {
    pub const fn p_min() -> u8 {
        0
    }

    pub const fn p_max() -> u8 {
        127
    }
}

#[asn(set)]

#[derive(Default, Debug, Clone, PartialEq, Hash)]
pub struct Ttp12p5 {
    #[asn(set_of(size(0..2), boolean))] pub st: Vec<bool>,
    #[asn(optional(boolean))] pub b: Option<bool>,
}

impl Ttp12p5 {
}

#[asn(set)]

#[derive(Default, Debug, Clone, PartialEq, Hash)]
pub struct Ttp12p6 {
    #[asn(set_of(size(0..2), boolean))] pub st: Vec<bool>,
    #[asn(integer(0..255))] pub i: u8,
}

impl Ttp12p6 {
    pub const fn i_min() -> u8 {
        0
    }

    pub const fn i_max() -> u8 {
        255
    }
}

#[asn(set)]

#[derive(Default, Debug, Clone, PartialEq, Hash)]
pub struct Ttp12p7 {
    #[asn(set_of(size(0..2), boolean))] pub st: Vec<bool>,
    #[asn(optional(complex(Tapp9, tag(APPLICATION(9)))))] pub ra: Option<Tapp9>,
}

impl Ttp12p7 {
}

#[asn(set)]

#[derive(Default, Debug, Clone, PartialEq, Hash)]
pub struct Ttp12p8 {
    #[asn(set_of(size(0..2), boolean))] pub st: Vec<bool>,
    #[asn(complex(Tsq, tag(UNIVERSAL(16))))] pub rs: Tsq,
}

impl Ttp12p8 {
}

#[asn(set)]

#[derive(Default, Debug, Clone, PartialEq, Hash)]
pub struct Ttp12p9 {
    #[asn(set_of(size(0..2), boolean))] pub st: Vec<bool>,
    #[asn(optional(complex(Tcho, tag(1))))] pub rc: Option<Tcho>,
}

impl Ttp12p9 {
}

#[asn(set)]

#[derive(Default, Debug, Clone, PartialEq, Hash)]
pub struct Ttp12p10 {
    #[asn(set_of(size(0..2), boolean))] pub st: Vec<bool>,
    #[asn(complex(Tst, tag(UNIVERSAL(17))))] pub rt: Tst,
}

impl Ttp12p10 {
}

#[asn(set)]

#[derive(Default, Debug, Clone, PartialEq, Hash)]
pub struct Ttp12p11 {
    #[asn(set_of(size(0..2), boolean))] pub st: Vec<bool>,
    #[asn(optional(sequence_of(size(0..3), boolean)))] pub so: Option<Vec<bool>>,
}

impl Ttp12p11 {
}
// ---- harness conversions (generated by the zoo build script from the items above) ----
impl FromValue for Tapp9 { fn from_value(v: &Value) -> Self { Tapp9(FromValue::from_value(v)) } }
impl ToValue for Tapp9 { fn to_value(&self) -> Value { self.0.to_value() } }
impl FromValue for Tsq {
    fn from_value(v: &Value) -> Self {
        let s = match v { Value::Seq(s) => s, other => panic!("Tsq: expected Seq, got {other:?}") };
        assert_eq!(s.len(), 1, "Tsq: component count");
        let _ = s;
        Tsq {
            z: FromValue::from_value(s[0].as_ref().expect("component z of Tsq must be present")),
        }
    }
}
impl ToValue for Tsq {
    fn to_value(&self) -> Value {
        Value::Seq(vec![
            Some(self.z.to_value()),
        ])
    }
}
impl FromValue for Tcho {
    fn from_value(v: &Value) -> Self {
        let (i, inner) = match v { Value::Choice(i, inner) => (*i, &**inner), other => panic!("Tcho: expected Choice, got {other:?}") };
        match i {
            0 => Tcho::M(FromValue::from_value(inner)),
            1 => Tcho::N(FromValue::from_value(inner)),
            _ => panic!("Tcho: alternative index {i} out of range"),
        }
    }
}
impl ToValue for Tcho {
    fn to_value(&self) -> Value {
        match self {
            Tcho::M(x) => Value::Choice(0, Box::new(x.to_value())),
            Tcho::N(x) => Value::Choice(1, Box::new(x.to_value())),
        }
    }
}
impl FromValue for Tst {
    fn from_value(v: &Value) -> Self {
        let s = match v { Value::Seq(s) => s, other => panic!("Tst: expected Seq, got {other:?}") };
        assert_eq!(s.len(), 1, "Tst: component count");
        let _ = s;
        Tst {
            z: FromValue::from_value(s[0].as_ref().expect("component z of Tst must be present")),
        }
    }
}
impl ToValue for Tst {
    fn to_value(&self) -> Value {
        Value::Seq(vec![
            Some(self.z.to_value()),
        ])
    }
}
impl FromValue for Ttp8p12 {
    fn from_value(v: &Value) -> Self {
        let s = match v { Value::Seq(s) => s, other => panic!("Ttp8p12: expected Seq, got {other:?}") };
        assert_eq!(s.len(), 2, "Ttp8p12: component count");
        let _ = s;
        Ttp8p12 {
            rs: FromValue::from_value(s[0].as_ref().expect("component rs of Ttp8p12 must be present")),
            st: FromValue::from_value(s[1].as_ref().expect("component st of Ttp8p12 must be present")),
        }
    }
}
impl ToValue for Ttp8p12 {
    fn to_value(&self) -> Value {
        Value::Seq(vec![
            Some(self.rs.to_value()),
            Some(self.st.to_value()),
        ])
    }
}
impl FromValue for Ttp9p0 {
    fn from_value(v: &Value) -> Self {
        let s = match v { Value::Seq(s) => s, other => panic!("Ttp9p0: expected Seq, got {other:?}") };
        assert_eq!(s.len(), 2, "Ttp9p0: component count");
        let _ = s;
        Ttp9p0 {
            rc: s[0].as_ref().map(FromValue::from_value),
            x: FromValue::from_value(s[1].as_ref().expect("component x of Ttp9p0 must be present")),
        }
    }
}
impl ToValue for Ttp9p0 {
    fn to_value(&self) -> Value {
        Value::Seq(vec![
            self.rc.as_ref().map(|x| x.to_value()),
            Some(self.x.to_value()),
        ])
    }
}
impl FromValue for Ttp9p1 {
    fn from_value(v: &Value) -> Self {
        let s = match v { Value::Seq(s) => s, other => panic!("Ttp9p1: expected Seq, got {other:?}") };
        assert_eq!(s.len(), 2, "Ttp9p1: component count");
        let _ = s;
        Ttp9p1 {
            rc: s[0].as_ref().map(FromValue::from_value),
            a: s[1].as_ref().map(FromValue::from_value),
        }
    }
}
impl ToValue for Ttp9p1 {
    fn to_value(&self) -> Value {
        Value::Seq(vec![
            self.rc.as_ref().map(|x| x.to_value()),
            self.a.as_ref().map(|x| x.to_value()),
        ])
    }
}
impl FromValue for Ttp9p2 {
    fn from_value(v: &Value) -> Self {
        let s = match v { Value::Seq(s) => s, other => panic!("Ttp9p2: expected Seq, got {other:?}") };
        assert_eq!(s.len(), 2, "Ttp9p2: component count");
        let _ = s;
        Ttp9p2 {
            rc: s[0].as_ref().map(FromValue::from_value),
            c3: FromValue::from_value(s[1].as_ref().expect("component c3 of Ttp9p2 must be present")),
        }
    }
}
impl ToValue for Ttp9p2 {
    fn to_value(&self) -> Value {
        Value::Seq(vec![
            self.rc.as_ref().map(|x| x.to_value()),
            Some(self.c3.to_value()),
        ])
    }
}
impl FromValue for Ttp9p3 {
    fn from_value(v: &Value) -> Self {
        let s = match v { Value::Seq(s) => s, other => panic!("Ttp9p3: expected Seq, got {other:?}") };
        assert_eq!(s.len(), 2, "Ttp9p3: component count");
        let _ = s;
        Ttp9p3 {
            rc: s[0].as_ref().map(FromValue::from_value),
            c0: s[1].as_ref().map(FromValue::from_value),
        }
    }
}
impl ToValue for Ttp9p3 {
    fn to_value(&self) -> Value {
        Value::Seq(vec![
            self.rc.as_ref().map(|x| x.to_value()),
            self.c0.as_ref().map(|x| x.to_value()),
        ])
    }
}
impl FromValue for Ttp9p4 {
    fn from_value(v: &Value) -> Self {
        let s = match v { Value::Seq(s) => s, other => panic!("Ttp9p4: expected Seq, got {other:?}") };
        assert_eq!(s.len(), 2, "Ttp9p4: component count");
        let _ = s;
        Ttp9p4 {
            rc: s[0].as_ref().map(FromValue::from_value),
            p: FromValue::from_value(s[1].as_ref().expect("component p of Ttp9p4 must be present")),
        }
    }
}
impl ToValue for Ttp9p4 {
    fn to_value(&self) -> Value {
        Value::Seq(vec![
            self.rc.as_ref().map(|x| x.to_value()),
            Some(self.p.to_value()),
        ])
    }
}
impl FromValue for Ttp9p5 {
    fn from_value(v: &Value) -> Self {
        let s = match v { Value::Seq(s) => s, other => panic!("Ttp9p5: expected Seq, got {other:?}") };
        assert_eq!(s.len(), 2, "Ttp9p5: component count");
        let _ = s;
        Ttp9p5 {
            rc: s[0].as_ref().map(FromValue::from_value),
            b: s[1].as_ref().map(FromValue::from_value),
        }
    }
}
impl ToValue for Ttp9p5 {
    fn to_value(&self) -> Value {
        Value::Seq(vec![
            self.rc.as_ref().map(|x| x.to_value()),
            self.b.as_ref().map(|x| x.to_value()),
        ])
    }
}
impl FromValue for Ttp9p6 {
    fn from_value(v: &Value) -> Self {
        let s = match v { Value::Seq(s) => s, other => panic!("Ttp9p6: expected Seq, got {other:?}") };
        assert_eq!(s.len(), 2, "Ttp9p6: component count");
        let _ = s;
        Ttp9p6 {
            rc: s[0].as_ref().map(FromValue::from_value),
            i: FromValue::from_value(s[1].as_ref().expect("component i of Ttp9p6 must be present")),
        }
    }
}
impl ToValue for Ttp9p6 {
    fn to_value(&self) -> Value {
        Value::Seq(vec![
            self.rc.as_ref().map(|x| x.to_value()),
            Some(self.i.to_value()),
        ])
    }
}
impl FromValue for Ttp9p7 {
    fn from_value(v: &Value) -> Self {
        let s = match v { Value::Seq(s) => s, other => panic!("Ttp9p7: expected Seq, got {other:?}") };
        assert_eq!(s.len(), 2, "Ttp9p7: component count");
        let _ = s;
        Ttp9p7 {
            rc: s[0].as_ref().map(FromValue::from_value),
            ra: s[1].as_ref().map(FromValue::from_value),
        }
    }
}
impl ToValue for Ttp9p7 {
    fn to_value(&self) -> Value {
        Value::Seq(vec![
            self.rc.as_ref().map(|x| x.to_value()),
            self.ra.as_ref().map(|x| x.to_value()),
        ])
    }
}
impl FromValue for Ttp9p8 {
    fn from_value(v: &Value) -> Self {
        let s = match v { Value::Seq(s) => s, other => panic!("Ttp9p8: expected Seq, got {other:?}") };
        assert_eq!(s.len(), 2, "Ttp9p8: component count");
        let _ = s;
        Ttp9p8 {
            rc: s[0].as_ref().map(FromValue::from_value),
            rs: FromValue::from_value(s[1].as_ref().expect("component rs of Ttp9p8 must be present")),
        }
    }
}
impl ToValue for Ttp9p8 {
    fn to_value(&self) -> Value {
        Value::Seq(vec![
            self.rc.as_ref().map(|x| x.to_value()),
            Some(self.rs.to_value()),
        ])
    }
}
impl FromValue for Ttp9p10 {
    fn from_value(v: &Value) -> Self {
        let s = match v { Value::Seq(s) => s, other => panic!("Ttp9p10: expected Seq, got {other:?}") };
        assert_eq!(s.len(), 2, "Ttp9p10: component count");
        let _ = s;
        Ttp9p10 {
            rc: s[0].as_ref().map(FromValue::from_value),
            rt: FromValue::from_value(s[1].as_ref().expect("component rt of Ttp9p10 must be present")),
        }
    }
}
impl ToValue for Ttp9p10 {
    fn to_value(&self) -> Value {
        Value::Seq(vec![
            self.rc.as_ref().map(|x| x.to_value()),
            Some(self.rt.to_value()),
        ])
    }
}
impl FromValue for Ttp9p11 {
    fn from_value(v: &Value) -> Self {
        let s = match v { Value::Seq(s) => s, other => panic!("Ttp9p11: expected Seq, got {other:?}") };
        assert_eq!(s.len(), 2, "Ttp9p11: component count");
        let _ = s;
        Ttp9p11 {
            rc: s[0].as_ref().map(FromValue::from_value),
            so: s[1].as_ref().map(FromValue::from_value),
        }
    }
}
impl ToValue for Ttp9p11 {
    fn to_value(&self) -> Value {
        Value::Seq(vec![
            self.rc.as_ref().map(|x| x.to_value()),
            self.so.as_ref().map(|x| x.to_value()),
        ])
    }
}
impl FromValue for Ttp9p12 {
    fn from_value(v: &Value) -> Self {
        let s = match v { Value::Seq(s) => s, other => panic!("Ttp9p12: expected Seq, got {other:?}") };
        assert_eq!(s.len(), 2, "Ttp9p12: component count");
        let _ = s;
        Ttp9p12 {
            rc: s[0].as_ref().map(FromValue::from_value),
            st: FromValue::from_value(s[1].as_ref().expect("component st of Ttp9p12 must be present")),
        }
    }
}
impl ToValue for Ttp9p12 {
    fn to_value(&self) -> Value {
        Value::Seq(vec![
            self.rc.as_ref().map(|x| x.to_value()),
            Some(self.st.to_value()),
        ])
    }
}
impl FromValue for Ttp10p0 {
    fn from_value(v: &Value) -> Self {
        let s = match v { Value::Seq(s) => s, other => panic!("Ttp10p0: expected Seq, got {other:?}") };
        assert_eq!(s.len(), 2, "Ttp10p0: component count");
        let _ = s;
        Ttp10p0 {
            rt: FromValue::from_value(s[0].as_ref().expect("component rt of Ttp10p0 must be present")),
            x: FromValue::from_value(s[1].as_ref().expect("component x of Ttp10p0 must be present")),
        }
    }
}
impl ToValue for Ttp10p0 {
    fn to_value(&self) -> Value {
        Value::Seq(vec![
            Some(self.rt.to_value()),
            Some(self.x.to_value()),
        ])
    }
}
impl FromValue for Ttp10p1 {
    fn from_value(v: &Value) -> Self {
        let s = match v { Value::Seq(s) => s, other => panic!("Ttp10p1: expected Seq, got {other:?}") };
        assert_eq!(s.len(), 2, "Ttp10p1: component count");
        let _ = s;
        Ttp10p1 {
            rt: FromValue::from_value(s[0].as_ref().expect("component rt of Ttp10p1 must be present")),
            a: s[1].as_ref().map(FromValue::from_value),
        }
    }
}
impl ToValue for Ttp10p1 {
    fn to_value(&self) -> Value {
        Value::Seq(vec![
            Some(self.rt.to_value()),
            self.a.as_ref().map(|x| x.to_value()),
        ])
    }
}
impl FromValue for Ttp10p2 {
    fn from_value(v: &Value) -> Self {
        let s = match v { Value::Seq(s) => s, other => panic!("Ttp10p2: expected Seq, got {other:?}") };
        assert_eq!(s.len(), 2, "Ttp10p2: component count");
        let _ = s;
        Ttp10p2 {
            rt: FromValue::from_value(s[0].as_ref().expect("component rt of Ttp10p2 must be present")),
            c3: FromValue::from_value(s[1].as_ref().expect("component c3 of Ttp10p2 must be present")),
        }
    }
}
impl ToValue for Ttp10p2 {
    fn to_value(&self) -> Value {
        Value::Seq(vec![
            Some(self.rt.to_value()),
            Some(self.c3.to_value()),
        ])
    }
}
impl FromValue for Ttp10p3 {
    fn from_value(v: &Value) -> Self {
        let s = match v { Value::Seq(s) => s, other => panic!("Ttp10p3: expected Seq, got {other:?}") };
        assert_eq!(s.len(), 2, "Ttp10p3: component count");
        let _ = s;
        Ttp10p3 {
            rt: FromValue::from_value(s[0].as_ref().expect("component rt of Ttp10p3 must be present")),
            c0: s[1].as_ref().map(FromValue::from_value),
        }
    }
}
impl ToValue for Ttp10p3 {
    fn to_value(&self) -> Value {
        Value::Seq(vec![
            Some(self.rt.to_value()),
            self.c0.as_ref().map(|x| x.to_value()),
        ])
    }
}
impl FromValue for Ttp10p4 {
    fn from_value(v: &Value) -> Self {
        let s = match v { Value::Seq(s) => s, other => panic!("Ttp10p4: expected Seq, got {other:?}") };
        assert_eq!(s.len(), 2, "Ttp10p4: component count");
        let _ = s;
        Ttp10p4 {
            rt: FromValue::from_value(s[0].as_ref().expect("component rt of Ttp10p4 must be present")),
            p: FromValue::from_value(s[1].as_ref().expect("component p of Ttp10p4 must be present")),
        }
    }
}
impl ToValue for Ttp10p4 {
    fn to_value(&self) -> Value {
        Value::Seq(vec![
            Some(self.rt.to_value()),
            Some(self.p.to_value()),
        ])
    }
}
impl FromValue for Ttp10p5 {
    fn from_value(v: &Value) -> Self {
        let s = match v { Value::Seq(s) => s, other => panic!("Ttp10p5: expected Seq, got {other:?}") };
        assert_eq!(s.len(), 2, "Ttp10p5: component count");
        let _ = s;
        Ttp10p5 {
            rt: FromValue::from_value(s[0].as_ref().expect("component rt of Ttp10p5 must be present")),
            b: s[1].as_ref().map(FromValue::from_value),
        }
    }
}
impl ToValue for Ttp10p5 {
    fn to_value(&self) -> Value {
        Value::Seq(vec![
            Some(self.rt.to_value()),
            self.b.as_ref().map(|x| x.to_value()),
        ])
    }
}
impl FromValue for Ttp10p6 {
    fn from_value(v: &Value) -> Self {
        let s = match v { Value::Seq(s) => s, other => panic!("Ttp10p6: expected Seq, got {other:?}") };
        assert_eq!(s.len(), 2, "Ttp10p6: component count");
        let _ = s;
        Ttp10p6 {
            rt: FromValue::from_value(s[0].as_ref().expect("component rt of Ttp10p6 must be present")),
            i: FromValue::from_value(s[1].as_ref().expect("component i of Ttp10p6 must be present")),
        }
    }
}
impl ToValue for Ttp10p6 {
    fn to_value(&self) -> Value {
        Value::Seq(vec![
            Some(self.rt.to_value()),
            Some(self.i.to_value()),
        ])
    }
}
impl FromValue for Ttp10p7 {
    fn from_value(v: &Value) -> Self {
        let s = match v { Value::Seq(s) => s, other => panic!("Ttp10p7: expected Seq, got {other:?}") };
        assert_eq!(s.len(), 2, "Ttp10p7: component count");
        let _ = s;
        Ttp10p7 {
            rt: FromValue::from_value(s[0].as_ref().expect("component rt of Ttp10p7 must be present")),
            ra: s[1].as_ref().map(FromValue::from_value),
        }
    }
}
impl ToValue for Ttp10p7 {
    fn to_value(&self) -> Value {
        Value::Seq(vec![
            Some(self.rt.to_value()),
            self.ra.as_ref().map(|x| x.to_value()),
        ])
    }
}
impl FromValue for Ttp10p8 {
    fn from_value(v: &Value) -> Self {
        let s = match v { Value::Seq(s) => s, other => panic!("Ttp10p8: expected Seq, got {other:?}") };
        assert_eq!(s.len(), 2, "Ttp10p8: component count");
        let _ = s;
        Ttp10p8 {
            rt: FromValue::from_value(s[0].as_ref().expect("component rt of Ttp10p8 must be present")),
            rs: FromValue::from_value(s[1].as_ref().expect("component rs of Ttp10p8 must be present")),
        }
    }
}
impl ToValue for Ttp10p8 {
    fn to_value(&self) -> Value {
        Value::Seq(vec![
            Some(self.rt.to_value()),
            Some(self.rs.to_value()),
        ])
    }
}
impl FromValue for Ttp10p9 {
    fn from_value(v: &Value) -> Self {
        let s = match v { Value::Seq(s) => s, other => panic!("Ttp10p9: expected Seq, got {other:?}") };
        assert_eq!(s.len(), 2, "Ttp10p9: component count");
        let _ = s;
        Ttp10p9 {
            rt: FromValue::from_value(s[0].as_ref().expect("component rt of Ttp10p9 must be present")),
            rc: s[1].as_ref().map(FromValue::from_value),
        }
    }
}
impl ToValue for Ttp10p9 {
    fn to_value(&self) -> Value {
        Value::Seq(vec![
            Some(self.rt.to_value()),
            self.rc.as_ref().map(|x| x.to_value()),
        ])
    }
}
impl FromValue for Ttp10p11 {
    fn from_value(v: &Value) -> Self {
        let s = match v { Value::Seq(s) => s, other => panic!("Ttp10p11: expected Seq, got {other:?}") };
        assert_eq!(s.len(), 2, "Ttp10p11: component count");
        let _ = s;
        Ttp10p11 {
            rt: FromValue::from_value(s[0].as_ref().expect("component rt of Ttp10p11 must be present")),
            so: s[1].as_ref().map(FromValue::from_value),
        }
    }
}
impl ToValue for Ttp10p11 {
    fn to_value(&self) -> Value {
        Value::Seq(vec![
            Some(self.rt.to_value()),
            self.so.as_ref().map(|x| x.to_value()),
        ])
    }
}
impl FromValue for Ttp10p12 {
    fn from_value(v: &Value) -> Self {
        let s = match v { Value::Seq(s) => s, other => panic!("Ttp10p12: expected Seq, got {other:?}") };
        assert_eq!(s.len(), 2, "Ttp10p12: component count");
        let _ = s;
        Ttp10p12 {
            rt: FromValue::from_value(s[0].as_ref().expect("component rt of Ttp10p12 must be present")),
            st: FromValue::from_value(s[1].as_ref().expect("component st of Ttp10p12 must be present")),
        }
    }
}
impl ToValue for Ttp10p12 {
    fn to_value(&self) -> Value {
        Value::Seq(vec![
            Some(self.rt.to_value()),
            Some(self.st.to_value()),
        ])
    }
}
impl FromValue for Ttp11p0 {
    fn from_value(v: &Value) -> Self {
        let s = match v { Value::Seq(s) => s, other => panic!("Ttp11p0: expected Seq, got {other:?}") };
        assert_eq!(s.len(), 2, "Ttp11p0: component count");
        let _ = s;
        Ttp11p0 {
            so: s[0].as_ref().map(FromValue::from_value),
            x: FromValue::from_value(s[1].as_ref().expect("component x of Ttp11p0 must be present")),
        }
    }
}
impl ToValue for Ttp11p0 {
    fn to_value(&self) -> Value {
        Value::Seq(vec![
            self.so.as_ref().map(|x| x.to_value()),
            Some(self.x.to_value()),
        ])
    }
}
impl FromValue for Ttp11p1 {
    fn from_value(v: &Value) -> Self {
        let s = match v { Value::Seq(s) => s, other => panic!("Ttp11p1: expected Seq, got {other:?}") };
        assert_eq!(s.len(), 2, "Ttp11p1: component count");
        let _ = s;
        Ttp11p1 {
            so: s[0].as_ref().map(FromValue::from_value),
            a: s[1].as_ref().map(FromValue::from_value),
        }
    }
}
impl ToValue for Ttp11p1 {
    fn to_value(&self) -> Value {
        Value::Seq(vec![
            self.so.as_ref().map(|x| x.to_value()),
            self.a.as_ref().map(|x| x.to_value()),
        ])
    }
}
impl FromValue for Ttp11p2 {
    fn from_value(v: &Value) -> Self {
        let s = match v { Value::Seq(s) => s, other => panic!("Ttp11p2: expected Seq, got {other:?}") };
        assert_eq!(s.len(), 2, "Ttp11p2: component count");
        let _ = s;
        Ttp11p2 {
            so: s[0].as_ref().map(FromValue::from_value),
            c3: FromValue::from_value(s[1].as_ref().expect("component c3 of Ttp11p2 must be present")),
        }
    }
}
impl ToValue for Ttp11p2 {
    fn to_value(&self) -> Value {
        Value::Seq(vec![
            self.so.as_ref().map(|x| x.to_value()),
            Some(self.c3.to_value()),
        ])
    }
}
impl FromValue for Ttp11p3 {
    fn from_value(v: &Value) -> Self {
        let s = match v { Value::Seq(s) => s, other => panic!("Ttp11p3: expected Seq, got {other:?}") };
        assert_eq!(s.len(), 2, "Ttp11p3: component count");
        let _ = s;
        Ttp11p3 {
            so: s[0].as_ref().map(FromValue::from_value),
            c0: s[1].as_ref().map(FromValue::from_value),
        }
    }
}
impl ToValue for Ttp11p3 {
    fn to_value(&self) -> Value {
        Value::Seq(vec![
            self.so.as_ref().map(|x| x.to_value()),
            self.c0.as_ref().map(|x| x.to_value()),
        ])
    }
}
impl FromValue for Ttp11p4 {
    fn from_value(v: &Value) -> Self {
        let s = match v { Value::Seq(s) => s, other => panic!("Ttp11p4: expected Seq, got {other:?}") };
        assert_eq!(s.len(), 2, "Ttp11p4: component count");
        let _ = s;
        Ttp11p4 {
            so: s[0].as_ref().map(FromValue::from_value),
            p: FromValue::from_value(s[1].as_ref().expect("component p of Ttp11p4 must be present")),
        }
    }
}
impl ToValue for Ttp11p4 {
    fn to_value(&self) -> Value {
        Value::Seq(vec![
            self.so.as_ref().map(|x| x.to_value()),
            Some(self.p.to_value()),
        ])
    }
}
impl FromValue for Ttp11p5 {
    fn from_value(v: &Value) -> Self {
        let s = match v { Value::Seq(s) => s, other => panic!("Ttp11p5: expected Seq, got {other:?}") };
        assert_eq!(s.len(), 2, "Ttp11p5: component count");
        let _ = s;
        Ttp11p5 {
            so: s[0].as_ref().map(FromValue::from_value),
            b: s[1].as_ref().map(FromValue::from_value),
        }
    }
}
impl ToValue for Ttp11p5 {
    fn to_value(&self) -> Value {
        Value::Seq(vec![
            self.so.as_ref().map(|x| x.to_value()),
            self.b.as_ref().map(|x| x.to_value()),
        ])
    }
}
impl FromValue for Ttp11p6 {
    fn from_value(v: &Value) -> Self {
        let s = match v { Value::Seq(s) => s, other => panic!("Ttp11p6: expected Seq, got {other:?}") };
        assert_eq!(s.len(), 2, "Ttp11p6: component count");
        let _ = s;
        Ttp11p6 {
            so: s[0].as_ref().map(FromValue::from_value),
            i: FromValue::from_value(s[1].as_ref().expect("component i of Ttp11p6 must be present")),
        }
    }
}
impl ToValue for Ttp11p6 {
    fn to_value(&self) -> Value {
        Value::Seq(vec![
            self.so.as_ref().map(|x| x.to_value()),
            Some(self.i.to_value()),
        ])
    }
}
impl FromValue for Ttp11p7 {
    fn from_value(v: &Value) -> Self {
        let s = match v { Value::Seq(s) => s, other => panic!("Ttp11p7: expected Seq, got {other:?}") };
        assert_eq!(s.len(), 2, "Ttp11p7: component count");
        let _ = s;
        Ttp11p7 {
            so: s[0].as_ref().map(FromValue::from_value),
            ra: s[1].as_ref().map(FromValue::from_value),
        }
    }
}
impl ToValue for Ttp11p7 {
    fn to_value(&self) -> Value {
        Value::Seq(vec![
            self.so.as_ref().map(|x| x.to_value()),
            self.ra.as_ref().map(|x| x.to_value()),
        ])
    }
}
impl FromValue for Ttp11p8 {
    fn from_value(v: &Value) -> Self {
        let s = match v { Value::Seq(s) => s, other => panic!("Ttp11p8: expected Seq, got {other:?}") };
        assert_eq!(s.len(), 2, "Ttp11p8: component count");
        let _ = s;
        Ttp11p8 {
            so: s[0].as_ref().map(FromValue::from_value),
            rs: FromValue::from_value(s[1].as_ref().expect("component rs of Ttp11p8 must be present")),
        }
    }
}
impl ToValue for Ttp11p8 {
    fn to_value(&self) -> Value {
        Value::Seq(vec![
            self.so.as_ref().map(|x| x.to_value()),
            Some(self.rs.to_value()),
        ])
    }
}
impl FromValue for Ttp11p9 {
    fn from_value(v: &Value) -> Self {
        let s = match v { Value::Seq(s) => s, other => panic!("Ttp11p9: expected Seq, got {other:?}") };
        assert_eq!(s.len(), 2, "Ttp11p9: component count");
        let _ = s;
        Ttp11p9 {
            so: s[0].as_ref().map(FromValue::from_value),
            rc: s[1].as_ref().map(FromValue::from_value),
        }
    }
}
impl ToValue for Ttp11p9 {
    fn to_value(&self) -> Value {
        Value::Seq(vec![
            self.so.as_ref().map(|x| x.to_value()),
            self.rc.as_ref().map(|x| x.to_value()),
        ])
    }
}
impl FromValue for Ttp11p10 {
    fn from_value(v: &Value) -> Self {
        let s = match v { Value::Seq(s) => s, other => panic!("Ttp11p10: expected Seq, got {other:?}") };
        assert_eq!(s.len(), 2, "Ttp11p10: component count");
        let _ = s;
        Ttp11p10 {
            so: s[0].as_ref().map(FromValue::from_value),
            rt: FromValue::from_value(s[1].as_ref().expect("component rt of Ttp11p10 must be present")),
        }
    }
}
impl ToValue for Ttp11p10 {
    fn to_value(&self) -> Value {
        Value::Seq(vec![
            self.so.as_ref().map(|x| x.to_value()),
            Some(self.rt.to_value()),
        ])
    }
}
impl FromValue for Ttp11p12 {
    fn from_value(v: &Value) -> Self {
        let s = match v { Value::Seq(s) => s, other => panic!("Ttp11p12: expected Seq, got {other:?}") };
        assert_eq!(s.len(), 2, "Ttp11p12: component count");
        let _ = s;
        Ttp11p12 {
            so: s[0].as_ref().map(FromValue::from_value),
            st: FromValue::from_value(s[1].as_ref().expect("component st of Ttp11p12 must be present")),
        }
    }
}
impl ToValue for Ttp11p12 {
    fn to_value(&self) -> Value {
        Value::Seq(vec![
            self.so.as_ref().map(|x| x.to_value()),
            Some(self.st.to_value()),
        ])
    }
}
impl FromValue for Ttp12p0 {
    fn from_value(v: &Value) -> Self {
        let s = match v { Value::Seq(s) => s, other => panic!("Ttp12p0: expected Seq, got {other:?}") };
        assert_eq!(s.len(), 2, "Ttp12p0: component count");
        let _ = s;
        Ttp12p0 {
            st: FromValue::from_value(s[0].as_ref().expect("component st of Ttp12p0 must be present")),
            x: FromValue::from_value(s[1].as_ref().expect("component x of Ttp12p0 must be present")),
        }
    }
}
impl ToValue for Ttp12p0 {
    fn to_value(&self) -> Value {
        Value::Seq(vec![
            Some(self.st.to_value()),
            Some(self.x.to_value()),
        ])
    }
}
impl FromValue for Ttp12p1 {
    fn from_value(v: &Value) -> Self {
        let s = match v { Value::Seq(s) => s, other => panic!("Ttp12p1: expected Seq, got {other:?}") };
        assert_eq!(s.len(), 2, "Ttp12p1: component count");
        let _ = s;
        Ttp12p1 {
            st: FromValue::from_value(s[0].as_ref().expect("component st of Ttp12p1 must be present")),
            a: s[1].as_ref().map(FromValue::from_value),
        }
    }
}
impl ToValue for Ttp12p1 {
    fn to_value(&self) -> Value {
        Value::Seq(vec![
            Some(self.st.to_value()),
            self.a.as_ref().map(|x| x.to_value()),
        ])
    }
}
impl FromValue for Ttp12p2 {
    fn from_value(v: &Value) -> Self {
        let s = match v { Value::Seq(s) => s, other => panic!("Ttp12p2: expected Seq, got {other:?}") };
        assert_eq!(s.len(), 2, "Ttp12p2: component count");
        let _ = s;
        Ttp12p2 {
            st: FromValue::from_value(s[0].as_ref().expect("component st of Ttp12p2 must be present")),
            c3: FromValue::from_value(s[1].as_ref().expect("component c3 of Ttp12p2 must be present")),
        }
    }
}
impl ToValue for Ttp12p2 {
    fn to_value(&self) -> Value {
        Value::Seq(vec![
            Some(self.st.to_value()),
            Some(self.c3.to_value()),
        ])
    }
}
impl FromValue for Ttp12p3 {
    fn from_value(v: &Value) -> Self {
        let s = match v { Value::Seq(s) => s, other => panic!("Ttp12p3: expected Seq, got {other:?}") };
        assert_eq!(s.len(), 2, "Ttp12p3: component count");
        let _ = s;
        Ttp12p3 {
            st: FromValue::from_value(s[0].as_ref().expect("component st of Ttp12p3 must be present")),
            c0: s[1].as_ref().map(FromValue::from_value),
        }
    }
}
impl ToValue for Ttp12p3 {
    fn to_value(&self) -> Value {
        Value::Seq(vec![
            Some(self.st.to_value()),
            self.c0.as_ref().map(|x| x.to_value()),
        ])
    }
}
impl FromValue for Ttp12p4 {
    fn from_value(v: &Value) -> Self {
        let s = match v { Value::Seq(s) => s, other => panic!("Ttp12p4: expected Seq, got {other:?}") };
        assert_eq!(s.len(), 2, "Ttp12p4: component count");
        let _ = s;
        Ttp12p4 {
            st: FromValue::from_value(s[0].as_ref().expect("component st of Ttp12p4 must be present")),
            p: FromValue::from_value(s[1].as_ref().expect("component p of Ttp12p4 must be present")),
        }
    }
}
impl ToValue for Ttp12p4 {
    fn to_value(&self) -> Value {
        Value::Seq(vec![
            Some(self.st.to_value()),
            Some(self.p.to_value()),
        ])
    }
}
impl FromValue for Ttp12p5 {
    fn from_value(v: &Value) -> Self {
        let s = match v { Value::Seq(s) => s, other => panic!("Ttp12p5: expected Seq, got {other:?}") };
        assert_eq!(s.len(), 2, "Ttp12p5: component count");
        let _ = s;
        Ttp12p5 {
            st: FromValue::from_value(s[0].as_ref().expect("component st of Ttp12p5 must be present")),
            b: s[1].as_ref().map(FromValue::from_value),
        }
    }
}
impl ToValue for Ttp12p5 {
    fn to_value(&self) -> Value {
        Value::Seq(vec![
            Some(self.st.to_value()),
            self.b.as_ref().map(|x| x.to_value()),
        ])
    }
}
impl FromValue for Ttp12p6 {
    fn from_value(v: &Value) -> Self {
        let s = match v { Value::Seq(s) => s, other => panic!("Ttp12p6: expected Seq, got {other:?}") };
        assert_eq!(s.len(), 2, "Ttp12p6: component count");
        let _ = s;
        Ttp12p6 {
            st: FromValue::from_value(s[0].as_ref().expect("component st of Ttp12p6 must be present")),
            i: FromValue::from_value(s[1].as_ref().expect("component i of Ttp12p6 must be present")),
        }
    }
}
impl ToValue for Ttp12p6 {
    fn to_value(&self) -> Value {
        Value::Seq(vec![
            Some(self.st.to_value()),
            Some(self.i.to_value()),
        ])
    }
}
impl FromValue for Ttp12p7 {
    fn from_value(v: &Value) -> Self {
        let s = match v { Value::Seq(s) => s, other => panic!("Ttp12p7: expected Seq, got {other:?}") };
        assert_eq!(s.len(), 2, "Ttp12p7: component count");
        let _ = s;
        Ttp12p7 {
            st: FromValue::from_value(s[0].as_ref().expect("component st of Ttp12p7 must be present")),
            ra: s[1].as_ref().map(FromValue::from_value),
        }
    }
}
impl ToValue for Ttp12p7 {
    fn to_value(&self) -> Value {
        Value::Seq(vec![
            Some(self.st.to_value()),
            self.ra.as_ref().map(|x| x.to_value()),
        ])
    }
}
impl FromValue for Ttp12p8 {
    fn from_value(v: &Value) -> Self {
        let s = match v { Value::Seq(s) => s, other => panic!("Ttp12p8: expected Seq, got {other:?}") };
        assert_eq!(s.len(), 2, "Ttp12p8: component count");
        let _ = s;
        Ttp12p8 {
            st: FromValue::from_value(s[0].as_ref().expect("component st of Ttp12p8 must be present")),
            rs: FromValue::from_value(s[1].as_ref().expect("component rs of Ttp12p8 must be present")),
        }
    }
}
impl ToValue for Ttp12p8 {
    fn to_value(&self) -> Value {
        Value::Seq(vec![
            Some(self.st.to_value()),
            Some(self.rs.to_value()),
        ])
    }
}
impl FromValue for Ttp12p9 {
    fn from_value(v: &Value) -> Self {
        let s = match v { Value::Seq(s) => s, other => panic!("Ttp12p9: expected Seq, got {other:?}") };
        assert_eq!(s.len(), 2, "Ttp12p9: component count");
        let _ = s;
        Ttp12p9 {
            st: FromValue::from_value(s[0].as_ref().expect("component st of Ttp12p9 must be present")),
            rc: s[1].as_ref().map(FromValue::from_value),
        }
    }
}
impl ToValue for Ttp12p9 {
    fn to_value(&self) -> Value {
        Value::Seq(vec![
            Some(self.st.to_value()),
            self.rc.as_ref().map(|x| x.to_value()),
        ])
    }
}
impl FromValue for Ttp12p10 {
    fn from_value(v: &Value) -> Self {
        let s = match v { Value::Seq(s) => s, other => panic!("Ttp12p10: expected Seq, got {other:?}") };
        assert_eq!(s.len(), 2, "Ttp12p10: component count");
        let _ = s;
        Ttp12p10 {
            st: FromValue::from_value(s[0].as_ref().expect("component st of Ttp12p10 must be present")),
            rt: FromValue::from_value(s[1].as_ref().expect("component rt of Ttp12p10 must be present")),
        }
    }
}
impl ToValue for Ttp12p10 {
    fn to_value(&self) -> Value {
        Value::Seq(vec![
            Some(self.st.to_value()),
            Some(self.rt.to_value()),
        ])
    }
}
impl FromValue for Ttp12p11 {
    fn from_value(v: &Value) -> Self {
        let s = match v { Value::Seq(s) => s, other => panic!("Ttp12p11: expected Seq, got {other:?}") };
        assert_eq!(s.len(), 2, "Ttp12p11: component count");
        let _ = s;
        Ttp12p11 {
            st: FromValue::from_value(s[0].as_ref().expect("component st of Ttp12p11 must be present")),
            so: s[1].as_ref().map(FromValue::from_value),
        }
    }
}
impl ToValue for Ttp12p11 {
    fn to_value(&self) -> Value {
        Value::Seq(vec![
            Some(self.st.to_value()),
            self.so.as_ref().map(|x| x.to_value()),
        ])
    }
}

#[allow(unused_imports, dead_code, non_camel_case_types, clippy::all)]
pub mod m_octq {
    use zoo_core::conv::*;
    include!(concat!(env!("OUT_DIR"), "/m_octq.rs"));
}
#[allow(unused_imports, dead_code, non_camel_case_types, clippy::all)]
pub mod m_prtq {
    use zoo_core::conv::*;
    include!(concat!(env!("OUT_DIR"), "/m_prtq.rs"));
}
#[allow(unused_imports, dead_code, non_camel_case_types, clippy::all)]
pub mod m_soiq {
    use zoo_core::conv::*;
    include!(concat!(env!("OUT_DIR"), "/m_soiq.rs"));
}
#[allow(unused_imports, dead_code, non_camel_case_types, clippy::all)]
pub mod m_c05a2 {
    use zoo_core::conv::*;
    include!(concat!(env!("OUT_DIR"), "/m_c05a2.rs"));
}
#[allow(unused_imports, dead_code, non_camel_case_types, clippy::all)]
pub mod m_c05b1 {
    use zoo_core::conv::*;
    include!(concat!(env!("OUT_DIR"), "/m_c05b1.rs"));
}
#[allow(unused_imports, dead_code, non_camel_case_types, clippy::all)]
pub mod m_c05c1 {
    use zoo_core::conv::*;
    include!(concat!(env!("OUT_DIR"), "/m_c05c1.rs"));
}
#[allow(unused_imports, dead_code, non_camel_case_types, clippy::all)]
pub mod m_c05d1 {
    use zoo_core::conv::*;
    include!(concat!(env!("OUT_DIR"), "/m_c05d1.rs"));
}
#[allow(unused_imports, dead_code, non_camel_case_types, clippy::all)]
pub mod m_c05e1 {
    use zoo_core::conv::*;
    include!(concat!(env!("OUT_DIR"), "/m_c05e1.rs"));
}
#[allow(unused_imports, dead_code, non_camel_case_types, clippy::all)]
pub mod m_c05f2 {
    use zoo_core::conv::*;
    include!(concat!(env!("OUT_DIR"), "/m_c05f2.rs"));
}
#[allow(unused_imports, dead_code, non_camel_case_types, clippy::all)]
pub mod m_c05g2 {
    use zoo_core::conv::*;
    include!(concat!(env!("OUT_DIR"), "/m_c05g2.rs"));
}
#[allow(unused_imports, dead_code, non_camel_case_types, clippy::all)]
pub mod m_c05h2 {
    use zoo_core::conv::*;
    include!(concat!(env!("OUT_DIR"), "/m_c05h2.rs"));
}
#[allow(unused_imports, dead_code, non_camel_case_types, clippy::all)]
pub mod m_c05k1 {
    use zoo_core::conv::*;
    include!(concat!(env!("OUT_DIR"), "/m_c05k1.rs"));
}
#[allow(unused_imports, dead_code, non_camel_case_types, clippy::all)]
pub mod m_c16q1 {
    use zoo_core::conv::*;
    include!(concat!(env!("OUT_DIR"), "/m_c16q1.rs"));
}

pub fn registry() -> Vec<Entry> {
    vec![
        Entry { module_index: 2, order: 0, module_id: "octq", def: "Toctany", ops: &Ops::<m_octq::Toctany>(PhantomData) },
        Entry { module_index: 2, order: 1, module_id: "octq", def: "Toctf1", ops: &Ops::<m_octq::Toctf1>(PhantomData) },
        Entry { module_index: 2, order: 2, module_id: "octq", def: "Toctf3", ops: &Ops::<m_octq::Toctf3>(PhantomData) },
        Entry { module_index: 2, order: 3, module_id: "octq", def: "Toctr1to4", ops: &Ops::<m_octq::Toctr1to4>(PhantomData) },
        Entry { module_index: 2, order: 4, module_id: "octq", def: "Toctr4to6", ops: &Ops::<m_octq::Toctr4to6>(PhantomData) },
        Entry { module_index: 2, order: 5, module_id: "octq", def: "Toctr1to70000", ops: &Ops::<m_octq::Toctr1to70000>(PhantomData) },
        Entry { module_index: 2, order: 6, module_id: "octq", def: "Toctr2tomax", ops: &Ops::<m_octq::Toctr2tomax>(PhantomData) },
        Entry { module_index: 2, order: 7, module_id: "octq", def: "Toctf3x", ops: &Ops::<m_octq::Toctf3x>(PhantomData) },
        Entry { module_index: 2, order: 8, module_id: "octq", def: "Toctr1to4x", ops: &Ops::<m_octq::Toctr1to4x>(PhantomData) },
        Entry { module_index: 10, order: 0, module_id: "prtq", def: "Tprtany", ops: &Ops::<m_prtq::Tprtany>(PhantomData) },
        Entry { module_index: 10, order: 1, module_id: "prtq", def: "Tprtf1", ops: &Ops::<m_prtq::Tprtf1>(PhantomData) },
        Entry { module_index: 10, order: 2, module_id: "prtq", def: "Tprtf3", ops: &Ops::<m_prtq::Tprtf3>(PhantomData) },
        Entry { module_index: 10, order: 3, module_id: "prtq", def: "Tprtr1to4", ops: &Ops::<m_prtq::Tprtr1to4>(PhantomData) },
        Entry { module_index: 10, order: 4, module_id: "prtq", def: "Tprtr4to6", ops: &Ops::<m_prtq::Tprtr4to6>(PhantomData) },
        Entry { module_index: 10, order: 5, module_id: "prtq", def: "Tprtr1to70000", ops: &Ops::<m_prtq::Tprtr1to70000>(PhantomData) },
        Entry { module_index: 10, order: 6, module_id: "prtq", def: "Tprtr2tomax", ops: &Ops::<m_prtq::Tprtr2tomax>(PhantomData) },
        Entry { module_index: 10, order: 7, module_id: "prtq", def: "Tprtf3x", ops: &Ops::<m_prtq::Tprtf3x>(PhantomData) },
        Entry { module_index: 10, order: 8, module_id: "prtq", def: "Tprtr1to4x", ops: &Ops::<m_prtq::Tprtr1to4x>(PhantomData) },
        Entry { module_index: 18, order: 0, module_id: "soiq", def: "Tsoiany", ops: &Ops::<m_soiq::Tsoiany>(PhantomData) },
        Entry { module_index: 18, order: 1, module_id: "soiq", def: "Tsoif1", ops: &Ops::<m_soiq::Tsoif1>(PhantomData) },
        Entry { module_index: 18, order: 2, module_id: "soiq", def: "Tsoif3", ops: &Ops::<m_soiq::Tsoif3>(PhantomData) },
        Entry { module_index: 18, order: 3, module_id: "soiq", def: "Tsoir1to4", ops: &Ops::<m_soiq::Tsoir1to4>(PhantomData) },
        Entry { module_index: 18, order: 4, module_id: "soiq", def: "Tsoir4to6", ops: &Ops::<m_soiq::Tsoir4to6>(PhantomData) },
        Entry { module_index: 18, order: 5, module_id: "soiq", def: "Tsoir1to70000", ops: &Ops::<m_soiq::Tsoir1to70000>(PhantomData) },
        Entry { module_index: 18, order: 6, module_id: "soiq", def: "Tsoir2tomax", ops: &Ops::<m_soiq::Tsoir2tomax>(PhantomData) },
        Entry { module_index: 18, order: 7, module_id: "soiq", def: "Tsoif3x", ops: &Ops::<m_soiq::Tsoif3x>(PhantomData) },
        Entry { module_index: 18, order: 8, module_id: "soiq", def: "Tsoir1to4x", ops: &Ops::<m_soiq::Tsoir1to4x>(PhantomData) },
        Entry { module_index: 56, order: 0, module_id: "c05a2", def: "Tsent", ops: &Ops::<m_c05a2::Tsent>(PhantomData) },
        Entry { module_index: 56, order: 1, module_id: "c05a2", def: "Tmsg", ops: &Ops::<m_c05a2::Tmsg>(PhantomData) },
        Entry { module_index: 64, order: 0, module_id: "c05b1", def: "Tsent", ops: &Ops::<m_c05b1::Tsent>(PhantomData) },
        Entry { module_index: 64, order: 1, module_id: "c05b1", def: "Tmsg", ops: &Ops::<m_c05b1::Tmsg>(PhantomData) },
        Entry { module_index: 73, order: 0, module_id: "c05c1", def: "Tsent", ops: &Ops::<m_c05c1::Tsent>(PhantomData) },
        Entry { module_index: 73, order: 1, module_id: "c05c1", def: "Tmsg", ops: &Ops::<m_c05c1::Tmsg>(PhantomData) },
        Entry { module_index: 78, order: 0, module_id: "c05d1", def: "Tsent", ops: &Ops::<m_c05d1::Tsent>(PhantomData) },
        Entry { module_index: 78, order: 1, module_id: "c05d1", def: "Tmsg", ops: &Ops::<m_c05d1::Tmsg>(PhantomData) },
        Entry { module_index: 83, order: 0, module_id: "c05e1", def: "Tsent", ops: &Ops::<m_c05e1::Tsent>(PhantomData) },
        Entry { module_index: 83, order: 1, module_id: "c05e1", def: "Tmsg", ops: &Ops::<m_c05e1::Tmsg>(PhantomData) },
        Entry { module_index: 89, order: 0, module_id: "c05f2", def: "Tsent", ops: &Ops::<m_c05f2::Tsent>(PhantomData) },
        Entry { module_index: 89, order: 1, module_id: "c05f2", def: "Tinner", ops: &Ops::<m_c05f2::Tinner>(PhantomData) },
        Entry { module_index: 89, order: 2, module_id: "c05f2", def: "Tmsg", ops: &Ops::<m_c05f2::Tmsg>(PhantomData) },
        Entry { module_index: 94, order: 0, module_id: "c05g2", def: "Tsent", ops: &Ops::<m_c05g2::Tsent>(PhantomData) },
        Entry { module_index: 94, order: 1, module_id: "c05g2", def: "Tinner", ops: &Ops::<m_c05g2::Tinner>(PhantomData) },
        Entry { module_index: 94, order: 2, module_id: "c05g2", def: "Tmsg", ops: &Ops::<m_c05g2::Tmsg>(PhantomData) },
        Entry { module_index: 98, order: 0, module_id: "c05h2", def: "Tsent", ops: &Ops::<m_c05h2::Tsent>(PhantomData) },
        Entry { module_index: 98, order: 1, module_id: "c05h2", def: "Tinner", ops: &Ops::<m_c05h2::Tinner>(PhantomData) },
        Entry { module_index: 98, order: 2, module_id: "c05h2", def: "Tmsg", ops: &Ops::<m_c05h2::Tmsg>(PhantomData) },
        Entry { module_index: 101, order: 0, module_id: "c05k1", def: "Tsent", ops: &Ops::<m_c05k1::Tsent>(PhantomData) },
        Entry { module_index: 101, order: 1, module_id: "c05k1", def: "Tmsg", ops: &Ops::<m_c05k1::Tmsg>(PhantomData) },
        Entry { module_index: 105, order: 0, module_id: "c16q1", def: "Tapp9", ops: &Ops::<m_c16q1::Tapp9>(PhantomData) },
        Entry { module_index: 105, order: 1, module_id: "c16q1", def: "Tsq", ops: &Ops::<m_c16q1::Tsq>(PhantomData) },
        Entry { module_index: 105, order: 2, module_id: "c16q1", def: "Tcho", ops: &Ops::<m_c16q1::Tcho>(PhantomData) },
        Entry { module_index: 105, order: 3, module_id: "c16q1", def: "Tst", ops: &Ops::<m_c16q1::Tst>(PhantomData) },
        Entry { module_index: 105, order: 4, module_id: "c16q1", def: "Ttp8p12", ops: &Ops::<m_c16q1::Ttp8p12>(PhantomData) },
        Entry { module_index: 105, order: 5, module_id: "c16q1", def: "Ttp9p0", ops: &Ops::<m_c16q1::Ttp9p0>(PhantomData) },
        Entry { module_index: 105, order: 6, module_id: "c16q1", def: "Ttp9p1", ops: &Ops::<m_c16q1::Ttp9p1>(PhantomData) },
        Entry { module_index: 105, order: 7, module_id: "c16q1", def: "Ttp9p2", ops: &Ops::<m_c16q1::Ttp9p2>(PhantomData) },
        Entry { module_index: 105, order: 8, module_id: "c16q1", def: "Ttp9p3", ops: &Ops::<m_c16q1::Ttp9p3>(PhantomData) },
        Entry { module_index: 105, order: 9, module_id: "c16q1", def: "Ttp9p4", ops: &Ops::<m_c16q1::Ttp9p4>(PhantomData) },
        Entry { module_index: 105, order: 10, module_id: "c16q1", def: "Ttp9p5", ops: &Ops::<m_c16q1::Ttp9p5>(PhantomData) },
        Entry { module_index: 105, order: 11, module_id: "c16q1", def: "Ttp9p6", ops: &Ops::<m_c16q1::Ttp9p6>(PhantomData) },
        Entry { module_index: 105, order: 12, module_id: "c16q1", def: "Ttp9p7", ops: &Ops::<m_c16q1::Ttp9p7>(PhantomData) },
        Entry { module_index: 105, order: 13, module_id: "c16q1", def: "Ttp9p8", ops: &Ops::<m_c16q1::Ttp9p8>(PhantomData) },
        Entry { module_index: 105, order: 14, module_id: "c16q1", def: "Ttp9p10", ops: &Ops::<m_c16q1::Ttp9p10>(PhantomData) },
        Entry { module_index: 105, order: 15, module_id: "c16q1", def: "Ttp9p11", ops: &Ops::<m_c16q1::Ttp9p11>(PhantomData) },
        Entry { module_index: 105, order: 16, module_id: "c16q1", def: "Ttp9p12", ops: &Ops::<m_c16q1::Ttp9p12>(PhantomData) },
        Entry { module_index: 105, order: 17, module_id: "c16q1", def: "Ttp10p0", ops: &Ops::<m_c16q1::Ttp10p0>(PhantomData) },
        Entry { module_index: 105, order: 18, module_id: "c16q1", def: "Ttp10p1", ops: &Ops::<m_c16q1::Ttp10p1>(PhantomData) },
        Entry { module_index: 105, order: 19, module_id: "c16q1", def: "Ttp10p2", ops: &Ops::<m_c16q1::Ttp10p2>(PhantomData) },
        Entry { module_index: 105, order: 20, module_id: "c16q1", def: "Ttp10p3", ops: &Ops::<m_c16q1::Ttp10p3>(PhantomData) },
        Entry { module_index: 105, order: 21, module_id: "c16q1", def: "Ttp10p4", ops: &Ops::<m_c16q1::Ttp10p4>(PhantomData) },
        Entry { module_index: 105, order: 22, module_id: "c16q1", def: "Ttp10p5", ops: &Ops::<m_c16q1::Ttp10p5>(PhantomData) },
        Entry { module_index: 105, order: 23, module_id: "c16q1", def: "Ttp10p6", ops: &Ops::<m_c16q1::Ttp10p6>(PhantomData) },
        Entry { module_index: 105, order: 24, module_id: "c16q1", def: "Ttp10p7", ops: &Ops::<m_c16q1::Ttp10p7>(PhantomData) },
        Entry { module_index: 105, order: 25, module_id: "c16q1", def: "Ttp10p8", ops: &Ops::<m_c16q1::Ttp10p8>(PhantomData) },
        Entry { module_index: 105, order: 26, module_id: "c16q1", def: "Ttp10p9", ops: &Ops::<m_c16q1::Ttp10p9>(PhantomData) },
        Entry { module_index: 105, order: 27, module_id: "c16q1", def: "Ttp10p11", ops: &Ops::<m_c16q1::Ttp10p11>(PhantomData) },
        Entry { module_index: 105, order: 28, module_id: "c16q1", def: "Ttp10p12", ops: &Ops::<m_c16q1::Ttp10p12>(PhantomData) },
        Entry { module_index: 105, order: 29, module_id: "c16q1", def: "Ttp11p0", ops: &Ops::<m_c16q1::Ttp11p0>(PhantomData) },
        Entry { module_index: 105, order: 30, module_id: "c16q1", def: "Ttp11p1", ops: &Ops::<m_c16q1::Ttp11p1>(PhantomData) },
        Entry { module_index: 105, order: 31, module_id: "c16q1", def: "Ttp11p2", ops: &Ops::<m_c16q1::Ttp11p2>(PhantomData) },
        Entry { module_index: 105, order: 32, module_id: "c16q1", def: "Ttp11p3", ops: &Ops::<m_c16q1::Ttp11p3>(PhantomData) },
        Entry { module_index: 105, order: 33, module_id: "c16q1", def: "Ttp11p4", ops: &Ops::<m_c16q1::Ttp11p4>(PhantomData) },
        Entry { module_index: 105, order: 34, module_id: "c16q1", def: "Ttp11p5", ops: &Ops::<m_c16q1::Ttp11p5>(PhantomData) },
        Entry { module_index: 105, order: 35, module_id: "c16q1", def: "Ttp11p6", ops: &Ops::<m_c16q1::Ttp11p6>(PhantomData) },
        Entry { module_index: 105, order: 36, module_id: "c16q1", def: "Ttp11p7", ops: &Ops::<m_c16q1::Ttp11p7>(PhantomData) },
        Entry { module_index: 105, order: 37, module_id: "c16q1", def: "Ttp11p8", ops: &Ops::<m_c16q1::Ttp11p8>(PhantomData) },
        Entry { module_index: 105, order: 38, module_id: "c16q1", def: "Ttp11p9", ops: &Ops::<m_c16q1::Ttp11p9>(PhantomData) },
        Entry { module_index: 105, order: 39, module_id: "c16q1", def: "Ttp11p10", ops: &Ops::<m_c16q1::Ttp11p10>(PhantomData) },
        Entry { module_index: 105, order: 40, module_id: "c16q1", def: "Ttp11p12", ops: &Ops::<m_c16q1::Ttp11p12>(PhantomData) },
        Entry { module_index: 105, order: 41, module_id: "c16q1", def: "Ttp12p0", ops: &Ops::<m_c16q1::Ttp12p0>(PhantomData) },
        Entry { module_index: 105, order: 42, module_id: "c16q1", def: "Ttp12p1", ops: &Ops::<m_c16q1::Ttp12p1>(PhantomData) },
        Entry { module_index: 105, order: 43, module_id: "c16q1", def: "Ttp12p2", ops: &Ops::<m_c16q1::Ttp12p2>(PhantomData) },
        Entry { module_index: 105, order: 44, module_id: "c16q1", def: "Ttp12p3", ops: &Ops::<m_c16q1::Ttp12p3>(PhantomData) },
        Entry { module_index: 105, order: 45, module_id: "c16q1", def: "Ttp12p4", ops: &Ops::<m_c16q1::Ttp12p4>(PhantomData) },
        Entry { module_index: 105, order: 46, module_id: "c16q1", def: "Ttp12p5", ops: &Ops::<m_c16q1::Ttp12p5>(PhantomData) },
        Entry { module_index: 105, order: 47, module_id: "c16q1", def: "Ttp12p6", ops: &Ops::<m_c16q1::Ttp12p6>(PhantomData) },
        Entry { module_index: 105, order: 48, module_id: "c16q1", def: "Ttp12p7", ops: &Ops::<m_c16q1::Ttp12p7>(PhantomData) },
        Entry { module_index: 105, order: 49, module_id: "c16q1", def: "Ttp12p8", ops: &Ops::<m_c16q1::Ttp12p8>(PhantomData) },
        Entry { module_index: 105, order: 50, module_id: "c16q1", def: "Ttp12p9", ops: &Ops::<m_c16q1::Ttp12p9>(PhantomData) },
        Entry { module_index: 105, order: 51, module_id: "c16q1", def: "Ttp12p10", ops: &Ops::<m_c16q1::Ttp12p10>(PhantomData) },
        Entry { module_index: 105, order: 52, module_id: "c16q1", def: "Ttp12p11", ops: &Ops::<m_c16q1::Ttp12p11>(PhantomData) },
    ]
}
pub const ZOO_TYPES: usize = 101;
pub const ZOO_REJECTED_JSON: &str = "[]";

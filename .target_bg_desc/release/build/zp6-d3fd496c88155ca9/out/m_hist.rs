use asn1rs::prelude::*;

#[asn(transparent)]

#[derive(Default, Debug, Clone, PartialEq, Hash)]
pub struct Tbool(#[asn(boolean)] pub bool);

impl Tbool {
}

impl Tbool {
    pub const fn new(value: bool) -> Self {
        Self(value)
    }
}

impl ::core::ops::Deref for Tbool {
    type Target = bool;

    fn deref(&self) -> &bool {
        &self.0
    }
}

impl ::core::ops::DerefMut for Tbool {
    fn deref_mut(&mut self) -> &mut bool {
        &mut self.0
    }
}

impl ::core::convert::From<bool> for Tbool {
    fn from(value: bool) -> Self {
        Self(value)
    }
}

impl ::core::convert::From<Tbool> for bool {
    fn from(value: Tbool) -> Self {
        value.0
    }
}

#[asn(transparent)]

#[derive(Default, Debug, Clone, PartialEq, Hash)]
pub struct Tint3(#[asn(integer(0..7))] pub u8);

impl Tint3 {
    pub const fn value_min() -> u8 {
        0
    }

    pub const fn value_max() -> u8 {
        7
    }
}

impl Tint3 {
    pub const fn new(value: u8) -> Self {
        Self(value)
    }
}

impl ::core::ops::Deref for Tint3 {
    type Target = u8;

    fn deref(&self) -> &u8 {
        &self.0
    }
}

impl ::core::ops::DerefMut for Tint3 {
    fn deref_mut(&mut self) -> &mut u8 {
        &mut self.0
    }
}

impl ::core::convert::From<u8> for Tint3 {
    fn from(value: u8) -> Self {
        Self(value)
    }
}

impl ::core::convert::From<Tint3> for u8 {
    fn from(value: Tint3) -> Self {
        value.0
    }
}

#[asn(enumerated, extensible_after(B))]

#[derive(Debug, Clone, PartialEq, Hash, Copy, PartialOrd, Eq, Default)]
pub enum Tenumx {
    #[default] A,
    B,
    C,
}

impl Tenumx {
    pub fn variant(index: usize) -> Option<Self> {
        match index {
            0 => Some(Tenumx::A),
            1 => Some(Tenumx::B),
            2 => Some(Tenumx::C),
            _ => None,
        }
    }

    pub const fn variants() -> [Self; 3] {
        [
        Tenumx::A,
        Tenumx::B,
        Tenumx::C,
        ]
    }

    pub fn value_index(self) -> usize {
        match self {
            Tenumx::A => 0,
            Tenumx::B => 1,
            Tenumx::C => 2,
        }
    }
}

#[asn(transparent)]

#[derive(Default, Debug, Clone, PartialEq, Hash)]
pub struct Tbits13(#[asn(bit_string(size(13)))] pub BitVec);

impl Tbits13 {
}

impl Tbits13 {
    pub const fn new(value: BitVec) -> Self {
        Self(value)
    }
}

impl ::core::ops::Deref for Tbits13 {
    type Target = BitVec;

    fn deref(&self) -> &BitVec {
        &self.0
    }
}

impl ::core::ops::DerefMut for Tbits13 {
    fn deref_mut(&mut self) -> &mut BitVec {
        &mut self.0
    }
}

impl ::core::convert::From<BitVec> for Tbits13 {
    fn from(value: BitVec) -> Self {
        Self(value)
    }
}

impl ::core::convert::From<Tbits13> for BitVec {
    fn from(value: Tbits13) -> Self {
        value.0
    }
}

#[asn(transparent)]

#[derive(Default, Debug, Clone, PartialEq, Hash)]
pub struct Tnull(#[asn(null)] pub Null);

impl Tnull {
}

impl Tnull {
    pub const fn new(value: Null) -> Self {
        Self(value)
    }
}

impl ::core::ops::Deref for Tnull {
    type Target = Null;

    fn deref(&self) -> &Null {
        &self.0
    }
}

impl ::core::ops::DerefMut for Tnull {
    fn deref_mut(&mut self) -> &mut Null {
        &mut self.0
    }
}

impl ::core::convert::From<Null> for Tnull {
    fn from(value: Null) -> Self {
        Self(value)
    }
}

impl ::core::convert::From<Tnull> for Null {
    fn from(value: Tnull) -> Self {
        value.0
    }
}

#[asn(transparent)]

#[derive(Default, Debug, Clone, PartialEq, Hash)]
pub struct Tintun(#[asn(integer(0..5))] pub u8);

impl Tintun {
    pub const fn value_min() -> u8 {
        0
    }

    pub const fn value_max() -> u8 {
        5
    }
}

impl Tintun {
    pub const fn new(value: u8) -> Self {
        Self(value)
    }
}

impl ::core::ops::Deref for Tintun {
    type Target = u8;

    fn deref(&self) -> &u8 {
        &self.0
    }
}

impl ::core::ops::DerefMut for Tintun {
    fn deref_mut(&mut self) -> &mut u8 {
        &mut self.0
    }
}

impl ::core::convert::From<u8> for Tintun {
    fn from(value: u8) -> Self {
        Self(value)
    }
}

impl ::core::convert::From<Tintun> for u8 {
    fn from(value: Tintun) -> Self {
        value.0
    }
}

#[asn(transparent)]

#[derive(Default, Debug, Clone, PartialEq, Hash)]
pub struct Tia5f5(#[asn(ia5string(size(5)))] pub String);

impl Tia5f5 {
}

impl Tia5f5 {
    pub const fn new(value: String) -> Self {
        Self(value)
    }
}

impl ::core::ops::Deref for Tia5f5 {
    type Target = String;

    fn deref(&self) -> &String {
        &self.0
    }
}

impl ::core::ops::DerefMut for Tia5f5 {
    fn deref_mut(&mut self) -> &mut String {
        &mut self.0
    }
}

impl ::core::convert::From<String> for Tia5f5 {
    fn from(value: String) -> Self {
        Self(value)
    }
}

impl ::core::convert::From<Tia5f5> for String {
    fn from(value: Tia5f5) -> Self {
        value.0
    }
}

#[asn(transparent)]

#[derive(Default, Debug, Clone, PartialEq, Hash)]
pub struct Tutf8(#[asn(utf8string)] pub String);

impl Tutf8 {
}

impl Tutf8 {
    pub const fn new(value: String) -> Self {
        Self(value)
    }
}

impl ::core::ops::Deref for Tutf8 {
    type Target = String;

    fn deref(&self) -> &String {
        &self.0
    }
}

impl ::core::ops::DerefMut for Tutf8 {
    fn deref_mut(&mut self) -> &mut String {
        &mut self.0
    }
}

impl ::core::convert::From<String> for Tutf8 {
    fn from(value: String) -> Self {
        Self(value)
    }
}

impl ::core::convert::From<Tutf8> for String {
    fn from(value: Tutf8) -> Self {
        value.0
    }
}

#[asn(transparent)]

#[derive(Default, Debug, Clone, PartialEq, Hash)]
pub struct Tsobool(#[asn(sequence_of(boolean))] pub Vec<bool>);

impl Tsobool {
}

impl Tsobool {
    pub const fn new(value: Vec<bool>) -> Self {
        Self(value)
    }
}

impl ::core::ops::Deref for Tsobool {
    type Target = Vec<bool>;

    fn deref(&self) -> &Vec<bool> {
        &self.0
    }
}

impl ::core::ops::DerefMut for Tsobool {
    fn deref_mut(&mut self) -> &mut Vec<bool> {
        &mut self.0
    }
}

impl ::core::convert::From<Vec<bool>> for Tsobool {
    fn from(value: Vec<bool>) -> Self {
        Self(value)
    }
}

impl ::core::convert::From<Tsobool> for Vec<bool> {
    fn from(value: Tsobool) -> Self {
        value.0
    }
}

#[asn(sequence, extensible_after(a))]

#[derive(Default, Debug, Clone, PartialEq, Hash)]
pub struct Tseqx {
    #[asn(integer(0..7))] pub a: u8,
    #[asn(optional(integer(0..255)))] pub c: Option<u8>,
}

impl Tseqx {
    pub const fn a_min() -> u8 {
        0
    }

    pub const fn a_max() -> u8 {
        7
    }

    pub const fn c_min() -> u8 {
        0
    }

    pub const fn c_max() -> u8 {
        255
    }
}

#[asn(choice, extensible_after(A))]

#[derive(Debug, Clone, PartialEq, Hash)]
pub enum Tchx {
    #[asn(boolean)] A(bool),
    #[asn(integer(0..255))] B(u8),
}

impl Tchx {
    pub fn variants() -> [Self; 2] {
        [
        Tchx::A(Default::default()),
        Tchx::B(Default::default()),
        ]
    }

    pub fn value_index(&self) -> usize {
        match self {
            Tchx::A(_) => 0,
            Tchx::B(_) => 1,
        }
    }

    pub const fn b_min() -> u8 {
        0
    }

    pub const fn b_max() -> u8 {
        255
    }
}

impl Default for Tchx {
    fn default() -> Tchx {
        Tchx::A(Default::default())
    }
}

#[asn(transparent)]

#[derive(Default, Debug, Clone, PartialEq, Hash)]
pub struct Toct(#[asn(octet_string)] pub Vec<u8>);

impl Toct {
}

impl Toct {
    pub const fn new(value: Vec<u8>) -> Self {
        Self(value)
    }
}

impl ::core::ops::Deref for Toct {
    type Target = Vec<u8>;

    fn deref(&self) -> &Vec<u8> {
        &self.0
    }
}

impl ::core::ops::DerefMut for Toct {
    fn deref_mut(&mut self) -> &mut Vec<u8> {
        &mut self.0
    }
}

impl ::core::convert::From<Vec<u8>> for Toct {
    fn from(value: Vec<u8>) -> Self {
        Self(value)
    }
}

impl ::core::convert::From<Toct> for Vec<u8> {
    fn from(value: Toct) -> Self {
        value.0
    }
}
// ---- harness conversions (generated by the zoo build script from the items above) ----
impl FromValue for Tbool { fn from_value(v: &Value) -> Self { Tbool(FromValue::from_value(v)) } }
impl ToValue for Tbool { fn to_value(&self) -> Value { self.0.to_value() } }
impl FromValue for Tint3 { fn from_value(v: &Value) -> Self { Tint3(FromValue::from_value(v)) } }
impl ToValue for Tint3 { fn to_value(&self) -> Value { self.0.to_value() } }
impl FromValue for Tenumx {
    fn from_value(v: &Value) -> Self {
        match v {
            Value::Enum(0) => Tenumx::A,
            Value::Enum(1) => Tenumx::B,
            Value::Enum(2) => Tenumx::C,
            other => panic!("Tenumx: bad enum value {other:?}"),
        }
    }
}
impl ToValue for Tenumx {
    fn to_value(&self) -> Value {
        match self {
            Tenumx::A => Value::Enum(0),
            Tenumx::B => Value::Enum(1),
            Tenumx::C => Value::Enum(2),
        }
    }
}
impl FromValue for Tbits13 { fn from_value(v: &Value) -> Self { Tbits13(FromValue::from_value(v)) } }
impl ToValue for Tbits13 { fn to_value(&self) -> Value { self.0.to_value() } }
impl FromValue for Tnull { fn from_value(v: &Value) -> Self { Tnull(FromValue::from_value(v)) } }
impl ToValue for Tnull { fn to_value(&self) -> Value { self.0.to_value() } }
impl FromValue for Tintun { fn from_value(v: &Value) -> Self { Tintun(FromValue::from_value(v)) } }
impl ToValue for Tintun { fn to_value(&self) -> Value { self.0.to_value() } }
impl FromValue for Tia5f5 { fn from_value(v: &Value) -> Self { Tia5f5(FromValue::from_value(v)) } }
impl ToValue for Tia5f5 { fn to_value(&self) -> Value { self.0.to_value() } }
impl FromValue for Tutf8 { fn from_value(v: &Value) -> Self { Tutf8(FromValue::from_value(v)) } }
impl ToValue for Tutf8 { fn to_value(&self) -> Value { self.0.to_value() } }
impl FromValue for Tsobool { fn from_value(v: &Value) -> Self { Tsobool(FromValue::from_value(v)) } }
impl ToValue for Tsobool { fn to_value(&self) -> Value { self.0.to_value() } }
impl FromValue for Tseqx {
    fn from_value(v: &Value) -> Self {
        let s = match v { Value::Seq(s) => s, other => panic!("Tseqx: expected Seq, got {other:?}") };
        assert_eq!(s.len(), 2, "Tseqx: component count");
        let _ = s;
        Tseqx {
            a: FromValue::from_value(s[0].as_ref().expect("component a of Tseqx must be present")),
            c: s[1].as_ref().map(FromValue::from_value),
        }
    }
}
impl ToValue for Tseqx {
    fn to_value(&self) -> Value {
        Value::Seq(vec![
            Some(self.a.to_value()),
            self.c.as_ref().map(|x| x.to_value()),
        ])
    }
}
impl FromValue for Tchx {
    fn from_value(v: &Value) -> Self {
        let (i, inner) = match v { Value::Choice(i, inner) => (*i, &**inner), other => panic!("Tchx: expected Choice, got {other:?}") };
        match i {
            0 => Tchx::A(FromValue::from_value(inner)),
            1 => Tchx::B(FromValue::from_value(inner)),
            _ => panic!("Tchx: alternative index {i} out of range"),
        }
    }
}
impl ToValue for Tchx {
    fn to_value(&self) -> Value {
        match self {
            Tchx::A(x) => Value::Choice(0, Box::new(x.to_value())),
            Tchx::B(x) => Value::Choice(1, Box::new(x.to_value())),
        }
    }
}
impl FromValue for Toct { fn from_value(v: &Value) -> Self { Toct(FromValue::from_value(v)) } }
impl ToValue for Toct { fn to_value(&self) -> Value { self.0.to_value() } }

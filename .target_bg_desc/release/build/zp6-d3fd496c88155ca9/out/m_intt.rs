use asn1rs::prelude::*;

#[asn(transparent)]

#[derive(Default, Debug, Clone, PartialEq, Hash)]
pub struct Til1(#[asn(integer(5..5))] pub u8);

impl Til1 {
    pub const fn value_min() -> u8 {
        5
    }

    pub const fn value_max() -> u8 {
        5
    }
}

impl Til1 {
    pub const fn new(value: u8) -> Self {
        Self(value)
    }
}

impl ::core::ops::Deref for Til1 {
    type Target = u8;

    fn deref(&self) -> &u8 {
        &self.0
    }
}

impl ::core::ops::DerefMut for Til1 {
    fn deref_mut(&mut self) -> &mut u8 {
        &mut self.0
    }
}

impl ::core::convert::From<u8> for Til1 {
    fn from(value: u8) -> Self {
        Self(value)
    }
}

impl ::core::convert::From<Til1> for u8 {
    fn from(value: Til1) -> Self {
        value.0
    }
}

#[asn(transparent)]

#[derive(Default, Debug, Clone, PartialEq, Hash)]
pub struct Til3(#[asn(integer(0..2))] pub u8);

impl Til3 {
    pub const fn value_min() -> u8 {
        0
    }

    pub const fn value_max() -> u8 {
        2
    }
}

impl Til3 {
    pub const fn new(value: u8) -> Self {
        Self(value)
    }
}

impl ::core::ops::Deref for Til3 {
    type Target = u8;

    fn deref(&self) -> &u8 {
        &self.0
    }
}

impl ::core::ops::DerefMut for Til3 {
    fn deref_mut(&mut self) -> &mut u8 {
        &mut self.0
    }
}

impl ::core::convert::From<u8> for Til3 {
    fn from(value: u8) -> Self {
        Self(value)
    }
}

impl ::core::convert::From<Til3> for u8 {
    fn from(value: Til3) -> Self {
        value.0
    }
}

#[asn(transparent)]

#[derive(Default, Debug, Clone, PartialEq, Hash)]
pub struct Til4(#[asn(integer(0..3))] pub u8);

impl Til4 {
    pub const fn value_min() -> u8 {
        0
    }

    pub const fn value_max() -> u8 {
        3
    }
}

impl Til4 {
    pub const fn new(value: u8) -> Self {
        Self(value)
    }
}

impl ::core::ops::Deref for Til4 {
    type Target = u8;

    fn deref(&self) -> &u8 {
        &self.0
    }
}

impl ::core::ops::DerefMut for Til4 {
    fn deref_mut(&mut self) -> &mut u8 {
        &mut self.0
    }
}

impl ::core::convert::From<u8> for Til4 {
    fn from(value: u8) -> Self {
        Self(value)
    }
}

impl ::core::convert::From<Til4> for u8 {
    fn from(value: Til4) -> Self {
        value.0
    }
}

#[asn(transparent)]

#[derive(Default, Debug, Clone, PartialEq, Hash)]
pub struct Til5(#[asn(integer(0..6))] pub u8);

impl Til5 {
    pub const fn value_min() -> u8 {
        0
    }

    pub const fn value_max() -> u8 {
        6
    }
}

impl Til5 {
    pub const fn new(value: u8) -> Self {
        Self(value)
    }
}

impl ::core::ops::Deref for Til5 {
    type Target = u8;

    fn deref(&self) -> &u8 {
        &self.0
    }
}

impl ::core::ops::DerefMut for Til5 {
    fn deref_mut(&mut self) -> &mut u8 {
        &mut self.0
    }
}

impl ::core::convert::From<u8> for Til5 {
    fn from(value: u8) -> Self {
        Self(value)
    }
}

impl ::core::convert::From<Til5> for u8 {
    fn from(value: Til5) -> Self {
        value.0
    }
}

#[asn(transparent)]

#[derive(Default, Debug, Clone, PartialEq, Hash)]
pub struct Til7(#[asn(integer(0..8))] pub u8);

impl Til7 {
    pub const fn value_min() -> u8 {
        0
    }

    pub const fn value_max() -> u8 {
        8
    }
}

impl Til7 {
    pub const fn new(value: u8) -> Self {
        Self(value)
    }
}

impl ::core::ops::Deref for Til7 {
    type Target = u8;

    fn deref(&self) -> &u8 {
        &self.0
    }
}

impl ::core::ops::DerefMut for Til7 {
    fn deref_mut(&mut self) -> &mut u8 {
        &mut self.0
    }
}

impl ::core::convert::From<u8> for Til7 {
    fn from(value: u8) -> Self {
        Self(value)
    }
}

impl ::core::convert::From<Til7> for u8 {
    fn from(value: Til7) -> Self {
        value.0
    }
}

#[asn(transparent)]

#[derive(Default, Debug, Clone, PartialEq, Hash)]
pub struct Til8(#[asn(integer(-1..1))] pub i8);

impl Til8 {
    pub const fn value_min() -> i8 {
        -1
    }

    pub const fn value_max() -> i8 {
        1
    }
}

impl Til8 {
    pub const fn new(value: i8) -> Self {
        Self(value)
    }
}

impl ::core::ops::Deref for Til8 {
    type Target = i8;

    fn deref(&self) -> &i8 {
        &self.0
    }
}

impl ::core::ops::DerefMut for Til8 {
    fn deref_mut(&mut self) -> &mut i8 {
        &mut self.0
    }
}

impl ::core::convert::From<i8> for Til8 {
    fn from(value: i8) -> Self {
        Self(value)
    }
}

impl ::core::convert::From<Til8> for i8 {
    fn from(value: Til8) -> Self {
        value.0
    }
}

#[asn(transparent)]

#[derive(Default, Debug, Clone, PartialEq, Hash)]
pub struct Til10(#[asn(integer(0..127))] pub u8);

impl Til10 {
    pub const fn value_min() -> u8 {
        0
    }

    pub const fn value_max() -> u8 {
        127
    }
}

impl Til10 {
    pub const fn new(value: u8) -> Self {
        Self(value)
    }
}

impl ::core::ops::Deref for Til10 {
    type Target = u8;

    fn deref(&self) -> &u8 {
        &self.0
    }
}

impl ::core::ops::DerefMut for Til10 {
    fn deref_mut(&mut self) -> &mut u8 {
        &mut self.0
    }
}

impl ::core::convert::From<u8> for Til10 {
    fn from(value: u8) -> Self {
        Self(value)
    }
}

impl ::core::convert::From<Til10> for u8 {
    fn from(value: Til10) -> Self {
        value.0
    }
}

#[asn(transparent)]

#[derive(Default, Debug, Clone, PartialEq, Hash)]
pub struct Til11(#[asn(integer(0..128))] pub u8);

impl Til11 {
    pub const fn value_min() -> u8 {
        0
    }

    pub const fn value_max() -> u8 {
        128
    }
}

impl Til11 {
    pub const fn new(value: u8) -> Self {
        Self(value)
    }
}

impl ::core::ops::Deref for Til11 {
    type Target = u8;

    fn deref(&self) -> &u8 {
        &self.0
    }
}

impl ::core::ops::DerefMut for Til11 {
    fn deref_mut(&mut self) -> &mut u8 {
        &mut self.0
    }
}

impl ::core::convert::From<u8> for Til11 {
    fn from(value: u8) -> Self {
        Self(value)
    }
}

impl ::core::convert::From<Til11> for u8 {
    fn from(value: Til11) -> Self {
        value.0
    }
}

#[asn(transparent)]

#[derive(Default, Debug, Clone, PartialEq, Hash)]
pub struct Til12(#[asn(integer(0..254))] pub u8);

impl Til12 {
    pub const fn value_min() -> u8 {
        0
    }

    pub const fn value_max() -> u8 {
        254
    }
}

impl Til12 {
    pub const fn new(value: u8) -> Self {
        Self(value)
    }
}

impl ::core::ops::Deref for Til12 {
    type Target = u8;

    fn deref(&self) -> &u8 {
        &self.0
    }
}

impl ::core::ops::DerefMut for Til12 {
    fn deref_mut(&mut self) -> &mut u8 {
        &mut self.0
    }
}

impl ::core::convert::From<u8> for Til12 {
    fn from(value: u8) -> Self {
        Self(value)
    }
}

impl ::core::convert::From<Til12> for u8 {
    fn from(value: Til12) -> Self {
        value.0
    }
}

#[asn(transparent)]

#[derive(Default, Debug, Clone, PartialEq, Hash)]
pub struct Til15(#[asn(integer(1..256))] pub u16);

impl Til15 {
    pub const fn value_min() -> u16 {
        1
    }

    pub const fn value_max() -> u16 {
        256
    }
}

impl Til15 {
    pub const fn new(value: u16) -> Self {
        Self(value)
    }
}

impl ::core::ops::Deref for Til15 {
    type Target = u16;

    fn deref(&self) -> &u16 {
        &self.0
    }
}

impl ::core::ops::DerefMut for Til15 {
    fn deref_mut(&mut self) -> &mut u16 {
        &mut self.0
    }
}

impl ::core::convert::From<u16> for Til15 {
    fn from(value: u16) -> Self {
        Self(value)
    }
}

impl ::core::convert::From<Til15> for u16 {
    fn from(value: Til15) -> Self {
        value.0
    }
}

#[asn(transparent)]

#[derive(Default, Debug, Clone, PartialEq, Hash)]
pub struct Til19(#[asn(integer(0..65536))] pub u32);

impl Til19 {
    pub const fn value_min() -> u32 {
        0
    }

    pub const fn value_max() -> u32 {
        65_536
    }
}

impl Til19 {
    pub const fn new(value: u32) -> Self {
        Self(value)
    }
}

impl ::core::ops::Deref for Til19 {
    type Target = u32;

    fn deref(&self) -> &u32 {
        &self.0
    }
}

impl ::core::ops::DerefMut for Til19 {
    fn deref_mut(&mut self) -> &mut u32 {
        &mut self.0
    }
}

impl ::core::convert::From<u32> for Til19 {
    fn from(value: u32) -> Self {
        Self(value)
    }
}

impl ::core::convert::From<Til19> for u32 {
    fn from(value: Til19) -> Self {
        value.0
    }
}

#[asn(transparent)]

#[derive(Default, Debug, Clone, PartialEq, Hash)]
pub struct Til22(#[asn(integer(0..4294967296))] pub u64);

impl Til22 {
    pub const fn value_min() -> u64 {
        0
    }

    pub const fn value_max() -> u64 {
        4_294_967_296
    }
}

impl Til22 {
    pub const fn new(value: u64) -> Self {
        Self(value)
    }
}

impl ::core::ops::Deref for Til22 {
    type Target = u64;

    fn deref(&self) -> &u64 {
        &self.0
    }
}

impl ::core::ops::DerefMut for Til22 {
    fn deref_mut(&mut self) -> &mut u64 {
        &mut self.0
    }
}

impl ::core::convert::From<u64> for Til22 {
    fn from(value: u64) -> Self {
        Self(value)
    }
}

impl ::core::convert::From<Til22> for u64 {
    fn from(value: Til22) -> Self {
        value.0
    }
}

#[asn(transparent)]

#[derive(Default, Debug, Clone, PartialEq, Hash)]
pub struct Til24(#[asn(integer(min..max))] pub u64);

impl Til24 {
    pub const fn value_min() -> u64 {
        0
    }

    pub const fn value_max() -> u64 {
        9_223_372_036_854_775_807
    }
}

impl Til24 {
    pub const fn new(value: u64) -> Self {
        Self(value)
    }
}

impl ::core::ops::Deref for Til24 {
    type Target = u64;

    fn deref(&self) -> &u64 {
        &self.0
    }
}

impl ::core::ops::DerefMut for Til24 {
    fn deref_mut(&mut self) -> &mut u64 {
        &mut self.0
    }
}

impl ::core::convert::From<u64> for Til24 {
    fn from(value: u64) -> Self {
        Self(value)
    }
}

impl ::core::convert::From<Til24> for u64 {
    fn from(value: Til24) -> Self {
        value.0
    }
}

#[asn(transparent)]

#[derive(Default, Debug, Clone, PartialEq, Hash)]
pub struct Tis2(#[asn(integer(-1..9223372036854775807))] pub i64);

impl Tis2 {
    pub const fn value_min() -> i64 {
        -1
    }

    pub const fn value_max() -> i64 {
        9_223_372_036_854_775_807
    }
}

impl Tis2 {
    pub const fn new(value: i64) -> Self {
        Self(value)
    }
}

impl ::core::ops::Deref for Tis2 {
    type Target = i64;

    fn deref(&self) -> &i64 {
        &self.0
    }
}

impl ::core::ops::DerefMut for Tis2 {
    fn deref_mut(&mut self) -> &mut i64 {
        &mut self.0
    }
}

impl ::core::convert::From<i64> for Tis2 {
    fn from(value: i64) -> Self {
        Self(value)
    }
}

impl ::core::convert::From<Tis2> for i64 {
    fn from(value: Tis2) -> Self {
        value.0
    }
}

#[asn(transparent)]

#[derive(Default, Debug, Clone, PartialEq, Hash)]
pub struct Tis4(#[asn(integer(0..0))] pub u8);

impl Tis4 {
    pub const fn value_min() -> u8 {
        0
    }

    pub const fn value_max() -> u8 {
        0
    }
}

impl Tis4 {
    pub const fn new(value: u8) -> Self {
        Self(value)
    }
}

impl ::core::ops::Deref for Tis4 {
    type Target = u8;

    fn deref(&self) -> &u8 {
        &self.0
    }
}

impl ::core::ops::DerefMut for Tis4 {
    fn deref_mut(&mut self) -> &mut u8 {
        &mut self.0
    }
}

impl ::core::convert::From<u8> for Tis4 {
    fn from(value: u8) -> Self {
        Self(value)
    }
}

impl ::core::convert::From<Tis4> for u8 {
    fn from(value: Tis4) -> Self {
        value.0
    }
}

#[asn(transparent)]

#[derive(Default, Debug, Clone, PartialEq, Hash)]
pub struct Tis5(#[asn(integer(0..-5))] pub u64);

impl Tis5 {
    pub const fn value_min() -> u64 {
        0
    }

    pub const fn value_max() -> u64 {
        18_446_744_073_709_551_611
    }
}

impl Tis5 {
    pub const fn new(value: u64) -> Self {
        Self(value)
    }
}

impl ::core::ops::Deref for Tis5 {
    type Target = u64;

    fn deref(&self) -> &u64 {
        &self.0
    }
}

impl ::core::ops::DerefMut for Tis5 {
    fn deref_mut(&mut self) -> &mut u64 {
        &mut self.0
    }
}

impl ::core::convert::From<u64> for Tis5 {
    fn from(value: u64) -> Self {
        Self(value)
    }
}

impl ::core::convert::From<Tis5> for u64 {
    fn from(value: Tis5) -> Self {
        value.0
    }
}

#[asn(transparent)]

#[derive(Default, Debug, Clone, PartialEq, Hash)]
pub struct Tis6(#[asn(integer(min..max))] pub u64);

impl Tis6 {
    pub const fn value_min() -> u64 {
        0
    }

    pub const fn value_max() -> u64 {
        9_223_372_036_854_775_807
    }
}

impl Tis6 {
    pub const fn new(value: u64) -> Self {
        Self(value)
    }
}

impl ::core::ops::Deref for Tis6 {
    type Target = u64;

    fn deref(&self) -> &u64 {
        &self.0
    }
}

impl ::core::ops::DerefMut for Tis6 {
    fn deref_mut(&mut self) -> &mut u64 {
        &mut self.0
    }
}

impl ::core::convert::From<u64> for Tis6 {
    fn from(value: u64) -> Self {
        Self(value)
    }
}

impl ::core::convert::From<Tis6> for u64 {
    fn from(value: Tis6) -> Self {
        value.0
    }
}

#[asn(transparent)]

#[derive(Default, Debug, Clone, PartialEq, Hash)]
pub struct Tix3(#[asn(integer(1..max,...))] pub u64);

impl Tix3 {
    pub const fn value_min() -> u64 {
        1
    }

    pub const fn value_max() -> u64 {
        9_223_372_036_854_775_807
    }
}

impl Tix3 {
    pub const fn new(value: u64) -> Self {
        Self(value)
    }
}

impl ::core::ops::Deref for Tix3 {
    type Target = u64;

    fn deref(&self) -> &u64 {
        &self.0
    }
}

impl ::core::ops::DerefMut for Tix3 {
    fn deref_mut(&mut self) -> &mut u64 {
        &mut self.0
    }
}

impl ::core::convert::From<u64> for Tix3 {
    fn from(value: u64) -> Self {
        Self(value)
    }
}

impl ::core::convert::From<Tix3> for u64 {
    fn from(value: Tix3) -> Self {
        value.0
    }
}

#[asn(transparent)]

#[derive(Default, Debug, Clone, PartialEq, Hash)]
pub struct Tix4(#[asn(integer(0..4294967295,...))] pub u64);

impl Tix4 {
    pub const fn value_min() -> u64 {
        0
    }

    pub const fn value_max() -> u64 {
        4_294_967_295
    }
}

impl Tix4 {
    pub const fn new(value: u64) -> Self {
        Self(value)
    }
}

impl ::core::ops::Deref for Tix4 {
    type Target = u64;

    fn deref(&self) -> &u64 {
        &self.0
    }
}

impl ::core::ops::DerefMut for Tix4 {
    fn deref_mut(&mut self) -> &mut u64 {
        &mut self.0
    }
}

impl ::core::convert::From<u64> for Tix4 {
    fn from(value: u64) -> Self {
        Self(value)
    }
}

impl ::core::convert::From<Tix4> for u64 {
    fn from(value: Tix4) -> Self {
        value.0
    }
}

#[asn(enumerated)]

#[derive(Debug, Clone, PartialEq, Hash, Copy, PartialOrd, Eq, Default)]
pub enum Ten1 {
    #[default] E0,
}

impl Ten1 {
    pub fn variant(index: usize) -> Option<Self> {
        match index {
            0 => Some(Ten1::E0),
            _ => None,
        }
    }

    pub const fn variants() -> [Self; 1] {
        [
        Ten1::E0,
        ]
    }

    pub fn value_index(self) -> usize {
        match self {
            Ten1::E0 => 0,
        }
    }
}

#[asn(enumerated)]

#[derive(Debug, Clone, PartialEq, Hash, Copy, PartialOrd, Eq, Default)]
pub enum Ten3 {
    #[default] E0,
    E1,
    E2,
}

impl Ten3 {
    pub fn variant(index: usize) -> Option<Self> {
        match index {
            0 => Some(Ten3::E0),
            1 => Some(Ten3::E1),
            2 => Some(Ten3::E2),
            _ => None,
        }
    }

    pub const fn variants() -> [Self; 3] {
        [
        Ten3::E0,
        Ten3::E1,
        Ten3::E2,
        ]
    }

    pub fn value_index(self) -> usize {
        match self {
            Ten3::E0 => 0,
            Ten3::E1 => 1,
            Ten3::E2 => 2,
        }
    }
}

#[asn(enumerated)]

#[derive(Debug, Clone, PartialEq, Hash, Copy, PartialOrd, Eq, Default)]
pub enum Ten4 {
    #[default] E0,
    E1,
    E2,
    E3,
}

impl Ten4 {
    pub fn variant(index: usize) -> Option<Self> {
        match index {
            0 => Some(Ten4::E0),
            1 => Some(Ten4::E1),
            2 => Some(Ten4::E2),
            3 => Some(Ten4::E3),
            _ => None,
        }
    }

    pub const fn variants() -> [Self; 4] {
        [
        Ten4::E0,
        Ten4::E1,
        Ten4::E2,
        Ten4::E3,
        ]
    }

    pub fn value_index(self) -> usize {
        match self {
            Ten4::E0 => 0,
            Ten4::E1 => 1,
            Ten4::E2 => 2,
            Ten4::E3 => 3,
        }
    }
}

#[asn(enumerated)]

#[derive(Debug, Clone, PartialEq, Hash, Copy, PartialOrd, Eq, Default)]
pub enum Ten8 {
    #[default] E0,
    E1,
    E2,
    E3,
    E4,
    E5,
    E6,
    E7,
}

impl Ten8 {
    pub fn variant(index: usize) -> Option<Self> {
        match index {
            0 => Some(Ten8::E0),
            1 => Some(Ten8::E1),
            2 => Some(Ten8::E2),
            3 => Some(Ten8::E3),
            4 => Some(Ten8::E4),
            5 => Some(Ten8::E5),
            6 => Some(Ten8::E6),
            7 => Some(Ten8::E7),
            _ => None,
        }
    }

    pub const fn variants() -> [Self; 8] {
        [
        Ten8::E0,
        Ten8::E1,
        Ten8::E2,
        Ten8::E3,
        Ten8::E4,
        Ten8::E5,
        Ten8::E6,
        Ten8::E7,
        ]
    }

    pub fn value_index(self) -> usize {
        match self {
            Ten8::E0 => 0,
            Ten8::E1 => 1,
            Ten8::E2 => 2,
            Ten8::E3 => 3,
            Ten8::E4 => 4,
            Ten8::E5 => 5,
            Ten8::E6 => 6,
            Ten8::E7 => 7,
        }
    }
}

#[asn(enumerated)]

#[derive(Debug, Clone, PartialEq, Hash, Copy, PartialOrd, Eq, Default)]
pub enum Ten9 {
    #[default] E0,
    E1,
    E2,
    E3,
    E4,
    E5,
    E6,
    E7,
    E8,
}

impl Ten9 {
    pub fn variant(index: usize) -> Option<Self> {
        match index {
            0 => Some(Ten9::E0),
            1 => Some(Ten9::E1),
            2 => Some(Ten9::E2),
            3 => Some(Ten9::E3),
            4 => Some(Ten9::E4),
            5 => Some(Ten9::E5),
            6 => Some(Ten9::E6),
            7 => Some(Ten9::E7),
            8 => Some(Ten9::E8),
            _ => None,
        }
    }

    pub const fn variants() -> [Self; 9] {
        [
        Ten9::E0,
        Ten9::E1,
        Ten9::E2,
        Ten9::E3,
        Ten9::E4,
        Ten9::E5,
        Ten9::E6,
        Ten9::E7,
        Ten9::E8,
        ]
    }

    pub fn value_index(self) -> usize {
        match self {
            Ten9::E0 => 0,
            Ten9::E1 => 1,
            Ten9::E2 => 2,
            Ten9::E3 => 3,
            Ten9::E4 => 4,
            Ten9::E5 => 5,
            Ten9::E6 => 6,
            Ten9::E7 => 7,
            Ten9::E8 => 8,
        }
    }
}

#[asn(enumerated)]

#[derive(Debug, Clone, PartialEq, Hash, Copy, PartialOrd, Eq, Default)]
pub enum Ten64 {
    #[default] E0,
    E1,
    E2,
    E3,
    E4,
    E5,
    E6,
    E7,
    E8,
    E9,
    E10,
    E11,
    E12,
    E13,
    E14,
    E15,
    E16,
    E17,
    E18,
    E19,
    E20,
    E21,
    E22,
    E23,
    E24,
    E25,
    E26,
    E27,
    E28,
    E29,
    E30,
    E31,
    E32,
    E33,
    E34,
    E35,
    E36,
    E37,
    E38,
    E39,
    E40,
    E41,
    E42,
    E43,
    E44,
    E45,
    E46,
    E47,
    E48,
    E49,
    E50,
    E51,
    E52,
    E53,
    E54,
    E55,
    E56,
    E57,
    E58,
    E59,
    E60,
    E61,
    E62,
    E63,
}

impl Ten64 {
    pub fn variant(index: usize) -> Option<Self> {
        match index {
            0 => Some(Ten64::E0),
            1 => Some(Ten64::E1),
            2 => Some(Ten64::E2),
            3 => Some(Ten64::E3),
            4 => Some(Ten64::E4),
            5 => Some(Ten64::E5),
            6 => Some(Ten64::E6),
            7 => Some(Ten64::E7),
            8 => Some(Ten64::E8),
            9 => Some(Ten64::E9),
            10 => Some(Ten64::E10),
            11 => Some(Ten64::E11),
            12 => Some(Ten64::E12),
            13 => Some(Ten64::E13),
            14 => Some(Ten64::E14),
            15 => Some(Ten64::E15),
            16 => Some(Ten64::E16),
            17 => Some(Ten64::E17),
            18 => Some(Ten64::E18),
            19 => Some(Ten64::E19),
            20 => Some(Ten64::E20),
            21 => Some(Ten64::E21),
            22 => Some(Ten64::E22),
            23 => Some(Ten64::E23),
            24 => Some(Ten64::E24),
            25 => Some(Ten64::E25),
            26 => Some(Ten64::E26),
            27 => Some(Ten64::E27),
            28 => Some(Ten64::E28),
            29 => Some(Ten64::E29),
            30 => Some(Ten64::E30),
            31 => Some(Ten64::E31),
            32 => Some(Ten64::E32),
            33 => Some(Ten64::E33),
            34 => Some(Ten64::E34),
            35 => Some(Ten64::E35),
            36 => Some(Ten64::E36),
            37 => Some(Ten64::E37),
            38 => Some(Ten64::E38),
            39 => Some(Ten64::E39),
            40 => Some(Ten64::E40),
            41 => Some(Ten64::E41),
            42 => Some(Ten64::E42),
            43 => Some(Ten64::E43),
            44 => Some(Ten64::E44),
            45 => Some(Ten64::E45),
            46 => Some(Ten64::E46),
            47 => Some(Ten64::E47),
            48 => Some(Ten64::E48),
            49 => Some(Ten64::E49),
            50 => Some(Ten64::E50),
            51 => Some(Ten64::E51),
            52 => Some(Ten64::E52),
            53 => Some(Ten64::E53),
            54 => Some(Ten64::E54),
            55 => Some(Ten64::E55),
            56 => Some(Ten64::E56),
            57 => Some(Ten64::E57),
            58 => Some(Ten64::E58),
            59 => Some(Ten64::E59),
            60 => Some(Ten64::E60),
            61 => Some(Ten64::E61),
            62 => Some(Ten64::E62),
            63 => Some(Ten64::E63),
            _ => None,
        }
    }

    pub const fn variants() -> [Self; 64] {
        [
        Ten64::E0,
        Ten64::E1,
        Ten64::E2,
        Ten64::E3,
        Ten64::E4,
        Ten64::E5,
        Ten64::E6,
        Ten64::E7,
        Ten64::E8,
        Ten64::E9,
        Ten64::E10,
        Ten64::E11,
        Ten64::E12,
        Ten64::E13,
        Ten64::E14,
        Ten64::E15,
        Ten64::E16,
        Ten64::E17,
        Ten64::E18,
        Ten64::E19,
        Ten64::E20,
        Ten64::E21,
        Ten64::E22,
        Ten64::E23,
        Ten64::E24,
        Ten64::E25,
        Ten64::E26,
        Ten64::E27,
        Ten64::E28,
        Ten64::E29,
        Ten64::E30,
        Ten64::E31,
        Ten64::E32,
        Ten64::E33,
        Ten64::E34,
        Ten64::E35,
        Ten64::E36,
        Ten64::E37,
        Ten64::E38,
        Ten64::E39,
        Ten64::E40,
        Ten64::E41,
        Ten64::E42,
        Ten64::E43,
        Ten64::E44,
        Ten64::E45,
        Ten64::E46,
        Ten64::E47,
        Ten64::E48,
        Ten64::E49,
        Ten64::E50,
        Ten64::E51,
        Ten64::E52,
        Ten64::E53,
        Ten64::E54,
        Ten64::E55,
        Ten64::E56,
        Ten64::E57,
        Ten64::E58,
        Ten64::E59,
        Ten64::E60,
        Ten64::E61,
        Ten64::E62,
        Ten64::E63,
        ]
    }

    pub fn value_index(self) -> usize {
        match self {
            Ten64::E0 => 0,
            Ten64::E1 => 1,
            Ten64::E2 => 2,
            Ten64::E3 => 3,
            Ten64::E4 => 4,
            Ten64::E5 => 5,
            Ten64::E6 => 6,
            Ten64::E7 => 7,
            Ten64::E8 => 8,
            Ten64::E9 => 9,
            Ten64::E10 => 10,
            Ten64::E11 => 11,
            Ten64::E12 => 12,
            Ten64::E13 => 13,
            Ten64::E14 => 14,
            Ten64::E15 => 15,
            Ten64::E16 => 16,
            Ten64::E17 => 17,
            Ten64::E18 => 18,
            Ten64::E19 => 19,
            Ten64::E20 => 20,
            Ten64::E21 => 21,
            Ten64::E22 => 22,
            Ten64::E23 => 23,
            Ten64::E24 => 24,
            Ten64::E25 => 25,
            Ten64::E26 => 26,
            Ten64::E27 => 27,
            Ten64::E28 => 28,
            Ten64::E29 => 29,
            Ten64::E30 => 30,
            Ten64::E31 => 31,
            Ten64::E32 => 32,
            Ten64::E33 => 33,
            Ten64::E34 => 34,
            Ten64::E35 => 35,
            Ten64::E36 => 36,
            Ten64::E37 => 37,
            Ten64::E38 => 38,
            Ten64::E39 => 39,
            Ten64::E40 => 40,
            Ten64::E41 => 41,
            Ten64::E42 => 42,
            Ten64::E43 => 43,
            Ten64::E44 => 44,
            Ten64::E45 => 45,
            Ten64::E46 => 46,
            Ten64::E47 => 47,
            Ten64::E48 => 48,
            Ten64::E49 => 49,
            Ten64::E50 => 50,
            Ten64::E51 => 51,
            Ten64::E52 => 52,
            Ten64::E53 => 53,
            Ten64::E54 => 54,
            Ten64::E55 => 55,
            Ten64::E56 => 56,
            Ten64::E57 => 57,
            Ten64::E58 => 58,
            Ten64::E59 => 59,
            Ten64::E60 => 60,
            Ten64::E61 => 61,
            Ten64::E62 => 62,
            Ten64::E63 => 63,
        }
    }
}

#[asn(enumerated)]

#[derive(Debug, Clone, PartialEq, Hash, Copy, PartialOrd, Eq, Default)]
pub enum Ten65 {
    #[default] E0,
    E1,
    E2,
    E3,
    E4,
    E5,
    E6,
    E7,
    E8,
    E9,
    E10,
    E11,
    E12,
    E13,
    E14,
    E15,
    E16,
    E17,
    E18,
    E19,
    E20,
    E21,
    E22,
    E23,
    E24,
    E25,
    E26,
    E27,
    E28,
    E29,
    E30,
    E31,
    E32,
    E33,
    E34,
    E35,
    E36,
    E37,
    E38,
    E39,
    E40,
    E41,
    E42,
    E43,
    E44,
    E45,
    E46,
    E47,
    E48,
    E49,
    E50,
    E51,
    E52,
    E53,
    E54,
    E55,
    E56,
    E57,
    E58,
    E59,
    E60,
    E61,
    E62,
    E63,
    E64,
}

impl Ten65 {
    pub fn variant(index: usize) -> Option<Self> {
        match index {
            0 => Some(Ten65::E0),
            1 => Some(Ten65::E1),
            2 => Some(Ten65::E2),
            3 => Some(Ten65::E3),
            4 => Some(Ten65::E4),
            5 => Some(Ten65::E5),
            6 => Some(Ten65::E6),
            7 => Some(Ten65::E7),
            8 => Some(Ten65::E8),
            9 => Some(Ten65::E9),
            10 => Some(Ten65::E10),
            11 => Some(Ten65::E11),
            12 => Some(Ten65::E12),
            13 => Some(Ten65::E13),
            14 => Some(Ten65::E14),
            15 => Some(Ten65::E15),
            16 => Some(Ten65::E16),
            17 => Some(Ten65::E17),
            18 => Some(Ten65::E18),
            19 => Some(Ten65::E19),
            20 => Some(Ten65::E20),
            21 => Some(Ten65::E21),
            22 => Some(Ten65::E22),
            23 => Some(Ten65::E23),
            24 => Some(Ten65::E24),
            25 => Some(Ten65::E25),
            26 => Some(Ten65::E26),
            27 => Some(Ten65::E27),
            28 => Some(Ten65::E28),
            29 => Some(Ten65::E29),
            30 => Some(Ten65::E30),
            31 => Some(Ten65::E31),
            32 => Some(Ten65::E32),
            33 => Some(Ten65::E33),
            34 => Some(Ten65::E34),
            35 => Some(Ten65::E35),
            36 => Some(Ten65::E36),
            37 => Some(Ten65::E37),
            38 => Some(Ten65::E38),
            39 => Some(Ten65::E39),
            40 => Some(Ten65::E40),
            41 => Some(Ten65::E41),
            42 => Some(Ten65::E42),
            43 => Some(Ten65::E43),
            44 => Some(Ten65::E44),
            45 => Some(Ten65::E45),
            46 => Some(Ten65::E46),
            47 => Some(Ten65::E47),
            48 => Some(Ten65::E48),
            49 => Some(Ten65::E49),
            50 => Some(Ten65::E50),
            51 => Some(Ten65::E51),
            52 => Some(Ten65::E52),
            53 => Some(Ten65::E53),
            54 => Some(Ten65::E54),
            55 => Some(Ten65::E55),
            56 => Some(Ten65::E56),
            57 => Some(Ten65::E57),
            58 => Some(Ten65::E58),
            59 => Some(Ten65::E59),
            60 => Some(Ten65::E60),
            61 => Some(Ten65::E61),
            62 => Some(Ten65::E62),
            63 => Some(Ten65::E63),
            64 => Some(Ten65::E64),
            _ => None,
        }
    }

    pub const fn variants() -> [Self; 65] {
        [
        Ten65::E0,
        Ten65::E1,
        Ten65::E2,
        Ten65::E3,
        Ten65::E4,
        Ten65::E5,
        Ten65::E6,
        Ten65::E7,
        Ten65::E8,
        Ten65::E9,
        Ten65::E10,
        Ten65::E11,
        Ten65::E12,
        Ten65::E13,
        Ten65::E14,
        Ten65::E15,
        Ten65::E16,
        Ten65::E17,
        Ten65::E18,
        Ten65::E19,
        Ten65::E20,
        Ten65::E21,
        Ten65::E22,
        Ten65::E23,
        Ten65::E24,
        Ten65::E25,
        Ten65::E26,
        Ten65::E27,
        Ten65::E28,
        Ten65::E29,
        Ten65::E30,
        Ten65::E31,
        Ten65::E32,
        Ten65::E33,
        Ten65::E34,
        Ten65::E35,
        Ten65::E36,
        Ten65::E37,
        Ten65::E38,
        Ten65::E39,
        Ten65::E40,
        Ten65::E41,
        Ten65::E42,
        Ten65::E43,
        Ten65::E44,
        Ten65::E45,
        Ten65::E46,
        Ten65::E47,
        Ten65::E48,
        Ten65::E49,
        Ten65::E50,
        Ten65::E51,
        Ten65::E52,
        Ten65::E53,
        Ten65::E54,
        Ten65::E55,
        Ten65::E56,
        Ten65::E57,
        Ten65::E58,
        Ten65::E59,
        Ten65::E60,
        Ten65::E61,
        Ten65::E62,
        Ten65::E63,
        Ten65::E64,
        ]
    }

    pub fn value_index(self) -> usize {
        match self {
            Ten65::E0 => 0,
            Ten65::E1 => 1,
            Ten65::E2 => 2,
            Ten65::E3 => 3,
            Ten65::E4 => 4,
            Ten65::E5 => 5,
            Ten65::E6 => 6,
            Ten65::E7 => 7,
            Ten65::E8 => 8,
            Ten65::E9 => 9,
            Ten65::E10 => 10,
            Ten65::E11 => 11,
            Ten65::E12 => 12,
            Ten65::E13 => 13,
            Ten65::E14 => 14,
            Ten65::E15 => 15,
            Ten65::E16 => 16,
            Ten65::E17 => 17,
            Ten65::E18 => 18,
            Ten65::E19 => 19,
            Ten65::E20 => 20,
            Ten65::E21 => 21,
            Ten65::E22 => 22,
            Ten65::E23 => 23,
            Ten65::E24 => 24,
            Ten65::E25 => 25,
            Ten65::E26 => 26,
            Ten65::E27 => 27,
            Ten65::E28 => 28,
            Ten65::E29 => 29,
            Ten65::E30 => 30,
            Ten65::E31 => 31,
            Ten65::E32 => 32,
            Ten65::E33 => 33,
            Ten65::E34 => 34,
            Ten65::E35 => 35,
            Ten65::E36 => 36,
            Ten65::E37 => 37,
            Ten65::E38 => 38,
            Ten65::E39 => 39,
            Ten65::E40 => 40,
            Ten65::E41 => 41,
            Ten65::E42 => 42,
            Ten65::E43 => 43,
            Ten65::E44 => 44,
            Ten65::E45 => 45,
            Ten65::E46 => 46,
            Ten65::E47 => 47,
            Ten65::E48 => 48,
            Ten65::E49 => 49,
            Ten65::E50 => 50,
            Ten65::E51 => 51,
            Ten65::E52 => 52,
            Ten65::E53 => 53,
            Ten65::E54 => 54,
            Ten65::E55 => 55,
            Ten65::E56 => 56,
            Ten65::E57 => 57,
            Ten65::E58 => 58,
            Ten65::E59 => 59,
            Ten65::E60 => 60,
            Ten65::E61 => 61,
            Ten65::E62 => 62,
            Ten65::E63 => 63,
            Ten65::E64 => 64,
        }
    }
}

#[asn(enumerated, extensible_after(C))]

#[derive(Debug, Clone, PartialEq, Hash, Copy, PartialOrd, Eq, Default)]
pub enum Tex0 {
    #[default] A,
    B,
    C,
}

impl Tex0 {
    pub fn variant(index: usize) -> Option<Self> {
        match index {
            0 => Some(Tex0::A),
            1 => Some(Tex0::B),
            2 => Some(Tex0::C),
            _ => None,
        }
    }

    pub const fn variants() -> [Self; 3] {
        [
        Tex0::A,
        Tex0::B,
        Tex0::C,
        ]
    }

    pub fn value_index(self) -> usize {
        match self {
            Tex0::A => 0,
            Tex0::B => 1,
            Tex0::C => 2,
        }
    }
}

#[asn(enumerated, extensible_after(C))]

#[derive(Debug, Clone, PartialEq, Hash, Copy, PartialOrd, Eq, Default)]
pub enum Tex3 {
    #[default] A,
    B,
    C,
    D,
    E,
    F,
}

impl Tex3 {
    pub fn variant(index: usize) -> Option<Self> {
        match index {
            0 => Some(Tex3::A),
            1 => Some(Tex3::B),
            2 => Some(Tex3::C),
            3 => Some(Tex3::D),
            4 => Some(Tex3::E),
            5 => Some(Tex3::F),
            _ => None,
        }
    }

    pub const fn variants() -> [Self; 6] {
        [
        Tex3::A,
        Tex3::B,
        Tex3::C,
        Tex3::D,
        Tex3::E,
        Tex3::F,
        ]
    }

    pub fn value_index(self) -> usize {
        match self {
            Tex3::A => 0,
            Tex3::B => 1,
            Tex3::C => 2,
            Tex3::D => 3,
            Tex3::E => 4,
            Tex3::F => 5,
        }
    }
}

#[asn(enumerated, extensible_after(C))]

#[derive(Debug, Clone, PartialEq, Hash, Copy, PartialOrd, Eq, Default)]
pub enum Tenumx {
    #[default] A,
    B,
    C,
    D,
    E,
}

impl Tenumx {
    pub fn variant(index: usize) -> Option<Self> {
        match index {
            0 => Some(Tenumx::A),
            1 => Some(Tenumx::B),
            2 => Some(Tenumx::C),
            3 => Some(Tenumx::D),
            4 => Some(Tenumx::E),
            _ => None,
        }
    }

    pub const fn variants() -> [Self; 5] {
        [
        Tenumx::A,
        Tenumx::B,
        Tenumx::C,
        Tenumx::D,
        Tenumx::E,
        ]
    }

    pub fn value_index(self) -> usize {
        match self {
            Tenumx::A => 0,
            Tenumx::B => 1,
            Tenumx::C => 2,
            Tenumx::D => 3,
            Tenumx::E => 4,
        }
    }
}
// ---- harness conversions (generated by the zoo build script from the items above) ----
impl FromValue for Til1 { fn from_value(v: &Value) -> Self { Til1(FromValue::from_value(v)) } }
impl ToValue for Til1 { fn to_value(&self) -> Value { self.0.to_value() } }
impl FromValue for Til3 { fn from_value(v: &Value) -> Self { Til3(FromValue::from_value(v)) } }
impl ToValue for Til3 { fn to_value(&self) -> Value { self.0.to_value() } }
impl FromValue for Til4 { fn from_value(v: &Value) -> Self { Til4(FromValue::from_value(v)) } }
impl ToValue for Til4 { fn to_value(&self) -> Value { self.0.to_value() } }
impl FromValue for Til5 { fn from_value(v: &Value) -> Self { Til5(FromValue::from_value(v)) } }
impl ToValue for Til5 { fn to_value(&self) -> Value { self.0.to_value() } }
impl FromValue for Til7 { fn from_value(v: &Value) -> Self { Til7(FromValue::from_value(v)) } }
impl ToValue for Til7 { fn to_value(&self) -> Value { self.0.to_value() } }
impl FromValue for Til8 { fn from_value(v: &Value) -> Self { Til8(FromValue::from_value(v)) } }
impl ToValue for Til8 { fn to_value(&self) -> Value { self.0.to_value() } }
impl FromValue for Til10 { fn from_value(v: &Value) -> Self { Til10(FromValue::from_value(v)) } }
impl ToValue for Til10 { fn to_value(&self) -> Value { self.0.to_value() } }
impl FromValue for Til11 { fn from_value(v: &Value) -> Self { Til11(FromValue::from_value(v)) } }
impl ToValue for Til11 { fn to_value(&self) -> Value { self.0.to_value() } }
impl FromValue for Til12 { fn from_value(v: &Value) -> Self { Til12(FromValue::from_value(v)) } }
impl ToValue for Til12 { fn to_value(&self) -> Value { self.0.to_value() } }
impl FromValue for Til15 { fn from_value(v: &Value) -> Self { Til15(FromValue::from_value(v)) } }
impl ToValue for Til15 { fn to_value(&self) -> Value { self.0.to_value() } }
impl FromValue for Til19 { fn from_value(v: &Value) -> Self { Til19(FromValue::from_value(v)) } }
impl ToValue for Til19 { fn to_value(&self) -> Value { self.0.to_value() } }
impl FromValue for Til22 { fn from_value(v: &Value) -> Self { Til22(FromValue::from_value(v)) } }
impl ToValue for Til22 { fn to_value(&self) -> Value { self.0.to_value() } }
impl FromValue for Til24 { fn from_value(v: &Value) -> Self { Til24(FromValue::from_value(v)) } }
impl ToValue for Til24 { fn to_value(&self) -> Value { self.0.to_value() } }
impl FromValue for Tis2 { fn from_value(v: &Value) -> Self { Tis2(FromValue::from_value(v)) } }
impl ToValue for Tis2 { fn to_value(&self) -> Value { self.0.to_value() } }
impl FromValue for Tis4 { fn from_value(v: &Value) -> Self { Tis4(FromValue::from_value(v)) } }
impl ToValue for Tis4 { fn to_value(&self) -> Value { self.0.to_value() } }
impl FromValue for Tis5 { fn from_value(v: &Value) -> Self { Tis5(FromValue::from_value(v)) } }
impl ToValue for Tis5 { fn to_value(&self) -> Value { self.0.to_value() } }
impl FromValue for Tis6 { fn from_value(v: &Value) -> Self { Tis6(FromValue::from_value(v)) } }
impl ToValue for Tis6 { fn to_value(&self) -> Value { self.0.to_value() } }
impl FromValue for Tix3 { fn from_value(v: &Value) -> Self { Tix3(FromValue::from_value(v)) } }
impl ToValue for Tix3 { fn to_value(&self) -> Value { self.0.to_value() } }
impl FromValue for Tix4 { fn from_value(v: &Value) -> Self { Tix4(FromValue::from_value(v)) } }
impl ToValue for Tix4 { fn to_value(&self) -> Value { self.0.to_value() } }
impl FromValue for Ten1 {
    fn from_value(v: &Value) -> Self {
        match v {
            Value::Enum(0) => Ten1::E0,
            other => panic!("Ten1: bad enum value {other:?}"),
        }
    }
}
impl ToValue for Ten1 {
    fn to_value(&self) -> Value {
        match self {
            Ten1::E0 => Value::Enum(0),
        }
    }
}
impl FromValue for Ten3 {
    fn from_value(v: &Value) -> Self {
        match v {
            Value::Enum(0) => Ten3::E0,
            Value::Enum(1) => Ten3::E1,
            Value::Enum(2) => Ten3::E2,
            other => panic!("Ten3: bad enum value {other:?}"),
        }
    }
}
impl ToValue for Ten3 {
    fn to_value(&self) -> Value {
        match self {
            Ten3::E0 => Value::Enum(0),
            Ten3::E1 => Value::Enum(1),
            Ten3::E2 => Value::Enum(2),
        }
    }
}
impl FromValue for Ten4 {
    fn from_value(v: &Value) -> Self {
        match v {
            Value::Enum(0) => Ten4::E0,
            Value::Enum(1) => Ten4::E1,
            Value::Enum(2) => Ten4::E2,
            Value::Enum(3) => Ten4::E3,
            other => panic!("Ten4: bad enum value {other:?}"),
        }
    }
}
impl ToValue for Ten4 {
    fn to_value(&self) -> Value {
        match self {
            Ten4::E0 => Value::Enum(0),
            Ten4::E1 => Value::Enum(1),
            Ten4::E2 => Value::Enum(2),
            Ten4::E3 => Value::Enum(3),
        }
    }
}
impl FromValue for Ten8 {
    fn from_value(v: &Value) -> Self {
        match v {
            Value::Enum(0) => Ten8::E0,
            Value::Enum(1) => Ten8::E1,
            Value::Enum(2) => Ten8::E2,
            Value::Enum(3) => Ten8::E3,
            Value::Enum(4) => Ten8::E4,
            Value::Enum(5) => Ten8::E5,
            Value::Enum(6) => Ten8::E6,
            Value::Enum(7) => Ten8::E7,
            other => panic!("Ten8: bad enum value {other:?}"),
        }
    }
}
impl ToValue for Ten8 {
    fn to_value(&self) -> Value {
        match self {
            Ten8::E0 => Value::Enum(0),
            Ten8::E1 => Value::Enum(1),
            Ten8::E2 => Value::Enum(2),
            Ten8::E3 => Value::Enum(3),
            Ten8::E4 => Value::Enum(4),
            Ten8::E5 => Value::Enum(5),
            Ten8::E6 => Value::Enum(6),
            Ten8::E7 => Value::Enum(7),
        }
    }
}
impl FromValue for Ten9 {
    fn from_value(v: &Value) -> Self {
        match v {
            Value::Enum(0) => Ten9::E0,
            Value::Enum(1) => Ten9::E1,
            Value::Enum(2) => Ten9::E2,
            Value::Enum(3) => Ten9::E3,
            Value::Enum(4) => Ten9::E4,
            Value::Enum(5) => Ten9::E5,
            Value::Enum(6) => Ten9::E6,
            Value::Enum(7) => Ten9::E7,
            Value::Enum(8) => Ten9::E8,
            other => panic!("Ten9: bad enum value {other:?}"),
        }
    }
}
impl ToValue for Ten9 {
    fn to_value(&self) -> Value {
        match self {
            Ten9::E0 => Value::Enum(0),
            Ten9::E1 => Value::Enum(1),
            Ten9::E2 => Value::Enum(2),
            Ten9::E3 => Value::Enum(3),
            Ten9::E4 => Value::Enum(4),
            Ten9::E5 => Value::Enum(5),
            Ten9::E6 => Value::Enum(6),
            Ten9::E7 => Value::Enum(7),
            Ten9::E8 => Value::Enum(8),
        }
    }
}
impl FromValue for Ten64 {
    fn from_value(v: &Value) -> Self {
        match v {
            Value::Enum(0) => Ten64::E0,
            Value::Enum(1) => Ten64::E1,
            Value::Enum(2) => Ten64::E2,
            Value::Enum(3) => Ten64::E3,
            Value::Enum(4) => Ten64::E4,
            Value::Enum(5) => Ten64::E5,
            Value::Enum(6) => Ten64::E6,
            Value::Enum(7) => Ten64::E7,
            Value::Enum(8) => Ten64::E8,
            Value::Enum(9) => Ten64::E9,
            Value::Enum(10) => Ten64::E10,
            Value::Enum(11) => Ten64::E11,
            Value::Enum(12) => Ten64::E12,
            Value::Enum(13) => Ten64::E13,
            Value::Enum(14) => Ten64::E14,
            Value::Enum(15) => Ten64::E15,
            Value::Enum(16) => Ten64::E16,
            Value::Enum(17) => Ten64::E17,
            Value::Enum(18) => Ten64::E18,
            Value::Enum(19) => Ten64::E19,
            Value::Enum(20) => Ten64::E20,
            Value::Enum(21) => Ten64::E21,
            Value::Enum(22) => Ten64::E22,
            Value::Enum(23) => Ten64::E23,
            Value::Enum(24) => Ten64::E24,
            Value::Enum(25) => Ten64::E25,
            Value::Enum(26) => Ten64::E26,
            Value::Enum(27) => Ten64::E27,
            Value::Enum(28) => Ten64::E28,
            Value::Enum(29) => Ten64::E29,
            Value::Enum(30) => Ten64::E30,
            Value::Enum(31) => Ten64::E31,
            Value::Enum(32) => Ten64::E32,
            Value::Enum(33) => Ten64::E33,
            Value::Enum(34) => Ten64::E34,
            Value::Enum(35) => Ten64::E35,
            Value::Enum(36) => Ten64::E36,
            Value::Enum(37) => Ten64::E37,
            Value::Enum(38) => Ten64::E38,
            Value::Enum(39) => Ten64::E39,
            Value::Enum(40) => Ten64::E40,
            Value::Enum(41) => Ten64::E41,
            Value::Enum(42) => Ten64::E42,
            Value::Enum(43) => Ten64::E43,
            Value::Enum(44) => Ten64::E44,
            Value::Enum(45) => Ten64::E45,
            Value::Enum(46) => Ten64::E46,
            Value::Enum(47) => Ten64::E47,
            Value::Enum(48) => Ten64::E48,
            Value::Enum(49) => Ten64::E49,
            Value::Enum(50) => Ten64::E50,
            Value::Enum(51) => Ten64::E51,
            Value::Enum(52) => Ten64::E52,
            Value::Enum(53) => Ten64::E53,
            Value::Enum(54) => Ten64::E54,
            Value::Enum(55) => Ten64::E55,
            Value::Enum(56) => Ten64::E56,
            Value::Enum(57) => Ten64::E57,
            Value::Enum(58) => Ten64::E58,
            Value::Enum(59) => Ten64::E59,
            Value::Enum(60) => Ten64::E60,
            Value::Enum(61) => Ten64::E61,
            Value::Enum(62) => Ten64::E62,
            Value::Enum(63) => Ten64::E63,
            other => panic!("Ten64: bad enum value {other:?}"),
        }
    }
}
impl ToValue for Ten64 {
    fn to_value(&self) -> Value {
        match self {
            Ten64::E0 => Value::Enum(0),
            Ten64::E1 => Value::Enum(1),
            Ten64::E2 => Value::Enum(2),
            Ten64::E3 => Value::Enum(3),
            Ten64::E4 => Value::Enum(4),
            Ten64::E5 => Value::Enum(5),
            Ten64::E6 => Value::Enum(6),
            Ten64::E7 => Value::Enum(7),
            Ten64::E8 => Value::Enum(8),
            Ten64::E9 => Value::Enum(9),
            Ten64::E10 => Value::Enum(10),
            Ten64::E11 => Value::Enum(11),
            Ten64::E12 => Value::Enum(12),
            Ten64::E13 => Value::Enum(13),
            Ten64::E14 => Value::Enum(14),
            Ten64::E15 => Value::Enum(15),
            Ten64::E16 => Value::Enum(16),
            Ten64::E17 => Value::Enum(17),
            Ten64::E18 => Value::Enum(18),
            Ten64::E19 => Value::Enum(19),
            Ten64::E20 => Value::Enum(20),
            Ten64::E21 => Value::Enum(21),
            Ten64::E22 => Value::Enum(22),
            Ten64::E23 => Value::Enum(23),
            Ten64::E24 => Value::Enum(24),
            Ten64::E25 => Value::Enum(25),
            Ten64::E26 => Value::Enum(26),
            Ten64::E27 => Value::Enum(27),
            Ten64::E28 => Value::Enum(28),
            Ten64::E29 => Value::Enum(29),
            Ten64::E30 => Value::Enum(30),
            Ten64::E31 => Value::Enum(31),
            Ten64::E32 => Value::Enum(32),
            Ten64::E33 => Value::Enum(33),
            Ten64::E34 => Value::Enum(34),
            Ten64::E35 => Value::Enum(35),
            Ten64::E36 => Value::Enum(36),
            Ten64::E37 => Value::Enum(37),
            Ten64::E38 => Value::Enum(38),
            Ten64::E39 => Value::Enum(39),
            Ten64::E40 => Value::Enum(40),
            Ten64::E41 => Value::Enum(41),
            Ten64::E42 => Value::Enum(42),
            Ten64::E43 => Value::Enum(43),
            Ten64::E44 => Value::Enum(44),
            Ten64::E45 => Value::Enum(45),
            Ten64::E46 => Value::Enum(46),
            Ten64::E47 => Value::Enum(47),
            Ten64::E48 => Value::Enum(48),
            Ten64::E49 => Value::Enum(49),
            Ten64::E50 => Value::Enum(50),
            Ten64::E51 => Value::Enum(51),
            Ten64::E52 => Value::Enum(52),
            Ten64::E53 => Value::Enum(53),
            Ten64::E54 => Value::Enum(54),
            Ten64::E55 => Value::Enum(55),
            Ten64::E56 => Value::Enum(56),
            Ten64::E57 => Value::Enum(57),
            Ten64::E58 => Value::Enum(58),
            Ten64::E59 => Value::Enum(59),
            Ten64::E60 => Value::Enum(60),
            Ten64::E61 => Value::Enum(61),
            Ten64::E62 => Value::Enum(62),
            Ten64::E63 => Value::Enum(63),
        }
    }
}
impl FromValue for Ten65 {
    fn from_value(v: &Value) -> Self {
        match v {
            Value::Enum(0) => Ten65::E0,
            Value::Enum(1) => Ten65::E1,
            Value::Enum(2) => Ten65::E2,
            Value::Enum(3) => Ten65::E3,
            Value::Enum(4) => Ten65::E4,
            Value::Enum(5) => Ten65::E5,
            Value::Enum(6) => Ten65::E6,
            Value::Enum(7) => Ten65::E7,
            Value::Enum(8) => Ten65::E8,
            Value::Enum(9) => Ten65::E9,
            Value::Enum(10) => Ten65::E10,
            Value::Enum(11) => Ten65::E11,
            Value::Enum(12) => Ten65::E12,
            Value::Enum(13) => Ten65::E13,
            Value::Enum(14) => Ten65::E14,
            Value::Enum(15) => Ten65::E15,
            Value::Enum(16) => Ten65::E16,
            Value::Enum(17) => Ten65::E17,
            Value::Enum(18) => Ten65::E18,
            Value::Enum(19) => Ten65::E19,
            Value::Enum(20) => Ten65::E20,
            Value::Enum(21) => Ten65::E21,
            Value::Enum(22) => Ten65::E22,
            Value::Enum(23) => Ten65::E23,
            Value::Enum(24) => Ten65::E24,
            Value::Enum(25) => Ten65::E25,
            Value::Enum(26) => Ten65::E26,
            Value::Enum(27) => Ten65::E27,
            Value::Enum(28) => Ten65::E28,
            Value::Enum(29) => Ten65::E29,
            Value::Enum(30) => Ten65::E30,
            Value::Enum(31) => Ten65::E31,
            Value::Enum(32) => Ten65::E32,
            Value::Enum(33) => Ten65::E33,
            Value::Enum(34) => Ten65::E34,
            Value::Enum(35) => Ten65::E35,
            Value::Enum(36) => Ten65::E36,
            Value::Enum(37) => Ten65::E37,
            Value::Enum(38) => Ten65::E38,
            Value::Enum(39) => Ten65::E39,
            Value::Enum(40) => Ten65::E40,
            Value::Enum(41) => Ten65::E41,
            Value::Enum(42) => Ten65::E42,
            Value::Enum(43) => Ten65::E43,
            Value::Enum(44) => Ten65::E44,
            Value::Enum(45) => Ten65::E45,
            Value::Enum(46) => Ten65::E46,
            Value::Enum(47) => Ten65::E47,
            Value::Enum(48) => Ten65::E48,
            Value::Enum(49) => Ten65::E49,
            Value::Enum(50) => Ten65::E50,
            Value::Enum(51) => Ten65::E51,
            Value::Enum(52) => Ten65::E52,
            Value::Enum(53) => Ten65::E53,
            Value::Enum(54) => Ten65::E54,
            Value::Enum(55) => Ten65::E55,
            Value::Enum(56) => Ten65::E56,
            Value::Enum(57) => Ten65::E57,
            Value::Enum(58) => Ten65::E58,
            Value::Enum(59) => Ten65::E59,
            Value::Enum(60) => Ten65::E60,
            Value::Enum(61) => Ten65::E61,
            Value::Enum(62) => Ten65::E62,
            Value::Enum(63) => Ten65::E63,
            Value::Enum(64) => Ten65::E64,
            other => panic!("Ten65: bad enum value {other:?}"),
        }
    }
}
impl ToValue for Ten65 {
    fn to_value(&self) -> Value {
        match self {
            Ten65::E0 => Value::Enum(0),
            Ten65::E1 => Value::Enum(1),
            Ten65::E2 => Value::Enum(2),
            Ten65::E3 => Value::Enum(3),
            Ten65::E4 => Value::Enum(4),
            Ten65::E5 => Value::Enum(5),
            Ten65::E6 => Value::Enum(6),
            Ten65::E7 => Value::Enum(7),
            Ten65::E8 => Value::Enum(8),
            Ten65::E9 => Value::Enum(9),
            Ten65::E10 => Value::Enum(10),
            Ten65::E11 => Value::Enum(11),
            Ten65::E12 => Value::Enum(12),
            Ten65::E13 => Value::Enum(13),
            Ten65::E14 => Value::Enum(14),
            Ten65::E15 => Value::Enum(15),
            Ten65::E16 => Value::Enum(16),
            Ten65::E17 => Value::Enum(17),
            Ten65::E18 => Value::Enum(18),
            Ten65::E19 => Value::Enum(19),
            Ten65::E20 => Value::Enum(20),
            Ten65::E21 => Value::Enum(21),
            Ten65::E22 => Value::Enum(22),
            Ten65::E23 => Value::Enum(23),
            Ten65::E24 => Value::Enum(24),
            Ten65::E25 => Value::Enum(25),
            Ten65::E26 => Value::Enum(26),
            Ten65::E27 => Value::Enum(27),
            Ten65::E28 => Value::Enum(28),
            Ten65::E29 => Value::Enum(29),
            Ten65::E30 => Value::Enum(30),
            Ten65::E31 => Value::Enum(31),
            Ten65::E32 => Value::Enum(32),
            Ten65::E33 => Value::Enum(33),
            Ten65::E34 => Value::Enum(34),
            Ten65::E35 => Value::Enum(35),
            Ten65::E36 => Value::Enum(36),
            Ten65::E37 => Value::Enum(37),
            Ten65::E38 => Value::Enum(38),
            Ten65::E39 => Value::Enum(39),
            Ten65::E40 => Value::Enum(40),
            Ten65::E41 => Value::Enum(41),
            Ten65::E42 => Value::Enum(42),
            Ten65::E43 => Value::Enum(43),
            Ten65::E44 => Value::Enum(44),
            Ten65::E45 => Value::Enum(45),
            Ten65::E46 => Value::Enum(46),
            Ten65::E47 => Value::Enum(47),
            Ten65::E48 => Value::Enum(48),
            Ten65::E49 => Value::Enum(49),
            Ten65::E50 => Value::Enum(50),
            Ten65::E51 => Value::Enum(51),
            Ten65::E52 => Value::Enum(52),
            Ten65::E53 => Value::Enum(53),
            Ten65::E54 => Value::Enum(54),
            Ten65::E55 => Value::Enum(55),
            Ten65::E56 => Value::Enum(56),
            Ten65::E57 => Value::Enum(57),
            Ten65::E58 => Value::Enum(58),
            Ten65::E59 => Value::Enum(59),
            Ten65::E60 => Value::Enum(60),
            Ten65::E61 => Value::Enum(61),
            Ten65::E62 => Value::Enum(62),
            Ten65::E63 => Value::Enum(63),
            Ten65::E64 => Value::Enum(64),
        }
    }
}
impl FromValue for Tex0 {
    fn from_value(v: &Value) -> Self {
        match v {
            Value::Enum(0) => Tex0::A,
            Value::Enum(1) => Tex0::B,
            Value::Enum(2) => Tex0::C,
            other => panic!("Tex0: bad enum value {other:?}"),
        }
    }
}
impl ToValue for Tex0 {
    fn to_value(&self) -> Value {
        match self {
            Tex0::A => Value::Enum(0),
            Tex0::B => Value::Enum(1),
            Tex0::C => Value::Enum(2),
        }
    }
}
impl FromValue for Tex3 {
    fn from_value(v: &Value) -> Self {
        match v {
            Value::Enum(0) => Tex3::A,
            Value::Enum(1) => Tex3::B,
            Value::Enum(2) => Tex3::C,
            Value::Enum(3) => Tex3::D,
            Value::Enum(4) => Tex3::E,
            Value::Enum(5) => Tex3::F,
            other => panic!("Tex3: bad enum value {other:?}"),
        }
    }
}
impl ToValue for Tex3 {
    fn to_value(&self) -> Value {
        match self {
            Tex3::A => Value::Enum(0),
            Tex3::B => Value::Enum(1),
            Tex3::C => Value::Enum(2),
            Tex3::D => Value::Enum(3),
            Tex3::E => Value::Enum(4),
            Tex3::F => Value::Enum(5),
        }
    }
}
impl FromValue for Tenumx {
    fn from_value(v: &Value) -> Self {
        match v {
            Value::Enum(0) => Tenumx::A,
            Value::Enum(1) => Tenumx::B,
            Value::Enum(2) => Tenumx::C,
            Value::Enum(3) => Tenumx::D,
            Value::Enum(4) => Tenumx::E,
            other => panic!("Tenumx: bad enum value {other:?}"),
        }
    }
}
impl ToValue for Tenumx {
    fn to_value(&self) -> Value {
        match self {
            Tenumx::A => Value::Enum(0),
            Tenumx::B => Value::Enum(1),
            Tenumx::C => Value::Enum(2),
            Tenumx::D => Value::Enum(3),
            Tenumx::E => Value::Enum(4),
        }
    }
}

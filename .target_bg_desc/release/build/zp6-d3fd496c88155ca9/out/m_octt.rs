use asn1rs::prelude::*;

#[asn(transparent)]

#[derive(Default, Debug, Clone, PartialEq, Hash)]
pub struct Toctf0(#[asn(octet_string(size(0)))] pub Vec<u8>);

impl Toctf0 {
}

impl Toctf0 {
    pub const fn new(value: Vec<u8>) -> Self {
        Self(value)
    }
}

impl ::core::ops::Deref for Toctf0 {
    type Target = Vec<u8>;

    fn deref(&self) -> &Vec<u8> {
        &self.0
    }
}

impl ::core::ops::DerefMut for Toctf0 {
    fn deref_mut(&mut self) -> &mut Vec<u8> {
        &mut self.0
    }
}

impl ::core::convert::From<Vec<u8>> for Toctf0 {
    fn from(value: Vec<u8>) -> Self {
        Self(value)
    }
}

impl ::core::convert::From<Toctf0> for Vec<u8> {
    fn from(value: Toctf0) -> Self {
        value.0
    }
}

#[asn(transparent)]

#[derive(Default, Debug, Clone, PartialEq, Hash)]
pub struct Toctf2(#[asn(octet_string(size(2)))] pub Vec<u8>);

impl Toctf2 {
}

impl Toctf2 {
    pub const fn new(value: Vec<u8>) -> Self {
        Self(value)
    }
}

impl ::core::ops::Deref for Toctf2 {
    type Target = Vec<u8>;

    fn deref(&self) -> &Vec<u8> {
        &self.0
    }
}

impl ::core::ops::DerefMut for Toctf2 {
    fn deref_mut(&mut self) -> &mut Vec<u8> {
        &mut self.0
    }
}

impl ::core::convert::From<Vec<u8>> for Toctf2 {
    fn from(value: Vec<u8>) -> Self {
        Self(value)
    }
}

impl ::core::convert::From<Toctf2> for Vec<u8> {
    fn from(value: Toctf2) -> Self {
        value.0
    }
}

#[asn(transparent)]

#[derive(Default, Debug, Clone, PartialEq, Hash)]
pub struct Toctf17(#[asn(octet_string(size(17)))] pub Vec<u8>);

impl Toctf17 {
}

impl Toctf17 {
    pub const fn new(value: Vec<u8>) -> Self {
        Self(value)
    }
}

impl ::core::ops::Deref for Toctf17 {
    type Target = Vec<u8>;

    fn deref(&self) -> &Vec<u8> {
        &self.0
    }
}

impl ::core::ops::DerefMut for Toctf17 {
    fn deref_mut(&mut self) -> &mut Vec<u8> {
        &mut self.0
    }
}

impl ::core::convert::From<Vec<u8>> for Toctf17 {
    fn from(value: Vec<u8>) -> Self {
        Self(value)
    }
}

impl ::core::convert::From<Toctf17> for Vec<u8> {
    fn from(value: Toctf17) -> Self {
        value.0
    }
}

#[asn(transparent)]

#[derive(Default, Debug, Clone, PartialEq, Hash)]
pub struct Toctr0to1(#[asn(octet_string(size(0..1)))] pub Vec<u8>);

impl Toctr0to1 {
}

impl Toctr0to1 {
    pub const fn new(value: Vec<u8>) -> Self {
        Self(value)
    }
}

impl ::core::ops::Deref for Toctr0to1 {
    type Target = Vec<u8>;

    fn deref(&self) -> &Vec<u8> {
        &self.0
    }
}

impl ::core::ops::DerefMut for Toctr0to1 {
    fn deref_mut(&mut self) -> &mut Vec<u8> {
        &mut self.0
    }
}

impl ::core::convert::From<Vec<u8>> for Toctr0to1 {
    fn from(value: Vec<u8>) -> Self {
        Self(value)
    }
}

impl ::core::convert::From<Toctr0to1> for Vec<u8> {
    fn from(value: Toctr0to1) -> Self {
        value.0
    }
}

#[asn(transparent)]

#[derive(Default, Debug, Clone, PartialEq, Hash)]
pub struct Toctr0to255(#[asn(octet_string(size(0..255)))] pub Vec<u8>);

impl Toctr0to255 {
}

impl Toctr0to255 {
    pub const fn new(value: Vec<u8>) -> Self {
        Self(value)
    }
}

impl ::core::ops::Deref for Toctr0to255 {
    type Target = Vec<u8>;

    fn deref(&self) -> &Vec<u8> {
        &self.0
    }
}

impl ::core::ops::DerefMut for Toctr0to255 {
    fn deref_mut(&mut self) -> &mut Vec<u8> {
        &mut self.0
    }
}

impl ::core::convert::From<Vec<u8>> for Toctr0to255 {
    fn from(value: Vec<u8>) -> Self {
        Self(value)
    }
}

impl ::core::convert::From<Toctr0to255> for Vec<u8> {
    fn from(value: Toctr0to255) -> Self {
        value.0
    }
}

#[asn(transparent)]

#[derive(Default, Debug, Clone, PartialEq, Hash)]
pub struct Toctr0to256(#[asn(octet_string(size(0..256)))] pub Vec<u8>);

impl Toctr0to256 {
}

impl Toctr0to256 {
    pub const fn new(value: Vec<u8>) -> Self {
        Self(value)
    }
}

impl ::core::ops::Deref for Toctr0to256 {
    type Target = Vec<u8>;

    fn deref(&self) -> &Vec<u8> {
        &self.0
    }
}

impl ::core::ops::DerefMut for Toctr0to256 {
    fn deref_mut(&mut self) -> &mut Vec<u8> {
        &mut self.0
    }
}

impl ::core::convert::From<Vec<u8>> for Toctr0to256 {
    fn from(value: Vec<u8>) -> Self {
        Self(value)
    }
}

impl ::core::convert::From<Toctr0to256> for Vec<u8> {
    fn from(value: Toctr0to256) -> Self {
        value.0
    }
}

#[asn(transparent)]

#[derive(Default, Debug, Clone, PartialEq, Hash)]
pub struct Toctr1to65535(#[asn(octet_string(size(1..65535)))] pub Vec<u8>);

impl Toctr1to65535 {
}

impl Toctr1to65535 {
    pub const fn new(value: Vec<u8>) -> Self {
        Self(value)
    }
}

impl ::core::ops::Deref for Toctr1to65535 {
    type Target = Vec<u8>;

    fn deref(&self) -> &Vec<u8> {
        &self.0
    }
}

impl ::core::ops::DerefMut for Toctr1to65535 {
    fn deref_mut(&mut self) -> &mut Vec<u8> {
        &mut self.0
    }
}

impl ::core::convert::From<Vec<u8>> for Toctr1to65535 {
    fn from(value: Vec<u8>) -> Self {
        Self(value)
    }
}

impl ::core::convert::From<Toctr1to65535> for Vec<u8> {
    fn from(value: Toctr1to65535) -> Self {
        value.0
    }
}

#[asn(transparent)]

#[derive(Default, Debug, Clone, PartialEq, Hash)]
pub struct Toctr1to65536(#[asn(octet_string(size(1..65536)))] pub Vec<u8>);

impl Toctr1to65536 {
}

impl Toctr1to65536 {
    pub const fn new(value: Vec<u8>) -> Self {
        Self(value)
    }
}

impl ::core::ops::Deref for Toctr1to65536 {
    type Target = Vec<u8>;

    fn deref(&self) -> &Vec<u8> {
        &self.0
    }
}

impl ::core::ops::DerefMut for Toctr1to65536 {
    fn deref_mut(&mut self) -> &mut Vec<u8> {
        &mut self.0
    }
}

impl ::core::convert::From<Vec<u8>> for Toctr1to65536 {
    fn from(value: Vec<u8>) -> Self {
        Self(value)
    }
}

impl ::core::convert::From<Toctr1to65536> for Vec<u8> {
    fn from(value: Toctr1to65536) -> Self {
        value.0
    }
}

#[asn(transparent)]

#[derive(Default, Debug, Clone, PartialEq, Hash)]
pub struct Toctr0to65535x(#[asn(octet_string(size(0..65535,...)))] pub Vec<u8>);

impl Toctr0to65535x {
}

impl Toctr0to65535x {
    pub const fn new(value: Vec<u8>) -> Self {
        Self(value)
    }
}

impl ::core::ops::Deref for Toctr0to65535x {
    type Target = Vec<u8>;

    fn deref(&self) -> &Vec<u8> {
        &self.0
    }
}

impl ::core::ops::DerefMut for Toctr0to65535x {
    fn deref_mut(&mut self) -> &mut Vec<u8> {
        &mut self.0
    }
}

impl ::core::convert::From<Vec<u8>> for Toctr0to65535x {
    fn from(value: Vec<u8>) -> Self {
        Self(value)
    }
}

impl ::core::convert::From<Toctr0to65535x> for Vec<u8> {
    fn from(value: Toctr0to65535x) -> Self {
        value.0
    }
}
// ---- harness conversions (generated by the zoo build script from the items above) ----
impl FromValue for Toctf0 { fn from_value(v: &Value) -> Self { Toctf0(FromValue::from_value(v)) } }
impl ToValue for Toctf0 { fn to_value(&self) -> Value { self.0.to_value() } }
impl FromValue for Toctf2 { fn from_value(v: &Value) -> Self { Toctf2(FromValue::from_value(v)) } }
impl ToValue for Toctf2 { fn to_value(&self) -> Value { self.0.to_value() } }
impl FromValue for Toctf17 { fn from_value(v: &Value) -> Self { Toctf17(FromValue::from_value(v)) } }
impl ToValue for Toctf17 { fn to_value(&self) -> Value { self.0.to_value() } }
impl FromValue for Toctr0to1 { fn from_value(v: &Value) -> Self { Toctr0to1(FromValue::from_value(v)) } }
impl ToValue for Toctr0to1 { fn to_value(&self) -> Value { self.0.to_value() } }
impl FromValue for Toctr0to255 { fn from_value(v: &Value) -> Self { Toctr0to255(FromValue::from_value(v)) } }
impl ToValue for Toctr0to255 { fn to_value(&self) -> Value { self.0.to_value() } }
impl FromValue for Toctr0to256 { fn from_value(v: &Value) -> Self { Toctr0to256(FromValue::from_value(v)) } }
impl ToValue for Toctr0to256 { fn to_value(&self) -> Value { self.0.to_value() } }
impl FromValue for Toctr1to65535 { fn from_value(v: &Value) -> Self { Toctr1to65535(FromValue::from_value(v)) } }
impl ToValue for Toctr1to65535 { fn to_value(&self) -> Value { self.0.to_value() } }
impl FromValue for Toctr1to65536 { fn from_value(v: &Value) -> Self { Toctr1to65536(FromValue::from_value(v)) } }
impl ToValue for Toctr1to65536 { fn to_value(&self) -> Value { self.0.to_value() } }
impl FromValue for Toctr0to65535x { fn from_value(v: &Value) -> Self { Toctr0to65535x(FromValue::from_value(v)) } }
impl ToValue for Toctr0to65535x { fn to_value(&self) -> Value { self.0.to_value() } }
